SPEC = {
    "id": "C02",
    "level": "proof",
    "theorem_modules": ["GluonModel.Theorems.C02", "GluonModel.Theorems.SysC02"],
    "correspondences": [
        {"dialect": "flush", "quick_n": 6000, "thorough_n": 200000, "judge": "judge-c02-flush"},
        {"dialect": "sys", "quick_n": 250, "thorough_n": 5000, "judge": "judge-c02-sys"},
    ],
    "oracles": [
        # hist (harness/hist.go, hist_c02.go, o_hist.go): random multi-session histories on the whole server, X CONVERGE =
        # barrier + NOOP + comparison of every session's view with a fresh session's. With -props C02 every fourth history
        # holds a BURST against a STALLED observer (S<i> STALL: a FETCH of 8 MiB whose answer the client does not read, so
        # the session takes nothing from its update queue; another session commits 2-3 waves of growing size - mass
        # EXPUNGE / MOVE / COPY, k single STOREs / APPENDs, sizes around the update channel's buffer 32 and the queue's
        # capacity 128 - then the client reads on), every fourth a BATCH creation (COPY / MOVE n:m, connector
        # MessagesCreated batch: several messages with identical flags made by ONE operation) followed by an in-place
        # change of ONE member in ONE session (non-PEEK body fetch, STORE) while other sessions flush the EXISTS only
        # afterwards. Directed instances: corpus/C02/burst-*.hist, batch-*.hist.
        # Error paths (harness/hfc_conn.go, hfc_hist.go): every fourth history runs against a connector whose NEXT call
        # of a chosen kind fails on request (X FAILCONN / X FAILNEXT <kind> [n]); every command kind goes once through
        # [other sessions' changes delivered, not flushed -> the session's own command, answered NO -> probes ->
        # X CONVERGE]: after a failed command the view still converges to what a fresh session sees (the connector is
        # called before anything is committed, so neither the view nor the index may have changed).
        {"name": "hist", "quick_args": ["-props", "C02", "-n", "40", "-steps", "40"],
         "thorough_args": ["-props", "C02", "-n", "400", "-steps", "70", "-profile", "hold,samebox"], "timeout": 3000},
        # the assumption "FIFO loss-free update queue" on the real async.QueuedChannel (the oracle of C19): recorded
        # histories judged against Model/Conc.lean, incl. the `stall` scenarios (reader not reading, waves of growing size
        # around the channel buffer and the queue capacity, as State.updatesQueue = NewQueuedChannel(32, 128) sees them
        # when a session is busy inside a command)
        {"name": "c19queue", "quick_args": ["-n", "40"], "thorough_args": ["-n", "3000"], "timeout": 1500},
    ],
    "trusted_base": [
        "Lean 4.33.0 kernel; axioms limited to propext, Classical.choice, Quot.sound (audited per theorem)",
        "hand-written model GluonModel/Model/{Flags,Snap,Resp,Responder}.lean of responder.handle / popResponders / State.flushResponses, tied by the `flush` correspondence dialect (differential testing, not proof)",
        "authoritative-mailbox spec GluonModel/Spec/MailboxView.lean: the table (id, UID, flags without \\Recent) in UID order with a strictly increasing UIDNext; which responder a committed change broadcasts (RespOf: add -> targetedExists, remove -> expunge, setFlags -> fetch)",
        "verif hooks internal/state/verif_export.go (VerifFlush builds the State the real flushResponses runs on)",
        "hand-written system model GluonModel/Model/System.lean (index, sessions with snapshot / responders / update queue, QueueOrApplyStateUpdate, update filters, APPEND STORE EXPUNGE COPY MOVE, connector-originated changes, drain / flush / select), tied by the `sys` correspondence dialect: whole multi-session histories on the real server over TCP (connector without echo, hold / release / barrier hooks internal/state/verif_on.go, internal/backend/verif_barrier.go) against the model, every step's untagged responses and every final view compared",
    ],
    "assumptions": [
        "system level (Theorems/SysC02.lean): the invariant and convergence are proved under the NAMED hypothesis NoOvertake (no session runs a mutating command or SELECT while an update for its mailbox is still in its update queue and the command hands responders to its own state); without it they are false of the code: own_update_overtakes_foreign (kernel-checked witness, reproduced on the real server by corpus/C02/sys-own-update-overtakes.ops; known finding K-own-update-overtakes-foreign). Not in the system model: \\Recent, EXAMINE, IDLE, CLOSE, UID commands, message-set syntax (single sequence numbers), storage errors, limits",
        "session-level statement: every committed change reaches the observer's queue as exactly one responder, in commit order (FIFO loss-free update queue, filters); change_target_known shows the message filter cannot drop it inside the invariant; the delivery path itself is covered by the wire-level oracle (incl. bursts of 1..200 updates against a session that is stalled inside a command, hist_c02.go) and by the recorded histories of the real queue judged against Model/Conc.lean (oracle c19queue, theorem C19.queue_fifo_lossfree), not by theorem. Sharing of mutable objects between snapshots / pending responders (Go aliasing) does not exist in the Lean model (values): it is searched for by the batch histories of the wire-level oracle only",
        "the database never reuses a UID and hands UIDs out in increasing order (Mbox.Admissible: a new message gets a UID >= UIDNext); this gives the named hypothesis UidsOk",
        "flush_false_replay_eq / flush_false_keeps_invariant hold for every queue inside UidsOk (witness that it is needed: flush_false_needs_fresh_uids, a reused UID); converges needs admissibility of the changes only. The former hypotheses FetchSafe / NoOwnHeld (defects #10, #8) are gone since gluon commit 'fix: while a re-added message is held back, later EXISTS and its flag changes are held back too'; the two former counter-examples are regression examples in Theorems/C02.lean and corpus/C02/defect*.ops",
        "flushes inside a CLOSE context are not part of a history (the mailbox is deselected right after); \\Recent is ignored as the property says",
    ],
    "explanation": "Lean theorems: a responder acts on a snapshot showing the mailbox exactly as the change acts on the mailbox (change_step); a permit=true flush of a converging session leaves the snapshot identical to the mailbox (flush_true_converges); a permit=false flush placed anywhere keeps the invariant, by exact equality of the final snapshots (flush_false_replay_eq, under the database's UID contract UidsOk); induction over arbitrary histories of changes and flushes (converges). Model tied to the real flushResponses by differential testing; the judge replays the queue the implementation retained on the snapshot the implementation left and compares with queue-order replay.",
}
