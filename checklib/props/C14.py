SPEC = {
    "id": "C14",
    "level": "proof",
    "theorem_modules": ["GluonModel.Theorems.C14", "GluonModel.Theorems.C14Namespace"],
    "correspondences": [
        # exhaustive: every pattern <= 4 over {a / % *} x every name <= 5 over {a b /} (124 124 pairs; the seed is not used)
        {"dialect": "match-small", "quick_n": 124124, "thorough_n": 124124, "judge": "judge-c14-match"},
        # generated names of depth <= 6 with regex metacharacters, INBOX spellings, odd delimiters placements
        {"dialect": "match", "quick_n": 60000, "thorough_n": 1500000, "judge": "judge-c14-match"},
        # delimiters `\` `*` `%` and reference/pattern that is not valid UTF-8: compared like the others; any panic is a violation
        {"dialect": "match-baddelim", "quick_n": 4000, "thorough_n": 100000, "judge": "judge-c14-match"},
        {"dialect": "superiors", "quick_n": 10000, "thorough_n": 200000},
        {"dialect": "inferiors", "quick_n": 10000, "thorough_n": 200000},
        {"dialect": "getmatches", "quick_n": 30000, "thorough_n": 600000, "judge": "judge-c14-getmatches"},
    ],
    "oracles": [
        # (agent-wire) wire level: whole server over TCP, 1-2 sessions + dummy connector, delimiters / . | and backslash;
        # generated CREATE / DELETE / RENAME / SUBSCRIBE / UNSUBSCRIBE + connector mailbox updates; tie to
        # Model/NamespaceSubs.lean (result classes, final LIST/LSUB), reference rules (judge-c14-nsops) and RFC selection
        # of every LIST/LSUB answer (judge-c14-wirelist). Directed histories: corpus/C14/*.namespace
        # After EVERY op the full namespace is read back (LIST "" "*", LSUB "" "*", STATUS (MESSAGES) of every selectable
        # name; marker messages are APPENDed) and compared with the model's prediction for that step (dialect
        # namespace-trace). Every second sequence is a "sibling hierarchy" sequence: 2-4 sibling names that a loose
        # string comparison confuses (ASCII / non-ASCII letter case, prefix without delimiter, LIKE / glob / regexp
        # metacharacters, blanks, INBOX spellings below the first level), each with inferiors of the same relative
        # names, then RENAME / DELETE / (UN)SUBSCRIBE / CREATE of one of them, also onto a sibling spelling.
        {"name": "c14namespace", "quick_args": ["-n", "200", "-steps", "10", "-queries", "6"],
         "thorough_args": ["-n", "6000", "-steps", "12", "-queries", "8"], "timeout": 2400},
    ],
    "trusted_base": [
        "Lean 4.33.0 kernel; axioms limited to propext, Classical.choice, Quot.sound (audited per theorem)",
        "hand-written model GluonModel/Model/Match.lean of match/matchRoot/canon/getMatches/prepareMatch (internal/state/match.go) and listSuperiors/listInferiors (internal/state/paths.go), tied by the dialects match, match-small (exhaustive small universe), match-baddelim, superiors, inferiors, getmatches (differential testing, not proof)",
        "the model replaces `regexp` by a backtracking matcher over the item list (literal | .* | [^d]*): Go's leftmost-first semantics, QuoteMeta and the textual ReplaceAll steps are argued in the model's header and exercised by the correspondence, not proved",
        "names-level model GluonModel/Model/Namespace.lean of handleCreate/handleDelete/handleRename + State.Create/Delete/Rename (theorems of Theorems/C14Namespace.lean): NOT tied by a correspondence of this check (no database-free hook); its extension GluonModel/Model/NamespaceSubs.lean (subscriptions, remote ids, connector updates, marker-message counts) is tied to the whole server over TCP by the oracle c14namespace: reply class of every command and the full namespace (LIST, LSUB, STATUS MESSAGES) after every step (differential testing, not proof)",
        "reference semantics GluonModel/Spec/Wildcard.lean (RFC 3501 wildcard relation, hierarchy levels, LIST/LSUB selection) is the definition of 'correct'",
        "facts translator harness/facts_match.go (go/ast): pieces of the regular expression in func match; what func canon looks at (split[0] only); State.List passes only subscribed mailboxes in LSUB mode",
        "verif hooks internal/state/verif_export_match.go (VerifMatch, VerifListSuperiors, VerifListInferiors, VerifGetMatches with recent count 0)",
    ],
    "assumptions": [
        "strings are valid UTF-8 (List Char); the hierarchy delimiter is a single character; empty and multi-character delimiters are not modelled",
        "reference/pattern that is not valid UTF-8: outside the Lean model; the driver answers `no match` for them (regexp.Compile error) and the judge requires exactly that",
        "lsub_exact: getMatches in LSUB mode is called with subscribed mailboxes only (State.List; fact lsub_input_fact)",
        "namespace model of the theorems (Model/Namespace.lean): one session, connector accepts every request, no mailbox-count limit, names are lists of characters compared exactly (modified UTF-7 = identity), subscriptions and connector-originated mailbox updates not modelled",
        "SUBSCRIBE/UNSUBSCRIBE, connector updates, message counts, modified UTF-7 and the wire rendering of LIST responses are covered by the wire-level oracle and Model/NamespaceSubs.lean only (no theorems about them)",
        "the step-by-step tie of the oracle stops at the first command that fails with a raw SQLite error or whose refusal is followed by the connector's echo (known findings): after that the connector's state is outside the model",
    ],
    "explanation": "Lean theorems: match = RFC 3501 wildcard matching at full strength (all references, patterns, names, delimiters), listSuperiors/listInferiors = hierarchy levels, getMatches = exactly the selected names with \\Noselect for pure parents, for every map iteration order; model tied to the real functions by exhaustive + generated differential testing; the RFC judge is evaluated on the implementation's answers",
}
