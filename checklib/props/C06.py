SPEC = {
    "id": "C06",
    "level": "proof",
    "theorem_modules": ["GluonModel.Theorems.C06"],
    "correspondences": [],
    "oracles": [
        # whole server + script connector; the Lean judge judge-c06-stream is the oracle (VERIF_DRIVER).
        # Order: corpus/C06/*.txt, then one directed stream per update kind (every reachable cell of the
        # kind x variant table), then -n random streams (+ -limn under small limits). Every acknowledgement is
        # under its own watchdog (-ackwatch, 3s): a server that does not acknowledge (or panics) is abandoned
        # at that step, reported with the connector steps up to and including that update, and the next stream
        # starts; after -watchbudget (10) abandoned servers no further stream is started (bounded run).
        {"name": "c06updates", "quick_args": ["-n", "110", "-steps", "40", "-limn", "30"], "thorough_args": ["-n", "2200", "-steps", "60", "-limn", "500"], "timeout": 2400},
    ],
    "trusted_base": [
        "Lean 4.33.0 kernel; axioms limited to propext, Classical.choice, Quot.sound (audited per theorem)",
        "hand-written model GluonModel/Model/ConnUpdates.lean of internal/backend/connector_updates.go (user.apply, every apply*), of the update loop in internal/backend/user.go and of imap/update_waiter.go over an abstract relational index; tied to the real server by oracle c06updates: after every update the acknowledged result and a dump of the SQLite index are compared with the model, at check points also the wire view of a fresh session (differential testing, not proof)",
        "executable property predicates GluonModel/Spec/ConnUpdates.lean (Valid / effectOK / Restates / Invalid / Inv), proved of the model and evaluated by the judge on the server's answers",
        "facts translator harness/facts_ack.go (go/ast): Done call sites, shape of user.apply and of the update loop, waiter body, table expression of UpdateRemoteMessageID",
        "harness connector harness/conn_script.go (public connector.Connector; pushes only scripted updates, waits for every acknowledgement under a watchdog and then checks that the waiter is closed and empty), read-only SQLite access to the user's index file for internal ids and dumps, verif barrier hook (VerifBarrier), the server's panic handler (a second Done on imap's one-shot waiter panics in the goroutine applying updates: that is how 'acknowledged twice' is observed for the real update types)",
    ],
    "assumptions": [
        "the SQL layer is abstracted to the constraints that matter here (UNIQUE keys, AUTOINCREMENT, NOT NULL/FOREIGN KEY of the per-mailbox tables); storage faults are not injected (C07/C08)",
        "message literals are abstracted to tags (equal tag = equal bytes); parsing failures of literals are not modelled",
        "flags are lower-cased names; \\Recent is not modelled; the order of state updates across different mailboxes (Go map order) is not modelled; the map order of applyMessagesCreated's last loop is covered by C06.messagesCreated_map_order (same index and same success for every order; the acknowledged error is one of mscPossibleErrs, and the judge accepts exactly those)",
        "sessions end only at quiescent points in the oracle (every observer has issued NOOP after the last change), so removeState's HasMessage filter sees snapshots equal to the index",
        "client commands in the streams are not modelled: after each one the judge continues from the observed index (echo updates are then judged against that state)",
    ],
    "explanation": "Lean theorems over the model for all update sequences (exactly one Done per update and the loop continues, with the loop/Done shape regenerated from the source and decided) and for all index states and updates of each kind (described effect, idempotence of restating updates, no effect of unknown/protected ids); the model and the property predicates are checked against the real server on generated update streams with replays, echoes, invalid updates and client commands.",
    "rule": "evaluations = update streams run against a real server; non-trivial = streams in which the judge evaluated at least one update; per-kind counts of valid / restating / invalid updates are in input_distribution; table.<Kind>.<variant> = how often the judge saw an update of that kind in that variant (valid | unknown-id | protected-id = GLUON-INTERNAL-RECOVERY-MBOX | protected-name = 'Recovered Messages' | duplicate = delivered again right away | restating), judged on the index the update met; only cells reachable through the public connector API are listed (table.cells-reachable) and table.cells-zero must be 0; pipe.valid-after-refused.<Kind> = valid updates sent right after a refused update of that kind (all must be applied and acknowledged)",
}
