SPEC = {
    "id": "C17",
    # the invariant is proved only under one named hypothesis (APPEND's check outside the write transaction) that the
    # current source does not guarantee (DESIGN section 9 #11; the CREATE and RENAME parts of #11 are repaired) => partial; system-level evidence is the lead's wire oracle.
    "level": "other",
    "theorem_modules": ["GluonModel.Theorems.C17"],
    "correspondences": [
        {"dialect": "limits", "quick_n": 20000, "thorough_n": 400000, "judge": "judge-c17-limits"},
    ],
    "oracles": [
        # (agent-wire) wire level: whole server over TCP with gluon.WithIMAPLimits, two sessions + dummy connector, a DB
        # interposer forcing check1 check2 insert1 insert2; histories near the limits; the observed world before/after
        # every step is judged by judge-c17-wire (Driver/DJudgeLimits.lean, on the machine of Model/Limits.lean).
        # COPY / MOVE message sets overlap the destination's content (none / some / all already there, destination =
        # source, the same COPY repeated: model event replaceTx k n), tiny maxUID / maxMessages, scripted approaches
        # (copy the same set into one mailbox until refused, then move it there); after every command answered NO
        # every mailbox (content by marker, UIDs, UIDNEXT) is compared with the state before it, once right after the
        # reply and once after the connector's echo.
        # Directed histories: corpus/C17/*.limits
        # SIZE x LIMIT (limSizeHistories, after the corpus, whatever the seed): connector batches - one mailbox and two
        # - and COPY / MOVE sets of 1, 2, H-1, H, H+1, L-1, L, L+1, L+2, 2L-1, 2L, 2L+1 messages (L = db.ChunkLimit, H = L/2,
        # read from the db package) against a message-count limit and against a UID limit placed so that the operation
        # crosses it in its FIRST, a MIDDLE or its LAST slice of L messages (limit = L, 2L, L+H, H, L-1, L+1; also with
        # exactly a multiple of L of room left) or fits exactly; tiny messages (MODE tiny), a watching session has the
        # target selected: after a refused operation count, UIDNEXT and content are what they were and the watcher
        # was told nothing, after an accepted one the count is exact and the watcher was told that count.
        # Stats sizes.*; sizes.classes-zero must be 0. Costs ~20 s (35 000 small messages).
        {"name": "c17limits", "quick_args": ["-n", "20", "-steps", "25"],
         "thorough_args": ["-n", "400", "-steps", "40"], "timeout": 2400},
    ],
    "trusted_base": [
        "Lean 4.33.0 kernel; axioms limited to propext, Classical.choice, Quot.sound (audited per theorem)",
        "hand-written model GluonModel/Model/Limits.lean of package limits (int64 wrap-around arithmetic as written), tied to the real package by the `limits` correspondence dialect (differential testing on boundary values, not proof)",
        "the abstract check-then-insert machine of Model/Limits.lean (create with implicit parents - limit checked for all of them -, rename creating missing superiors - limit checked for all of them, a renamed INBOX's new home included -, in-transaction adds, out-of-transaction check + insert per session) is a hand abstraction of State.Create / AddMessagesToMailbox / MoveMessagesFromMailbox / Mailbox.AppendRegular; which caller has which shape is read from the source by the facts translator harness/facts_limits.go (go/ast) and pinned by theorem limit_sites_today; which limits value and which quantity every Check* is applied to, which limits value the shared insertion helpers are handed, and that Mailbox.Copy / Mailbox.Move open one write transaction, by theorem limit_quantities_today (unknown shapes fail the decidable obligation)",
        "facts translator harness/facts_c17tx.go (go/ast) -> Generated/Facts/UpdateTx.lean: per connector-update handler `user.apply*` of internal/backend/connector_updates.go the number of write transactions it opens (userDBWrite / userDBWriteResult / user.db.Write / db.ClientWriteType call sites in its body, and transitively in the `user` methods it calls) and whether one of them is opened from inside a for / range statement; pinned by theorem connector_update_one_transaction_today (applyMessagesCreated: one, not in a loop; no handler opens a transaction in a loop)",
        "the wire judge identifies a message across mailboxes by its RFC822.SIZE (the harness gives every message it creates a size of its own; the two messages of a RACE step share one and are flagged, COPY / MOVE sets for which that makes the overlap with the destination ambiguous are judged for invariant and clean refusal only)",
    ],
    "assumptions": [
        "limits_invariant_partial needs ChecksInsideTx only (CREATE and RENAME need no hypothesis any more: State.Create and State.Rename check the count for every mailbox they are about to create before the first one - create_within / create_applied_iff_fits, rename_within / rename_applied_iff_fits, limit_sites_today items 3 and 5; before the repairs: limit 4, three mailboxes, CREATE p/q/r/s -> 7; limit 3, three mailboxes, RENAME a p/q/r/s -> 6) - ChecksInsideTx (Mailbox.AppendRegular checks in a read transaction before the write transaction: append_race_witness, confirmed on the real server: message limit 2, one message present, two sessions APPEND at once -> both OK, 3 messages; reproducer /verif/tmp/agent-c04-repro)",
        "a limit-refused APPEND is answered NO but Mailbox.Append then stores the message in the recovery mailbox, which no limit check covers (observed on the real server: 4 refused APPENDs -> `Recovered Messages` holds 4 with message limit 2); outside the abstract machine",
        "the recovery mailbox is inserted without any limit check (limit_sites_today item 4) and is outside the abstract machine's event alphabet; Rename / renameInbox are the model event renameParents (checked since the repair); the wire oracle renames mailboxes created over IMAP onto fresh names with 0..3 missing superiors (step RENAME, judge op rename), a RENAME of INBOX is judged for invariant and clean refusal only",
        "int is 64 bits (the dialect refuses to run otherwise); counts and slice lengths are non-negative (check_sound_needs_sign shows the check is unsound for two negative arguments)",
        "all-or-nothing of a refused multi-message operation is transaction rollback (C08 database model): in the model a refused step is the identity (replace_refused_unchanged, batch_all_or_nothing), the source is tied to it by the one-write-transaction facts (limit_quantities_today item 5 for COPY / MOVE, connector_update_one_transaction_today for connector updates of any length: one transaction, not opened in a loop) and by the wire oracle, which compares every mailbox before and after every refused command and runs operations longer than db.ChunkLimit against limits crossed in the first, a middle and the last slice; what a handler with one transaction per slice would do is addSlices (Model/Limits.lean), sliced_batch_partial_effect_witness / sliced_same_when_whole_fits say when that differs",
        "a COPY / MOVE answered NO has already been announced to the connector; the dummy connector's echo then carries it out piecemeal, and from then on the connector's idea of the mailboxes differs from gluon's (known finding connector-echo-after-refusal; echo effects after an accepted command are attributed to it only in histories with an earlier refused COPY / MOVE, otherwise they are reported as cause=connector-echo-after-accepted)",
    ],
    "explanation": "Lean theorems: each Check* that passes implies the true (unwrapped) sum is within the maximum, and fitting operations pass; CREATE keeps the mailbox limit whatever the number of missing superiors and is applied iff all of them fit, a refusal being the identity (create_within, create_applied_iff_fits); the same for RENAME and the missing superiors of the new name, a RENAME that creates nothing being applied also at the limit (rename_within, rename_applied_iff_fits, rename_parents_refused_example); the limits invariant holds along every history under ChecksInsideTx, with a decide-checked witness that the hypothesis is needed; COPY / MOVE onto a destination that already holds k of the n messages (replaceTx k n) consumes n UIDs, keeps the limits, is accepted when it fits and is the identity when refused, with a witness that a UID check discounting the duplicates would be unsound; an in-transaction add of any length is all-or-nothing and is applied iff the WHOLE batch fits (batch_all_or_nothing, batch_applied_iff_fits), whereas one transaction per slice keeps the slices before the limit (witness) and differs from the single transaction only then (sliced_same_when_whole_fits); regenerated tables of all Check*/insert call sites state which callers satisfy the hypotheses today, that every check is made on the configured limits with the full length of the inserted list, that COPY / MOVE are one write transaction, and that every connector update - applyMessagesCreated in particular - is one write transaction that is not opened in a loop. The limits package itself is differential-tested against the model on boundary values.",
}
