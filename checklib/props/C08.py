SPEC = {
    "id": "C08",
    # The property IS "implementation = relational model": what a run establishes about the
    # implementation is agreement with the Lean model on the generated sessions (testing, with its
    # coverage reported), on a model whose bulk operations are PROVED equal to their un-chunked
    # relational meaning for every list length and whose call-site facts are regenerated from the
    # source on every run.  That is validation of this tree against the model per run, not a proof
    # about the Go code: level translation_validation; the proof obligations are reported as well.
    "level": "translation_validation",
    "theorem_modules": ["GluonModel.Theorems.C08", "GluonModel.Theorems.C08Sql", "GluonModel.Theorems.C08Client"],
    "correspondences": [
        # one op line = one session on a fresh database (40-300 tokens: transactions, calls, dumps; probe sessions
        # - change, look up inside the transaction, abort or commit, look up again in Read and Write - 300-2500 tokens;
        # about a quarter of the lines, plus two directed lines that walk through every identifier-introducing method).
        # Every session runs against one of the four client variants sqlite3.NewBuilder can build (plain, Debug(), Trace(),
        # both; rotating, starting point from the seed; the first four lines are one tour through all methods per variant with a
        # dump after every transaction); `grow:<k>` tokens (k = 2, 3, 8 overlapping Client.Read closures) before two thirds of the
        # sessions and between transactions make the database/sql pool open further connections, so that the sequential
        # rest runs on another connection than the one Client.Init configured; three directed lines about the referential
        # actions (cascades, reference checks) without / after growth
        {"dialect": "db", "quick_n": 400, "thorough_n": 5000, "judge": "judge-c08-db"},
    ],
    "oracles": [],
    "rule": "one evaluation = one session (op line) of db.ReadOnly/db.Transaction calls inside committed/aborted "
            "transactions on a fresh database, results and periodic full table dumps compared with the Lean model; "
            "non-trivial = the judge evaluated at least one call of the session against the un-chunked relational "
            "meaning and found no difference; per-method call counts, outcome classes and bulk list lengths are in "
            "input_distribution['db']",
    "trusted_base": [
        "Lean 4.33.0 kernel; axioms limited to propext, Classical.choice, Quot.sound (audited per theorem)",
        "hand-written model GluonModel/Model/DB.lean of internal/db_impl/sqlite3/{read_ops,write_ops,client}.go and the "
        "schema of migrations v0..v3, tied to the real db.Client by the `db` correspondence dialect (differential testing "
        "of every interface method, results after every call, full table dumps through an independent read-only "
        "connection) - testing, not proof",
        "SQLite/mattn semantics assumed by the model and exercised by the correspondence: a transaction is atomic; "
        "surplus bind arguments are ignored, missing ones are an error; AUTOINCREMENT; UNIQUE / PRIMARY KEY / NOT NULL / "
        "FOREIGN KEY (ON DELETE CASCADE, SET NULL) with foreign_keys=ON; BINARY collation",
        "facts translator harness/facts_chunk.go (go/ast): chunk-loop shapes and SQL text shapes of the two files",
        "facts translator harness/facts_dbclient.go (go/ast): connection-string options / sql.Open / Init pragmas of client.go, the "
        "delegation of every method of utils.ReadTracer, WriteTracer, DBWrapper, TXWrapper, DebugQueryWrapper, DebugStmtWrapper, the "
        "wrapper literals of Client.Read / Client.Write; mattn/go-sqlite3 applies `_fk`/`_foreign_keys` of the connection string to "
        "every connection it opens",
        "hook verifhooks.NewSQLiteDB() (exposes the internal db.ClientInterface); the harness sets the builder's `debug` / `trace` "
        "switches (what the internal options Debug() / Trace() do) and reads the client's *sql.DB field by reflection "
        "(pool statistics, `PRAGMA foreign_keys` on every idle connection); without that field the pool is still grown, blindly",
    ],
    "assumptions": [
        "a transaction is abandoned at the first failing call (what every caller in gluon does); the state SQLite keeps "
        "inside a transaction after a failed statement is not modelled",
        "generated strings are ASCII without quote, comma, colon, slash; remote ids do not look like numbers (a "
        "numeric-looking message remote id breaks the index: corpus/C08/pending/numeric-looking-remote-id.ops)",
        "SetFlagsOnMessages is generated with a non-empty flag set and AddFlagsToAllMailboxes/AddPermFlagsToAllMailboxes "
        "with at least one flag (the empty cases panic / are an SQL syntax error: corpus/C08/pending/)",
        "results of SELECTs without ORDER BY are compared as sorted lists; flag sets are compared lower-cased (the table "
        "dump compares the exact spelling)",
        "database migrations from older schema versions, concurrent write transactions and the Read/Write lock are not covered "
        "(C07, C19); overlapping Client.Read closures are run (token grow:<k>) only to make the pool grow and to compare what they "
        "read with a sequential Read - which connection the rest of the session then runs on is up to database/sql and the scheduler",
    ],
    "explanation": "Lean relational model of the SQLite index with one function per db.ReadOnly/db.Transaction method; "
                   "theorems: every chunked operation equals its un-chunked meaning for all list lengths (call-site facts "
                   "regenerated and decided), failed Write leaves no trace, foreign keys are on for every pooled connection and every "
                   "tracer/debug decorator method calls its namesake with its own arguments (facts about client.go and utils/, "
                   "regenerated and decided); correspondence: sessions of all 69 interface "
                   "methods with list lengths around ChunkLimit/2, ChunkLimit, 2*ChunkLimit against the real client, and probe "
                   "sessions in which a write transaction changes something, reads it back through every lookup keyed by the "
                   "identifiers it introduced/replaced/removed (remote ids, names, internal ids incl. the next AUTOINCREMENT "
                   "value, message ids, message remote ids), is aborted (by returning an error or by a failing lookup) or "
                   "committed, and the same lookups are repeated in later Read and Write transactions (state kept next to the "
                   "SQL transaction: survives a rollback / goes stale after a commit), all of it against the plain, Debug(), Trace() and "
                   "Debug()+Trace() clients and on connections the pool opened after overlapping reads; judge: real client vs un-chunked "
                   "meaning call by call, table dumps vs the meaning's tables, every pooled connection enforces foreign keys",
}
