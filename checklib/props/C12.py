import os

_VERIF = os.path.dirname(os.path.dirname(os.path.dirname(os.path.abspath(__file__))))
_DRIVER = os.path.join(_VERIF, "lean", ".lake", "build", "bin", "gluon_model_driver")

SPEC = {
    "id": "C12",
    "level": "proof",
    "theorem_modules": ["GluonModel.Theorems.C12"],
    "correspondences": [
        {"dialect": "mime-scan", "quick_n": 8000, "thorough_n": 300000},
        {"dialect": "mime-split", "quick_n": 3000, "thorough_n": 100000},
        {"dialect": "mime-walk", "quick_n": 3000, "thorough_n": 60000, "judge": "judge-c12-walk"},
        {"dialect": "mime-struct", "quick_n": 2500, "thorough_n": 40000, "judge": "judge-c12-struct"},
        {"dialect": "sexp", "quick_n": 4000, "thorough_n": 100000},
    ],
    "oracles": [
        {"name": "c12structure",
         "quick_args": ["-n", "4000", "-deep", "quick", "-driver", _DRIVER],
         "thorough_args": ["-n", "150000", "-deep", "thorough", "-driver", _DRIVER],
         "timeout": 2400},
    ],
    "rule": "correspondence: distinct op lines, non-trivial = the judge (mime-struct: Lean reader on the implementation's "
            "ENVELOPE/BODY/BODYSTRUCTURE + QuoteOK on every strconv.Quote result + BODYSTRUCTURE as deep and with as many "
            "lists as the model's; mime-walk: walked section tree as deep and as large as the model's) classified the "
            "message as nested; every run starts with the directed size/depth boundary messages of harness/d_mimedeep.go "
            "(nesting 1..401 around 16/32/64/100/128/200/256/400, multiparts up to 513 parts, long boundaries / header "
            "lines / parameter lists); oracle: one evaluation per message / address string / nesting bomb / boundary "
            "shape (nesting to 1025, 10000 parts; BODYSTRUCTURE = tree, Walk shape, FETCH BODY[deepest path]) run in a "
            "child process, non-trivial = more than one MIME section or a deep-nesting / shape case",
    "trusted_base": [
        "Lean 4.33.0 kernel; axioms limited to propext, Classical.choice, Quot.sound (audited per theorem)",
        "reference rendering of a MIME tree GluonModel/Spec/MimeRender.lean and expected writer calls GluonModel/Spec/MimeStructure.lean (what 'built from a tree' means in sections_of_built_message / structure_of_built_message_partial)",
        "hand-written models GluonModel/Model/MimeScan.lean (rfc822.ByteScanner, Split, parse/load/Walk as index ranges), "
        "Model/ParamList.lean (imap/params.go writer, s-expression reader), Model/Structure.lean (imap.Structure/Envelope as "
        "writer-call trees), tied to the real functions by the mime-scan / mime-split / mime-walk / mime-struct / sexp "
        "correspondence dialects (differential testing, not proof)",
        "the abstract header results (NewHeader ok, ContentType, Header.Get, ParseMediaType, ParseAddressList, strconv.Quote) "
        "handed to the model are read off the real code through the public API by the generator (harness/d_mime*.go)",
        "Go s-expression checker harness/d_mimestruct.go (sxParse), tied to the Lean reader by the sexp dialect",
        "facts translator harness/facts_mime.go (go/ast): control skeleton of rfc822 Section.Children/load/Walk/Part/parse and "
        "imap structure/childStructures/singlePartStructure, pinned by the theorem section_tree_source_shape",
        "shape builder harness/d_mimedeep.go (the tree a boundary-shaped message is built from; expected structure, section count, deepest path)",
    ],
    "assumptions": [
        "QuoteOK: strconv.Quote returns a double-quoted string without unescaped double quote (checked on every string of every generated message by judge-c12-struct, not proved: strconv is not modelled)",
        "Go int arithmetic does not overflow (message literals are capped at 30 MB)",
        "crash-freedom and termination of rfc5322 (address/comment grammar), mime.ParseMediaType and rfc822.NewHeader are NOT covered by theorem (arbitrary functions in the model); searched by the c12structure oracle in a child process (finding #9: parseComment recursion overflows the stack at ~1.2e7 nested comments)",
        "'structure = the MIME tree the message was built from' (CRLF line ends, no preamble/epilogue, hypotheses Good/Fresh/DetOK): sections_of_built_message holds for every tree; structure_of_built_message_partial needs the named hypothesis NoEmbMulti (no message/rfc822 part holding a multipart message), structure_flattens_embedded_multipart is the concrete counter-example of the full statement (known finding, oracle class rfc822-multipart-flattened)",
        "time is not bounded by the theorems: nesting depth d costs O(d^2)-O(d^3) scanner passes (observed, reported: "
        "NewParsedMessage needs 1.2 s for 400 nested message/rfc822, 17 s for 1025, 75 s for 2049 alternating levels; 20 s for 10000 nested multiparts)",
        "no limit on nesting depth / number of parts / lengths in the section-tree code: stated for every tree by the theorems, tied to the "
        "source by the regenerated fact Facts.mimeTreeSkeleton and searched on the real code up to depth 1025 (thorough 4097) and 10000 parts",
    ],
    "explanation": "Lean theorems for all byte strings: scanner/Split/sections terminate without panic and ranges nest; for every well-built MIME tree the sections are the tree (BoundaryFresh); "
                   "the list writer's output is read back as the same tree for every call tree under QuoteOK, hence BODY/"
                   "BODYSTRUCTURE/ENVELOPE are well-formed whatever the header/address parsers return; models tied to the "
                   "real code by five correspondence dialects that start with directed size/depth boundary messages (judges state tree-depth-differs); "
                   "the source skeleton of the section-tree functions is a regenerated fact; child-process oracle on garbage, mutated, built and deeply "
                   "nested messages with the Lean reader as the judge of every produced text",
}
