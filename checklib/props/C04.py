SPEC = {
    "id": "C04",
    # theorems over the generator / AUTOINCREMENT models for all histories; the UIDVALIDITY statement
    # across restarts holds only under a named hypothesis (DESIGN section 9 #12) => partial.
    "level": "proof",
    "theorem_modules": ["GluonModel.Theorems.C04"],
    # no line-diffed correspondence: the generator reads the wall clock itself (no clock hook), so the
    # tie is relational and runs as an oracle that pipes `judge-c04-uidv` lines through the Lean driver.
    "correspondences": [],
    "oracles": [
        {"name": "uidv-rel", "quick_args": ["-n", "300"], "thorough_args": ["-n", "6000"], "timeout": 1500},
        # (lead) wire-level history oracle with restarts goes here
    ],
    "trusted_base": [
        "Lean 4.33.0 kernel; axioms limited to propext, Classical.choice, Quot.sound (audited per theorem)",
        "hand-written model GluonModel/Model/UidValidity.lean of imap.EpochUIDValidityGenerator.Generate (clock reading = input, lastUID = state, restart = fresh generator), tied to the real generator by the real-time relational oracle uidv-rel: every result must equal the model's generate(now,last) for some clock reading now between the readings taken before and after the call (differential testing, not proof)",
        "hand-written model GluonModel/Model/UidSeq.lean of SQLite AUTOINCREMENT UID assignment (model only at this level; its tie to the real database is C08's component correspondence and the wire oracle)",
        "float->uint64 conversion of a negative elapsed time is modelled as on amd64 (two's complement); exercised by the oracle with epochs in the future",
    ],
    "assumptions": [
        "uidv_mono_restart_partial / recreate_greater need the named hypothesis ClockAhead (clockAtRestart > lastIssued): lastUID is not persisted; theorem uidv_restart_witness and the oracle's `nontrivial-reissue-after-restart` cases show the real generator re-issuing a smaller value after burst+restart",
        "concurrent Generate calls are modelled by their linearisation at the successful CAS (argument in Model/UidValidity.lean, not formalised); the oracle runs concurrent calls and requires a sequential explanation of the sorted results",
        "a wall clock that steps backwards is covered by the theorems (clock readings are arbitrary) but cannot be produced by the real-time oracle",
        "uid_fresh / uidnext_gt_all / uidnext_mono speak about the AUTOINCREMENT model; that every announced UID stems from a committed transaction (announce-after-commit) and the APPENDUID/COPYUID values are checked at wire level by the lead's history oracle",
    ],
    "explanation": "Lean theorems: Generate results strictly increase within a process for every clock sequence (incl. backwards clocks and the uint32 ceiling, where it fails instead of wrapping); across restarts only under ClockAhead, with a decide-checked witness that the hypothesis is needed; AUTOINCREMENT UIDs are fresh and UIDNEXT monotone over all histories of committed/rolled-back transactions. The real EpochUIDValidityGenerator is run in real time (bursts, restarts, second boundaries, concurrent calls, epochs at 0 / 2^31 / 2^32 / in the future) and judged against the model by the Lean judge.",
}
