SPEC = {
    "id": "C04",
    # theorems over the generator / AUTOINCREMENT models for all histories; the UIDVALIDITY statement
    # across restarts holds only under a named hypothesis (DESIGN section 9 #12) => partial.
    "level": "proof",
    "theorem_modules": ["GluonModel.Theorems.C04"],
    # no line-diffed correspondence: the generator reads the wall clock itself (no clock hook), so the
    # tie is relational and runs as an oracle that pipes `judge-c04-uidv` lines through the Lean driver.
    "correspondences": [],
    "oracles": [
        {"name": "uidv-rel", "quick_args": ["-n", "300"], "thorough_args": ["-n", "6000"], "timeout": 1500},
        # wire-level history oracle (harness/o_uids.go): whole-server histories over 4 mailbox names, 1-2 sessions +
        # an observer connection, with restarts; the observation log (APPENDUID, COPYUID, UID+marker listings,
        # UIDNEXT, UIDVALIDITY) is judged by Lean (judge-c04-uids, Spec/UidHistory.lean).  Directed replays run
        # first: uidv-restart = DESIGN #12 (label cause=uidvalidity-regress-after-restart), copyuid-order =
        # COPYUID pairing for a non-ascending message set (cause=copyuid-pairing; fixed in /repo by 071c9b5, kept as
        # regression test), copyuid-stale-move = MOVE of a message
        # another session has expunged (cause=copyuid-length-mismatch), rename-onto-used = RENAME onto a
        # name that carried a greater UIDVALIDITY before (cause=uidvalidity-regress-rename-onto-used-name), rollback-told =
        # a rolled-back APPEND / COPY while another session has the mailbox selected (nobody may have been told its UID).
        # Then (all on by default, flags -fixtures / -race):
        #  * upgrade fixtures corpus/C04/fixtures/<name>/ (o_uids_fixture.go): database + store directories written by an
        #    earlier /repo HEAD (schema version recorded), opened by the tree under test - its migrations run -, compared by
        #    the judge with the observation log their writer recorded, then continued (APPEND into every mailbox, generated
        #    steps, restart);
        #  * schedule control inside one command (o_uids_race.go): for SELECT / EXAMINE / STATUS / APPEND / COPY / MOVE a
        #    second party's UID-assigning operation (another session's APPEND or COPY, connector MessageCreated /
        #    MessagesCreated) is run at EVERY database-call boundary of the command (recorded first); the command's own
        #    response is judged for internal consistency (causes select-uidnext-not-above-view,
        #    status-uidnext-not-above-counted, ...).
        #  * multi-party patterns (o_uids_pattern.go, flag -patterns N histories per kind; the same builders are called by the
        #    free generator): FAILED-THEN-REUSE - a session's CREATE / RENAME / APPEND / COPY / MOVE fails (existing, malformed
        #    or reserved name, connector refuses CreateMailbox, rolled-back transaction, mailbox-count / message-count limit
        #    via step X LIMITS, missing mailbox, bad literal), another party (second session or the connector) creates, fills
        #    and deletes the very name (adds to / expunges from the very mailbox), then the first session's command on it
        #    succeeds (CREATE X, CREATE X/kid, RENAME INBOX X, RENAME e X/kid): per-name UIDVALIDITY must still strictly
        #    increase; STALE-VIEW COPY/MOVE - a session that has not been told about other parties' expunges (UID EXPUNGE,
        #    MOVE away, connector MessageRemoved; only FETCH/SEARCH/STORE/COPY since) issues COPY / UID COPY / MOVE / UID MOVE
        #    with sets holding the vanished messages at the start / middle / end, ranges, unordered lists, repetitions:
        #    COPYUID set lengths equal and every pair holds the same marker (causes copyuid-length-mismatch,
        #    copyuid-pairing, announced-uid-not-found). Directed: copyuid-stale-copy next to copyuid-stale-move.
        {"name": "c04uids",
         "quick_args": ["-n", "60", "-par", "16", "-directed", "uidv-restart,copyuid-order,copyuid-stale-move,copyuid-stale-copy,rename-onto-used,rollback-told"],
         "thorough_args": ["-n", "2000", "-par", "24", "-patterns", "300", "-directed", "uidv-restart,copyuid-order,copyuid-stale-move,copyuid-stale-copy,rename-onto-used,rollback-told"],
         "timeout": 2400},
    ],
    "trusted_base": [
        "Lean 4.33.0 kernel; axioms limited to propext, Classical.choice, Quot.sound (audited per theorem)",
        "hand-written model GluonModel/Model/UidValidity.lean of imap.EpochUIDValidityGenerator.Generate (clock reading = input, lastUID = state, restart = fresh generator), tied to the real generator by the real-time relational oracle uidv-rel: every result must equal the model's generate(now,last) for some clock reading now between the readings taken before and after the call (differential testing, not proof)",
        "hand-written model GluonModel/Model/UidSeq.lean of SQLite AUTOINCREMENT UID assignment (model only at this level; its tie to the real database is C08's component correspondence and the wire oracle)",
        "float->uint64 conversion of a negative elapsed time is modelled as on amd64 (two's complement); exercised by the oracle with epochs in the future",
        "upgrade fixtures corpus/C04/fixtures/*: DATA committed under /verif (database, message store and expect.txt with the "
        "writer's observation log), written once by `vh oracle c04uids -mkfixture` built against the /repo HEAD named in "
        "expect.txt (written-by, schema = gluon_version as RunMigrations reads it); user id 'c04-fixture-user' and store "
        "passphrase 'passphrase' are fixed in the recipe; the check trusts that these files are what that HEAD wrote (the "
        "generator refuses to write a fixture whose own history the judge does not accept) and never regenerates them",
        "schedule control (o_uids_race.go): the wrapper c04Client around the real db.Client (gluon.WithDBClient) counts "
        "top-level Read/Write calls and parks the server goroutine between two of them while the second party runs; it "
        "relies on the SQLite client taking its lock per call (no lock is held at a boundary)",
        "pattern histories (o_uids_pattern.go): the harness decides from its own bookkeeping which messages a session still "
        "sees (its last VIEW = NOOP + listing, nothing but FETCH/SEARCH/STORE/COPY since) and relies on gluon delivering "
        "EXPUNGE only with NOOP/CHECK/STATUS/APPEND/MOVE/EXPUNGE/CLOSE/IDLE; were that to change the stale-view rounds would "
        "silently become ordinary ones (stat obs.copyuid stays, the judge clauses are the same)",
        "facts translator harness/facts_c04mig.go (go/ast): migrationList of internal/db_impl/sqlite3/migrations.go and, per "
        "migration package, whether its source mentions the per-mailbox message tables / DROP TABLE, RENAME TO, "
        "sqlite_sequence / Generate()",
        "wire oracle c04uids: the Go harness (o_uids.go) that drives the server, parses IMAP responses into the observation log and schedules one step at a time (connector flushed + every session caught up after each step); the verdict on the log is computed by the Lean spec GluonModel/Spec/UidHistory.lean (hand-written, executable; it reuses UidSeq.applyOps/uidNext and UidV.strictlyIncreasing), not by Go",
    ],
    "assumptions": [
        "uidv_mono_restart_partial / recreate_greater need the named hypothesis ClockAhead (clockAtRestart > lastIssued): lastUID is not persisted; theorem uidv_restart_witness and the oracle's `nontrivial-reissue-after-restart` cases show the real generator re-issuing a smaller value after burst+restart",
        "concurrent Generate calls are modelled by their linearisation at the successful CAS (argument in Model/UidValidity.lean, not formalised); the oracle runs concurrent calls and requires a sequential explanation of the sorted results",
        "a wall clock that steps backwards is covered by the theorems (clock readings are arbitrary) but cannot be produced by the real-time oracle",
        "failed_commands_drop_values speaks about Generate calls tagged with what became of their value (used by the command that made the call, or dropped); that the server uses a value only in the command that generated it is checked on the real server by the failed-then-reuse pattern histories (sampled), and no COPYUID at all is accepted as an answer (since fix afeb569 the server omits the item when the sets cannot be paired)",
        "uid_fresh / uidnext_gt_all / uidnext_mono speak about the AUTOINCREMENT model; that every announced UID stems from a committed transaction (announce-after-commit) and the APPENDUID/COPYUID values are checked at wire level by the oracle c04uids, which also checks the model's predictions on the real server (n additions get exactly the UIDs UidSeq.applyOps hands out, UIDNEXT = UidSeq.uidNext, a transaction rolled back after it ran leaves no trace) - sampled histories, not proof",
        "a restart in the generated histories reopens the database with the code that wrote it; the restart that is an "
        "UPGRADE is covered by the committed fixtures only (schema 3 -> current; three recipes: tops expunged / emptied / "
        "moved away, renamed and re-created names, bumped UIDVALIDITY), on the real code, and by the obligations "
        "migrations_reviewed / migrations_keep_uid_tables (shallow source facts); theorems rebuild_copy_* state what a "
        "table rebuild does to the AUTOINCREMENT model. After a fixture is opened the connector is a fresh dummy that "
        "accepts operations on messages it has never seen",
        "raced commands: the second party runs to completion at ONE boundary between two database calls of the command "
        "(every boundary is tried, with another session's APPEND / COPY and connector MessageCreated / MessagesCreated); "
        "interleavings inside a database call do not exist (per-call lock) and two second parties at two boundaries of the "
        "same command are not tried; a raced response is judged for internal consistency and against lower bounds only "
        "(its UIDNEXT may be larger than the view needs)",
        "pattern histories: limits are mailbox count 5-6 and 3-5 messages per mailbox (a third of the failed-then-reuse histories); a UIDValidityBumped cannot be the other party of a surviving session (it invalidates every session); the connector is not the other party at a limit",
        "c04uids: generated histories wait for the generator clock to pass every UIDVALIDITY seen so far before the first creation after a restart (step X CLOCKWAIT = the named hypothesis ClockAhead), let a session catch up (NOOP) before it copies or moves in half of the histories (in the other half and in the stale-view pattern histories it copies and moves out of a view that is behind), and never rename onto a name that carried a greater UIDVALIDITY, so that they stay quiet about the directed findings and are judged to their end; restarts are clean closes (optionally with client connections cut) and reopen on the same directories; process kills are C07's oracle",
    ],
    "explanation": "Lean theorems: Generate results strictly increase within a process for every clock sequence (incl. backwards clocks and the uint32 ceiling, where it fails instead of wrapping), also per mailbox name when commands fail after their Generate call and drop the value (failed_commands_drop_values); across restarts only under ClockAhead, with a decide-checked witness that the hypothesis is needed; AUTOINCREMENT UIDs are fresh and UIDNEXT monotone over all histories of committed/rolled-back transactions. The real EpochUIDValidityGenerator is run in real time (bursts, restarts, second boundaries, concurrent calls, epochs at 0 / 2^31 / 2^32 / in the future) and judged against the model by the Lean judge. At wire level whole-server histories (APPEND, COPY/MOVE, expunge of the highest UID or of everything followed by additions, failing and rolled-back commands, connector-driven additions, a failed UIDVALIDITY- or UID-assigning command followed by another party's create/fill/delete of the same name and the first session's successful command on it, COPY/MOVE out of a view that still shows messages expunged elsewhere, DELETE+CREATE, RENAME, UIDVALIDITY bump, restarts) are logged and a Lean judge checks that (name, uidvalidity, uid) -> message is a function, UIDs are fresh, UIDNEXT is above every UID assigned and monotone, APPENDUID/COPYUID UIDs hold the announced messages, and UIDVALIDITY per name strictly increases. Upgrade fixtures written by an earlier HEAD are opened by the tree under test and their recorded history is continued; SELECT/EXAMINE/STATUS/APPEND/COPY/MOVE are raced with a second party's addition at every database-call boundary and the response is checked against the view it opened (UIDNEXT above every UID of the EXISTS messages shown). The list of schema migrations is a regenerated fact with two obligations (reviewed list; no rebuild of the UID tables under the same UIDVALIDITY), and the model states what a table rebuild by copy does to UIDNEXT (rebuild_copy_*).",
}
