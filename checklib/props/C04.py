SPEC = {
    "id": "C04",
    # theorems over the generator / AUTOINCREMENT models for all histories; the UIDVALIDITY statement
    # across restarts holds only under a named hypothesis (DESIGN section 9 #12) => partial.
    "level": "proof",
    "theorem_modules": ["GluonModel.Theorems.C04"],
    # no line-diffed correspondence: the generator reads the wall clock itself (no clock hook), so the
    # tie is relational and runs as an oracle that pipes `judge-c04-uidv` lines through the Lean driver.
    "correspondences": [],
    "oracles": [
        {"name": "uidv-rel", "quick_args": ["-n", "300"], "thorough_args": ["-n", "6000"], "timeout": 1500},
        # wire-level history oracle (harness/o_uids.go): whole-server histories over 4 mailbox names, 1-2 sessions +
        # an observer connection, with restarts; the observation log (APPENDUID, COPYUID, UID+marker listings,
        # UIDNEXT, UIDVALIDITY) is judged by Lean (judge-c04-uids, Spec/UidHistory.lean).  Directed replays run
        # first: uidv-restart = DESIGN #12 (label cause=uidvalidity-regress-after-restart), copyuid-order =
        # COPYUID pairing for a non-ascending message set (cause=copyuid-pairing; fixed in /repo by 071c9b5, kept as
        # regression test), copyuid-stale-move = MOVE of a message
        # another session has expunged (cause=copyuid-length-mismatch), rename-onto-used = RENAME onto a
        # name that carried a greater UIDVALIDITY before (cause=uidvalidity-regress-rename-onto-used-name).
        {"name": "c04uids",
         "quick_args": ["-n", "60", "-par", "16", "-directed", "uidv-restart,copyuid-order,copyuid-stale-move,rename-onto-used"],
         "thorough_args": ["-n", "2000", "-par", "24", "-directed", "uidv-restart,copyuid-order,copyuid-stale-move,rename-onto-used"],
         "timeout": 2400},
    ],
    "trusted_base": [
        "Lean 4.33.0 kernel; axioms limited to propext, Classical.choice, Quot.sound (audited per theorem)",
        "hand-written model GluonModel/Model/UidValidity.lean of imap.EpochUIDValidityGenerator.Generate (clock reading = input, lastUID = state, restart = fresh generator), tied to the real generator by the real-time relational oracle uidv-rel: every result must equal the model's generate(now,last) for some clock reading now between the readings taken before and after the call (differential testing, not proof)",
        "hand-written model GluonModel/Model/UidSeq.lean of SQLite AUTOINCREMENT UID assignment (model only at this level; its tie to the real database is C08's component correspondence and the wire oracle)",
        "float->uint64 conversion of a negative elapsed time is modelled as on amd64 (two's complement); exercised by the oracle with epochs in the future",
        "wire oracle c04uids: the Go harness (o_uids.go) that drives the server, parses IMAP responses into the observation log and schedules one step at a time (connector flushed + every session caught up after each step); the verdict on the log is computed by the Lean spec GluonModel/Spec/UidHistory.lean (hand-written, executable; it reuses UidSeq.applyOps/uidNext and UidV.strictlyIncreasing), not by Go",
    ],
    "assumptions": [
        "uidv_mono_restart_partial / recreate_greater need the named hypothesis ClockAhead (clockAtRestart > lastIssued): lastUID is not persisted; theorem uidv_restart_witness and the oracle's `nontrivial-reissue-after-restart` cases show the real generator re-issuing a smaller value after burst+restart",
        "concurrent Generate calls are modelled by their linearisation at the successful CAS (argument in Model/UidValidity.lean, not formalised); the oracle runs concurrent calls and requires a sequential explanation of the sorted results",
        "a wall clock that steps backwards is covered by the theorems (clock readings are arbitrary) but cannot be produced by the real-time oracle",
        "uid_fresh / uidnext_gt_all / uidnext_mono speak about the AUTOINCREMENT model; that every announced UID stems from a committed transaction (announce-after-commit) and the APPENDUID/COPYUID values are checked at wire level by the oracle c04uids, which also checks the model's predictions on the real server (n additions get exactly the UIDs UidSeq.applyOps hands out, UIDNEXT = UidSeq.uidNext, a transaction rolled back after it ran leaves no trace) - sampled histories, not proof",
        "c04uids: generated histories wait for the generator clock to pass every UIDVALIDITY seen so far before the first creation after a restart (step X CLOCKWAIT = the named hypothesis ClockAhead), let a session catch up (NOOP) before it copies or moves, and never rename onto a name that carried a greater UIDVALIDITY, so that they stay quiet about the directed findings and are judged to their end; restarts are clean closes (optionally with client connections cut) and reopen on the same directories; process kills are C07's oracle",
    ],
    "explanation": "Lean theorems: Generate results strictly increase within a process for every clock sequence (incl. backwards clocks and the uint32 ceiling, where it fails instead of wrapping); across restarts only under ClockAhead, with a decide-checked witness that the hypothesis is needed; AUTOINCREMENT UIDs are fresh and UIDNEXT monotone over all histories of committed/rolled-back transactions. The real EpochUIDValidityGenerator is run in real time (bursts, restarts, second boundaries, concurrent calls, epochs at 0 / 2^31 / 2^32 / in the future) and judged against the model by the Lean judge. At wire level whole-server histories (APPEND, COPY/MOVE, expunge of the highest UID or of everything followed by additions, failing and rolled-back commands, connector-driven additions, DELETE+CREATE, RENAME, UIDVALIDITY bump, restarts) are logged and a Lean judge checks that (name, uidvalidity, uid) -> message is a function, UIDs are fresh, UIDNEXT is above every UID assigned and monotone, APPENDUID/COPYUID UIDs hold the announced messages, and UIDVALIDITY per name strictly increases.",
}
