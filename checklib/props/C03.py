SPEC = {
    "id": "C03",
    "level": "proof",
    "theorem_modules": ["GluonModel.Theorems.C03", "GluonModel.Theorems.C03Proto", "GluonModel.Theorems.SysC03"],
    "correspondences": [
        # the multi-session model (Model/System.lean) Theorems/SysC03.lean is about, on histories whose point is that
        # \Deleted is per mailbox and every other flag per message: the same messages in 2-3 mailboxes, every session
        # stays in its own mailbox, STOREs naming \Deleted (alone / with other flags, six modes) from every mailbox,
        # EXPUNGE by the sessions selected all along; run on the real server over TCP by the `sys` runner; the judge is
        # the REFERENCE (Spec/MailboxRef.lean) on the same history against what fresh sessions see at the end
        {"dialect": "c03-sys", "quick_n": 200, "thorough_n": 4000, "judge": "judge-c03-sys"},
    ],
    "oracles": [
        # whole server over TCP, 1-3 sessions, 3 mailboxes: directed cases (corpus/C03/*.content) first, then one
        # boundary sequence (n messages through the connector's batch path, then STORE / COPY / MOVE / EXPUNGE on all
        # of them; n chosen by the seed from {499,501,999,1001,1999,2001}; all six in the thorough tier), then random
        # sequences (every fourth with the connector's echoes delivered), then random sequences of the profile `cross`
        # (the same messages in 2-3 mailboxes, every session stays in its own mailbox — no re-SELECT —, mostly STOREs
        # naming \Deleted from every mailbox, EXPUNGE / UID EXPUNGE / CLOSE by the sessions selected all along).
        # PROTOCOL STATE: sessions open mailboxes with SELECT and EXAMINE (read-only), and commands FAIL in front of the
        # content commands: SELECT / EXAMINE of a name that does not exist, of a child that does not exist, of the
        # \Noselect parent `par`, without an argument; COPY / MOVE into a mailbox that does not exist; STORE naming
        # \Recent; STORE … CLOSE without an open mailbox.  Judge and model keep every session's protocol state
        # themselves (Spec/MailboxRefProto.lean / Model/SelState.lean): the open mailbox is in the mode of the command
        # that opened it whatever was refused since; read-only => STORE / EXPUNGE / UID EXPUNGE / MOVE refused and CLOSE
        # removes nothing; read-write => CLOSE expunges.  After
        # the sequence and at checkpoints a FRESH session reads every mailbox; the run is judged by the REFERENCE model
        # in Lean (judge-c03-content) and compared with the Lean MODEL of the code (c03-model).  EXPUNGE-class steps are
        # judged by the AUTHORITATIVE \Deleted of the mailbox (refExpunge / refUidExpunge), the session's view only
        # says which messages it can name; what the view shows as \Deleted is what the model of the code runs on.
        {"name": "c03content", "quick_args": ["-n", "60", "-steps", "40", "-bulk", "seed", "-cross", "40"],
         "thorough_args": ["-n", "1500", "-steps", "48", "-bulk", "all", "-cross", "600"], "timeout": 3000},
    ],
    "rule": "evaluations = IMAP commands (APPEND, STORE, EXPUNGE, UID EXPUNGE, CLOSE, COPY, MOVE and connector batch "
            "creations) executed against the real server, each followed sooner or later by a checkpoint at which a fresh "
            "session's FETCH 1:* (UID FLAGS BODY.PEEK[]) of every mailbox is compared with the Lean reference model run on "
            "the same commands; non-trivial = sequences in which at least one checkpoint was compared and the judge "
            "answered `ok nontrivial`; command kinds, message-set sizes, stale views, same-mailbox COPY/MOVE counts and the "
            "number of `cross` sequences, EXAMINE sessions (cmd.EXAMINE, read-only-cmd), refused SELECT / EXAMINE with a mailbox "
            "open (failed-open-with-mailbox-open) and commands without an open mailbox (unselected-cmd) are in "
            "input_distribution['oracle.c03content']; plus the c03-sys histories (one "
            "evaluation each; non-trivial = at least one STORE naming \\Deleted on a message that lives in two mailboxes "
            "and at least one message expunged, final content of every mailbox equal to the reference run)",
    "trusted_base": [
        "Lean 4.33.0 kernel; axioms limited to propext, Classical.choice, Quot.sound (audited per theorem)",
        "reference semantics GluonModel/Spec/MailboxRef.lean (mailboxes = ordered (uid, message, \\Deleted) + UIDNEXT; "
        "messages = case-insensitive flag set + bytes; flags shared per message, \\Deleted per mailbox; COPY/MOVE into a "
        "mailbox that holds the message = remove + re-add under a fresh UID; MOVE = COPY + removal from the source) is "
        "the definition of 'correct'; its choices where RFC 3501 / 6851 / 2180 are silent are documented in the file",
        "hand-written model GluonModel/Model/Actions.lean of internal/state/{mailbox,actions,updates,updates_mailbox,"
        "state}.go on top of the relational index model GluonModel/Model/DB.lean (C08: tied to the real SQLite client by "
        "the `db` correspondence; chunk loops eliminated by Gluon.C08.chunk_faithful_* with the call-site facts "
        "regenerated from the source); the action level is tied to the real server by the dialect c03-model, which the "
        "oracle compares with every answer and every checkpoint (differential testing, not proof)",
        "abstraction map GluonModel/Model/ActionsAbs.lean (`Gluon.C03.abs`): table rows in UID order, flag rows as a "
        "case-insensitive set, UIDNEXT = sqlite_sequence + 1, bytes from the message store",
        "hand-written system model GluonModel/Model/System.lean (C02's: index with per-mailbox \\Deleted rows and "
        "per-message flag lists, sessions with snapshot / responders / update queue, flag updates broadcast to every "
        "session with otherMbox = (selected mailbox differs from the STORE's)), on which Theorems/SysC03.lean shows that a "
        "session's expunge marks are the \\Deleted column of ITS mailbox; tied to the real server by the c03-sys "
        "correspondence (cross-mailbox histories over TCP, every answer, every untagged response, every final view "
        "compared) and by C02's sys dialect; judge-c03-sys (Driver/DC03Sys.lean) is the reference run on the history",
        "reference protocol state GluonModel/Spec/MailboxRefProto.lean (per session the open mailbox and whether it was opened "
        "with EXAMINE; `permits`: STORE / EXPUNGE / UID EXPUNGE / MOVE only read-write; `effect`: CLOSE expunges only "
        "read-write; a command answered NO / BAD changes neither the mailboxes nor the protocol state — gluon keeps the "
        "old mailbox open after a refused SELECT where RFC 3501 6.3.1 closes it: the judge accepts both, never a changed "
        "mode) and hand-written model GluonModel/Model/SelState.lean of State.Select / State.Examine / State.Selected / "
        "State.close and the read-only checks of handleStore / handleExpunge / handleUIDExpunge / handleCopy / handleMove / "
        "handleClose, tied to the server by c03-model on the same histories",
        "wire oracle harness/o_content.go + harness/sys.go: IMAP client, barrier hook (Server.VerifBarrier), resolution "
        "of a message set against the view the session reports (UID SEARCH ALL / UID SEARCH DELETED) in item order with "
        "every message once (C16's theorems about gluon), FETCH literal decoding, removal of the X-Pm-Gluon-Id line, "
        "FNV-1a digests of literals; fault injection for the FAULT2 step through harness/interpose.go (C07)",
    ],
    "assumptions": [
        "the connector always succeeds, returns no state updates of its own and never hands out a remote id twice "
        "(EnvOk.inj); connector failures are C20/C07; the Dummy's echoes of client actions are discarded before every "
        "barrier (they carry only \\Seen/\\Flagged: a fixture artefact) except in the echo=flush sequences, which only "
        "use \\Seen, \\Flagged, \\Deleted",
        "message sets arrive resolved (C16) as lists without repetition; the set of mailboxes is fixed during a history "
        "and the selected mailbox is not the recovery mailbox (answered outOfScope; C20 models it); Theorems/C03.lean "
        "is about read-write sessions, Theorems/C03Proto.lean adds the protocol state (SELECT / EXAMINE / CLOSE, "
        "refused commands, read-only sessions) on top of it; a failure of newSnapshot / ClearRecentFlagsInMailbox "
        "inside SELECT (index failure, C07) is not modelled",
        "Mailbox.Append's fallback into the recovery mailbox after a failed AppendRegular is C20's model, not repeated: "
        "the failing first transaction restores the whole model state (the orphan literal in the message store and the "
        "unused UUID are not kept)",
        "the limit check of APPEND runs in its own read transaction before the write in the code (C17 check-outside-tx); "
        "the model runs both in one step; whole commands are interleaved (the index serialises transactions), a "
        "command's two transactions are not split by another session's",
        "Theorems/C03.lean is the action level: Mailbox.Expunge removes the messages it is handed (expunge_ref), which is "
        "the reference EXPUNGE if they are the \\Deleted entries of the mailbox (expunge_ref_in_sync); that the list the "
        "code takes from the session's snapshot IS that (whatever mailbox the flag changes were made in) is "
        "Theorems/SysC03.lean on the system model, under C02's named schedule hypothesis NoOvertake and at quiescence "
        "(expunge_after_settle_partial; marks_follow_flags needs no hypothesis); CLOSE and UID EXPUNGE are not commands of "
        "the system model (same Mailbox.Expunge; exercised by the wire oracle)",
        "named hypotheses of the _partial theorems, each with a proved counterexample: NoForward (STORE expands "
        "$Forwarded/Forwarded: K-forward-alias), lit.gid = none (X-Pm-Gluon-Id of a live message: C20), no failure of the "
        "update-queueing transaction (K-second-tx-failure / K-append-committed-then-error). The former hypotheses Spelling "
        "and NamedInSrc are gone since gluon 45f4598 (DELETE ... COLLATE NOCASE) and 7feeba5 / 971d4f3 (MOVE restricted to "
        "the messages still in the source); their counterexamples are regression examples in Theorems/C03.lean and "
        "corpus/C03/r8..r11",
        "flag names are ASCII (lower-casing by Char.toLower); Go map iteration order is the model's list order (no "
        "modelled result depends on it beyond the order of rows in message_flags_v2)",
        "bytes: the message store keeps the literal as given; rfc822.SetHeaderValueNoMemCopy (the X-Pm-Gluon-Id line) is "
        "not modelled, the oracle compares literals without that line; store integrity is C09, FETCH rendering C13",
        "UID sets `n:*` with n above the highest UID are not generated (the case C16's property excludes)",
    ],
    "explanation": "Lean theorems: for every command (APPEND, STORE +/-/set, EXPUNGE/UID EXPUNGE/CLOSE, COPY, MOVE), every "
                   "argument (flag lists of any spelling, message lists of any length via chunk_faithful, source = "
                   "destination, destination already holding the message, stale views) and every index state satisfying "
                   "the invariant: if the model answers OK, abs of the new state is the reference operation on abs of the "
                   "old one (append_ref_partial, store_ref_partial, expunge_ref, copy_ref, move_ref), by induction "
                   "over arbitrary histories (C03_partial), and a command not answered OK changes nothing "
                   "(failed_no_effect_partial); each named hypothesis has a kernel-checked counterexample that the oracle "
                   "replays on the real server (corpus/C03/d*.content); flag spellings are arbitrary (case-insensitive removal proved "
                   "and exercised).  The model is tied to the real server over TCP: "
                   "random multi-session sequences and message lists on both sides of db.ChunkLimit and db.ChunkLimit/2.  "
                   "System level (Theorems/SysC03.lean): along every trace a snapshot's expunge marks follow its flags; a "
                   "session with nothing pending marks exactly the \\Deleted rows of its own mailbox, so its EXPUNGE is "
                   "the reference EXPUNGE of that mailbox and leaves the other mailboxes of the same messages alone — for "
                   "flag changes made in any mailbox; tied to the server by the c03-sys histories.  "
                   "Protocol state (Theorems/C03Proto.lean): a SELECT / EXAMINE that is not answered OK leaves the open "
                   "mailbox open and state.ro as it was (failed_open_keeps_protocol_state); in a read-only session STORE / "
                   "EXPUNGE / COPY / MOVE are refused and change nothing, CLOSE removes nothing (read_only_refuses, "
                   "read_only_close_removes_nothing); every command answered OK is one the reference permits in the "
                   "issuing session's protocol state and has the reference's effect, every other command changes nothing, "
                   "by induction over arbitrary histories of any number of sessions (C03_sessions_partial).",
}
