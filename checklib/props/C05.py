SPEC = {
    "id": "C05",
    "level": "proof",
    "theorem_modules": ["GluonModel.Theorems.C05"],
    "correspondences": [
        {"dialect": "flush", "quick_n": 6000, "thorough_n": 200000, "judge": "judge-c05-flush"},
    ],
    "oracles": [
        {"name": "hist", "quick_args": ["-props", "C05", "-n", "25", "-steps", "40"],
         "thorough_args": ["-props", "C05", "-n", "400", "-steps", "70", "-profile", "hold,samebox"], "timeout": 3000},
    ],
    "trusted_base": [
        "Lean 4.33.0 kernel; axioms limited to propext, Classical.choice, Quot.sound (audited per theorem)",
        "hand-written model GluonModel/Model/{Flags,Snap,Resp,Responder}.lean of State.flushResponses/popResponders/responder.handle/response.Merge, tied by the `flush` correspondence dialect (differential testing, not proof)",
        "facts translator harness/facts.go (go/ast) for the flush(...) call-site table",
        "verif hooks internal/state/verif_export.go (VerifFlush builds the State the real flushResponses runs on)",
    ],
    "assumptions": [
        "a session handler reaches Mailbox.Flush only through session.flush(ctx, mailbox, <literal>, ch) (any other route is emitted as an unknown site and fails flush_table)",
        "wire rendering of responses (String()) is not modelled; the wire-level oracle covers it",
    ],
    "explanation": "Lean theorems over the responder/flush model for all snapshots and all queues; regenerated call-site table; model tied to the real flushResponses by differential testing",
}
