SPEC = {
    "id": "C05",
    "level": "proof",
    "theorem_modules": ["GluonModel.Theorems.C05", "GluonModel.Theorems.C01Close", "GluonModel.Theorems.SysC05"],
    "correspondences": [
        {"dialect": "flush", "quick_n": 6000, "thorough_n": 200000, "judge": "judge-c05-flush"},
        {"dialect": "sys", "quick_n": 250, "thorough_n": 5000, "judge": "judge-c05-sys"},
    ],
    "oracles": [
        # hist, error paths (harness/hfc_conn.go, hfc_hist.go): every fourth history runs against a connector whose NEXT
        # call of a chosen kind fails on request (X FAILCONN / X FAILNEXT <kind> [n] / X FAILCLEAR) and sends every command
        # kind once through [other sessions' changes delivered, not flushed -> the session's own CLOSE / EXPUNGE / UID
        # EXPUNGE / STORE / COPY / MOVE / APPEND / body FETCH, answered NO -> PROBE -> NOOP -> PROBE -> X CONVERGE]: a
        # failed command may not have changed the view silently; a CLOSE answered NO leaves the mailbox selected.
        # Directed instances: corpus/C01/hfc-*.hist, corpus/C05/hfc-*.hist.
        # C05 clause evaluated on every probe (hist.go feedProbe / hfc_hist.go hfcRemovalAnnounced; inside NoOvertake, i.e.
        # in histories without X HOLD / X RACY): a message the client knows by UID is still shown unless an EXPUNGE was
        # announced for it - a removal applied to the view silently is never announced by any later command.
        {"name": "hist", "quick_args": ["-props", "C05", "-n", "25", "-steps", "40"],
         "thorough_args": ["-props", "C05", "-n", "400", "-steps", "70", "-profile", "hold,samebox"], "timeout": 3000},
    ],
    "trusted_base": [
        "Lean 4.33.0 kernel; axioms limited to propext, Classical.choice, Quot.sound (audited per theorem)",
        "hand-written model GluonModel/Model/{Flags,Snap,Resp,Responder}.lean of State.flushResponses/popResponders/responder.handle/response.Merge, tied by the `flush` correspondence dialect (differential testing, not proof)",
        "facts translator harness/facts.go (go/ast) for the flush(...) call-site table",
        "facts translator harness/facts_hfc.go (go/ast) for the calls a session handler makes after marking its context as CLOSE (theorem C01.silent_flush_then_deselect in Theorems/C01Close.lean: a flush under the CLOSE context drops removals without announcing them, which is sound only because the deselection follows unconditionally)",
        "verif hooks internal/state/verif_export.go (VerifFlush builds the State the real flushResponses runs on)",
    ],
    "assumptions": [
        "system level (Theorems/SysC05.lean over GluonModel/Model/System.lean, tied by the `sys` correspondence dialect: whole multi-session histories on the real server, [EXPUNGEISSUED] compared as the pseudo-response I): no_expunge_without_permission / no_expunge_when_refused / removals_held_back_in_order hold in every state; removal_reaches_queue_partial (the removal of a message a session knows, also through a held-back EXISTS, is queued for it, i.e. not filtered out) and next_permitting_command_announces carry the NAMED hypothesis NoOvertake. judge-c05-sys evaluates on the implementation's answers: no EXPUNGE in a non-permitting answer (every history); inside NoOvertake also: never two instances of one message shown at a time, [EXPUNGEISSUED] iff the next permitting command announces a removal, and after quiescence + NOOP the session shows exactly the mailbox's UIDs (removal-never-announced / addition-never-announced); outside NoOvertake it answers ok outside-NoOvertake (those histories are reported by the C01 / C02 judges as K-own-update-overtakes-foreign)",
        "a session handler reaches Mailbox.Flush only through session.flush(ctx, mailbox, <literal>, ch) (any other route is emitted as an unknown site and fails flush_table)",
        "wire rendering of responses (String()) is not modelled; the wire-level oracle covers it",
    ],
    "explanation": "Lean theorems over the responder/flush model for all snapshots and all queues; regenerated call-site table; model tied to the real flushResponses by differential testing",
}
