# C11 — parser part by agent-c10 (correspondence on malformed streams + theorems of Theorems/C11.lean).
# The session-loop part (one completion per line, 20 errors close) is added by the lead: append its
# oracles to SPEC["oracles"] and its theorems to Theorems/C11.lean (section "session loop").
SPEC = {
    "id": "C11",
    "level": "proof",
    "theorem_modules": ["GluonModel.Theorems.C11"],
    "correspondences": [
        {"dialect": "parsebad", "quick_n": 6000, "thorough_n": 300000, "judge": "judge-c11-parse"},
        # the reader loop of startCommandReader over several lines (Parse / ConsumeInvalidInput /
        # LastParsedTag / LastParsedCommand): the parser API the session-loop model builds on
        {"dialect": "parsen", "quick_n": 3000, "thorough_n": 100000},
    ],
    "oracles": [],
    "trusted_base": [
        "Lean 4.33.0 kernel; axioms limited to propext, Classical.choice, Quot.sound (audited per theorem)",
        "hand-written model GluonModel/Model/Parse/{Scanner,Prim,Ast,Grammar}.lean of rfcparser/{scanner,parser}.go and imap/command/*.go with explicit fuel, tied to the real command.Parser by the `parsebad` correspondence dialect: mutated commands, same outcome class (ok + AST / parser error + token type / plain error / hang / panic) and same number of consumed bytes",
        "hang detection on the real parser: a reader that panics after 1000 reads at end of input (deterministic) plus a 20 s wall-clock backstop; model side: out of fuel at fuelFor(input) = 2*len+16",
    ],
    "assumptions": [
        "Go runtime limits (stack size, GC) are outside the model; recursion depth is stated as a function of the input (#18), not as 'fits the stack'",
        "a read error other than end of input, and a failing continuation callback, are not modelled",
    ],
    "explanation": "parser part: parse_terminates at full strength (every byte string, fuel linear in the input length: any fuel > |input|, the driver uses 2|input|+16), parse_no_panic, parse_outcomes (command / *rfcparser.Error / io.EOF inside a literal, nothing else), depth_le_input + depth_unbounded (#18: recursion depth of parseSearchKey is bounded by the input length and by nothing smaller) over the fuel-explicit parser model; regression theorems and corpus for the repaired #7 (quoted string at EOF / over CRLF) and #17 ({0}, oversize literal); the model is tied to the real parser on malformed streams by differential testing (same outcome class, same error token type, same number of consumed bytes); the judge flags hang / panic / non-parser errors of the real parser",
    "coverage_note": "parser part only; the session loop (one completion per line, 20 errors close) is not covered by these theorems; not covered: Go stack exhaustion by deep nesting (#18 is stated, not excluded), memory retained per command (retained_le_consumed not proved)",
}
