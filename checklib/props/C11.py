# C11 — parser part by agent-c10 (correspondence on malformed streams + theorems of Theorems/C11.lean);
# session-loop part (one completion per line, maxSessionError errors close, the session stays usable; the real
# server in a child process under a watchdog, a memory cap and a second session) by agent-c11s:
# Model/SessionLoop.lean, Theorems/C11Session.lean, oracle c11session (harness/o_session*.go).
SPEC = {
    "id": "C11",
    "level": "other",
    "theorem_modules": ["GluonModel.Theorems.C11", "GluonModel.Theorems.C11Session"],
    "correspondences": [
        {"dialect": "parsebad", "quick_n": 6000, "thorough_n": 300000, "judge": "judge-c11-parse"},
        # the reader loop of startCommandReader over several lines (Parse / ConsumeInvalidInput /
        # LastParsedTag / LastParsedCommand): the parser API the session-loop model builds on
        {"dialect": "parsen", "quick_n": 3000, "thorough_n": 100000},
    ],
    "oracles": [
        # whole server in a child process (default panic handler, RSS cap, SIGQUIT dump on a hang), arbitrary byte
        # streams + disconnect, every observation judged by the Lean session-loop model (judge-c11-session),
        # a second session issuing NOOP throughout. quick ~15 s, thorough ~3 min.
        {"name": "c11session", "quick_args": ["-n", "1500", "-workers", "4"],
         "thorough_args": ["-n", "120000", "-workers", "6", "-big", "1"], "timeout": 1500},
    ],
    "rule": "evaluations = parser op lines + byte streams sent to the real server; non-trivial (oracle) = distinct (stream kind, number of "
            "complete lines, set of session-loop features the judge saw: parse-error, command, idle-start/-end, closed-errors, closed-logout, "
            "bye-invalid-state, eof-midline, literal-eof, tls-handshake, bare-cr-lf) among the streams with at least one complete line",
    "trusted_base": [
        "Lean 4.33.0 kernel; axioms limited to propext, Classical.choice, Quot.sound (audited per theorem)",
        "hand-written model GluonModel/Model/Parse/{Scanner,Prim,Ast,Grammar}.lean of rfcparser/{scanner,parser}.go and imap/command/*.go with explicit fuel, tied to the real command.Parser by the `parsebad` correspondence dialect: mutated commands, same outcome class (ok + AST / parser error + token type / plain error / hang / panic) and same number of consumed bytes",
        "hang detection on the real parser: a reader that panics after 1000 reads at end of input (deterministic) plus a 20 s wall-clock backstop; model side: out of fuel at fuelFor(input) = 2*len+16",
        "hand-written model GluonModel/Model/SessionLoop.lean of internal/session/command.go startCommandReader and internal/session/session.go serve (reader loop, ConsumeInvalidInput, TLS header sniffing, STARTTLS in the reader, BAD with res.command.Tag, errorCount / maxSessionError, reset on success, invalid-state BYE, LOGOUT, IDLE consuming one line) on top of the parser model; command handlers abstract (exactly one completion OK/NO/BAD per handled command). Tied to the real server by oracle c11session: the completions the server writes for a stream must be exactly what the model says (judge-c11-session), differential, not proof",
        "regenerated source facts Generated/Facts/Session.lean (harness/facts_session.go, go/ast): maxSessionError, the closing comparison, the reset, tlsHeaders, skeletons of the reader's error branch, of handleIdle's loop, of handleStartTLS's nil-config branch, of Parse's return statements and of response.Bad; theorem session_facts_known fails when any of them changes",
        "the wire observer of harness/o_session.go: what counts as a completion result (first word = tag, possibly EMPTY, second word OK/NO/BAD; `* BYE IMAP session state is inconsistent…`), literals in untagged responses skipped by their announced length; /proc/<pid>/status VmRSS/VmHWM and clear_refs for the memory observation; SIGQUIT goroutine dump for naming what a hung server was doing",
    ],
    "assumptions": [
        "Go runtime limits (stack size, GC) are outside the model; recursion depth is stated as a function of the input (#18), not as 'fits the stack'; the oracle observes the real process instead (stack overflow at 2e7 nesting levels, resident-set growth, time)",
        "a read error other than end of input, a failing continuation callback, write errors on the connection and context cancellation are not modelled",
        "session loop: state updates arriving between commands appear only as the backend's `invalid` flag; the TLS handshake after an accepted STARTTLS is not modelled (the model's stream ends there; the oracle's server has no TLS configuration); state.Idle failing to start is not modelled",
        "the oracle never sends a line whose first byte is `*` (gluon accepts `*` as a tag and answers `* OK …`, which cannot be told from an untagged response on the wire)",
        "for the two streams too large for the Lean driver (2e7 nesting levels, 16 MB line) the judge is given the same shape at 64 levels / bytes",
        "timing: hang = no byte read or written for 2 s (plus 1 s per MB above 4 MB); second session: NOOP answered within 2 s",
    ],
    "explanation": "parser part: parse_terminates at full strength (every byte string, fuel linear in the input length: any fuel > |input|, the driver uses 2|input|+16), parse_no_panic, parse_outcomes (command / *rfcparser.Error / io.EOF inside a literal, nothing else), depth_le_input + depth_unbounded (#18: recursion depth of parseSearchKey is bounded by the input length and by nothing smaller) over the fuel-explicit parser model; regression theorems and corpus for the repaired #7 (quoted string at EOF / over CRLF) and #17 ({0}, oversize literal); the model is tied to the real parser on malformed streams by differential testing (same outcome class, same error token type, same number of consumed bytes); the judge flags hang / panic / non-parser errors of the real parser. "
                   "session-loop part (Theorems/C11Session.lean over Model/SessionLoop.lean, for every byte stream and every backend): session_loop_terminates (never hang / out of iterations / panic: every iteration consumes a byte and leaves a suffix, also after a failed Parse — Lemmas/ParseMono.lean — so the parser theorems apply to every line); lines_partition_the_stream, every_line_ends_with_lf, and — under the named hypotheses NoCurly (no `{`) and lfOk (no bare LF), via Lemmas/ParsePlain.lean: no parsing function moves over a CR or LF — line_is_up_to_first_lf_partial and completions_eq_crlf_lines_partial (the number of lines the reader finds, of reply groups, and of completions plus accepted IDLEs all equal the number of CRLF pairs of a stream that ends at a line boundary); one_completion_per_line (reply groups in line order, as many as lines unless serve closed, at most one completion each, the only empty group is an accepted IDLE which is answered by the next line: idle_is_the_only_unanswered_line, idle_ended_by_next_line); completion_tag_is_line_tag_or_empty (the line's own tag or an EMPTY tag, never another) with witnesses late_error_loses_tag / untagged_line_gets_empty_tag and error_tag_partial under the named hypothesis lateErrDropsTag = false; witnesses first_line_with_bad_first_byte_is_dropped, starttls_without_tls_is_dropped, bare_lf_splits_line; max_errors_close + fewer_errors_do_not_close (closed exactly when the counter reaches maxSessionError, not earlier), success_resets_counter, session_usable_after_error (serve's half) + reader_forgets_history (reader's half). The oracle runs the real server in a child process and reports, with stable cause= labels, what the model reproduces (late-error-empty-tag, untagged-line-empty-tag, first-line-bad-tag-drops, starttls-without-tls-drops) and what only the real process shows (search-nesting-quadratic-time, search-nesting-stack-overflow, search-nesting-memory-growth, hang, panic, memory-growth, canary-unanswered, model-mismatch)",
    "coverage_note": "session loop: for streams that announce literals (`{`) or contain a bare LF the notion of 'line' is the reader model's (ends with LF, partition of the stream), tied to the real server by the oracle only; for the others it is 'up to the first LF' by theorem, and the judge cross-checks the line count against the number of CRLF on every such stream; IDLE pairing is proved per step, not as a statement about the whole reply list; the class of a handled command's completion (OK/NO/BAD) is taken from the observation, not predicted. Not covered: Go stack exhaustion by deep nesting as a theorem (#18 is stated and observed, not excluded), memory retained per command (retained_le_consumed proved for string arguments only), TLS",
}
