SPEC = {
    "id": "C18",
    "level": "proof",
    "theorem_modules": ["GluonModel.Theorems.C18"],
    # unit-level tie for the not-authenticated state only: the real Session.handleCommand / handleIdle on a
    # session with s.state == nil (hook verifhooks.DispatchUnauth) for every payload type, against the
    # facts-driven model.  Authenticated / selected behaviour, users and jail timing: the lead's wire oracle.
    "correspondences": [
        {"dialect": "dispatch", "quick_n": 64, "thorough_n": 64, "judge": "judge-c18-dispatch"}  # finite input space: every payload type once,
    ],
    "oracles": [
        # (lead) wire oracle: all commands x all protocol states, 2-3 users, credential pairs, jail timing
    ],
    "trusted_base": [
        "Lean 4.33.0 kernel; axioms limited to propext, Classical.choice, Quot.sound (audited per theorem)",
        "facts translator harness/facts_dispatch.go (go/ast): handleCommand's type switch -> class table, second-level switches, serve-loop / command-reader / IDLE special cases, the `s.state == nil` guards, State.Selected's guard, nil-safety of the any-state handlers, shape of handleLogin / Backend.GetState / Backend.getUserID, maxLoginAttempts -> Generated/Facts/Dispatch.lean (regenerated on every run; unknown shapes are emitted as unknown and fail dispatch_conforms)",
        "hand-written model GluonModel/Model/Auth.lean (session protocol state machine driven by those facts; login counter and jail with abstract time); tied to the real dispatch only for the not-authenticated state (dialect `dispatch`: real handleCommand/handleIdle with s.state == nil on every payload type); everything else awaits the wire-level oracle",
        "verif hook internal/session/verif_export_dispatch.go + verifhooks/session.go (builds a Session without backend/state and calls the real handleCommand / handleIdle)",
        "specification table GluonModel/Spec/AuthSpec.lean: which command RFC 3501 / 2971 / 2177 / 3691 / 4315 / 6851 allow in which state",
    ],
    "assumptions": [
        "the effect of a handled command is an arbitrary function of the command and the authenticated user's own data only (each user has its own database, store and connector: backend.newUser) - typing of the model, not checked",
        "a guard recognised by the translator (first statement after lock/defer/profiling prologue) refuses before any effect; handler bodies behind the guards are not inspected",
        "login counter model: loginLock serialises attempts, loginWG.Wait() returns when the armed timer has fired, time.AfterFunc fires no earlier than its duration (abstract time; arbitrary arrival times, Authorize durations and timer latencies)",
        "jail is measured from the moment the third failure is decided inside the server (t3); a client-side oracle must measure from the time it SENT the third LOGIN (<= t3), not from the time it received the third NO",
        "not modelled: BYE on an invalidated state, parse errors / maxSessionError (C11), TLS upgrade, response texts; AUTHENTICATE is not implemented by gluon",
    ],
    "explanation": "Lean theorems over the facts-driven session model: for every command sequence without an accepted LOGIN nothing changes and every mailbox/message command is answered NO (unauth_no_effect, by induction over sequences on top of a decide over the regenerated dispatch table and guards); message commands need a selected mailbox; wrong credentials never authenticate and an authenticated session cannot switch user; users are isolated over every interleaving of sessions; after three consecutive failures the next attempt is decided no earlier than t3 + jail; success resets the counter. What awaits the lead's wire oracle: that the running server behaves as this model (tagged results per state, other users' views unchanged, measured jail time).",
}
