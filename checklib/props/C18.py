SPEC = {
    "id": "C18",
    "level": "proof",
    "theorem_modules": ["GluonModel.Theorems.C18", "GluonModel.Theorems.C18Wire"],
    # unit-level tie for the not-authenticated state: the real Session.handleCommand / handleIdle on a
    # session with s.state == nil (hook verifhooks.DispatchUnauth) for every payload type, against the
    # facts-driven model.  Every other state, users, effects and jail timing: the wire oracle below.
    "correspondences": [
        {"dialect": "dispatch", "quick_n": 64, "thorough_n": 64, "judge": "judge-c18-dispatch"}  # finite input space: every payload type once,
    ],
    "oracles": [
        # wire oracle (harness/o_auth.go, Lean judge Driver/DJudgeAuth.lean `judge-c18-wire`): whole servers with 2-3 users
        # (own connector / credentials / marker content each), generated command sequences over 2-5 interleaved
        # connections covering every payload type in every protocol state (not authenticated, after a failed LOGIN,
        # authenticated, selected, after CLOSE/UNSELECT, after LOGOUT), login jail of 300 ms.
        # Users of one server: unrelated names, a name that is a prefix of another, names differing in letter case only
        # (same or different password), two valid pairs that are the same bytes when name and password are joined (with
        # a separator or none).  Credential pairs: right, wrong password, unknown user, other user's password / name,
        # changed case, and pairs derived from a valid one: every other split of name||password (preferring splits whose
        # first part is a configured name), separator variants, truncations, empty password, swapped - presented before
        # and after the owner of the valid pair logged in on another connection, after its logout, after the user was
        # removed (Server.RemoveUser) and after it came back (Server.LoadUser) with the same or a new password.
        # After every LOGIN answered OK the harness issues the identity probe LIST "" "*": the session must list the
        # marker mailboxes of exactly the user whose connector accepts the presented pair.
        # Directed scenarios corpus/C18/*.txt run first (prefix names, colliding joined pairs, letter case).
        # Gluon.Auth.step with the regenerated facts predicts completion class and state of every step;
        # Gluon.Auth.attempt bounds reply times from below and predicts the "too many login attempts" replies exactly;
        # views of all users through fresh sessions before/after.  stats: pair.<state>.<type> = times exercised.
        {"name": "c18auth", "quick_args": ["-n", "100"], "thorough_args": ["-n", "2000"], "timeout": 2400},
    ],
    "trusted_base": [
        "Lean 4.33.0 kernel; axioms limited to propext, Classical.choice, Quot.sound (audited per theorem)",
        "facts translator harness/facts_dispatch.go (go/ast): handleCommand's type switch -> class table, second-level switches, serve-loop / command-reader / IDLE special cases, the `s.state == nil` guards, State.Selected's guard, nil-safety of the any-state handlers, shape of handleLogin / Backend.GetState / Backend.getUserID, maxLoginAttempts; harness/facts_dispatch_login.go: every return statement of Backend.getUserID classified (authorized = `return user.userID, nil` directly under `if user.connector.Authorize(ctx, username, password)` of the range over b.users, on the never-written parameters; error; anything else - a cache, a map, a remembered id - unknown), GetState takes the state from b.users[<that id>], handleLogin presents the command's own credentials, b.users keyed by the user's own id / user.connector set once from newUser's parameter -> Generated/Facts/Dispatch.lean (regenerated on every run; unknown shapes are emitted as unknown and fail dispatch_conforms)",
        "hand-written model GluonModel/Model/Auth.lean (session protocol state machine driven by those facts; login counter and jail with abstract time); tied to the real dispatch at unit level for the not-authenticated state (dialect `dispatch`) and at wire level for all states by the oracle `c18auth` (differential testing against whole servers, not proof)",
        "wire harness harness/o_auth.go: classification of a reply into ok/no/bad/bye/byeonly/none, marker scan of untagged data, the credential table (which connector accepts which pair: the rule of connector.Dummy.Authorize over the users currently on the server, following ADMIN remove / add steps), the identity probe after an accepted LOGIN, client-side monotonic clock for send/receive times, view snapshots (LIST, LSUB, STATUS, EXAMINE + FETCH 1:* (UID FLAGS BODY.PEEK[HEADER.FIELDS (Subject)])); Lean judge GluonModel/Driver/DJudgeAuth.lean",
        "verif hook internal/session/verif_export_dispatch.go + verifhooks/session.go (builds a Session without backend/state and calls the real handleCommand / handleIdle)",
        "specification table GluonModel/Spec/AuthSpec.lean: which command RFC 3501 / 2971 / 2177 / 3691 / 4315 / 6851 allow in which state",
    ],
    "assumptions": [
        "the effect of a handled command is an arbitrary function of the command and the authenticated user's own data only (each user has its own database, store and connector: backend.newUser) - typing of the model; checked at wire level only as far as the oracle's before/after views of users without an authenticated session and the marker scan of every reply go",
        "a guard recognised by the translator (first statement after lock/defer/profiling prologue) refuses before any effect; handler bodies behind the guards are not inspected",
        "login counter model: loginLock serialises attempts, loginWG.Wait() returns when the armed timer has fired, time.AfterFunc fires no earlier than its duration (abstract time; arbitrary arrival times, Authorize durations and timer latencies)",
        "jail measured from the client: a command is handled after the client sent it and its reply is received after it was decided; with that, theorem earliest_schedule_lower_bound makes `reply to the next attempt received >= send time of the blocked attempt + jail` (1 ms tolerance for clock granularity) a consequence of the model for all server-side timings - a lower bound only, so machine load cannot raise an alarm; the counter itself (three in a row, reset by success and by the timer) is observed exactly through the reply text `too many login attempts`, with no upper time bound",
        "where the model's prediction depends on Cmd.ok (a handler body runs: mailbox / message exists ...) the wire judge accepts OK and the failure classes NO and BAD (handlers answer BAD for `no such message`) and follows the observed outcome; in every gated position the class is exact",
        "STARTTLS on a server without TLS configuration is answered `<tag> NO` and the session carries on (exact in the wire judge: class no, state unchanged; after LOGOUT the reader goroutine may still answer a STARTTLS with that NO before Session.done has closed the connection - none or no accepted there); a stray DONE has no tag and is completed by the untagged `* NO bad command` (class no); classified, not judged under C18: an untagged BYE without completion in the selected state (the selected mailbox was deleted: serve loop's IsValid check) - not modelled in Auth.step, the judge continues with the session closed",
        "user names and passwords in the wire oracle are printable ASCII without `\"` and `\\` (atoms or quoted strings; no literals, no non-ASCII); a user that is removed and added again gets a fresh connector.Dummy under the same user id (its mailboxes live on in gluon's database); users are removed only while none of their sessions is open",
        "not modelled: parse errors / maxSessionError (C11), TLS upgrade, response texts; AUTHENTICATE is not implemented by gluon; a failed SELECT/EXAMINE of a missing mailbox leaves the previously selected mailbox selected in gluon (State.Select looks the name up before closing the snapshot) and the model does the same",
    ],
    "explanation": "Lean theorems over the facts-driven session model: for every command sequence without an accepted LOGIN nothing changes and every mailbox/message command is answered NO (unauth_no_effect, by induction over sequences on top of a decide over the regenerated dispatch table and guards); message commands need a selected mailbox; wrong credentials never authenticate - an accepted LOGIN is bound to a user whose connector accepted exactly the presented pair in that call, which user_source_is_authorize ties to the source: getUserID has no other source of a user id than a successful Authorize on the presented credentials - and an authenticated session cannot switch user; users are isolated over every interleaving of sessions; after three consecutive failures the next attempt is decided no earlier than t3 + jail; success resets the counter; the client-side jail measurement is a sound lower bound (earliest_schedule_lower_bound). Tie: the model is the oracle for whole servers on the wire - every payload type in every protocol state, several users and connections (prefix / case-variant / colliding names), all credential kinds including pairs derived from valid ones before and after their owner logged in, logged out, was removed and re-added, the identity of every accepted LOGIN, measured jail, views of every user before and after.",
}
