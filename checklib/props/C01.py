SPEC = {
    "id": "C01",
    "level": "proof",
    "theorem_modules": ["GluonModel.Theorems.C01", "GluonModel.Theorems.C01Close", "GluonModel.Theorems.SysC01"],
    "correspondences": [
        {"dialect": "flush", "quick_n": 6000, "thorough_n": 200000, "judge": "judge-c01-flush"},
        {"dialect": "merge", "quick_n": 10000, "thorough_n": 400000, "judge": "judge-c01-merge"},
        {"dialect": "sys", "quick_n": 250, "thorough_n": 5000, "judge": "judge-c01-sys"},
    ],
    "oracles": [
        # hist, error paths (harness/hfc_conn.go, hfc_hist.go): every fourth history runs against a connector whose NEXT
        # call of a chosen kind fails on request (X FAILCONN / X FAILNEXT <kind> [n] / X FAILCLEAR) and sends every command
        # kind once through [other sessions' changes delivered, not flushed -> the session's own CLOSE / EXPUNGE / UID
        # EXPUNGE / STORE / COPY / MOVE / APPEND / body FETCH, answered NO -> PROBE -> NOOP -> PROBE -> X CONVERGE]: a
        # failed command may not have changed the view silently; a CLOSE answered NO leaves the mailbox selected.
        # Directed instances: corpus/C01/hfc-*.hist, corpus/C05/hfc-*.hist.
        {"name": "hist", "quick_args": ["-props", "C01", "-n", "25", "-steps", "40"],
         "thorough_args": ["-props", "C01", "-n", "400", "-steps", "70", "-profile", "hold,samebox"], "timeout": 3000},
    ],
    "trusted_base": [
        "Lean 4.33.0 kernel; axioms limited to propext, Classical.choice, Quot.sound (audited per theorem)",
        "hand-written model GluonModel/Model/{Flags,Snap,Resp,Responder}.lean of responder.handle / popResponders / State.flushResponses / response.Merge, tied by the `flush` and `merge` correspondence dialects (differential testing, not proof)",
        "client model GluonModel/Spec/Mirror.lean (what untagged EXISTS/EXPUNGE/FETCH/RECENT let a client reconstruct)",
        "facts translator harness/facts_snapmut.go (go/ast + go/types) for the table of snapshot-mutating call sites",
        "facts translator harness/facts_hfc.go (go/ast) for the calls a session handler makes after marking its context as CLOSE (theorem silent_flush_then_deselect)",
        "verif hooks internal/state/verif_export.go, internal/response/verif_export.go",
    ],
    "assumptions": [
        "system level (Theorems/SysC01.lean): every announcement along a whole multi-session trace is explicable under the NAMED hypotheses NoOvertake (no session runs a mutating command or SELECT while an update for its mailbox is still in its update queue and the command hands responders to its own state) and NoSilent (no own .SILENT store; C01.handle_silent_fetch covers it at session level); without NoOvertake the statement is false of the code: own_append_overtakes_foreign (kernel-checked witness, reproduced on the real server by corpus/C01/sys-k1-held-exists-inserted-below.ops; known finding K-own-update-overtakes-foreign). System model GluonModel/Model/System.lean tied by the `sys` correspondence dialect (see C02); not in it: \\Recent, EXAMINE, IDLE, CLOSE, UID commands, message-set syntax",
        "value-based model: aliasing of Go maps/slices (a FlagSet shared by reference) is not modelled; the wire-level oracle covers it",
        "wire rendering of responses (String()) and the direct FETCH path of Mailbox.Fetch are covered by the wire-level oracle, not by theorem",
        "theorems handle_explicable_partial / flush_explicable_partial carry the named hypotheses ExistsAtEnd / AllAtEnd (an EXISTS from another session is added at the end), no CLOSE context, no own-.SILENT responder; the excluded cases are witnessed by handle_explicable_counterexample and flush_close_panic_witness",
        "error paths: flush_close_silent speaks about a CLOSE that deselects; that nothing fallible stands between the silent flush and the deselection is the regenerated fact silent_flush_then_deselect (Theorems/C01Close.lean); what a command that is answered NO (connector failure, database failure) did to the view is not in the Lean models - the wire-level oracle covers it (connector failures only: hfc_hist.go)",
    ],
    "explanation": "Lean theorems: Merge is sound for every explicable stream; every responder keeps the snapshot invariant; inside the named hypotheses every flush of every queue leaves the client's mirror in agreement with the snapshot; regenerated table of snapshot-mutating call sites is decided against the expected uses. Model tied to the real flushResponses/Merge by differential testing; property judged on the implementation's answers.",
}
