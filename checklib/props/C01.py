SPEC = {
    "id": "C01",
    "level": "proof",
    "theorem_modules": ["GluonModel.Theorems.C01"],
    "correspondences": [
        {"dialect": "flush", "quick_n": 6000, "thorough_n": 200000, "judge": "judge-c01-flush"},
        {"dialect": "merge", "quick_n": 10000, "thorough_n": 400000, "judge": "judge-c01-merge"},
    ],
    "oracles": [
        {"name": "hist", "quick_args": ["-props", "C01", "-n", "25", "-steps", "40"],
         "thorough_args": ["-props", "C01", "-n", "400", "-steps", "70", "-profile", "hold,samebox"], "timeout": 3000},
    ],
    "trusted_base": [
        "Lean 4.33.0 kernel; axioms limited to propext, Classical.choice, Quot.sound (audited per theorem)",
        "hand-written model GluonModel/Model/{Flags,Snap,Resp,Responder}.lean of responder.handle / popResponders / State.flushResponses / response.Merge, tied by the `flush` and `merge` correspondence dialects (differential testing, not proof)",
        "client model GluonModel/Spec/Mirror.lean (what untagged EXISTS/EXPUNGE/FETCH/RECENT let a client reconstruct)",
        "facts translator harness/facts_snapmut.go (go/ast + go/types) for the table of snapshot-mutating call sites",
        "verif hooks internal/state/verif_export.go, internal/response/verif_export.go",
    ],
    "assumptions": [
        "value-based model: aliasing of Go maps/slices (a FlagSet shared by reference) is not modelled; the wire-level oracle covers it",
        "wire rendering of responses (String()) and the direct FETCH path of Mailbox.Fetch are covered by the wire-level oracle, not by theorem",
        "theorems handle_explicable_partial / flush_explicable_partial carry the named hypotheses ExistsAtEnd / AllAtEnd (an EXISTS from another session is added at the end), no CLOSE context, no own-.SILENT responder; the excluded cases are witnessed by handle_explicable_counterexample and flush_close_panic_witness",
    ],
    "explanation": "Lean theorems: Merge is sound for every explicable stream; every responder keeps the snapshot invariant; inside the named hypotheses every flush of every queue leaves the client's mirror in agreement with the snapshot; regenerated table of snapshot-mutating call sites is decided against the expected uses. Model tied to the real flushResponses/Merge by differential testing; property judged on the implementation's answers.",
}
