SPEC = {
    "id": "C15",
    "level": "proof",
    "theorem_modules": ["GluonModel.Theorems.C15"],
    "correspondences": [
        # rfc822.NewHeader + Header.Entries (name as written, merged = unfolded value: what the header-string keys of SEARCH
        # read through Header.Get) against Search.headerOf (C13's entry parser + Search.unfold = mergeMultiline with
        # bytes.TrimSpace on UTF-8): header blocks with every fold shape of the search oracle plus byte-level damage
        # (bare LF, CR alone, Unicode white space and ill-formed look-alikes next to the breaks, missing closing break)
        {"dialect": "c15-unfold", "quick_n": 30000, "thorough_n": 400000},
    ],
    "oracles": [
        # whole server over TCP, mailboxes known by construction, views that still hold messages expunged elsewhere
        # (VerifHold / Barrier), generated SEARCH / UID SEARCH trees (depth <= 6, every key kind, CHARSET variants),
        # with and without WithDisableParallelism; every answer is judged by the Lean model + RFC spec
        # (judge-c15-search). The witnesses of Theorems/C15.lean are replayed first. Directed scenarios of every run
        # (harness/o_search_directed.go): `dates` = internal dates / Date headers on and one second around midnight
        # (UTC instant written in +0000 +0530 -0500 +1400, and wall-clock midnight of the zone), all six date keys for the
        # days of the messages and their neighbours, plain and under NOT, plus the identities ON d = NOT BEFORE d BEFORE d+1
        # (= SINCE d BEFORE d+1 up to since-zone) on the server's three answers (judge-c15-dayident); `big` = views of
        # 131 and 257 messages (thorough: also 263 521 1031; primes, so no worker count divides them) whose distinguished
        # messages are the first and the last of the view, run on the parallel AND the serial server, judged by the model
        # and compared with each other. Generated worlds also draw dates on day boundaries and date keys from message dates.
        # `folds` (harness/o_search_folds.go) = for each of Subject From To Cc Bcc and HEADER X-Tag / Received / References a message
        # whose field is folded (CRLF + blanks / tabs, white space before the break, a break right after the colon or inside a
        # word, a white-space-only continuation line, U+00A0 at the line end, several folds, long fields), its twin on one line and a
        # look-alike with the raw white space; search strings spanning each fold / starting or ending on it / one character on each
        # side / the whole value / case-flipped, and the strings that only occur in the RAW block (raw separator, two blanks, tab,
        # no blank) — alone, under NOT, in OR / lists with keys that match nothing, next to keys that hit the same message (another
        # header-string key, SENT*, TEXT), SEARCH and UID SEARCH, on both servers. Every generated message of every world draws its
        # folds from the same generator, half of the generated header-string keys take their string from the messages' unfolded
        # values, and the header claimed for each message is checked against Search.hdrOfLiteral of the stored literal (judge-c15-hdr).
        # corpus/C15/folded-subject.world: the hand-written regression of that class.
        {"name": "c15search", "quick_args": ["-n", "300"], "thorough_args": ["-n", "10000"], "timeout": 1500},
    ],
    "rule": "evaluations = SEARCH / UID SEARCH commands answered by the real server and judged in Lean; "
            "non-trivial = the server, the Lean model and the RFC predicate agree on an answer that is a proper, non-empty part of the view",
    "trusted_base": [
        "Lean 4.33.0 kernel; axioms limited to propext, Classical.choice, Quot.sound (audited per theorem)",
        "hand-written model GluonModel/Model/Search.lean of handleSearch / Mailbox.Search / buildSearchOp* / applySearch / "
        "resolveSeqInterval / resolveUIDInterval / Header.Get, tied to the real server by the wire-level oracle c15search "
        "(differential testing against the model's prediction for the same view and message data, not proof)",
        "hand-written model GluonModel/Model/SearchSched.lean of the goroutines of parallel.DoContext as a schedule of per-index calls "
        "(each call writes its own slot); that DoContext hands out every index of the view exactly once is the hypothesis Covers of "
        "parallel_agrees_with_serial, tied to the real server by the `big` scenarios of the oracle (views of 131 / 257 / … messages on "
        "the server with parallel evaluation, compared with the model and with the server built with WithDisableParallelism)",
        "reference semantics GluonModel/Spec/SearchSpec.lean (RFC 3501 6.4.4 key by key; INTERNALDATE day = the UTC day the server "
        "reports in FETCH INTERNALDATE; Date-header day = the day named in the header's own zone; envelope keys read as HEADER keys)",
        "abstract message data: size/date (GetMessageDateAndSize), literal (store), body (rfc822.Parse), Date parsing "
        "(rfc5322.ParseDateTime), charset decoding (golang.org/x/text ianaindex decoders) are values the oracle knows by construction or "
        "computes with the same library; they are inputs of the model, not modelled",
        "header entries and merged (unfolded) values: hand-written model GluonModel/Model/SearchHeader.lean (hdrOfLiteral = C13's entry "
        "parser Rfc822.parseEntries + unfold = rfc822.mergeMultiline with bytes.TrimSpace on UTF-8), tied to rfc822.NewHeader + "
        "Header.Entries by the correspondence dialect c15-unfold (differential testing), and to every message of the wire oracle by "
        "judge-c15-hdr (the fields / unfolded values the generator claims = what the model derives from the stored literal)",
        "oracle harness/o_search.go (message generator's knowledge of header fields / unfolded values / body / dates; view taken from the "
        "observer's own FETCH 1:* (UID FLAGS)); verif hooks VerifHold / VerifBarrier / VerifStates (verif_api.go)",
    ],
    "assumptions": [
        "search_is_filter_partial carries the named hypotheses Search.LeafOK per key kind (ZoneFree for SINCE, FieldOK for HEADER and the "
        "envelope keys, SentParsable+HeadersOk for SENT*, non-empty view / SetSmall / NoStarAbove for UID and sequence sets); each excluded "
        "case has a witness theorem that the oracle replays on the real server (scenarios since-zone, header-dup, header-empty, "
        "named-dup, named-empty, sent-unparsable, uid-empty-mailbox, uid-star-above, seq-beyond-count); scenario charset-unsupported is the regression of fix 3279020",
        "the model starts at the parsed command (command.Search): number, date text and astring parsing are C10/C11/C16's (the oracle only checks that a number of 2^32 or more is answered BAD)",
        "strings.ToLower / bytes.ToLower are modelled on ASCII letters only; the oracle generates cased letters in ASCII only (non-ASCII text is caseless or lower case) "
        "and only well-formed UTF-8 in header values of the wire oracle (strings.ToLower maps ill-formed bytes to U+FFFD; ill-formed bytes are covered for unfolding only, dialect c15-unfold)",
        "gluon's unfolding is mergeMultiline, not RFC 5322 unfolding: CRLF with ALL the white space around it reads as one blank (RFC: only the CRLF goes, "
        "so CRLF TAB would read as a tab); the reference semantics takes the value Header.Get answers as THE field value, so this is not reported as a deviation",
        "every message of the view is loadable from database and store (gluon keeps messages a live state references; exercised by the "
        "expunged-elsewhere worlds); context cancellation, store/database failures are not modelled",
        "parallel evaluation: parallel_agrees_with_serial holds for every schedule that covers the view (Covers); the number of workers "
        "the real server uses is runtime.NumCPU() / concurrent searches, so on a one-CPU machine the oracle's parallel server takes the "
        "serial path too (stat worlds.par1.view>=128 counts the large views searched with parallelism enabled); which of several errors is reported is not compared",
        "sequence-number classes owned by C16 are recorded, not judged here: a number above the count answered OK (RFC: BAD), UID n:* above the highest UID",
    ],
    "explanation": "Lean theorems over the SEARCH model for all key trees, views and message data: every answer is ascending and duplicate-free and "
                   "drawn from the view; under the named per-key hypotheses it is exactly the filter of the view by the RFC predicate; NOT = complement, "
                   "serial = parallel evaluation for every covering schedule, ON d = NOT BEFORE d BEFORE d+1, "
                   "OR = union, list/juxtaposition = intersection, UID SEARCH = same messages by UID; a header-string key tests the UNFOLDED value of the first field of its name "
                   "and nothing else (header_key_on_unfolded, search_on_unfolded), a line break with the white space around it reads as one blank wherever it stands "
                   "(unfold_folded, fold_placement_irrelevant; folded_subject_witness: a string spanning a fold matches although it is not in the raw header block); "
                   "per-key lemmas and witnesses for each deviation. "
                   "The model is tied to the real server by the wire-level oracle, whose every answer is judged in Lean against model and RFC spec.",
}
