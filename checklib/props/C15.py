SPEC = {
    "id": "C15",
    "level": "proof",
    "theorem_modules": ["GluonModel.Theorems.C15"],
    "correspondences": [],
    "oracles": [
        # whole server over TCP, mailboxes known by construction, views that still hold messages expunged elsewhere
        # (VerifHold / Barrier), generated SEARCH / UID SEARCH trees (depth <= 6, every key kind, CHARSET variants),
        # with and without WithDisableParallelism; every answer is judged by the Lean model + RFC spec
        # (judge-c15-search). The witnesses of Theorems/C15.lean are replayed first.
        {"name": "c15search", "quick_args": ["-n", "300"], "thorough_args": ["-n", "10000"], "timeout": 1500},
    ],
    "rule": "evaluations = SEARCH / UID SEARCH commands answered by the real server and judged in Lean; "
            "non-trivial = the server, the Lean model and the RFC predicate agree on an answer that is a proper, non-empty part of the view",
    "trusted_base": [
        "Lean 4.33.0 kernel; axioms limited to propext, Classical.choice, Quot.sound (audited per theorem)",
        "hand-written model GluonModel/Model/Search.lean of handleSearch / Mailbox.Search / buildSearchOp* / applySearch / "
        "resolveSeqInterval / resolveUIDInterval / Header.Get, tied to the real server by the wire-level oracle c15search "
        "(differential testing against the model's prediction for the same view and message data, not proof)",
        "reference semantics GluonModel/Spec/SearchSpec.lean (RFC 3501 6.4.4 key by key; INTERNALDATE day = the UTC day the server "
        "reports in FETCH INTERNALDATE; Date-header day = the day named in the header's own zone; envelope keys read as HEADER keys)",
        "abstract message data: size/date (GetMessageDateAndSize), literal (store), header entries and merged values "
        "(rfc822.NewHeader/getMerged: C13's model), body (rfc822.Parse), Date parsing (rfc5322.ParseDateTime), charset decoding "
        "(golang.org/x/text ianaindex decoders) are values the oracle knows by construction or computes with the same library; "
        "they are inputs of the model, not modelled",
        "oracle harness/o_search.go (message generator's knowledge of header fields / unfolded values / body / dates; view taken from the "
        "observer's own FETCH 1:* (UID FLAGS)); verif hooks VerifHold / VerifBarrier / VerifStates (verif_api.go)",
    ],
    "assumptions": [
        "search_is_filter_partial carries the named hypotheses Search.LeafOK per key kind (ZoneFree for SINCE, FieldOK for HEADER and the "
        "envelope keys, SentParsable+HeadersOk for SENT*, non-empty view / SetSmall / NoStarAbove for UID and sequence sets); each excluded "
        "case has a witness theorem that the oracle replays on the real server (scenarios since-zone, header-dup, header-empty, "
        "named-dup, named-empty, sent-unparsable, uid-empty-mailbox, uid-star-above, seq-beyond-count); scenario charset-unsupported is the regression of fix 3279020",
        "the model starts at the parsed command (command.Search): number, date text and astring parsing are C10/C11/C16's (the oracle only checks that a number of 2^32 or more is answered BAD)",
        "strings.ToLower / bytes.ToLower are modelled on ASCII letters only; the oracle generates cased letters in ASCII only (non-ASCII text is caseless or lower case)",
        "every message of the view is loadable from database and store (gluon keeps messages a live state references; exercised by the "
        "expunged-elsewhere worlds); context cancellation, store/database failures are not modelled",
        "parallel.DoContext is modelled by the sequential loop (each index writes its own slot); which of several errors is reported is not compared",
        "sequence-number classes owned by C16 are recorded, not judged here: a number above the count answered OK (RFC: BAD), UID n:* above the highest UID",
    ],
    "explanation": "Lean theorems over the SEARCH model for all key trees, views and message data: every answer is ascending and duplicate-free and "
                   "drawn from the view; under the named per-key hypotheses it is exactly the filter of the view by the RFC predicate; NOT = complement, "
                   "OR = union, list/juxtaposition = intersection, UID SEARCH = same messages by UID; per-key lemmas and witnesses for each deviation. "
                   "The model is tied to the real server by the wire-level oracle, whose every answer is judged in Lean against model and RFC spec.",
}
