SPEC = {
    "id": "C10",
    "level": "proof",
    "theorem_modules": ["GluonModel.Theorems.C10"],
    "correspondences": [
        {"dialect": "parse", "quick_n": 6000, "thorough_n": 400000, "judge": "judge-c10-parse"},
        {"dialect": "c10pipe", "quick_n": 2400, "thorough_n": 40000, "judge": "judge-c10-pipe"},
    ],
    "oracles": [
        {"name": "c10pipeline", "quick_args": ["-rounds", "12"], "thorough_args": ["-rounds", "300"], "timeout": 900},
    ],
    "trusted_base": [
        "Lean 4.33.0 kernel; axioms limited to propext, Classical.choice, Quot.sound (audited per theorem)",
        "hand-written model GluonModel/Model/Parse/{Scanner,Prim,Ast,Grammar}.lean of rfcparser/{scanner,parser}.go and imap/command/*.go (every parsing function, explicit fuel), tied to the real command.Parser by the `parse` / `parsebad` / `c10pipe` correspondence dialects (differential testing on generated valid commands, pipelined streams of them and malformed streams, not proof)",
        "the printer GluonModel/Model/Parse/Print.lean is the definition of 'the command as written' the theorems speak about (read it: it is the RFC 3501 grammar in the printing direction)",
        "Go side: bufio.Reader semantics (chunking), time.Date (dates are compared as Unix seconds + zone offset)",
        "values vs memory: a model command is a value, a Go command.Command is handed by reference to the session goroutine while the same parser reads on. Tied by (a) fact Generated/Facts/ParseAlias.lean regenerated from rfcparser/parser.go + imap/command (theorem literal_result_fresh: every slice ParseLiteral returns is created in that call; the []byte payload fields and what is assigned to them are listed), (b) the `c10pipe` dialect, whose implementation runner keeps every returned command and renders all of them only after the last Parse of the stream, (c) the wire oracle `c10pipeline` (pipelined APPEND/SEARCH/STATUS/LIST/SELECT/LOGIN/ID with literals on one connection, mailbox read back byte for byte)",
    ],
    "assumptions": [
        "the model consumes a byte list; how the bytes are split across network reads is covered by the correspondence only (random chunk sizes through bufio.Reader + InputCollector, constructed as internal/session does; `c10pipe` also hands out everything at once, chunks up to 9000 bytes, and 64-byte aligned chunks)",
        "goroutine timing at the wire (whether the reader overwrites before the handler reads) is explored, not enumerated: the `c10pipeline` oracle sends each pipeline in one write and in the RFC-compliant wait-for-continuation way",
        "token offsets and error message texts are not modelled (they only feed error messages)",
        "keyword comparison: strings.ToLower / EqualFold on the words concerned add no match beyond ASCII case folding (argued in Grammar.lean; covered by 8-bit bytes in the generators)",
    ],
    "explanation": "Lean round-trip theorem cmd_roundtrip: parse(print c cmd ++ tail) = cmd with exactly the line consumed, for all 28 commands of the dispatch table + DONE, all well-formed argument values, all encoding/case choices (plus the component theorems string/number/seqset/flaglist/date/datetime/searchkey (structural induction, any depth)/fetchattr/section/partial_roundtrip); the model is tied to the real parser by differential testing with random chunking; a judge compares the real parser's answer with the generated abstract command. Pipelines: pipeline_command_independent (from ANY parser state whose unread input starts with the printed line, Parse returns that command and consumes that line) and pipeline_roundtrip (the reader loop on one parser returns exactly the written commands in order, any number, any encodings); literal_result_fresh (fact regenerated from source); judge-c10-pipe on the real parser: each command of a pipelined stream is the written one and still is after the following commands were parsed; oracle c10pipeline the same over TCP. Coverage note: UNDER THEOREM: every command (CAPABILITY IDLE NOOP LOGOUT CHECK CLOSE EXPUNGE UNSELECT STARTTLS LOGIN SELECT EXAMINE CREATE DELETE SUBSCRIBE UNSUBSCRIBE RENAME LIST LSUB STATUS STORE COPY MOVE UID{COPY,MOVE,FETCH,SEARCH,STORE,EXPUNGE} FETCH APPEND SEARCH ID DONE). EXCLUDED from the theorem by a named condition, each with a witness theorem and flagged by the judge on the real code (known findings): '[' inside atoms/tags (lbracket_atom_witness), list-mailbox written as a literal (list_literal_witness). The empty literal {0} (#17, repaired by e5f2a7d) is inside string_roundtrip. ONLY UNDER CORRESPONDENCE: chunking of the byte stream across network reads, leading zeros of numbers, 8-bit bytes inside quoted strings, repeated ID keys (map semantics), that a returned command keeps its value while the parser reads on (c10pipe late rendering + c10pipeline oracle + fact literal_result_fresh).",
    "coverage_note": "all commands under cmd_roundtrip, pipelines of them under pipeline_roundtrip; excluded inputs: '[' in atoms, literal list-mailbox (witness theorems + judge = known findings); chunking / leading zeros / duplicate ID keys only under correspondence",
}
