SPEC = {
    "id": "C19",
    # partial by nature: data-race freedom of unguarded fields and scheduler-dependent liveness are not
    # decidable by theorem (DESIGN.md section 11)
    "level": "other",
    "theorem_modules": ["GluonModel.Theorems.C19"],
    "correspondences": [],
    "oracles": [
        # recorded histories of the real async.QueuedChannel, judged in Lean (judge-c19-queue replays every
        # history on the transition system), + termination probes; `stateclose` = the real State.Close with
        # unread updates (regression for #13a, label `c19queue #13a`)
        {"name": "c19queue", "quick_args": ["-n", "400"], "thorough_args": ["-n", "100000"], "timeout": 2500},
        # the teardown protocol on the real server: RemoveUser / Close return, no goroutine left. Labels:
        # `c19teardown ctxcancel-hang` (regression for #13c), `c19teardown #13d` (regression: removeState closes the
        # state also when its DB write fails), `c19teardown #13a-errch` (regression: Server.Close discards serveErrCh)
        # Directed scenarios on every seed (+ -n random ones): every way a session can END in every protocol state -
        # client reset / close while a FETCH of 8 MiB is producing and the client does not read (response channel and
        # socket buffers full), reset / close in a literal, IDLE left by DONE / a malformed line / another command /
        # close / reset / reset right behind IDLE or DONE / RemoveUser / Server.Close / a cancelled Serve context,
        # LOGOUT pipelined behind the FETCH; labels `c19teardown hang` (names the blocked goroutines),
        # `c19teardown leak` (names the goroutines left, baseline subtracted), `c19teardown command-incomplete`.
        # `inflight` scenarios (5 directed on every seed + `-inflight N` random, default 3): the connector keeps publishing
        # updates on an UNBUFFERED channel (scripted wrapper of the dummy connector) and RemoveUser / Server.Close start the
        # moment the k-th update has been taken by the update injector's forwarder (k = 1, 2, 3, 8, 50, random), Noop /
        # MailboxCreated updates, with and without sessions; label `c19teardown inflight-hang` (10 s watchdog).
        # `-stalled` (known finding K-removeuser-stalled-writer): RemoveUser while a non-reading client is still connected (`c19teardown stalled-writer`).
        {"name": "c19teardown", "quick_args": ["-n", "6", "-stalled"], "thorough_args": ["-n", "400", "-stalled"], "timeout": 3000},
        # SEARCH ONLY, thorough tier: the same scenarios + the snapshot-race scenario under a `go build -race`
        # harness; label `c19race #13b` (removeState reads another session's snapshot), `c19race data-race` otherwise
        {"name": "c19race", "quick_args": ["-skip"], "thorough_args": ["-hist", "5000", "-teardown", "40", "-snaprace", "15", "-updrace", "40"], "timeout": 3000},
    ],
    "rule": "evaluations = recorded QueuedChannel histories + termination probes + whole-server teardown scenarios; "
            "non-trivial = the Lean judge replayed a history with >0 items on the model (interleaved producers / discard / plain FIFO), "
            "a probe whose outcome matched the model, or a teardown that returned with the goroutine count back at the baseline",
    "trusted_base": [
        "Lean 4 kernel; axioms limited to propext, Classical.choice, Quot.sound (audited per theorem); `decide +kernel` for the regenerated lock table",
        "hand-written transition systems GluonModel/Model/Conc.lean of async.QueuedChannel, of Mutex/RWMutex semantics and of the teardown protocol of internal/backend (user.close/removeState/statesWG, RemoveUser/Close under usersLock, session.done); tied to the code by recorded histories (queue) and whole-server scenarios (teardown), not by proof",
        "facts translator harness/facts_locks.go (go/types over internal/backend, store, async, internal/db_impl/sqlite3 and the gluon packages they import; third-party imports replaced by empty packages): the *events* per function are trusted; summaries and lock ranks are certificates re-checked by GluonModel/Model/ConcFacts.lean",
        "hand-written transition systems GluonModel/Model/ConcCmd.lean of one command's response pipeline (producers, 8-slot channel, serve loop, drainer) and of the per-IDLE forwarder; tied to the code by the syntactic facts of harness/facts_c19gostop.go (Generated/Facts/GoStop.lean: shapes of State.Idle, endIdle, handleIdle's forwarder, serve's failed-Send branch, handleOther, the command reader; the list of goroutine starts of internal/session and internal/state) and by the whole-server teardown scenarios",
        "hand-written transition system GluonModel/Model/ConcCmd.lean section 3 of the update injector's forwarder, the user's update goroutine and user.close's order (reader stopped first, injector closed second); tied to the code by harness/facts_c19goloops.go (Generated/Facts/GoLoops.lean: syntactic; calls followed by unique name inside the package to depth 4, function literals not entered, `for range` over a channel recognised by name only) and by the in-flight teardown scenarios",
        "Go runtime: runtime.NumGoroutine / runtime.Stack / WaitGroup as the observation of 'goroutine gone'",
    ],
    "assumptions": [
        "lock identity is per declaring type + field path (lock classes, as in lockdep); two instances of one class are not told apart",
        "held-lock sets are lexical per function in source order (branches and early returns are not followed); locks held by all callers count only for unexported functions / literals whose every use is a checked call site",
        "an interface call through an own field inside a method of T is not resolved to T's own method (decorators wrap another instance; listed in Generated/Facts/Locks.lean)",
        "function literals handed to third-party / standard-library code are assumed to run at that site for the lock order; only known synchronous helpers (juniper xslices/xmaps, x/exp slices/maps, sort, sync.Once) let them inherit the held set for guarded accesses",
        "context.CancelFunc values called under a lock are standard-library leaves",
        "teardown_completes: each session loop observes Done (named hObservesDone) - nothing else; failures of removeState's DB read / DB write and of connector.Close are part of the model",
        "blocking on channels / WaitGroups while holding a lock is modelled only inside the teardown protocol (statesWG.Wait under usersLock)",
        "command pipeline model: producers publish by plain blocking sends (as Mailbox.Fetch does: `ch <- response`, no select on the context); a session blocked in conn.Write because its client neither reads nor disconnects is outside hObservesDone (RemoveUser then waits for that client; oracle scenario behind `-stalled`)",
    ],
    "explanation": (
        "PARTIAL PROOF. THEOREMS (all interleavings, unbounded threads/sessions/items, over the models): "
        "queue_fifo_lossfree, queue_sealed_after_close, queue_no_lost_wakeup, queue_consumer_exits_partial, "
        "queue_close_blocks_without_reader, queue_close_leak_witness (plain Close), state_close_consumer_exits (full "
        "strength: what State.Close uses), server_errch_close_classified (the same for Server.Close's error channel), "
        "queue_discard_consumer_exits, acyclic_no_deadlock, lockset_no_conflict, teardown_safe (no assumption: every "
        "state created is closed once Close has returned), teardown_completes "
        "(only assumption: session loops observe Done), teardown_ctxcancel_now_completes (regression run of the "
        "repaired hang), teardown_writefail_now_clean (regression run of #13d), teardown_stuck_without_observe_witness, "
        "command_drained_completes (a command goroutine finishes for every interleaving and every failing write because the "
        "failed-Send path keeps draining its channel), command_undrained_stuck + command_undrained_stuck_witness (without the drain it never "
        "does), idle_forwarder_exits (the per-IDLE forwarder exits on every way out of IDLE: endIdle is deferred), "
        "idle_not_deferred_leak_witness, session_goroutines_classified (the goroutine starts of internal/session and "
        "internal/state are exactly the modelled four), forwarder_close_returns (updateInjector.Close / user.close return for every "
        "interleaving of connector publishes, deliveries and the teardown steps, the reader of updatesCh being stopped first: the "
        "forwarder watches forwardQuitCh as far as the regenerated facts say), forwarder_unwatched_send_stuck_witness (without the "
        "quit case in the hand-over select Close never returns). "
        "FACTS (regenerated from /repo on every run, decided by the kernel): lock_facts_checked / lockorder_acyclic "
        "(lock-order graph incl. calls, literals and callbacks run under callee locks has no cycle), guarded_access "
        "(user.states, Backend.users, WriteControlledStore.entryTable, QueuedChannel.items accessed only under their "
        "lock), facts_lockorder_no_deadlock, stateCloseDiscards = some true and serverErrChDiscards = some true (inside "
        "state_close_consumer_exits / server_errch_close_classified), GoStop facts sendFailDrains / commandClosesRespCh / respChCap / "
        "backend_loops_watch_quit (Generated/Facts/GoLoops.lean, harness/facts_c19goloops.go: the goroutines of internal/backend are the "
        "injector's forwarder and the user's update goroutine, and every blocking channel operation reachable from their bodies, helper "
        "methods included, sits in a select with a returning case on the goroutine's own quit channel closed by its Close; ctx.Done() of the "
        "background context does not count), "
        "idleEndDeferred / endIdleClosesCh / idleForwarderStopsOnClose / readerStops / serveDefersDoneAndWait / unknownSpawns = [] "
        "(unknown shapes are `none` and fail the theorem). SEARCH ONLY (no proof): data-race freedom of fields no lock guards (State.snap "
        "read by foreign goroutines, #13b), scheduler-dependent liveness, whole-server behaviour: oracles c19queue "
        "(histories of the real queue must be model runs; termination probes incl. the real State.Close), c19teardown "
        "(RemoveUser/Close return, goroutine count returns to baseline, after sessions ended in every way in every protocol "
        "state: reset/close under a large FETCH nobody reads, in a literal, in IDLE, IDLE left by DONE / malformed line / cancelled "
        "context, pipelined LOGOUT; RemoveUser / Close while connector updates are in flight on an unbuffered channel; regression scenarios for #13a/#13c/#13d/#13a-errch) and, "
        "thorough tier, c19race (the same scenarios, a snapshot-race scenario and an updates-vs-login/logout scenario under "
        "`go build -race`), plus the "
        "lead's TCP stress harness."
    ),
}
