SPEC = {
    "id": "C09",
    "level": "proof",
    "theorem_modules": ["GluonModel.Theorems.C09"],
    "correspondences": [
        {"dialect": "store", "quick_n": 1200, "thorough_n": 20000, "judge": "judge-c09-store"},
        {"dialect": "store-size", "quick_n": 60, "thorough_n": 600},
    ],
    "oracles": [
        {"name": "c09store", "quick_args": ["-tier", "quick"], "thorough_args": ["-tier", "thorough"], "timeout": 1500},
    ],
    "trusted_base": [
        "Lean 4.33.0 kernel; axioms limited to propext, Classical.choice, Quot.sound (audited per theorem)",
        "hand-written model GluonModel/Model/Store.lean of onDiskStore.Set/Get/Delete/List (store/disk.go) over a directory map, tied by the `store` and `store-size` correspondence dialects (differential testing against the real store in a temp dir, not proof)",
        "hand-written transition system GluonModel/Model/StoreLock.lean of WriteControlledStore.acquireSyncRef/releaseSyncRef + sync.RWMutex + sync.Pool (no correspondence possible at that granularity without instrumenting the code; tied only by reading, and by the oracle's exclusion probe reproducing the schedule class of the witness)",
        "facts translator harness/facts_store.go (go/ast): blockSize, header bytes, Seal/Open called with the file nonce and nil additional data, io.EOF swallowed in Get, a piece that does not open closes the pipe with that error (openFailureFailsPipe, syntactic recogniser of the statement after c.gcm.Open)",
        "AES-GCM (crypto/cipher), as hypotheses: Open(Seal x) = x, |Seal x| = |x| + Overhead (structure Laws); idealised integrity: Open succeeds only on outputs of Seal for the same key and nonce (structure AEAD) and the altered piece is not such an output (hypothesis Unforged)",
        "pierrec/lz4 v4 frame writer/reader, as hypotheses: reader(writer b) = b (Laws.decode_compress); the reader finishes exactly at the end mark and a frame is non-empty (structure LZ4Seq); the reader returns io.EOF on an empty source (EmptyIsEOF, observed)",
        "OS file API: regular-file reads return full pieces of blockSize+Overhead until end of file; O_TRUNC + sequential writes; os.Remove; filepath.Walk lists exactly the files of the directory",
        "oracle harness/o_store.go and the Go scheduler for the concurrency part (8-goroutine histories and the exclusion probe are testing)",
    ],
    "assumptions": [
        "AEAD hypothesis (idealised, a computational assumption stated as exact): gcm.Open succeeds only on outputs of gcm.Seal under the same key and nonce; nothing sealed under one (key, nonce) opens under another",
        "Unforged: whoever altered the file cannot produce a ciphertext piece that is an output of Seal under the store's key and the file's nonce (other than whole sealed blocks already in the file)",
        "LZ4 hypotheses: decode(compress b) = b; the reader stops at the end mark and cannot finish before it; for truncation on a block boundary additionally LZ4PrefixRejected (the reader rejects that strict prefix followed by end of stream) - FALSE for the real reader at LZ4 data-block boundaries and for the empty prefix (findings C09-F1, C09-F2)",
        "rand.Read fills the whole nonce (nonce.length = gcm.NonceSize()); no two files share (key, nonce)",
        "OS: no I/O errors, no short reads on regular files (a read error with 0 bytes read is treated by Get like end of file - not modelled), Set is not atomic on disk: what a crash leaves is a truncated file (covered by the truncation theorems), no foreign files in the store directory (List would report them as the zero id)",
        "lock table: readers/writer exclusion per id is proved only for schedules in which releaseSyncRef is not interrupted between its decrement and its cleanup (AtomicRelease); in general it is false (theorem rw_exclusion_fails, finding C09-F4); SetUnchecked/DeleteUnchecked bypass the table and are out of scope; Go memory model (plain write `v.counter = 1` racing with atomic ops) not modelled",
        "Fallback readers (WithFallback, store/fallback_v0) are modelled as an arbitrary function and excluded (fallback = none) where a theorem needs the header check to be final; Semaphore (store/semaphore.go) only limits concurrency and is not modelled (the oracle also runs with it)",
    ],
    "explanation": "Lean theorems over the store model for all contents of all lengths (abstract AES-GCM/LZ4 with explicit hypotheses) and over the lock-table transition system for all schedules (partial: atomic release); constants regenerated from store/disk.go; model tied to the real store by differential testing; oracle on the real store: round trips across block boundaries, every structural corruption (also on contents constructed with the real compressor so that sealed block 1, 2 or 3 starts exactly at an LZ4 data-block boundary, where a damaged later block is told from a clean end of data only by the decrypt error reaching the LZ4 reader), 8-goroutine histories, lock-table exclusion probe",
}
