SPEC = {
    "id": "C20",
    "level": "proof",
    "theorem_modules": ["GluonModel.Theorems.C20"],
    "correspondences": [],
    "oracles": [
        {
            "name": "c20append",
            # -n: random walks; -life: directed histories message shape x remote decision (reject / accept /
            # de-duplicate) x COPY/MOVE destination; -names: directed sweeps command x spelling of the recovery name
            "quick_args": ["-n", "100", "-steps", "30", "-life", "60", "-names", "45"],
            "thorough_args": ["-n", "1800", "-steps", "36", "-life", "700", "-names", "500"],
            "timeout": 3000,
        },
    ],
    "rule": "evaluations = commands run against the real server (each followed by a read-back of every mailbox and compared with the Lean model's prediction); non-trivial = commands on which the Lean judge judge-c20-append had something of C20 to decide (an APPEND answered OK or NO, a command naming the recovery mailbox in any spelling - letter case, literal, modified UTF-7, separators and blanks around it, inferior / superior paths -, a LIST while it is non-empty, a COPY/MOVE out of it); three kinds of sequences: random walks, directed histories message shape (14 MIME shapes, 5 of them unhashable) x remote decision (reject / accept / de-duplicate) x COPY/MOVE destination (the mailbox holding the duplicate / another / a fresh one), directed sweeps command x spelling; plus one comparison per MIME shape of rfc822.GetMessageHash with the model's leavesHashOk",
    "trusted_base": [
        "Lean 4.33.0 kernel; axioms limited to propext, Classical.choice, Quot.sound (audited per theorem)",
        "hand-written model GluonModel/Model/Append.lean of handleAppend / Mailbox.Append / AppendRegular / the actions behind APPEND, COPY, MOVE, EXPUNGE / MessageHashesMap / the recovery-mailbox rules of State.Create, Delete, Rename, List / stateDBWrite as rollback / newUser's rebuild of the hash map; tied to the real server by the oracle c20append (differential testing of every answer and every mailbox content after every command, not proof)",
        "facts translator harness/facts_append.go (go/ast): recovery mailbox constants, header fields GetMessageHash reads, call order in actionCreateRecoveredMessage / actionMoveMessagesOutOfRecoveryMailbox / actionRemoveMessagesFromMailboxUnchecked, name guards, errors exempt from the recovery insert, control-flow skeleton (if-conditions, loops, continue/break, assignments to a parameter) of actionCreateRecoveredMessage / actionImportRecoveredMessage / actionCopy-/MoveMessagesOutOfRecoveryMailbox / actionAddRecoveredMessagesToMailbox / State.Delete (theorem source_facts_today)",
        "harness/conn_fail.go: connector.Dummy wrapped so that CreateMessage / AddMessagesToMailbox / RemoveMessagesFromMailbox / MoveMessages fail on a script (fixed in advance, or planned step by step by the directed scenarios of harness/o_append_directed.go; the replay file holds the script that was played), and an on-disk store whose Set fails on a script; harness/o_append.go decodes fetched literals byte for byte",
        "the table of MIME shapes (harness/o_append.go c20Shapes <-> Driver/DAppend.lean shapeLeaves): which leaves a generated literal has as hashBody sees them; compared per shape with rfc822.GetMessageHash / rfcvalidation / imap.NewParsedMessage on the literal (c20ShapeTie)",
    ],
    "assumptions": [
        "rfc822.GetMessageHash is an arbitrary function H of the fields it reads (Subject, addresses of From/To/Cc/Reply-To/In-Reply-To, per leaf part MIME type + parameters except boundary, Content-Disposition, decoded trimmed body); everything else of a literal (Date, Message-Id, other headers) is invisible to it",
        "the connector echoes the literal on CreateMessage (connector.Dummy does) and reports an existing remote ID only for a byte-identical literal; a failing connector call has no effect on the remote",
        "freshly generated UUIDs (remote message IDs, imap.NewInternalMessageID) do not collide with IDs in use (hypothesis IdsFresh of append_ok_exact and recovery_*_out_can)",
        "one session whose snapshot equals the database (true after each completed command of a single session); connector-initiated updates are not delivered during a sequence (the harness never flushes the Dummy's queue and does not Sync on restart)",
        "mailbox names: ASCII case folding only; flat names; INBOX treated as an ordinary name; RENAME INBOX and hierarchical CREATE/RENAME are outside the model (answered `unsupported`: the comparison with the model stops at such a step, the judge - which needs no model - goes on); a name sent with a modified-UTF-7 escape for an ASCII character is refused by the session layer's decoder (NO) and modelled as such in the driver, SELECT / EXAMINE / STATUS / SUBSCRIBE / UNSUBSCRIBE are not commands of the model (state unchanged, answer left open)",
        "imap.NewParsedMessage accepts every literal rfcvalidation accepts (no literal was found that separates them: `Lit.parseOk = false` is never exercised on the real server)",
        "the message a de-duplicating import lands on carries the same bytes (recovery_*_out_arrives speak about internal IDs; that the ID the connector recognised holds the same bytes is checked on the real server by the judge, by message key)",
        "the second transaction of stateDBWrite (queueing the state updates) does not fail; database faults other than the scripted failure of the message insert are out of scope (C08)",
        "store garbage collection at restart (deleteAllMessagesMarkedDeleted, cleanupStaleStoreData) is not modelled: it only removes literals no mailbox refers to",
    ],
    "explanation": "Lean theorems over the APPEND/recovery model for every failure script and every command sequence (reachable states), for hashable and unhashable literals, de-duplicated or not; witnesses for every named hypothesis, replayed on the real server (corpus/C20); the model is tied to the real server over TCP with a failing connector and store (random walks and directed histories); facts regenerated from the source (constants, call order, guards, control-flow skeleton of the recovery path)",
}
