SPEC = {
    "id": "C20",
    "level": "proof",
    "theorem_modules": ["GluonModel.Theorems.C20"],
    "correspondences": [],
    "oracles": [
        {
            "name": "c20append",
            "quick_args": ["-n", "150", "-steps", "30"],
            "thorough_args": ["-n", "2500", "-steps", "36"],
            "timeout": 3000,
        },
    ],
    "rule": "evaluations = commands run against the real server (each followed by a read-back of every mailbox and compared with the Lean model's prediction); non-trivial = commands on which the Lean judge judge-c20-append had something of C20 to decide (an APPEND answered OK or NO, a command naming the recovery mailbox, a LIST while it is non-empty, a COPY/MOVE out of it)",
    "trusted_base": [
        "Lean 4.33.0 kernel; axioms limited to propext, Classical.choice, Quot.sound (audited per theorem)",
        "hand-written model GluonModel/Model/Append.lean of handleAppend / Mailbox.Append / AppendRegular / the actions behind APPEND, COPY, MOVE, EXPUNGE / MessageHashesMap / the recovery-mailbox rules of State.Create, Delete, Rename, List / stateDBWrite as rollback / newUser's rebuild of the hash map; tied to the real server by the oracle c20append (differential testing of every answer and every mailbox content after every command, not proof)",
        "facts translator harness/facts_append.go (go/ast): recovery mailbox constants, header fields GetMessageHash reads, call order in actionCreateRecoveredMessage / actionMoveMessagesOutOfRecoveryMailbox / actionRemoveMessagesFromMailboxUnchecked, name guards, errors exempt from the recovery insert (theorem source_facts_today)",
        "harness/conn_fail.go: connector.Dummy wrapped so that CreateMessage / AddMessagesToMailbox / RemoveMessagesFromMailbox / MoveMessages fail on a script, and an on-disk store whose Set fails on a script; harness/o_append.go decodes fetched literals byte for byte",
    ],
    "assumptions": [
        "rfc822.GetMessageHash is an arbitrary function H of the fields it reads (Subject, addresses of From/To/Cc/Reply-To/In-Reply-To, per leaf part MIME type + parameters except boundary, Content-Disposition, decoded trimmed body); everything else of a literal (Date, Message-Id, other headers) is invisible to it",
        "the connector echoes the literal on CreateMessage (connector.Dummy does) and reports an existing remote ID only for a byte-identical literal; a failing connector call has no effect on the remote",
        "freshly generated UUIDs (remote message IDs, imap.NewInternalMessageID) do not collide with IDs in use (hypothesis IdsFresh of append_ok_exact and recovery_*_out_can)",
        "one session whose snapshot equals the database (true after each completed command of a single session); connector-initiated updates are not delivered during a sequence (the harness never flushes the Dummy's queue and does not Sync on restart)",
        "mailbox names: ASCII case folding only; flat names; INBOX treated as an ordinary name; RENAME INBOX and hierarchical CREATE/RENAME are outside the model (answered `unsupported`, never generated)",
        "the second transaction of stateDBWrite (queueing the state updates) does not fail; database faults other than the scripted failure of the message insert are out of scope (C08)",
        "store garbage collection at restart (deleteAllMessagesMarkedDeleted, cleanupStaleStoreData) is not modelled: it only removes literals no mailbox refers to",
    ],
    "explanation": "Lean theorems over the APPEND/recovery model for every failure script and every command sequence (reachable states); witnesses for every named hypothesis, replayed on the real server (corpus/C20); the model is tied to the real server over TCP with a failing connector and store; facts regenerated from the source",
}
