SPEC = {
    "id": "C07",
    "level": "proof",
    "theorem_modules": ["GluonModel.Theorems.C07", "GluonModel.Theorems.C07SetOS"],
    "correspondences": [
        # every modelled (operation, instance): the recorded storage-step trace of the real operation must equal the
        # model's step list; the judge evaluates the theorems' structural hypotheses on the REAL trace
        # (61 = start-up + 20 operations x 3 instances: ALL of them in both tiers - RENAME INBOX, the connector updates that
        # name messages the server already has, COPY/MOVE onto a mailbox that holds the message, RENAME/DELETE of non-empty
        # hierarchies are instances 1/2 and the operations cknown/dupcopy/rename2/delete2)
        {"dialect": "c07trace", "quick_n": 61, "thorough_n": 61, "judge": "judge-c07-trace"},
    ],
    "oracles": [
        # fault enumeration on the real server in child processes: every step boundary x {kill, error} (+ death /
        # failure inside store.Set), restart on the same directories, compare the WHOLE account over IMAP (every mailbox, every
        # listed message with its exact bytes, with a connector that cannot serve any literal again), audit the store
        # directory; the traces of the runs with an injected error go to the Lean judge `judge-c07-fail` (error handlers).
        # Instances 0..2 are the scripted variants of every operation (quick and thorough); 3,4 only vary the literal size.
        # Restart states with a PARTLY LOST CACHE (modes <mode>+lost1 / <mode>+lostall): for every scenario that writes the store
        # and for the start-up scenario the fault runs from the first store.Set on are repeated with the cache files of one /
        # of all committed messages removed before the restart and a connector that serves literals - rows without a file
        # together with the file without a row the interrupted operation left; same verdict (left-overs removed, every listed
        # message fetched with its exact bytes from the cache or downloaded again; Theorems/C07 leftovers_removed_lost_cache).
        {"name": "c07crash", "quick_args": ["-insts", "0,1,2"], "thorough_args": ["-insts", "0,1,2,3,4"], "timeout": 3000},
        # OS-LEVEL write failures BELOW the store.Store interface, under the real on-disk store: a store-builder wrapper only
        # arranges for the kernel to fail the writes of the next cache file(s) (the file's path pre-created as a symlink to
        # /dev/full = a full disk; RLIMIT_FSIZE at the last byte / in the middle / inside the header = a disk that fills up)
        # and calls the real onDiskStore.Set; APPEND, connector MessageCreated / MessagesCreated / MessageUpdated with cache
        # files of tiny, 4 KiB, 64 KiB -1/0/+1, one store block -1/0/+1, 1 MiB; then: every message listed in every mailbox
        # is fetched with its exact bytes, live and after a restart with a connector that serves nothing, and every real Set
        # that returned nil left a file the real Get reads back exactly (judge-c07os = the named hypothesis SetFaithful of
        # Theorems/C07SetOS.lean; `cause=os-write-error-swallowed`)
        {"name": "c07os", "quick_args": ["-tier", "quick"], "thorough_args": ["-tier", "thorough"], "timeout": 1200},
    ],
    "rule": "evaluations = trace comparisons + fault runs (one child process death / injected error each, plus the restart) + OS-level "
            "write-failure cases of c07os (one operation with the kernel failing the cache file's writes, live view, restart view; "
            "non-trivial = at least one real Set call failed; input_distribution oracle.c07os op.* size.* mode.*); "
            "non-trivial = the run's restart view was the after-state or the before-state of an operation that changes the account "
            "(fault_enumeration: every boundary of every modelled operation instance is enumerated, see input_distribution oracle.c07crash steps.* / runs.*)",
    "trusted_base": [
        "Lean 4.33.0 kernel; axioms limited to propext, Classical.choice, Quot.sound (audited per theorem)",
        "hand-written model GluonModel/Model/Crash.lean: durable state (database with atomic transactions + message store with absent/partial/complete files), "
        "step lists of the operations (`stepsOf`), process death, failing step, start-up recovery; tied to the real code by the `c07trace` dialect "
        "(recorded trace of the real operation == model step list; differential, not proof) and by regenerated source facts (Facts/Crash.lean)",
        "the abstraction of the IMAP-visible state by the log of committed visible statements: SQLite applies a transaction atomically and the statements are "
        "deterministic (SQLite's own atomicity and WAL recovery are TRUSTED, not verified)",
        "statement table (which db.Transaction methods change the acknowledged state): every method not in db.ReadOnly and not a \\Recent-only update counts as visible (conservative)",
        "interposers harness/interpose.go + generated interpose_gen.go (tools/c07gen) around the public db.Client/db.Transaction/store.Store interfaces; the wrappers embed the interfaces and the oracle and the trace dialect "
        "compare the method sets at run time (a changed db interface is reported as `db interface changed: run tools/c07gen`, it does not break the harness build); verifhooks.NewSQLiteDB; Server.VerifBarrier/VerifStates",
        "store-builder wrapper harness/o_c07os.go (gluon.WithStoreBuilder): passes every call to the real store.OnDiskStoreBuilder store; before a "
        "faulted Set it replaces the cache file's path by a symlink to /dev/full or lowers RLIMIT_FSIZE (SIGXFSZ ignored) for the duration of the real "
        "Set; classifies what the call left by the real Get (never through the /dev/full symlink); Sets are serialised while it is installed",
        "facts translator harness/facts_crash.go (go/ast): interface method sets, storage calls of the anchored functions in source order, the collection the cache clean-up loop of applyMessagesCreated ranges over and the if-conditions under which it grows, "
        "the return statements of the two start-up clean-up passes with their guards (source_startup_cleanup_unconditional)",
    ],
    "assumptions": [
        "NAMED hypothesis SetFaithful (Model/CrashSetOS.lean): a store.Set that returns nil has left the complete cache file with the bytes it was given - "
        "every theorem of Theorems/C07.lean reads a recorded store.Set that way; Theorems/C07SetOS.lean states it (real_is_model_partial, "
        "listed_is_cached_real_partial) and shows it is needed (listed_is_cached_needs_SetFaithful); it is CHECKED on the real onDiskStore by the oracle c07os "
        "for write failures the kernel reports at write(2) (ENOSPC from /dev/full, EFBIG at RLIMIT_FSIZE) - errors reported only at close(2) / fsync (NFS, "
        "delayed allocation) are not produced: onDiskStore.Set ignores the result of file.Close() and never fsyncs (see the next assumption)",
        "only PROCESS death and failing storage calls are covered: power loss / missing fsync (cache files and the WAL are not fsynced by gluon), torn sector writes and SQLite's own crash recovery are outside the model and outside the oracle",
        "a transaction commits wholly or not at all, also when the process is killed during COMMIT (SQLite); the oracle kills before and after the commit call, not inside it",
        "death inside store.Set is modelled at two points (header+nonce only; some blocks written) and exercised on the real code by killing the process from inside the reader passed to the real Set",
        "the fault enumeration runs one session and one connector; concurrent operations of other sessions during the interrupted operation are not enumerated",
        "\\Recent and the \\Marked/\\Unmarked LIST attributes are session bookkeeping and not part of the compared state",
        "theorem fail_atomic holds with the named hypothesis HandlerInvisible (the error handler commits nothing visible); it is false for APPEND (fail_atomic_append_counterexample, replayed by the oracle: known finding); "
        "listed_is_fetchable holds with the store discipline (needed: listed_is_fetchable_needs_discipline); the re-download of a lost cache file writes the file of an existing row, which is fine because a truncated file "
        "is reported by store.Get since /repo ad3c4e0 (DESIGN #23 repaired; the oracle's killnonce/killhalf/errhalf runs on the re-download would show a regression as signature=partial-cache-file-of-existing-row-served-as-empty-message)",
        "error handlers (`handlerOf`) are modelled for APPEND (recovery mailbox) and connector MessagesCreated (cache clean-up of the NEW messages of the update); they are not part of the trace correspondence, "
        "but every recorded trace of a run with an injected error is given to the Lean judge `judge-c07-fail`, which evaluates the handler's store discipline (`handlerOk`, hypothesis of fail_listed_is_cached) on the REAL steps after the failed one "
        "and reports whether they are the modelled ones (input_distribution oracle.c07crash failjudge.*)",
        "the connector is gluon's Dummy; it answers GetMessageLiteral (re-download of a lost cache file, from literals kept on disk) ONLY in the `redownload` scenario - in every other scenario it has nothing to offer, live and after the restart, "
        "so a listed message whose cache file gluon removed or never completed cannot be fetched and is reported; remote side effects of an interrupted operation are not rolled back and not part of the property",
        "a storage step whose failure the operation tolerates (store.Get in MessageUpdated / in the re-download) is followed by the rest of the operation, not by a roll-back: the model's `failAt` does not describe these two cases "
        "(the fault runs compare them with the before/after views as usual; the judge `judge-c07-fail` counts them as handler=not-as-modelled)",
    ],
    "explanation": "Lean: for every step list with at most one visible transaction and every step boundary, the restart view is the before- or the after-state (crash_atomic), the same for a failing step up to what the error handler commits (fail_decompose / fail_atomic_partial), "
                   "every row stays fetchable under the store discipline (listed_is_fetchable) - and, for operations that re-download nothing, keeps its COMPLETE cache file, also through the operation's error handler (listed_is_cached / fail_listed_is_cached with the named hypothesis handlerOk; "
                   "false without it: fail_listed_is_cached_needs_handlerOk, a clean-up that deletes the file of a message the server already had) - and start-up removes all left-overs from any state (leftovers_removed), however many rows have lost their cache file in the meantime (leftovers_removed_lost_cache; the source's clean-up passes have no early exit but a failed read: source_startup_cleanup_unconditional); the structural facts are decided for every modelled operation instance "
                   "(operations on pre-existing objects included: connector updates naming known messages, duplicates in one batch, COPY/MOVE onto a mailbox holding the message, RENAME INBOX, RENAME/DELETE of non-empty hierarchies) and re-evaluated by the judges on the traces recorded from the real operation (judge-c07-trace; judge-c07-fail on the faulted runs). "
                   "Below the store interface (Theorems/C07SetOS.lean): with the named hypothesis SetFaithful the execution with the real outcomes of the Set calls is the model's, "
                   "so listed_is_cached holds whatever the operating system did to the writes (listed_is_cached_real_partial); without it an APPEND on a full disk is acknowledged, "
                   "listed after the restart and has no bytes (listed_is_cached_needs_SetFaithful) - the oracle c07os evaluates the hypothesis on the real store with kernel-level write failures. "
                   "Fault enumeration (not a proof): child processes are killed / get an injected error at every recorded step of every operation, the server is restarted on the same directories and compared over IMAP, the store directory is audited against the message rows.",
}
