SPEC = {
    "id": "C16",
    "level": "proof",
    "theorem_modules": ["GluonModel.Theorems.C16"],
    "correspondences": [
        # verifhooks.Resolve = the real getMessagesInSeqRange / getMessagesInUIDRange on views of size
        # {0,1,2,5,40}; 6 ops in 7 with numbers the parser lets through (judged), 1 in 7 with raw Go
        # ints >= 2^32 or negative (compared with the model's uint32 conversions, not judged)
        {"dialect": "resolve", "quick_n": 60000, "thorough_n": 1500000, "judge": "judge-c16-resolve"},
        # the TEXT of a set through the real rfcparser + command.ParseSeqSet, then the real resolve
        # functions; numbers of every magnitude (2^31, 2^32, 2^63, 2^64 neighbourhoods, 10^30), junk
        {"dialect": "seqset-parse", "quick_n": 60000, "thorough_n": 1500000, "judge": "judge-c16-seqset-parse"},
    ],
    "oracles": [
        # whole server over TCP: FETCH, STORE, COPY, MOVE, SEARCH, UID EXPUNGE and their UID forms on
        # mailboxes with 0/1/2/5/40 messages (UIDs with gaps), set texts of every magnitude; each
        # observation is compared with the Lean wire model (c16-wire-model) and judged by the RFC
        # reference selection (judge-c16-wire)
        {"name": "c16wire", "quick_args": ["-n", "500"], "thorough_args": ["-n", "8000"], "timeout": 1500},
        # (agent-wire) second, independently written wire oracle: views built by APPEND or by connector MessagesCreated,
        # with and without UID gaps; additionally UID SEARCH <seq set>, the destination content of COPY/MOVE (by
        # RFC822.SIZE) and a FETCH 1:* (UID FLAGS) probe after STORE; judged by judge-c16-sets (Driver/DJudgeSets.lean:
        # Spec/SeqSetSpec.lean cross-checked against the self-contained twin Spec/SetSelect.lean). Directed: corpus/C16/*.sets
        {"name": "c16sets", "quick_args": ["-cases", "80", "-variants", "2"],
         "thorough_args": ["-cases", "1500", "-variants", "4"], "timeout": 2400},
    ],
    "trusted_base": [
        "Lean 4.33.0 kernel; axioms limited to propext, Classical.choice, Quot.sound (audited per theorem)",
        "hand-written model GluonModel/Model/SeqSet.lean of rfcparser.ParseNumber, command.ParseNZNumber/ParseSeqNumber/ParseSeqRange/ParseSeqSet and snapMsgList.binarySearchByUID/resolveSeq/resolveUID/resolveSeqInterval/resolveUIDInterval/getWithSeqID/existsWithSeqID/seqRange/uidRange/getWithUID/getMessagesInSeqRange/getMessagesInUIDRange (Go int = Int with explicit wrap64, uint32 conversions = toU32, slice/index panics explicit), tied by the dialects resolve and seqset-parse (differential testing, not proof)",
        "reference semantics GluonModel/Spec/SeqSetSpec.lean (RFC 3501 sequence-set selection over a view, numbers unbounded) is the definition of 'correct'; theorem reference_selection_is_rfc_rule relates its executable list to the rule written as predicates",
        "verif hook internal/state/verif_export.go VerifResolve (builds the snapMsgList with insert, cap = len); the parser is reached through the public packages rfcparser and imap/command",
        "golang.org/x/exp/slices.BinarySearchFunc is modelled from its source at the pinned version (loop with h = (i+j)/2)",
        "facts translator harness/facts_msgset.go (go/types): every use of a []command.SeqRange value in internal/session and internal/state -> Generated/Facts/MsgSet.lean, decided by message_sets_reach_only_modelled_functions",
        "wire oracle harness/o_c16wire.go + harness/sys.go (IMAP client, reading the view with UID FETCH 1:* (FLAGS), COPYUID parsing); the model of SEARCH with a message-set key (searchSeqSet/searchUIDSet) and the mapping of errors to BAD/NO are tied at wire level only (dialect c16-wire-model, compared by the oracle)",
    ],
    "assumptions": [
        "a view holds fewer than 2^32 messages (follows from the snapshot invariant for non-zero uint32 UIDs: theorem view_length_fits)",
        "UID-mode theorems assume the snapshot invariant Snap.Inv (strictly ascending UIDs; C01 proves it is preserved)",
        "Go checks a slice's upper bound against the capacity, the model against the length: on every call path the upper bound is <= len (the model panics at least as often as the code)",
        "texts with leading zeros (not RFC nz-numbers) are accepted by the parser with their decimal value (parseNumber_any_digit_string); the judge treats them as outside the property",
        "that ErrNoSuchMessage and parse errors are answered with a tagged BAD is read off internal/session/handle_*.go and exercised by the wire oracle, not regenerated as facts (which code receives a message set IS regenerated: message_sets_reach_only_modelled_functions)",
        "SEARCH theorems are partial (search_seqset_partial: the set is valid for the view; search_uidset_partial: the mailbox is not empty); the full statements are false today (search_beyond_count_not_rejected, search_uid_on_empty_fails) and the wire oracle reports both",
        "COPY/MOVE of a set whose items overlap (1,1 or 1:3,2) used to fail with NO (F1, repaired by 5288904: snapshot.getMessagesInRange removes repetitions, modelled as uniqueById; selection = asSet of the RFC list: text_seqset_spec, selection_is_a_set, selection_set_semantics)",
        "views that still hold messages expunged by another session (oracle kinds STALE*, Server.VerifHold): the set must be read against the session's view; following RFC 2180 the judge accepts NO or a missing message only for messages that no longer exist",
    ],
    "explanation": "Lean theorems over the text-to-messages model for every RFC sequence set (numbers of any magnitude), every view and both modes: selection = RFC 3501 or BAD, a number beyond the count is always an error, no panic for any input text, UID sets skip absent UIDs with the one excluded case n:* characterised exactly; model tied to the real parser and resolve functions by differential testing; the RFC judge is evaluated on the implementation's answers",
}
