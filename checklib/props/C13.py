SPEC = {
    "id": "C13",
    "level": "proof",
    "theorem_modules": ["GluonModel.Theorems.C13"],
    "correspondences": [
        {"dialect": "rfc822-hdr", "quick_n": 20000, "thorough_n": 300000, "judge": "judge-c13-hdr"},
        {"dialect": "rfc822-sect", "quick_n": 20000, "thorough_n": 200000, "judge": "judge-c13-sect"},
        {"dialect": "rfc822-splice", "quick_n": 10000, "thorough_n": 150000, "judge": "judge-c13-splice"},
        {"dialect": "fetch-partial", "quick_n": 10000, "thorough_n": 100000, "judge": "judge-c13-partial"},
        {"dialect": "fetch-sect", "quick_n": 20000, "thorough_n": 200000, "judge": "judge-c13-fetch"},
        {"dialect": "fetch-partial-raw", "quick_n": 5000, "thorough_n": 50000},
        {"dialect": "fetch-sect-raw", "quick_n": 5000, "thorough_n": 50000},
        {"dialect": "fetch-rel", "quick_n": 10000, "thorough_n": 100000, "judge": "judge-c13-rel"},
    ],
    "oracles": [
        # whole server over TCP, storage states (harness/o_c13wire.go): one message per case, created by APPEND or by the
        # connector, fetched (RFC822.SIZE, BODY[], RFC822*, HEADER, TEXT, HEADER.FIELDS with the id key, its parts,
        # partials around 0 / the id line / the end) fresh, again, after its cache file was removed / corrupted /
        # truncated / the cache directory removed behind the server's back (the FETCH or SEARCH that restores it from the
        # connector), AGAIN after that restore, after a restart, from a second session, after COPY / MOVE / re-APPEND of
        # the answer, after a connector MessageUpdated.  The internal id is the name of the cache file that appears.
        # judge-c13-wire (Driver/DC13Wire.lean): all answers present and framed, the answers to one item identical in
        # every phase, SIZE = |BODY[]|, RFC822 = BODY[], HEADER ++ TEXT = BODY[], partial = slice, and every answer =
        # the model's section of (literal + exactly one id line); c13-wire-model: Model/LitCache.lean (getLiteral,
        # create, update) over the same steps agrees with the wire on which bytes every fetch works on
        {"name": "c13wire", "quick_args": ["-n", "90", "-big", "3"], "thorough_args": ["-n", "1200", "-big", "9"], "timeout": 1500},
    ],
    "trusted_base": [
        "Lean 4.33.0 kernel; axioms limited to propext, Classical.choice, Quot.sound (audited per theorem)",
        "hand-written model GluonModel/Model/Rfc822.lean of rfc822.Split/headerParser.next/NewHeader/Fields/FieldsNot/SetHeaderValue(NoMemCopy)/ByteScanner/parse/load/Part, itemBodyLiteral.WithPartial/String, the RFC822 items and mailbox_fetch.go fetchBodySection/renderSection/fetchAttributeBodySection, tied to the real functions by six correspondence dialects (differential testing, not proof)",
        "reference semantics GluonModel/Spec/Rfc822Spec.lean (header fields read off the physical lines, drop/take partial, {N} CRLF framing) that the judges evaluate the implementation's answers against",
        "facts translator harness/facts_rfc822.go (go/ast): value of ids.InternalIDKey, the key argument of every SetHeaderValue* call site, the functions called in rfc822.NewHeader / Header.Fields / Header.FieldsNot and the loops, conditions, statements and byte range of rfc822.foldKey (name_fold_is_foldkey), the `number > math.MaxUint32` rejection in rfcparser.ParseNumber and the parsers handleBodyFetchAttribute reads <offset.count> with",
        "hand-written model GluonModel/Model/LitCache.lean of State.getLiteral (store hit / download + SetHeaderValue + write back) and of the literal side of message creation and applyMessageUpdated, tied by the oracle c13wire (dialect c13-wire-model over the same steps as the wire) and by the regenerated fact Facts/LitCache.lean (harness/facts_c13lit.go: the functions of internal/state that call GetMessageLiteral, and that every cache write in them passes the result of rfc822.SetHeaderValue* with ids.InternalIDKey assigned in front of the write)",
        "oracle harness/o_c13wire.go (whole server over TCP, dummy connector, cache files manipulated in the store directory; its FETCH response parser; the internal id is read off the name of the cache file that appears) and the Lean judge Driver/DC13Wire.lean",
        "verif hooks internal/response/verif_export_partial.go, internal/state/verif_export_fetch.go, verifhooks/partial.go (wrappers that call the package's own constructors / fetchAttributeBodySection and recover panics)",
        "Go standard library pieces modelled by hand: textproto.CanonicalMIMEHeaderKey, bytes.TrimSpace emptiness (Unicode White_Space), bytes.Index, fmt %v of an int, strings.ToUpper (utf8.DecodeRune, strings.Map's U+FFFD replacement, a partial unicode.ToUpper table)",
    ],
    "assumptions": [
        "mime.ParseMediaType (+ mergeMultiline and the non-ASCII strip in ParseMIMEType) is not modelled: theorems quantify over every Content-Type oracle; in the correspondence the oracle table is what the real function answered at generation time",
        "strings.ToUpper on the rendered section name (it contains the requested HEADER.FIELDS names, arbitrary client strings) is modelled rune by rune: UTF-8 decoding as utf8.DecodeRune, ill-formed bytes become U+FFFD, case pairs of ASCII plus the non-ASCII runes with an ASCII image (U+0131, U+017F); every other non-ASCII rune is taken as caseless and the tie only generates caseless ones among them. Field names themselves are compared in rfc822.foldKey's normal form (ASCII letters lower-cased, every other byte unchanged; fix 047f712), modelled exactly for all bytes",
        "the cache file, while it is readable, holds what was written to it (store round trip is C09); what getLiteral does when it is not readable is modelled (Model/LitCache.lean) and exercised on the wire (oracle c13wire: removed, corrupted, truncated file, removed directory, restart)",
        "Model/LitCache.lean abstracts the cache and the connector as finite maps keyed by the internal id, store.Get failing for whatever reason as 'no entry', and applyMessageUpdated only for update literals without an id line of their own; concurrent restores of one message by two sessions are not modelled",
        "wire transport of the rendered items (session writer) and the command parser are not part of this check beyond the regenerated fact that parsed numbers are at most 2^32-1 (partial_no_panic_for_parsed is stated for that range; WithPartial outside it is compared model-vs-code only in the *-raw dialects and not judged)",
        "Go int is 64 bit (amd64/arm64); WithPartial arithmetic is modelled as two's-complement int64",
    ],
    "explanation": "(storage states: getLiteral_stable / getLiteral_restores_created / created_dropped_restored_agree over Model/LitCache.lean say that a message reads the same bytes whether its cache file is in place or had to be restored from the connector, and on every later read; oracle c13wire checks exactly that on the wire) Lean theorems for all byte strings / paths / field lists / offsets over a model of the rfc822 package, WithPartial and the section computation of FETCH; the model is tied to the real code by differential testing through the public rfc822 API and verif hooks; judges evaluate the property's relations (header++text=literal, part bytes by construction, fields/fieldsNot = the reference selection by ASCII-case-insensitive name over field names from the whole RFC 5322 range (non-token bytes, digits, case twins, near misses; corpus m-name-bytes-* enumerates every legal name byte), partial = drop/take, literal framing) on the implementation's answers",
    "rule": "distinct op lines; non-trivial = the judge classified the case as exercising the property (existing part, well-formed header with fields, partial within int64, top-level relations)",
}
