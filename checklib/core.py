"""Driver for the gluon verification checks (python3 stdlib only).

Pipeline per property (DESIGN.md section 2):
  (0) build the Go harness against /repo's working tree with -tags verif
  (A) regenerate Lean fact files from /repo's source (vh facts)
  (B) lake build the property's theorem modules + driver; audit axioms; grep for forbidden words
  (C) correspondence: op files (corpus first, then generated) -> real code (vh impl) and
      Lean model driver -> line diff; judge (executable property statement in Lean) on the
      implementation's outputs
  (D) oracles on the real code (vh oracle ...), and counter-example search when B or C broke
Verdict: exit 0 / exit 1 with `VIOLATION property=<id> replay=<path>`; evidence/<id>.json rewritten.
"""
import fcntl
import hashlib
import importlib
import json
import os
import re
import shutil
import subprocess
import sys
import time

VERIF = os.path.dirname(os.path.dirname(os.path.abspath(__file__)))
REPO = os.environ.get("VERIF_REPO", "/repo")
LEAN = os.path.join(VERIF, "lean")
HARNESS = os.path.join(VERIF, "harness")
BUILD = os.path.join(VERIF, ".build")
VH = os.path.join(BUILD, "vh")
DRIVER = os.path.join(LEAN, ".lake", "build", "bin", "gluon_model_driver")
FACTS_DIR = os.path.join(LEAN, "GluonModel", "Generated", "Facts")
AUDIT_DIR = os.path.join(LEAN, "GluonModel", "Generated", "Audit")
ALLOWED_AXIOMS = {"propext", "Classical.choice", "Quot.sound"}
FORBIDDEN = re.compile(r"\b(sorry|admit|native_decide|bv_decide|implemented_by|unsafe)\b|^\s*axiom\s|maxHeartbeats\s+0")

GOENV = dict(os.environ, GOFLAGS="-mod=mod", GOPROXY="off", GOSUMDB="off", GOTOOLCHAIN="local", CGO_ENABLED="1")


def log(*a):
    print("[check]", *a, file=sys.stderr, flush=True)


def run(cmd, cwd=None, env=None, timeout=None, stdin=None, stdout=subprocess.PIPE):
    t0 = time.time()
    p = subprocess.run(cmd, cwd=cwd, env=env, timeout=timeout, stdin=stdin, stdout=stdout, stderr=subprocess.STDOUT, text=True)
    return p.returncode, p.stdout or "", time.time() - t0


class Broken(Exception):
    """A proof obligation, the facts translator, a build or a correspondence no longer checks."""

    def __init__(self, what, detail=""):
        super().__init__(what)
        self.what = what
        self.detail = detail


# ---------------------------------------------------------------------------------------------
# build steps

def build_harness():
    os.makedirs(BUILD, exist_ok=True)
    shutil.copyfile(os.path.join(REPO, "go.sum"), os.path.join(HARNESS, "go.sum"))
    rc, out, dt = run(["go", "build", "-tags", "verif", "-o", VH, "."], cwd=HARNESS, env=GOENV, timeout=1200)
    if rc != 0:
        raise Broken("harness-build", out[-4000:])
    log(f"harness built in {dt:.1f}s")


def gen_facts():
    rc, out, dt = run([VH, "facts", REPO, FACTS_DIR], timeout=300)
    if rc != 0:
        raise Broken("facts-translator", out[-4000:])


def lean_strip_comments(src):
    # remove /- ... -/ (nested) and -- line comments, keep strings naive (good enough for the word grep)
    out, i, depth = [], 0, 0
    while i < len(src):
        if src.startswith("/-", i):
            depth += 1
            i += 2
        elif depth and src.startswith("-/", i):
            depth -= 1
            i += 2
        elif depth:
            i += 1
        elif src.startswith("--", i):
            j = src.find("\n", i)
            i = len(src) if j < 0 else j
        else:
            out.append(src[i])
            i += 1
    return "".join(out)


def lean_module_path(mod):
    return os.path.join(LEAN, *mod.split(".")) + ".lean"


def lean_imports_closure(mods):
    """All project-local modules reachable from `mods` (for the forbidden-word grep)."""
    seen, todo = set(), list(mods)
    while todo:
        m = todo.pop()
        if m in seen:
            continue
        p = lean_module_path(m)
        if not os.path.exists(p):
            continue
        seen.add(m)
        for line in open(p, encoding="utf-8"):
            mm = re.match(r"\s*import\s+([\w.]+)", line)
            if mm and (mm.group(1).startswith("GluonModel") or mm.group(1) == "DriverMain"):
                todo.append(mm.group(1))
    return sorted(seen)


def theorem_names(mod):
    """Fully qualified names of the theorems stated in a Theorems/Cxx.lean file."""
    src = lean_strip_comments(open(lean_module_path(mod), encoding="utf-8").read())
    names, ns = [], []
    for line in src.splitlines():
        m = re.match(r"\s*namespace\s+([\w.]+)", line)
        if m:
            ns.append(m.group(1))
            continue
        m = re.match(r"\s*end\s+([\w.]+)", line)
        if m and ns and ns[-1] == m.group(1):
            ns.pop()
            continue
        m = re.match(r"\s*(?:@\[[^\]]*\]\s*)?(?:private\s+|protected\s+)?theorem\s+([\w.'«»]+)", line)
        if m:
            names.append(".".join(ns + [m.group(1)]))
    return names


def lake_build(targets):
    rc, out, dt = run(["lake", "build"] + targets, cwd=LEAN, timeout=3000)
    if rc != 0:
        errs = "\n".join(l for l in out.splitlines() if not l.startswith("✔"))
        raise Broken("lean-build", errs[-6000:])
    log(f"lake build {' '.join(targets)} ok in {dt:.1f}s")
    return dt


def audit(prop, mods):
    """#print axioms for every theorem of the property's theorem modules; forbidden-word grep."""
    obligations = []
    for m in mods:
        obligations += theorem_names(m)
    if not obligations:
        raise Broken("no-theorems", f"no theorem found in {mods}")
    for m in lean_imports_closure(mods):
        src = lean_strip_comments(open(lean_module_path(m), encoding="utf-8").read())
        for ln in src.splitlines():
            if FORBIDDEN.search(ln):
                raise Broken("forbidden-construct", f"{m}: {ln.strip()}")
    os.makedirs(AUDIT_DIR, exist_ok=True)
    path = os.path.join(AUDIT_DIR, f"{prop}.lean")
    with open(path, "w", encoding="utf-8") as f:
        for m in mods:
            f.write(f"import {m}\n")
        for n in obligations:
            f.write(f"#print axioms {n}\n")
    rc, out, dt = run(["lake", "env", "lean", path], cwd=LEAN, timeout=1200)
    if rc != 0:
        raise Broken("axiom-audit", out[-4000:])
    axioms = {}
    cur = None
    text = out.replace("\n  ", " ")
    for line in text.splitlines():
        m = re.match(r"'([^']+)' depends on axioms: \[(.*)\]", line)
        if m:
            axioms[m.group(1)] = [a.strip() for a in m.group(2).split(",") if a.strip()]
            continue
        m = re.match(r"'([^']+)' does not depend on any axioms", line)
        if m:
            axioms[m.group(1)] = []
    bad = []
    for n in obligations:
        if n not in axioms:
            bad.append(f"{n}: no #print axioms output")
        elif not set(axioms[n]) <= ALLOWED_AXIOMS:
            bad.append(f"{n}: axioms {axioms[n]}")
    if bad:
        raise Broken("axiom-audit", "\n".join(bad))
    used = sorted({a for n in obligations for a in axioms[n]})
    return obligations, used


# ---------------------------------------------------------------------------------------------
# correspondence

def run_lines(binary, args, ops_path, out_path, timeout=1800):
    with open(ops_path, "rb") as fin, open(out_path, "wb") as fout:
        p = subprocess.run([binary] + args, stdin=fin, stdout=fout, stderr=subprocess.PIPE, timeout=timeout)
    return p.returncode, p.stderr.decode("utf-8", "replace")[-2000:]


def correspondence(prop, dialect, ops_path, tmpdir, tag):
    """Run one op file through implementation and model; returns (n_ops, mismatches[list of (lineno, op, impl, model)], impl_lines)."""
    impl_out = os.path.join(tmpdir, f"{tag}.impl")
    model_out = os.path.join(tmpdir, f"{tag}.model")
    rc, err = run_lines(VH, ["impl"], ops_path, impl_out)
    if rc != 0:
        raise Broken("impl-runner", f"vh impl exited {rc} on {ops_path}: {err}")
    rc, err = run_lines(DRIVER, [], ops_path, model_out)
    if rc != 0:
        raise Broken("model-driver", f"driver exited {rc} on {ops_path}: {err}")
    ops = [l.rstrip("\n") for l in open(ops_path, encoding="utf-8", errors="replace") if l.strip()]
    il = [l.rstrip("\n") for l in open(impl_out, encoding="utf-8", errors="replace")]
    ml = [l.rstrip("\n") for l in open(model_out, encoding="utf-8", errors="replace")]
    mism = []
    if len(il) != len(ops) or len(ml) != len(ops):
        mism.append((0, f"<line count ops={len(ops)} impl={len(il)} model={len(ml)}>", "", ""))
    for i, (o, a, b) in enumerate(zip(ops, il, ml)):
        if a != b:
            mism.append((i + 1, o, a, b))
    return ops, il, ml, mism


def judge(prop, judge_dialect, ops, impl_lines, tmpdir, tag):
    """Evaluate the executable property statement (Lean) on the implementation's outputs.
    Judge line: `<judge_dialect> <op words...> => <impl output words...>`; answer `ok` or `violation <why>`."""
    jpath = os.path.join(tmpdir, f"{tag}.judge.ops")
    with open(jpath, "w", encoding="utf-8") as f:
        for o, a in zip(ops, impl_lines):
            words = o.split(" ")
            f.write(f"{judge_dialect} {' '.join(words[1:])} => {a}\n")
    jout = os.path.join(tmpdir, f"{tag}.judge.out")
    rc, err = run_lines(DRIVER, [], jpath, jout)
    if rc != 0:
        raise Broken("model-driver", f"driver exited {rc} on judge file: {err}")
    res = [l.rstrip("\n") for l in open(jout, encoding="utf-8", errors="replace")]
    bad = [(i + 1, ops[i], impl_lines[i], r) for i, r in enumerate(res) if not r.startswith("ok")]
    counts = {}
    for r in res:
        k = r.split(" ")[0] + (":" + r.split(" ")[1] if r.startswith("ok ") and len(r.split(" ")) > 1 else "")
        counts[k] = counts.get(k, 0) + 1
    return bad, counts


# ---------------------------------------------------------------------------------------------
# known findings

def load_known():
    p = os.path.join(VERIF, "known_findings.json")
    if not os.path.exists(p):
        return []
    return json.load(open(p))["findings"]


def match_known(prop, text, known):
    """A violation is covered by a known finding iff the finding is for this property, has status
    `known`, and its regular expression matches the violation's replay text."""
    for k in known:
        if k["property"] == prop and k.get("status") == "known" and re.search(k["match"], text, re.S):
            return k
    return None


# ---------------------------------------------------------------------------------------------

class Result:
    def __init__(self, prop, tier, seed, level):
        self.prop, self.tier, self.seed, self.level = prop, tier, seed, level
        self.t0 = time.time()
        self.violations = []  # (replay_path, found_input: bool, summary)
        self.known_hits = {}  # finding id -> text
        self.coverage = {"samples": []}
        self.assumptions = []
        self.broken = []

    def add_violation(self, name, text, found_input, summary):
        os.makedirs(os.path.join(VERIF, "replay"), exist_ok=True)
        h = hashlib.sha1(text.encode("utf-8", "replace")).hexdigest()[:10]
        path = os.path.join(VERIF, "replay", f"{self.prop}-{name}-{h}.txt")
        with open(path, "w", encoding="utf-8") as f:
            f.write(text)
        self.violations.append((path, found_input, summary))

    def finish(self):
        ev = {
            "property_id": self.prop,
            "tier": self.tier,
            "seed": self.seed,
            "level": self.level,
            "coverage": self.coverage,
            "assumptions": self.assumptions,
            "wall_s": round(time.time() - self.t0, 2),
            "violations": len(self.violations),
        }
        os.makedirs(os.path.join(VERIF, "evidence"), exist_ok=True)
        with open(os.path.join(VERIF, "evidence", f"{self.prop}.json"), "w", encoding="utf-8") as f:
            json.dump(ev, f, indent=1, sort_keys=True)
            f.write("\n")
        for fid, text in sorted(self.known_hits.items()):
            print(f"KNOWN-FINDING: property={self.prop} {text}")
        for path, found, summary in self.violations:
            tail = "" if found else " no-failing-input-found"
            print(f"VIOLATION property={self.prop} replay={path}{tail}")
            log("  ", summary)
        sys.stdout.flush()
        return 1 if self.violations else 0


def load_spec(prop):
    return importlib.import_module(f"checklib.props.{prop}").SPEC


def check_property(prop, tier, seed, replay=None):
    spec = load_spec(prop)
    res = Result(prop, tier, seed, spec["level"])
    known = load_known()
    tmpdir = os.path.join(BUILD, "tmp", prop)
    shutil.rmtree(tmpdir, ignore_errors=True)
    os.makedirs(tmpdir, exist_ok=True)
    cov = res.coverage
    cov["trusted_base"] = list(spec.get("trusted_base", []))
    cov["explanation"] = spec.get("explanation", "")
    res.assumptions = list(spec.get("assumptions", []))
    proof_broken = None
    thm_mods = spec.get("theorem_modules", [])

    # (0)+(A)+(B): build, facts, proofs
    try:
        build_harness()
        gen_facts()
    except Broken as b:
        res.add_violation(b.what, f"{b.what} no longer checks against /repo's working tree\n\n{b.detail}\n", False, b.what)
        cov.update({"obligations": 0, "discharged": 0, "checker_cmd": "lake build", "evaluations": 0, "distinct_nontrivial": 0})
        return res.finish()
    try:
        lake_build(["gluon_model_driver"])
    except Broken as b:
        res.add_violation(b.what, f"model driver does not build\n\n{b.detail}\n", False, b.what)
        cov.update({"obligations": 0, "discharged": 0, "checker_cmd": "lake build", "evaluations": 0, "distinct_nontrivial": 0})
        return res.finish()
    obligations, discharged = [], 0
    try:
        if thm_mods:
            lake_build(thm_mods)
            obligations, used_axioms = audit(prop, thm_mods)
            discharged = len(obligations)
            cov["axioms_used"] = used_axioms
            if tier == "thorough":
                for m in thm_mods:
                    rc, out, dt = run(["lake", "env", "leanchecker", m], cwd=LEAN, timeout=3000)
                    if rc != 0:
                        raise Broken("leanchecker", out[-3000:])
                cov["leanchecker"] = "ok"
    except Broken as b:
        proof_broken = b
        try:
            for m in thm_mods:
                obligations += theorem_names(m)
        except Exception:
            pass
    cov["obligations"] = len(obligations)
    cov["discharged"] = discharged
    cov["theorems"] = obligations
    cov["checker_cmd"] = "cd /verif/lean && lake build " + " ".join(thm_mods) + " && lake env lean GluonModel/Generated/Audit/%s.lean  # #print axioms per theorem" % prop
    cov["samples"] += [{"obligation": n} for n in obligations[:5]]

    # (C) correspondence + judges
    evaluations, nontrivial = 0, 0
    distinct = set()
    dist = {}
    corr_broken = []
    deep = tier == "thorough" or proof_broken is not None
    for c in spec.get("correspondences", []):
        d = c["dialect"]
        files = []
        cdir = os.path.join(VERIF, "corpus", prop)
        if os.path.isdir(cdir):
            for fn in sorted(os.listdir(cdir)):
                if fn.endswith(".ops") and open(os.path.join(cdir, fn)).readline().startswith(d + " "):
                    files.append(("corpus:" + fn, os.path.join(cdir, fn)))
        if replay:
            files = [("replay", replay)] if open(replay).readline().startswith(d + " ") else []
        else:
            n = c["thorough_n"] if deep else c["quick_n"]
            gpath = os.path.join(tmpdir, f"{d}.gen.ops")
            spath = os.path.join(tmpdir, f"{d}.gen.stats")
            with open(gpath, "w") as f:
                p = subprocess.run([VH, "gen", d, "-seed", str(seed), "-n", str(n), "-stats", spath] + c.get("gen_args", []), stdout=f, stderr=subprocess.PIPE, text=True, timeout=1800)
            if p.returncode != 0:
                res.add_violation("generator", f"vh gen {d} failed\n{p.stderr}", False, "generator failed")
                continue
            if os.path.exists(spath):
                dist[d] = json.load(open(spath)).get("counts", {})
            files.append(("generated", gpath))
        for tag, path in files:
            try:
                ops, il, ml, mism = correspondence(prop, d, path, tmpdir, f"{d}.{tag.replace(':', '_')}")
            except Broken as b:
                corr_broken.append(b)
                res.add_violation(b.what, f"{b.what}\n\n{b.detail}\n", False, b.what)
                continue
            evaluations += len(ops)
            heads = {}
            for o, a in zip(ops, il):
                distinct.add(o)
                h = " ".join(a.split(" ")[:2]) if a.split(" ")[0] in ("err", "panic") else a.split(" ")[0][:12]
                heads[h] = heads.get(h, 0) + 1
            dist.setdefault(d + ".outcomes", {})
            for k, v in heads.items():
                dist[d + ".outcomes"][k] = dist[d + ".outcomes"].get(k, 0) + v
            if ops and len(cov["samples"]) < 12:
                cov["samples"].append({"dialect": d, "op": ops[0][:400], "impl": il[0][:400] if il else ""})
            # judge: the property itself, evaluated on what the implementation answered
            jbad = []
            if c.get("judge"):
                try:
                    jbad, jcounts = judge(prop, c["judge"], ops, il, tmpdir, f"{d}.{tag.replace(':', '_')}")
                    dist.setdefault(c["judge"], {})
                    for k, v in jcounts.items():
                        dist[c["judge"]][k] = dist[c["judge"]].get(k, 0) + v
                    nontrivial += sum(v for k, v in jcounts.items() if k.startswith("ok:nontrivial"))
                except Broken as b:
                    res.add_violation(b.what, f"{b.what}\n\n{b.detail}\n", False, b.what)
            reported = set()
            for (ln, o, a, r) in jbad[:50]:
                text = f"{o}\n# implementation answered: {a}\n# property judge ({c['judge']}): {r}\n# replay: ./check {prop} --replay <this file>\n"
                k = match_known(prop, text, known)
                if k:
                    res.known_hits[k["id"]] = k["what"]
                    continue
                if len(reported) < 3:
                    res.add_violation(f"{d}-judge", text, True, f"property judge failed on implementation output: {r}")
                    reported.add(ln)
            for (ln, o, a, b_) in mism[:50]:
                if ln in reported:
                    continue
                text = f"{o}\n# correspondence {d} ({tag}) line {ln}: implementation and Lean model disagree\n# implementation: {a}\n# model:          {b_}\n"
                k = match_known(prop, text, known)
                if k:
                    res.known_hits[k["id"]] = k["what"]
                    continue
                if len([v for v in res.violations if "corr" in v[0]]) < 3:
                    # a disagreement alone is not yet a failing input; the judge above decides that
                    res.add_violation(f"{d}-corr", text, False, f"model/implementation disagreement in dialect {d}")

    # (D) oracles on the real code
    for o in spec.get("oracles", []):
        args = o["thorough_args"] if deep else o["quick_args"]
        if replay:
            if not open(replay).readline().startswith("oracle " + o["name"]):
                continue
            args = ["-replay", replay]
        outp = os.path.join(tmpdir, f"oracle.{o['name']}.json")
        cmd = [VH, "oracle", o["name"], "-seed", str(seed), "-out", outp, "-replaydir", os.path.join(VERIF, "replay")] + args
        try:
            rc, out, dt = run(cmd, timeout=o.get("timeout", 3000), env=GOENV)
        except subprocess.TimeoutExpired:
            res.add_violation(f"oracle-{o['name']}", f"oracle {o['name']} timed out\n", False, "oracle timeout")
            continue
        if not os.path.exists(outp):
            res.add_violation(f"oracle-{o['name']}", f"oracle {o['name']} produced no result (exit {rc})\n{out[-3000:]}", False, "oracle crashed")
            continue
        j = json.load(open(outp))
        evaluations += j.get("evaluations", 0)
        nontrivial += j.get("distinct_nontrivial", 0)
        dist["oracle." + o["name"]] = j.get("stats", {})
        cov["samples"] += j.get("samples", [])[:3]
        for v in j.get("violations", []):
            text = open(v["replay"]).read() if os.path.exists(v.get("replay", "")) else v.get("desc", "")
            k = match_known(prop, v.get("desc", "") + "\n" + text, known)
            if k:
                res.known_hits[k["id"]] = k["what"]
                continue
            res.violations.append((v["replay"], True, v.get("desc", "")))
        for fid in j.get("known_not_reproduced", []):
            cov.setdefault("known_findings_not_reproduced", []).append(fid)

    if proof_broken is not None:
        # the proof no longer checks: a failing input found above is the replay; otherwise report the obligation
        if not any(f for (_, f, _) in res.violations):
            res.add_violation("proof", f"proof obligation no longer checks: {proof_broken.what}\n\n{proof_broken.detail}\n", False, proof_broken.what)

    cov["evaluations"] = evaluations
    cov["distinct_nontrivial"] = max(nontrivial, 0) if nontrivial else len(distinct)
    cov["rule"] = spec.get("rule", "distinct op lines; non-trivial = the judge classified the case as exercising the property (see input_distribution)")
    cov["input_distribution"] = dist
    return res.finish()


def setup():
    """Build everything once (MANIFEST.setup_cmd)."""
    build_harness()
    gen_facts()
    lake_build([])
    return 0


def main(argv):
    import argparse
    ap = argparse.ArgumentParser()
    ap.add_argument("prop", nargs="?")
    ap.add_argument("--tier", default=os.environ.get("VERIF_TIER", "quick"))
    ap.add_argument("--seed", type=int, default=int(os.environ.get("VERIF_SEED", "1")))
    ap.add_argument("--replay")
    ap.add_argument("--setup", action="store_true")
    a = ap.parse_args(argv)
    os.makedirs(BUILD, exist_ok=True)
    with open(os.path.join(BUILD, "lock"), "w") as lk:
        fcntl.flock(lk, fcntl.LOCK_EX)
        if a.setup:
            try:
                return setup()
            except Broken as b:
                print(f"setup failed: {b.what}\n{b.detail}", file=sys.stderr)
                return 1
        if not a.prop:
            ap.error("property id required")
        return check_property(a.prop, a.tier, a.seed, a.replay)
