-- Root of the library. Theorem modules are built by name (see checklib/core.py setup()).
import GluonModel.Generated.Registry
