-- This module serves as the root of the `GluonModel` library.
-- Import modules here that should be built as part of the library.
import GluonModel.Basic
