-- Root of the library: everything that `lake build` (default target) must check.
import GluonModel.Generated.Registry
import GluonModel.Theorems.C05
