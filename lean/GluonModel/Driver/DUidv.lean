/- Judge for the relational real-time run of `imap.EpochUIDValidityGenerator` (C04).

   Op    : `<offMs> <script>`            script = `g` | `n` | `s<ms>` | `c<k>` joined by `,`
   Impl  : `r <entries>`                 one entry per script item, joined by `;`
             g     -> `<lo>:<hi>:<uid|E>`     lo/hi = int64(elapsed.Seconds()) read before/after the call
             n     -> `N`                     fresh generator (restart), same epoch
             s<ms> -> `S`
             c<k>  -> `C:<lo>:<hi>:<v1>,<v2>,…`  k concurrent calls; results sorted ascending, errors (`E`) last
   The judge requires every result to equal the model's `generate (tsOfSecs now) last` for some
   `now` in `[lo, hi]` (model tie), and the values issued by one generator to be strictly
   increasing (the property). -/
import GluonModel.Model.UidValidity

-- DIALECT: judge-c04-uidv DUidv.judgeUidv
namespace Gluon.Driver.DUidv
open Gluon.UidV

structure UidvJ where
  last : Nat := fresh          -- model generator state
  cur : List Nat := []         -- values issued by the current generator, newest first
  calls : Nat := 0             -- Generate calls of the current generator
  maxCalls : Nat := 0          -- most calls made on one generator
  bumped : Bool := false       -- some result was above every clock reading of its interval
  errs : Nat := 0
  restarts : Nat := 0
  hiAll : Nat := 0             -- greatest value issued by any generator of the scenario
  reissued : Bool := false     -- a restarted generator issued a value ≤ one issued before the restart

def parseRes (s : String) : Option Res :=
  if s == "E" then some .err else s.toNat?.map .ok

/-- is there a clock reading in `[lo, lo+width]` that explains `res`?  returns the new state -/
def explain (lo : Int) : (width : Nat) → (last : Nat) → (res : Res) → Option Nat
  | 0, last, res =>
    let g := generateC (tsOfSecs lo) last
    if g.1 == res then some g.2 else none
  | w + 1, last, res =>
    let g := generateC (tsOfSecs (lo + (w + 1 : Nat))) last
    if g.1 == res then some g.2 else explain lo w last res

def judgeCall (st : UidvJ) (lo hi : Int) (res : Res) : Except String UidvJ :=
  if hi < lo then .error "model clock-interval-empty"
  else if hi - lo > 100000 then .error "model clock-interval-too-wide"
  else
    match explain lo (hi - lo).toNat st.last res with
    | none => .error s!"model no-clock-reading-in-interval-explains-result last={st.last} lo={lo} hi={hi}"
    | some last' =>
      match res with
      | .err => .ok { st with last := last', calls := st.calls + 1, maxCalls := max st.maxCalls (st.calls + 1), errs := st.errs + 1 }
      | .ok v =>
        match st.cur with
        | prev :: _ =>
          if v ≤ prev then .error s!"property not-strictly-increasing {prev} then {v}"
          else .ok { st with last := last', cur := v :: st.cur, calls := st.calls + 1,
                             maxCalls := max st.maxCalls (st.calls + 1), hiAll := max st.hiAll v,
                             reissued := st.reissued || decide (v ≤ st.hiAll),
                             bumped := st.bumped || decide (tsOfSecs hi < v) }
        | [] => .ok { st with last := last', cur := [v], calls := st.calls + 1,
                              maxCalls := max st.maxCalls (st.calls + 1), hiAll := max st.hiAll v,
                              reissued := st.reissued || (decide (v ≤ st.hiAll) && st.restarts > 0),
                              bumped := st.bumped || decide (tsOfSecs hi < v) }

def judgeEntry (st : UidvJ) (item entry : String) : Except String UidvJ :=
  if item == "g" then
    match entry.splitOn ":" with
    | [lo, hi, r] =>
      match lo.toInt?, hi.toInt?, parseRes r with
      | some lo, some hi, some r => judgeCall st lo hi r
      | _, _, _ => .error "model unparsable-entry"
    | _ => .error "model unparsable-entry"
  else if item == "n" then
    if entry == "N" then .ok { st with last := fresh, cur := [], calls := 0, restarts := st.restarts + 1 }
    else .error "model unparsable-entry"
  else if item.startsWith "s" then
    if entry == "S" then .ok st else .error "model unparsable-entry"
  else if item.startsWith "c" then
    match entry.splitOn ":" with
    | ["C", lo, hi, vals] =>
      match lo.toInt?, hi.toInt?, (vals.splitOn ",").mapM parseRes with
      | some lo, some hi, some rs =>
        if rs.length != (item.drop 1).toString.toNat?.getD 0 then .error "model wrong-number-of-results"
        else rs.foldlM (fun st r => judgeCall st lo hi r) st
      | _, _, _ => .error "model unparsable-entry"
    | _ => .error "model unparsable-entry"
  else .error "model unknown-script-item"

def judgeEntries : UidvJ → List String → List String → Except String UidvJ
  | st, [], [] => .ok st
  | st, i :: is, e :: es => do
    let st' ← judgeEntry st i e
    judgeEntries st' is es
  | _, _, _ => .error "model entry-count-differs-from-script"

/-- `<offMs> <script> => r <entries>` -/
def judgeUidv (args : List String) : String :=
  match args with
  | [_off, script, "=>", "r", entries] =>
    match judgeEntries {} (script.splitOn ",") (entries.splitOn ";") with
    | .error e => s!"violation {e}"
    | .ok st =>
      if st.reissued then "ok nontrivial-reissue-after-restart"   -- DESIGN §9 #12 (theorem uidv_restart_witness)
      else if st.maxCalls < 2 then "ok trivial"
      else if st.errs > 0 then "ok nontrivial-capacity"
      else if st.bumped && st.restarts > 0 then "ok nontrivial-burst-restart"
      else if st.bumped then "ok nontrivial-burst"
      else "ok nontrivial-clock"
  | _ => "violation unparsable-implementation-output"

end Gluon.Driver.DUidv
