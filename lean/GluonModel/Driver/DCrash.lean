/- Dialects of property C07.

   c07trace <op> <inst>                       ->  <outcome> <token> <token> ...
       the model's step list (`Gluon.Crash.stepsOf`) printed as the interposers of harness/interpose.go
       print the recorded steps of the real operation; the check diffs the two lines.

   judge-c07-trace <op> <inst> => <outcome> <token> ...
       parses the REAL trace back into model steps and evaluates on it the structural facts the
       theorems of Theorems/C07.lean assume:  oneVisibleTx  (crash_atomic / fail_atomic)  and
       disciplined  (listed_is_fetchable). -/
import GluonModel.Model.Crash

-- DIALECT: c07trace DCrash.trace
-- DIALECT: judge-c07-trace DCrash.judgeTrace
namespace Gluon.Driver.DCrash
open Gluon.Crash

def connectorOps : List String := ["ccreate", "cflags", "cmailboxes", "cdeleted", "cupdated"]

def trace (args : List String) : String :=
  match args with
  | [op, inst] =>
    match inst.toNat? with
    | none => "bad-op"
    | some i =>
      match stepsOf op i with
      | none => "unmodelled"
      | some steps =>
        let outcome := if connectorOps.contains op then "flushed" else if op == "startup" then "started" else "OK"
        " ".intercalate (outcome :: tokens steps)
  | _ => "bad-op"

def parseId (s : String) : Option MsgId :=
  if s.startsWith "o" then ((s.drop 1).toString.toNat?).map MsgId.old
  else if s.startsWith "n" then ((s.drop 1).toString.toNat?).map MsgId.new
  else none

def parseIds (s : String) : Option (List MsgId) :=
  if s == "-" then some [] else (s.splitOn ",").mapM parseId

def parseToken (t0 : String) : Option (List Step) :=
  -- annotations (`!tx.rollback`) are not steps
  let t := (t0.splitOn "!").headD ""
  if t == "rd.begin" then some [.rdBegin]
  else if t == "tx.begin" then some [.txBegin]
  else if t == "tx.commit" then some [.commit]
  else if t == "store.List" then some [.list]
  else if t.startsWith "rd." then some [.rd (t.drop 3).toString]
  else if t.startsWith "tx." then
    match ((t.drop 3).toString).splitOn ":" with
    | [name] => some [.stmt (mkStmt name [])]
    | [name, ids] => (parseIds ids).map fun l => [.stmt (mkStmt name l)]
    | _ => none
  else if t.startsWith "store.Get:" then (parseId (t.drop 10).toString).map fun id => [.get id]
  else if t.startsWith "store.Set:" then (parseId (t.drop 10).toString).map setS
  else if t.startsWith "store.Delete:" then (parseIds (t.drop 13).toString).map fun l => [.del l]
  else none

def parseTrace (ts : List String) : Option (List Step) := (ts.mapM parseToken).map List.flatten

def judgeTrace (args : List String) : String :=
  match args with
  | op :: _inst :: "=>" :: _outcome :: ts =>
    match parseTrace ts with
    | none => "violation unparsable-trace"
    | some steps =>
      -- start-up is not an operation on the acknowledged state (`recover_abs`); only its store discipline matters
      if op == "startup" then
        (if disciplined steps (redlOf op) then "ok trivial" else s!"violation store-discipline op={op}")
      else if !oneVisibleTx steps then
        s!"violation more-than-one-visible-transaction chunks={(chunks steps none).length} (crash between them is neither before nor after)"
      else if !disciplined steps (redlOf op) then
        s!"violation store-discipline op={op} (a cache file is written or deleted for an id that has a committed row that cannot be re-downloaded, or a row is committed without its complete file)"
      else if (chunks steps none).length == 1 then "ok nontrivial"
      else "ok trivial"
  | _ => "bad-op"

end Gluon.Driver.DCrash
