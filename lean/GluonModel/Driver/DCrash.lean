/- Dialects of property C07.

   c07trace <op> <inst>                       ->  <outcome> <token> <token> ...
       the model's step list (`Gluon.Crash.stepsOf`) printed as the interposers of harness/interpose.go
       print the recorded steps of the real operation; the check diffs the two lines.

   judge-c07-trace <op> <inst> => <outcome> <token> ...
       parses the REAL trace back into model steps and evaluates on it the structural facts the
       theorems of Theorems/C07.lean assume:  oneVisibleTx  (crash_atomic / fail_atomic)  and
       disciplined  (listed_is_fetchable).

   judge-c07-fail <op> <inst> <mode> <i> => <outcome> <token> ...
       the REAL trace of a run in which step `i` (token index) returned an injected error (`err`; `errhalf`: the
       store.Set at `i` left a partial file): the tokens before `i` are the performed prefix, the tokens after `i` are
       what the operation's error handler (and whatever else the server still does) performed after the roll-back.
       Evaluates structural fact 3 of Theorems/C07.lean (`handlerOk`, hypothesis of fail_listed_is_cached) on them:
       the handler writes / deletes cache files only of ids without a committed row, and commits a new row only with
       its complete file. Also says whether the handler's store calls and visible statements are the ones the model's
       `handlerOf` lists (statistics: the handlers are not part of the trace correspondence). -/
import GluonModel.Model.Crash

-- DIALECT: c07trace DCrash.trace
-- DIALECT: judge-c07-trace DCrash.judgeTrace
-- DIALECT: judge-c07-fail DCrash.judgeFail
namespace Gluon.Driver.DCrash
open Gluon.Crash

def connectorOps : List String := ["ccreate", "cflags", "cmailboxes", "cdeleted", "cupdated", "cknown"]

def trace (args : List String) : String :=
  match args with
  | [op, inst] =>
    match inst.toNat? with
    | none => "bad-op"
    | some i =>
      match stepsOf op i with
      | none => "unmodelled"
      | some steps =>
        let outcome := if connectorOps.contains op then "flushed" else if op == "startup" then "started" else "OK"
        " ".intercalate (outcome :: tokens steps)
  | _ => "bad-op"

def parseId (s : String) : Option MsgId :=
  if s.startsWith "o" then ((s.drop 1).toString.toNat?).map MsgId.old
  else if s.startsWith "n" then ((s.drop 1).toString.toNat?).map MsgId.new
  else none

def parseIds (s : String) : Option (List MsgId) :=
  if s == "-" then some [] else (s.splitOn ",").mapM parseId

def parseToken (t0 : String) : Option (List Step) :=
  -- annotations (`!tx.rollback`) are not steps
  let t := (t0.splitOn "!").headD ""
  if t == "rd.begin" then some [.rdBegin]
  else if t == "tx.begin" then some [.txBegin]
  else if t == "tx.commit" then some [.commit]
  else if t == "store.List" then some [.list]
  else if t.startsWith "rd." then some [.rd (t.drop 3).toString]
  else if t.startsWith "tx." then
    match ((t.drop 3).toString).splitOn ":" with
    | [name] => some [.stmt (mkStmt name [])]
    | [name, ids] => (parseIds ids).map fun l => [.stmt (mkStmt name l)]
    | _ => none
  else if t.startsWith "store.Get:" then (parseId (t.drop 10).toString).map fun id => [.get id]
  else if t.startsWith "store.Set:" then (parseId (t.drop 10).toString).map setS
  else if t.startsWith "store.Delete:" then (parseIds (t.drop 13).toString).map fun l => [.del l]
  else none

def parseTrace (ts : List String) : Option (List Step) := (ts.mapM parseToken).map List.flatten

def judgeTrace (args : List String) : String :=
  match args with
  | op :: _inst :: "=>" :: _outcome :: ts =>
    match parseTrace ts with
    | none => "violation unparsable-trace"
    | some steps =>
      -- start-up is not an operation on the acknowledged state (`recover_abs`); only its store discipline matters
      if op == "startup" then
        (if disciplined steps (redlOf op) then "ok trivial" else s!"violation store-discipline op={op}")
      else if !oneVisibleTx steps then
        s!"violation more-than-one-visible-transaction chunks={(chunks steps none).length} (crash between them is neither before nor after)"
      else if !disciplined steps (redlOf op) then
        s!"violation store-discipline op={op} (a cache file is written or deleted for an id that has a committed row that cannot be re-downloaded, or a row is committed without its complete file)"
      else if (chunks steps none).length == 1 then "ok nontrivial"
      else "ok trivial"
  | _ => "bad-op"

/-- store calls and visible statements of a step list, without ids -/
def shape (steps : List Step) : List String :=
  steps.filterMap fun st =>
    match st with
    | .setEnd _ _ => some "store.Set"
    | .del ids => some s!"store.Delete/{ids.length}"
    | .stmt q => if q.visible then some s!"tx.{q.name}" else none
    | _ => none

/-- abstract interpretation of a faulted trace, token by token. Token `i` returned the injected error: it is not
    performed (`errhalf`: its store.Set left a partial file; a failing `tx.commit` rolls the transaction back). A
    `!tx.rollback` annotation closes the open transaction without committing it. The tokens after `i` - the error
    handler, or the rest of an operation that tolerates the failure - must keep the store discipline.
    Returns the steps performed after token `i`, or the offending token. -/
def foldFail (i : Nat) (mode : String) : Nat → Abs → List Step → List String → Except String (List Step)
  | _, _, acc, [] => .ok acc
  | k, a, acc, t :: r =>
    match parseToken t with
    | none => .error s!"unparsable-token {t}"
    | some sts =>
      let rolledBack := ((t.splitOn "!").drop 1).contains "tx.rollback"
      let close (x : Abs) : Abs := if rolledBack then { x with tx := none } else x
      if k < i then foldFail i mode (k + 1) (close (sts.foldl Abs.exec a)) acc r
      else if k == i then
        let half : List Step :=
          if mode == "errhalf" then (match sts with | [.setOpen id, _, _] => [.setOpen id, .setMid id] | _ => []) else []
        let a1 := half.foldl Abs.exec a
        let a2 : Abs := if t.startsWith "tx.commit" then { a1 with tx := none } else a1
        foldFail i mode (k + 1) (close a2) acc r
      else if !disciplinedFrom sts a then .error t
      else foldFail i mode (k + 1) (close (sts.foldl Abs.exec a)) (acc ++ sts) r

def judgeFail (args : List String) : String :=
  match args with
  | op :: inst :: mode :: idx :: "=>" :: _outcome :: ts =>
    match inst.toNat?, idx.toNat? with
    | some k, some i =>
      if ts.length ≤ i then "ok trivial fault-not-reached"
      else
        match foldFail i mode 0 { redl := redlOf op } [] ts with
        | .error why =>
          if why.startsWith "unparsable" then s!"violation {why}"
          else s!"violation error-handler-store-discipline op={op} at={why} (after the failed step a cache file is deleted or overwritten for an id that still has a committed row, or a row is committed without its complete file)"
        | .ok handler =>
          let iStep := ((parseTrace (ts.take i)).getD []).length +
            (if mode == "errhalf" && ((ts.drop i).headD "").startsWith "store.Set:" then 2 else 0)
          let real := shape handler
          let model := shape (handlerOf op k iStep)
          if real.isEmpty && model.isEmpty then "ok trivial"
          else if real == model then "ok nontrivial handler=as-modelled"
          else s!"ok nontrivial handler=not-as-modelled real={",".intercalate real} model={",".intercalate model}"
    | _, _ => "bad-op"
  | _ => "bad-op"

end Gluon.Driver.DCrash
