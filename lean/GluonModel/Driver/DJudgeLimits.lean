/-
Judge of the wire-level oracle `vh oracle c17limits` (property C17), built on the abstract
"check, then insert" machine of Model/Limits.lean.  One line per step of a history run against a
whole server with small limits; the harness observes the complete world (every mailbox with its
message count, UIDNEXT and content) before and after the step.

  judge-c17-wire <maxMailboxes> <maxMessages> <maxUID> <op …> | <world before> => <status> | <world after>

  op      append <mbox> | copy <src> <n> <dst> | move <src> <n> <dst> | create <name> | kcreate <name>
          | batch <mbox> <n> | batch2 <mbox1> <n1> <mbox2> <n2> | race <mbox> | aux <text>
  world   <name>:<count>:<uidnext>:<content>;…   content = <uid>.<size>+… | -   (all mailboxes, the
          recovery mailbox `Recovered_Messages` included; names without blanks, `/` = delimiter)
  status  ok | no | effect (connector updates: there is no tagged reply, the effect is the answer)
          | <s1>,<s2> for race

What is decided here (Lean, not Go):
  * invariant   — the step does not push the number of mailboxes, a mailbox's message count or a
                  mailbox's UIDNEXT over the maxima (`Limits.Within`), judged on the observed world;
  * refusal     — a step answered NO leaves the world exactly as it was;
  * fitting     — a step that fits (`Limits.step` of the model accepts it and stays `Within`) is accepted;
  * tie         — an accepted step changes the world as `Limits.step` predicts.
-/
import GluonModel.Model.Limits

-- DIALECT: judge-c17-wire judgeC17Wire
namespace Gluon.Driver
open Gluon.Limits

namespace JLimits

structure MB where
  name : String
  count : Nat
  uidNext : Nat
  content : String
deriving DecidableEq, Repr

abbrev WorldObs := List MB

def recoveryKey : String := "Recovered_Messages"

def parseMB (s : String) : Option MB :=
  match s.splitOn ":" with
  | [n, c, u, x] => do some { name := n, count := ← c.toNat?, uidNext := ← u.toNat?, content := x }
  | _ => none

def parseWorld (s : String) : Option WorldObs :=
  if s == "-" then some [] else (s.splitOn ";").mapM parseMB

def contentLen (x : String) : Nat := if x == "-" then 0 else (x.splitOn "+").length

def find (w : WorldObs) (n : String) : Option MB := w.find? (·.name == n)

/-- proper superiors of a `/`-separated name -/
def superiors (name : String) : List String :=
  let parts := name.splitOn "/"
  ((List.range parts.length).drop 1).map fun i => "/".intercalate (parts.take i)

/-- the model's world for one observed mailbox -/
def toWorld (w : WorldObs) (m : MB) : World :=
  { mailboxes := w.length, count := m.count, uidNext := m.uidNext, passed := [] }

inductive Op where
  | append (mb : String)
  | copy (src : String) (n : Nat) (dst : String)
  | move (src : String) (n : Nat) (dst : String)
  | create (name : String)
  | kcreate (name : String)
  | batch (mb : String) (n : Nat)
  | batch2 (mb1 : String) (n1 : Nat) (mb2 : String) (n2 : Nat)
  | race (mb : String)
  | flush
  | aux

def parseOp : List String → Option Op
  | ["append", m] => some (.append m)
  | ["copy", s, n, d] => n.toNat?.map fun k => .copy s k d
  | ["move", s, n, d] => n.toNat?.map fun k => .move s k d
  | ["create", n] => some (.create n)
  | ["kcreate", n] => some (.kcreate n)
  | ["batch", m, n] => n.toNat?.map fun k => .batch m k
  | ["batch2", m1, n1, m2, n2] => do some (.batch2 m1 (← n1.toNat?) m2 (← n2.toNat?))
  | ["race", m] => some (.race m)
  | ["flush"] => some .flush
  | "aux" :: _ => some .aux
  | _ => none

/-- what the model machine predicts for (mailboxes, per-mailbox count/uidNext); `none` = the model
    refuses the step (world unchanged) -/
structure Pred where
  mailboxes : Nat
  changed : List (String × Nat × Nat)      -- name, count, uidNext of the mailboxes the step changes
deriving Repr

def addTo (l : IMAP) (w : WorldObs) (mb : String) (n : Nat) : Option (String × Nat × Nat) :=
  match find w mb with
  | none => none
  | some m =>
    let w0 := toWorld w m
    let w1 := step l w0 (.addTx n)
    if w1 == w0 && n > 0 then none else some (mb, w1.count, w1.uidNext)

def predict (l : IMAP) (w : WorldObs) : Op → Option Pred
  | .append mb =>
    match find w mb with
    | none => none
    | some m =>
      let w0 := toWorld w m
      let w1 := step l (step l w0 (.check 0 1)) (.insert 0)
      if w1.count == w0.count then none else some { mailboxes := w.length, changed := [(mb, w1.count, w1.uidNext)] }
  | .copy _ n dst => (addTo l w dst n).map fun c => { mailboxes := w.length, changed := [c] }
  | .move src n dst =>
    match addTo l w dst n, find w src with
    | some c, some s => some { mailboxes := w.length, changed := [c, (src, s.count - n, s.uidNext)] }
    | _, _ => none
  | .create name =>
    let parents := ((superiors name).filter fun s => (find w s).isNone).length
    let w0 : World := { mailboxes := w.length, count := 0, uidNext := 1, passed := [] }
    let w1 := step l w0 (.create parents)
    if w1.mailboxes == w0.mailboxes then none else some { mailboxes := w1.mailboxes, changed := [] }
  | .kcreate _ =>
    let w0 : World := { mailboxes := w.length, count := 0, uidNext := 1, passed := [] }
    let w1 := step l w0 (.create 0)
    if w1.mailboxes == w0.mailboxes then none else some { mailboxes := w1.mailboxes, changed := [] }
  | .batch mb n => (addTo l w mb n).map fun c => { mailboxes := w.length, changed := [c] }
  | .batch2 m1 n1 m2 n2 =>
    match addTo l w m1 n1, addTo l w m2 n2 with
    | some a, some b => some { mailboxes := w.length, changed := [a, b] }
    | _, _ => none
  | .race mb =>
    match find w mb with
    | none => none
    | some m =>
      let w0 := toWorld w m
      let w1 := runEvs l [.check 0 1, .check 1 1, .insert 0, .insert 1] w0
      if w1.count == w0.count then none else some { mailboxes := w.length, changed := [(mb, w1.count, w1.uidNext)] }
  | .flush => none
  | .aux => none

/-- does the observed world `after` equal `before` modified as predicted? (contents of unchanged
    mailboxes must be identical; new mailboxes of a create are empty) -/
def matchesPred (before after : WorldObs) (p : Pred) : Bool :=
  after.length == p.mailboxes &&
  before.all (fun b =>
    match find after b.name with
    | none => false
    | some a =>
      match p.changed.find? (·.1 == b.name) with
      | some (_, c, u) => a.count == c && a.uidNext == u
      | none => a == b) &&
  after.all (fun a => (find before a.name).isSome || a.count == 0)

def sameWorld (before after : WorldObs) : Bool :=
  before.length == after.length && before.all fun b => find after b.name == some b

/-- only the recovery mailbox differs -/
def sameButRecovery (before after : WorldObs) : Bool :=
  before.length == after.length &&
  before.all fun b => b.name == recoveryKey || find after b.name == some b

/-- a maximum is exceeded after the step by something the step itself grew -/
def newExcess (l : IMAP) (before after : WorldObs) : Option String :=
  if (after.length : Int) > l.maxMailboxCount && after.length > before.length then
    some s!"mailboxes={after.length}>max={l.maxMailboxCount}"
  else
    (after.findSome? fun a =>
      let b := (find before a.name).getD { name := a.name, count := 0, uidNext := 1, content := "-" }
      if (a.count : Int) > l.maxMessageCountPerMailbox && a.count > b.count then
        some s!"messages({a.name})={a.count}>max={l.maxMessageCountPerMailbox}"
      else if (a.uidNext : Int) > l.maxUID && a.uidNext > b.uidNext then
        some s!"uidnext({a.name})={a.uidNext}>max={l.maxUID}"
      else none)

def excessCause (op : Op) (before : WorldObs) (what : String) : String :=
  if (what.splitOn recoveryKey).length > 1 then "refused-append-recovered" else
  match op with
  | .create name => if ((superiors name).filter fun s => (find before s).isNone).length > 0 then "implicit-parents" else "limit-exceeded"
  | .race _ => "check-outside-tx"
  | _ => "limit-exceeded"

def kindOf : Op → String
  | .append _ => "append" | .copy _ n _ => if n > 1 then "copy-multi" else "copy" | .move _ n _ => if n > 1 then "move-multi" else "move"
  | .create _ => "create" | .kcreate _ => "kcreate" | .batch _ _ => "batch" | .batch2 .. => "batch2" | .race _ => "race" | .flush => "flush" | .aux => "aux"

def judge (l : IMAP) (op : Op) (before after : WorldObs) (status : String) : String :=
  if !(after.all fun a => contentLen a.content == a.count) then "violation inconsistent-observation cause=harness-observation" else
  -- applying the connector's queued echo of an IMAP command must not change anything
  if (match op with | .flush => true | _ => false) then
    (if sameWorld before after then "ok trivial-flush" else "violation connector-echo-changed-the-world cause=connector-echo-after-refusal") else
  match newExcess l before after with
  | some what => s!"violation limit-exceeded {what} cause={excessCause op before what} op={kindOf op}"
  | none =>
    let pred := predict l before op
    match op with
    | .aux => "ok trivial-aux"
    | _ =>
      if status == "no" then
        if !sameWorld before after then
          (if sameButRecovery before after then s!"violation refused-operation-stored-the-message-in-the-recovery-mailbox cause=refused-append-recovered op={kindOf op}"
           else s!"violation refused-operation-changed-a-mailbox cause=refused-but-changed op={kindOf op}")
        else match pred with
          | some _ => s!"violation fitting-operation-refused cause=fitting-refused op={kindOf op}"
          | none => s!"ok nontrivial-refused-unchanged-{kindOf op}"
      else if status == "ok" then
        match pred with
        | some p =>
          if matchesPred before after p then s!"ok nontrivial-accepted-{kindOf op}"
          else s!"violation accepted-step-differs-from-model cause=model-mismatch op={kindOf op}"
        | none =>
          -- accepted although the model refuses; no maximum is exceeded (checked above)
          s!"violation accepted-step-the-model-refuses cause=model-mismatch op={kindOf op}"
      else if status == "effect" then
        -- connector update: all or nothing, and exactly when the model accepts
        match pred with
        | some p =>
          if matchesPred before after p then s!"ok nontrivial-applied-{kindOf op}"
          else if sameWorld before after then s!"violation fitting-connector-update-not-applied cause=fitting-refused op={kindOf op}"
          else s!"violation connector-update-applied-partially cause=partial-batch op={kindOf op}"
        | none =>
          if sameWorld before after then s!"ok nontrivial-refused-unchanged-{kindOf op}"
          else s!"violation refused-connector-update-changed-a-mailbox cause=partial-batch op={kindOf op}"
      else
        -- race: two statuses
        match op, status.splitOn "," with
        | .race mb, [s1, s2] =>
          let okN := (if s1 == "ok" then 1 else 0) + (if s2 == "ok" then 1 else 0)
          (match find before mb, find after mb with
           | some b, some a =>
             if a.count != b.count + okN then
               s!"violation race-replies-do-not-match-the-mailbox cause=refused-but-changed acknowledged={okN} before={b.count} after={a.count}"
             else if !(before.all fun x => x.name == mb || x.name == recoveryKey || find after x.name == some x) then
               "violation race-changed-another-mailbox cause=refused-but-changed"
             else if okN == 2 then "ok nontrivial-race-both-accepted-within-limits"
             else if (find before recoveryKey).map (·.count) != (find after recoveryKey).map (·.count) then
               s!"violation refused-operation-stored-the-message-in-the-recovery-mailbox cause=refused-append-recovered op=race"
             else s!"ok nontrivial-race-{okN}-accepted"
           | _, _ => "violation unparsable-op cause=harness-observation")
        | _, _ => s!"violation no-tagged-completion cause=no-completion status={status}"

end JLimits

open JLimits in
def judgeC17Wire (args : List String) : String :=
  if args.getLast? == some "bad-dialect" then "ok not-an-op" else
  match args with
  | mxMb :: mxMsg :: mxUID :: rest =>
    match mxMb.toNat?, mxMsg.toNat?, mxUID.toNat? with
    | some a, some b, some c =>
      let l := newIMAPLimits a b c 4294967295
      (match rest.span (· != "|") with
       | (opw, "|" :: before :: "=>" :: status :: "|" :: after :: []) =>
         (match parseOp opw, parseWorld before, parseWorld after with
          | some op, some bw, some aw => judge l op bw aw status
          | _, _, _ => "violation unparsable-op cause=harness-observation")
       | _ => "violation unparsable-op cause=harness-observation")
    | _, _, _ => "violation unparsable-op cause=harness-observation"
  | _ => "violation unparsable-op cause=harness-observation"

end Gluon.Driver
