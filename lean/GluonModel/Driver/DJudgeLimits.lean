/-
Judge of the wire-level oracle `vh oracle c17limits` (property C17), built on the abstract
"check, then insert" machine of Model/Limits.lean.  One line per step of a history run against a
whole server with small limits; the harness observes the complete world (every mailbox with its
message count, UIDNEXT and content) before and after the step.

  judge-c17-wire <maxMailboxes> <maxMessages> <maxUID> <op …> | <world before> => <status> | <world after>

  op      append <mbox> | copy <src> <lo> <hi> <dst> | move <src> <lo> <hi> <dst> | create <name> | kcreate <name> | rename <old> <new>
          | batch <mbox> <n> | batch2 <mbox1> <n1> <mbox2> <n2> | race <mbox> | aux <text>
          | flush <status of the command> (the connector's queued echo of the command is applied;
            `ok+diverged`: accepted, but a COPY / MOVE was refused earlier in the history — gluon had told
            the connector before its limit check, so the connector's view of the mailboxes differs since)
          (copy / move: the messages with sequence numbers lo..hi of <src>; <dst> may hold copies of
          some of them already and may be <src> itself)
  world   <name>:<count>:<uidnext>:<content>;…   content = <uid>.<marker>[r]+… | -   (all mailboxes, the
          recovery mailbox `Recovered_Messages` included; names without blanks, `/` = delimiter; the
          marker (RFC822.SIZE, unique per message the harness creates) identifies a message across
          mailboxes; `r` marks the two messages of a RACE step, which share one marker)
  status  ok | no | effect (connector updates: there is no tagged reply, the effect is the answer)
          | <s1>,<s2> for race
          optionally followed by `@<mbox>=<E<n> | ->`: what a session that has <mbox> selected was told at
          its next NOOP after the step (the last EXISTS, or nothing)

What is decided here (Lean, not Go):
  * invariant   — the step does not push the number of mailboxes, a mailbox's message count or a
                  mailbox's UIDNEXT over the maxima (`Limits.Within`), judged on the observed world;
  * refusal     — a step answered NO leaves the world exactly as it was;
  * fitting     — a step that fits (`Limits.step` of the model accepts it and stays `Within`) is accepted;
  * tie         — an accepted step changes the world as `Limits.step` predicts: COPY / MOVE of n
                  messages of which k already have a copy in the destination is the model event
                  `replaceTx k n` (k is computed here from the observed contents); the destination then
                  holds its other messages unchanged plus the n messages under the UIDs
                  UIDNEXT … UIDNEXT+n-1, the source of a MOVE loses exactly the moved messages;
  * uids        — after every step each mailbox's UIDs are below its UIDNEXT, messages that were
                  there before keep their UID, new ones get UIDs from the old UIDNEXT upwards;
  * announced   — a watching session is told nothing about a mailbox the step left as it was (a refused
                  operation in particular), and is told the exact new count when the mailbox grew.
-/
import GluonModel.Model.Limits

-- DIALECT: judge-c17-wire judgeC17Wire
namespace Gluon.Driver
open Gluon.Limits

namespace JLimits

structure MB where
  name : String
  count : Nat
  uidNext : Nat
  content : String
deriving DecidableEq, Repr

abbrev WorldObs := List MB

def recoveryKey : String := "Recovered_Messages"

def parseMB (s : String) : Option MB :=
  match s.splitOn ":" with
  | [n, c, u, x] => do some { name := n, count := ← c.toNat?, uidNext := ← u.toNat?, content := x }
  | _ => none

def parseWorld (s : String) : Option WorldObs :=
  if s == "-" then some [] else (s.splitOn ";").mapM parseMB

def contentLen (x : String) : Nat := if x == "-" then 0 else (x.splitOn "+").length

/-- one message of a mailbox as observed: UID, identity marker, member of a RACE pair -/
structure Item where
  uid : Nat
  mark : Nat
  twin : Bool
deriving DecidableEq, Repr

def parseItem (s : String) : Option Item :=
  match s.splitOn "." with
  | [u, m] =>
    let twin := m.endsWith "r"
    let m' := if twin then (m.take (m.length - 1)).toString else m
    do some { uid := ← u.toNat?, mark := ← m'.toNat?, twin := twin }
  | _ => none

def parseItems (x : String) : Option (List Item) :=
  if x == "-" then some [] else (x.splitOn "+").mapM parseItem

def itemsOf (m : MB) : List Item := (parseItems m.content).getD []

def sortNat (l : List Nat) : List Nat := l.mergeSort (fun a b => a ≤ b)

def find (w : WorldObs) (n : String) : Option MB := w.find? (·.name == n)

/-- proper superiors of a `/`-separated name -/
def superiors (name : String) : List String :=
  let parts := name.splitOn "/"
  ((List.range parts.length).drop 1).map fun i => "/".intercalate (parts.take i)

/-- the model's world for one observed mailbox -/
def toWorld (w : WorldObs) (m : MB) : World :=
  { mailboxes := w.length, count := m.count, uidNext := m.uidNext, passed := [] }

inductive Op where
  | append (mb : String)
  | copy (src : String) (lo hi : Nat) (dst : String)
  | move (src : String) (lo hi : Nat) (dst : String)
  | create (name : String)
  | kcreate (name : String)
  | rename (old new : String)
  | batch (mb : String) (n : Nat)
  | batch2 (mb1 : String) (n1 : Nat) (mb2 : String) (n2 : Nat)
  | race (mb : String)
  | flush (after : String)      -- status of the command whose connector echo is applied
  | aux

def parseOp : List String → Option Op
  | ["append", m] => some (.append m)
  | ["copy", s, lo, hi, d] => do some (.copy s (← lo.toNat?) (← hi.toNat?) d)
  | ["move", s, lo, hi, d] => do some (.move s (← lo.toNat?) (← hi.toNat?) d)
  | ["create", n] => some (.create n)
  | ["kcreate", n] => some (.kcreate n)
  | ["rename", o, n] => some (.rename o n)
  | ["batch", m, n] => n.toNat?.map fun k => .batch m k
  | ["batch2", m1, n1, m2, n2] => do some (.batch2 m1 (← n1.toNat?) m2 (← n2.toNat?))
  | ["race", m] => some (.race m)
  | ["flush"] => some (.flush "no")
  | ["flush", st] => some (.flush st)
  | "aux" :: _ => some .aux
  | _ => none

/-- the message set of a COPY / MOVE `lo:hi` as observed before the step -/
structure Sel where
  items : List Item           -- the selected messages of the source, in sequence (= UID) order
  k : Nat                     -- how many of them already have a copy in the destination
  ambiguous : Bool            -- a selected RACE message shares its marker with a message of the destination:
                              -- whether that is a copy of it or of its twin cannot be told from the observation
deriving Repr

def select (w : WorldObs) (src : String) (lo hi : Nat) (dst : String) : Option Sel :=
  match find w src, find w dst with
  | some s, some d =>
    if lo == 0 || hi < lo || hi > s.count then none else
    let sel := ((itemsOf s).drop (lo - 1)).take (hi + 1 - lo)
    let dmarks := (itemsOf d).map (·.mark)
    some { items := sel, k := (sel.filter fun i => dmarks.contains i.mark).length,
           ambiguous := sel.any fun i => i.twin && dmarks.contains i.mark }
  | _, _ => none

/-- what the model machine predicts for one mailbox the step changes: count, UIDNEXT and a test of
    the content (before, after) -/
structure Change where
  name : String
  count : Nat
  uidNext : Nat
  content : List Item → List Item → Bool := fun _ _ => true

/-- what the model machine predicts for (mailboxes, per-mailbox count/uidNext); `none` = the model
    refuses the step (world unchanged) -/
structure Pred where
  mailboxes : Nat
  changed : List Change

def key (i : Item) : Nat × Nat := (i.uid, i.mark)

/-- the destination of an accepted COPY / MOVE: the messages that are not replaced stay as they are;
    the `sel` messages appear under the UIDs `u … u + n - 1` -/
def replacedContent (sel : List Item) (u : Nat) (before after : List Item) : Bool :=
  let marks := sel.map (·.mark)
  let kept := before.filter fun i => !marks.contains i.mark
  let old := after.filter fun i => i.uid < u
  let new := after.filter fun i => i.uid ≥ u
  old.map key == kept.map key &&
    new.map (·.uid) == List.range' u sel.length &&
    sortNat (new.map (·.mark)) == sortNat marks

/-- the source of an accepted MOVE (to another mailbox): exactly the selected messages are gone -/
def removedContent (sel : List Item) (before after : List Item) : Bool :=
  after.map key == (before.filter fun i => !(sel.map (·.uid)).contains i.uid).map key

def addTo (l : IMAP) (w : WorldObs) (mb : String) (n : Nat) : Option Change :=
  match find w mb with
  | none => none
  | some m =>
    let w0 := toWorld w m
    let w1 := step l w0 (.addTx n)
    if w1 == w0 && n > 0 then none else some { name := mb, count := w1.count, uidNext := w1.uidNext }

/-- COPY / MOVE into `dst`: the model event `replaceTx k n` -/
def replaceIn (l : IMAP) (w : WorldObs) (dst : String) (sel : Sel) : Option Change :=
  match find w dst with
  | none => none
  | some m =>
    let w0 := toWorld w m
    let w1 := step l w0 (.replaceTx sel.k sel.items.length)
    if w1 == w0 then none
    else some { name := dst, count := w1.count, uidNext := w1.uidNext, content := replacedContent sel.items m.uidNext }

def predict (l : IMAP) (w : WorldObs) : Op → Option Pred
  | .append mb =>
    match find w mb with
    | none => none
    | some m =>
      let w0 := toWorld w m
      let w1 := step l (step l w0 (.check 0 1)) (.insert 0)
      if w1.count == w0.count then none else some { mailboxes := w.length, changed := [{ name := mb, count := w1.count, uidNext := w1.uidNext }] }
  | .copy src lo hi dst =>
    match select w src lo hi dst with
    | none => none
    | some sel => (replaceIn l w dst sel).map fun c => { mailboxes := w.length, changed := [c] }
  | .move src lo hi dst =>
    match select w src lo hi dst with
    | none => none
    | some sel =>
      match replaceIn l w dst sel, find w src with
      | some c, some s =>
        if src == dst then some { mailboxes := w.length, changed := [c] }
        else some { mailboxes := w.length,
                    changed := [c, { name := src, count := s.count - sel.items.length, uidNext := s.uidNext, content := removedContent sel.items }] }
      | _, _ => none
  | .create name =>
    let parents := ((superiors name).filter fun s => (find w s).isNone).length
    let w0 : World := { mailboxes := w.length, count := 0, uidNext := 1, passed := [] }
    let w1 := step l w0 (.create parents)
    if w1.mailboxes == w0.mailboxes then none else some { mailboxes := w1.mailboxes, changed := [] }
  | .kcreate _ =>
    let w0 : World := { mailboxes := w.length, count := 0, uidNext := 1, passed := [] }
    let w1 := step l w0 (.create 0)
    if w1.mailboxes == w0.mailboxes then none else some { mailboxes := w1.mailboxes, changed := [] }
  | .batch mb n => (addTo l w mb n).map fun c => { mailboxes := w.length, changed := [c] }
  | .batch2 m1 n1 m2 n2 =>
    match addTo l w m1 n1, addTo l w m2 n2 with
    | some a, some b => some { mailboxes := w.length, changed := [a, b] }
    | _, _ => none
  | .race mb =>
    match find w mb with
    | none => none
    | some m =>
      let w0 := toWorld w m
      let w1 := runEvs l [.check 0 1, .check 1 1, .insert 0, .insert 1] w0
      if w1.count == w0.count then none else some { mailboxes := w.length, changed := [{ name := mb, count := w1.count, uidNext := w1.uidNext }] }
  | .rename .. => none     -- judged by `judgeRename` (names change: `Pred` cannot say that)
  | .flush _ => none
  | .aux => none

/-- does the observed world `after` equal `before` modified as predicted? (contents of unchanged
    mailboxes must be identical; new mailboxes of a create are empty) -/
def matchesPred (before after : WorldObs) (p : Pred) : Bool :=
  after.length == p.mailboxes &&
  before.all (fun b =>
    match find after b.name with
    | none => false
    | some a =>
      match p.changed.find? (·.name == b.name) with
      | some c => a.count == c.count && a.uidNext == c.uidNext && c.content (itemsOf b) (itemsOf a)
      | none => a == b) &&
  after.all (fun a => (find before a.name).isSome || a.count == 0)

def sameWorld (before after : WorldObs) : Bool :=
  before.length == after.length && before.all fun b => find after b.name == some b

/-- only the recovery mailbox differs -/
def sameButRecovery (before after : WorldObs) : Bool :=
  before.length == after.length &&
  before.all fun b => b.name == recoveryKey || find after b.name == some b

/-- UIDs after a step: below UIDNEXT; a message with a UID below the old UIDNEXT was there before
    under that UID (nothing is renumbered, no UID is handed out twice) -/
def uidsSane (before after : WorldObs) : Option String :=
  after.findSome? fun a =>
    let b := (find before a.name).getD { name := a.name, count := 0, uidNext := 1, content := "-" }
    let bi := (itemsOf b).map key
    if (itemsOf a).any (fun i => i.uid ≥ a.uidNext) then some s!"uid-not-below-uidnext({a.name})"
    else if a.uidNext < b.uidNext then some s!"uidnext-decreased({a.name})"
    else if (itemsOf a).any (fun i => i.uid < b.uidNext && !bi.contains (key i)) then some s!"old-uid-reused({a.name})"
    else none

/-- a maximum is exceeded after the step by something the step itself grew -/
def newExcess (l : IMAP) (before after : WorldObs) : Option String :=
  if (after.length : Int) > l.maxMailboxCount && after.length > before.length then
    some s!"mailboxes={after.length}>max={l.maxMailboxCount}"
  else
    (after.findSome? fun a =>
      let b := (find before a.name).getD { name := a.name, count := 0, uidNext := 1, content := "-" }
      if (a.count : Int) > l.maxMessageCountPerMailbox && a.count > b.count then
        some s!"messages({a.name})={a.count}>max={l.maxMessageCountPerMailbox}"
      else if (a.uidNext : Int) > l.maxUID && a.uidNext > b.uidNext then
        some s!"uidnext({a.name})={a.uidNext}>max={l.maxUID}"
      else none)

def isCopyMove : Op → Bool
  | .copy .. => true | .move .. => true | _ => false

def excessCause (op : Op) (before : WorldObs) (what : String) : String :=
  if (what.splitOn recoveryKey).length > 1 then "refused-append-recovered" else
  match op with
  -- `State.Create` checks the limit for the named mailbox AND its missing superiors (model: `step … (.create parents)`):
  -- exceeding the maximum through them is a regression of that repair, not a known finding
  | .create name => if ((superiors name).filter fun s => (find before s).isNone).length > 0 then "create-parents-above-maximum" else "limit-exceeded"
  | .race _ => "check-outside-tx"
  | .kcreate _ => "limit-exceeded"
  -- `State.Rename` checks the limit for the missing superiors of the new name (model: `step … (.renameParents parents)`)
  | .rename .. => "rename-parents-above-maximum"
  | _ => if what.startsWith "uidnext" then "uid-above-maximum"
         else if what.startsWith "messages" then "count-above-maximum" else "limit-exceeded"

def kindOf : Op → String
  | .append _ => "append"
  | .copy s lo hi d => (if hi > lo then "copy-multi" else "copy") ++ (if s == d then "-self" else "")
  | .move s lo hi d => (if hi > lo then "move-multi" else "move") ++ (if s == d then "-self" else "")
  | .create _ => "create" | .kcreate _ => "kcreate" | .rename .. => "rename" | .batch _ _ => "batch" | .batch2 .. => "batch2" | .race _ => "race" | .flush _ => "flush" | .aux => "aux"

/-- overlap class of a COPY / MOVE (for the statistics): none / some / all of the set is in the destination already -/
def overlapOf (w : WorldObs) : Op → String
  | .copy s lo hi d | .move s lo hi d =>
    match select w s lo hi d with
    | some sel => if sel.k == 0 then "-dup0" else if sel.k == sel.items.length then "-dupall" else "-dupsome"
    | none => ""
  | _ => ""

/-- a refused COPY / MOVE after which the destination no longer holds a message it held before -/
def lostFromDst (before after : WorldObs) : Op → Bool
  | .copy _ _ _ d | .move _ _ _ d =>
    match find before d, find after d with
    | some b, some a => (itemsOf b).any fun i => !((itemsOf a).map key).contains (key i)
    | _, _ => false
  | _ => false

def refusedChangedCause (before after : WorldObs) (op : Op) : String :=
  if lostFromDst before after op then
    (match op with
     | .move .. => "refused-move-lost-destination-copies"
     | _ => "refused-copy-lost-destination-copies")
  else "refused-but-changed"

/-- the name a mailbox has after `RENAME old new` (the mailbox itself and its inferiors move) -/
def renamedName (old new n : String) : String :=
  if n == old then new
  else if n.startsWith (old ++ "/") then new ++ "/" ++ "/".intercalate ((n.splitOn "/").drop (old.splitOn "/").length)
  else n

/-- RENAME of a mailbox other than INBOX, through the model: the `parents` missing superiors of the new name are
    created iff `step … (.renameParents parents)` accepts; a refusal changes nothing; an accepted RENAME moves the
    mailbox and its inferiors with their content, UIDs and UIDNEXT, and the new superiors are empty.  RENAME is
    refused for other reasons (no such mailbox, the new name exists, renaming a mailbox below itself): the model
    then predicts a refusal as well. -/
def judgeRename (l : IMAP) (before after : WorldObs) (old new status : String) : String :=
  let parents := ((superiors new).filter fun s => (find before s).isNone).length
  let valid := (find before old).isSome && (find before new).isNone && !(superiors new).contains old &&
    old != recoveryKey && !new.startsWith recoveryKey
  let w0 : World := { mailboxes := before.length, count := 0, uidNext := 1, passed := [] }
  let w1 := step l w0 (.renameParents parents)
  let accepted := valid && w1.mailboxes == w0.mailboxes + parents
  if old == "INBOX" then
    (if status == "no" && !sameWorld before after then "violation refused-operation-changed-a-mailbox cause=refused-but-changed op=rename"
     else "ok trivial-rename-inbox")
  else if status == "no" then
    if !sameWorld before after then "violation refused-operation-changed-a-mailbox cause=refused-but-changed op=rename"
    else if accepted then "violation fitting-operation-refused cause=fitting-refused op=rename"
    else if valid then s!"ok nontrivial-refused-unchanged-rename-parents{parents}"
    else "ok nontrivial-refused-unchanged-rename-invalid"
  else if status == "ok" then
    if !accepted then "violation accepted-step-the-model-refuses cause=model-mismatch op=rename"
    else if after.length == before.length + parents &&
        (before.all fun b => find after (renamedName old new b.name) == some { b with name := renamedName old new b.name }) &&
        (after.all fun a => (before.any fun b => renamedName old new b.name == a.name) || a.count == 0) then
      s!"ok nontrivial-accepted-rename-parents{parents}"
    else "violation accepted-step-differs-from-model cause=model-mismatch op=rename"
  else s!"violation no-tagged-completion cause=no-completion status={status}"

def judge (l : IMAP) (op : Op) (before after : WorldObs) (status : String) : String :=
  if !(after.all fun a => contentLen a.content == a.count && (parseItems a.content).isSome) then "violation inconsistent-observation cause=harness-observation" else
  -- applying the connector's queued echo of an IMAP command must not change anything
  if let .flush st := op then
    (if sameWorld before after then "ok trivial-flush"
     else if st == "ok" then "violation connector-echo-changed-the-world cause=connector-echo-after-accepted"
     else "violation connector-echo-changed-the-world cause=connector-echo-after-refusal") else
  match newExcess l before after with
  | some what => s!"violation limit-exceeded {what} cause={excessCause op before what} op={kindOf op}{overlapOf before op}"
  | none =>
    let pred := predict l before op
    let ambiguous : Bool := match op with
      | .copy s lo hi d | .move s lo hi d => (select before s lo hi d).any (·.ambiguous)
      | _ => false
    match op with
    | .aux => "ok trivial-aux"
    | .rename old new => judgeRename l before after old new status
    | _ =>
      match uidsSane before after with
      | some what => s!"violation uids-not-sane {what} cause=uid-assignment op={kindOf op}{overlapOf before op}"
      | none =>
      if status == "no" then
        if !sameWorld before after then
          (if sameButRecovery before after then s!"violation refused-operation-stored-the-message-in-the-recovery-mailbox cause=refused-append-recovered op={kindOf op}"
           else s!"violation refused-operation-changed-a-mailbox cause={refusedChangedCause before after op} op={kindOf op}{overlapOf before op}")
        else if ambiguous then "ok trivial-ambiguous-overlap"
        else match pred with
          | some _ => s!"violation fitting-operation-refused cause=fitting-refused op={kindOf op}{overlapOf before op}"
          | none => s!"ok nontrivial-refused-unchanged-{kindOf op}{overlapOf before op}"
      else if status == "ok" then
        if ambiguous then "ok trivial-ambiguous-overlap" else
        match pred with
        | some p =>
          if matchesPred before after p then s!"ok nontrivial-accepted-{kindOf op}{overlapOf before op}"
          else s!"violation accepted-step-differs-from-model cause=model-mismatch op={kindOf op}{overlapOf before op}"
        | none =>
          -- accepted although the model refuses; no maximum is exceeded (checked above)
          s!"violation accepted-step-the-model-refuses cause=model-mismatch op={kindOf op}{overlapOf before op}"
      else if status == "effect" then
        -- connector update: all or nothing, and exactly when the model accepts
        match pred with
        | some p =>
          if matchesPred before after p then s!"ok nontrivial-applied-{kindOf op}"
          else if sameWorld before after then s!"violation fitting-connector-update-not-applied cause=fitting-refused op={kindOf op}"
          else s!"violation connector-update-applied-partially cause=partial-batch op={kindOf op}"
        | none =>
          if sameWorld before after then s!"ok nontrivial-refused-unchanged-{kindOf op}"
          else s!"violation refused-connector-update-changed-a-mailbox cause=partial-batch op={kindOf op}"
      else
        -- race: two statuses
        match op, status.splitOn "," with
        | .race mb, [s1, s2] =>
          let okN := (if s1 == "ok" then 1 else 0) + (if s2 == "ok" then 1 else 0)
          (match find before mb, find after mb with
           | some b, some a =>
             if a.count != b.count + okN then
               s!"violation race-replies-do-not-match-the-mailbox cause=refused-but-changed acknowledged={okN} before={b.count} after={a.count}"
             else if !(before.all fun x => x.name == mb || x.name == recoveryKey || find after x.name == some x) then
               "violation race-changed-another-mailbox cause=refused-but-changed"
             else if okN == 2 then "ok nontrivial-race-both-accepted-within-limits"
             else if (find before recoveryKey).map (·.count) != (find after recoveryKey).map (·.count) then
               s!"violation refused-operation-stored-the-message-in-the-recovery-mailbox cause=refused-append-recovered op=race"
             else s!"ok nontrivial-race-{okN}-accepted"
           | _, _ => "violation unparsable-op cause=harness-observation")
        | _, _ => s!"violation no-tagged-completion cause=no-completion status={status}"

/-- what the watching session was told, against what happened to the mailbox it has selected -/
def judgeWatch (before after : WorldObs) (mb tok : String) : Option String :=
  match find before mb, find after mb with
  | some b, some a =>
    if tok == "lost" then some "violation watching-session-lost cause=harness-observation"
    else if a.count == b.count && a.uidNext == b.uidNext && a.content == b.content then
      (if tok != "-" then some s!"violation unchanged-mailbox-announced-to-a-session told={tok} count={a.count} cause=announced-without-effect" else none)
    else if a.count > b.count then
      (if tok != s!"E{a.count}" then some s!"violation grown-mailbox-not-announced-exactly told={tok} count={a.count} cause=announcement-mismatch" else none)
    else none
  | _, _ => none

end JLimits

open JLimits in
def judgeC17Wire (args : List String) : String :=
  if args.getLast? == some "bad-dialect" then "ok not-an-op" else
  match args with
  | mxMb :: mxMsg :: mxUID :: rest =>
    match mxMb.toNat?, mxMsg.toNat?, mxUID.toNat? with
    | some a, some b, some c =>
      let l := newIMAPLimits a b c 4294967295
      (match rest.span (· != "|") with
       | (opw, "|" :: before :: "=>" :: status :: "|" :: after :: []) =>
         (match parseOp opw, parseWorld before, parseWorld after with
          | some op, some bw, some aw =>
            (match status.splitOn "@" with
             | [st, watch] =>
               let res := judge l op bw aw st
               if !res.startsWith "ok" then res
               else
                 (match watch.splitOn "=" with
                  | [mb, tok] =>
                    (match judgeWatch bw aw mb tok with
                     | some v => s!"{v} op={kindOf op}"
                     | none => res ++ "-watched")
                  | _ => "violation unparsable-op cause=harness-observation")
             | _ => judge l op bw aw status)
          | _, _, _ => "violation unparsable-op cause=harness-observation")
       | _ => "violation unparsable-op cause=harness-observation")
    | _, _, _ => "violation unparsable-op cause=harness-observation"
  | _ => "violation unparsable-op cause=harness-observation"

end Gluon.Driver
