/- dialects for the session-loop part of C11 (oracle `c11session`, harness/o_session.go).

sessionloop <tls 0|1> <auth 0|1> <hex stream>
  the model's answer for the stream with a backend that answers every handled command with OK
  (auth 1: authenticated from the start; auth 0: LOGIN makes it authenticated):
    <completions> <end> lines=<n>
  completions: `-` or `;`-separated `<tag hex, ~ if empty>:<ok|no|bad|bye>`; end: `eof-boundary`, `eof-midline`,
  `literal-eof`, `eof-token-drop`, `tls-handshake`, `starttls-no-tls`, `tls-started`, `closed-errors`,
  `closed-logout`, `closed-invalid`, `hang`, `panic`, `out-of-fuel`.

judge-c11-session <tls 0|1> <hex stream> => <observed completions>
  The executable statement of the session-loop part of C11, evaluated on what the real server wrote for
  the stream (the client sends the stream, half-closes, reads to the end). Two questions, in this order:
  1. is the observation what the MODEL says (lines from the reader model; the class of each handled command
     and an invalid-state BYE are taken from the observation, everything else — how many completions, for
     which line, which tag, which class for parse errors / IDLE / LOGOUT, where the session ends — must
     match)? If not: `violation cause=model-mismatch …` (a modelling gap or a server that misbehaves).
  2. does the PROPERTY hold of it: every complete line answered by exactly one completion (an accepted IDLE
     together with the line that ends it), tagged with the line's tag (`lineTag`: longest prefix of tag
     characters, not DONE) when it has one, `*` otherwise; no line dropped without a reply except by
     the documented closes (too many errors, LOGOUT, BYE, a TLS record header). Known defects of the code
     that the model reproduces are reported with stable labels:
       cause=late-error-empty-tag       error at the final CR / LF: BAD with an EMPTY tag instead of the line's tag
       cause=untagged-line-empty-tag    line without a tag: completion with an EMPTY tag instead of `*`
       cause=first-line-bad-tag-drops   first line starting with a non-tag byte: connection dropped, no reply
       cause=bare-lf-swallows-next-line a line ended by a bare LF is answered only when the next line has arrived, and
                                        that next line is skipped as "invalid input": it is never answered
       cause=starttls-without-tls-drops STARTTLS without TLS configuration: connection dropped, no reply
     and, for streams without `{` and without bare LF (the hypotheses of
     `Gluon.C11.completions_eq_crlf_lines_partial`), the number of lines the reader model found is cross-checked
     against the number of CRLF pairs (`cause=line-segmentation`).
  Answer: `ok <lines> <features>` or `violation cause=… | <detail>`.
-/
import GluonModel.Model.SessionLoopFacts
import GluonModel.Driver.DParse
import GluonModel.Driver.DJudgeParse

-- DIALECT: sessionloop runSessionLoop
-- DIALECT: judge-c11-session judgeC11Session
namespace Gluon.Driver.DSessionLoop
open Gluon.Parse Gluon.SessionLoop
open Gluon.Driver.DParse (showHex parseHex)

def showCls : Cls → String
  | .ok => "ok" | .no => "no" | .bad => "bad" | .bye => "bye"

def parseCls (s : String) : Option Cls :=
  if s == "ok" then some .ok else if s == "no" then some .no else if s == "bad" then some .bad
  else if s == "bye" then some .bye else none

def showCompletion (c : Completion) : String := showHex c.tag ++ ":" ++ showCls c.cls

def showCompletions (l : List Completion) : String :=
  if l.isEmpty then "-" else ";".intercalate (l.map showCompletion)

def parseCompletion (s : String) : Option Completion :=
  match s.splitOn ":" with
  | [t, c] => do
    let tag ← parseHex t
    let cls ← parseCls c
    pure ⟨tag, cls⟩
  | _ => none

def parseCompletions (s : String) : Option (List Completion) :=
  if s == "-" then some [] else (s.splitOn ";").mapM parseCompletion

def showExit : ReaderExit → String
  | .eof true => "eof-boundary" | .eof false => "eof-midline" | .literalEOF => "literal-eof"
  | .eofTokenDrop => "eof-token-drop" | .tlsHandshake => "tls-handshake" | .starttlsNoTLS => "starttls-no-tls"
  | .tlsStarted => "tls-started" | .hang => "hang" | .panic => "panic" | .outOfFuel => "out-of-fuel"

def showEnd : End → String
  | .reader e => showExit e
  | .closed .tooManyErrors => "closed-errors"
  | .closed .logout => "closed-logout"
  | .closed .invalidState => "closed-invalid"

def isLogin (c : Command) : Bool := match c.payload with | .login _ _ => true | _ => false

/-- backend for `sessionloop`: everything OK; LOGIN authenticates -/
def okLoginBackend : Backend Bool :=
  ⟨fun a c => (.ok, a || isLogin c), fun a => a, fun _ => false⟩

def runModel (args : List String) : String :=
  match args with
  | tls :: auth :: hex :: _ =>
    match parseHex hex with
    | some input =>
      let r := run (Gluon.C11.sessionCfg (tls == "1")) okLoginBackend (auth == "1") input
      s!"{showCompletions r.out} {showEnd r.fin} lines={r.lines.length}"
    | none => "bad-op"
  | _ => "bad-op"

/-! ### the judge -/

/-- backend state of the judge: what the observation says about the next handled command -/
structure JState where
  authed : Bool
  choice : Exec
  inv : Bool

def judgeBackend : Backend JState :=
  ⟨fun s c => (s.choice, { s with authed := s.authed || (isLogin c && s.choice == .ok) }),
   fun s => s.authed, fun s => s.inv⟩

def execOfCls : Cls → Exec
  | .no => .no | .bad => .bad | _ => .ok

/-- what the property expects as the tag of the completion for a line with these bytes -/
def expectedTag (bytes : Bytes) : Bytes := (lineTag bytes).getD star

structure JAcc where
  /-- labels of property violations found so far (known defects the model reproduces) -/
  causes : List String := []
  detail : List String := []
  feats : List String := []

def JAcc.cause (a : JAcc) (c : String) (d : String) : JAcc :=
  { a with causes := if a.causes.contains c then a.causes else a.causes ++ [c],
           detail := if a.detail.length < 3 then a.detail ++ [d] else a.detail }

def JAcc.feat (a : JAcc) (f : String) : JAcc :=
  if a.feats.contains f then a else { a with feats := a.feats ++ [f] }

/-- check the tag of the completion `c` written for a line: `want` is the tag the property asks for -/
def checkTag (a : JAcc) (i : Nat) (c : Completion) (hasTag : Bool) (want : Bytes) : JAcc :=
  if c.cls == .bye then a
  else if c.tag == want then a
  else if c.tag.isEmpty && hasTag then
    a.cause "cause=late-error-empty-tag" s!"line {i}: completion with an empty tag, the line's tag is {showHex want}"
  else if c.tag.isEmpty then
    a.cause "cause=untagged-line-empty-tag" s!"line {i}: the line has no tag, the completion has an EMPTY tag instead of *"
  else a.cause "cause=wrong-tag" s!"line {i}: completion tagged {showHex c.tag}, expected {showHex want}"

def isReaderReply : ReadRes → Bool
  | .tlsOk _ => true
  | .tlsNo _ => true
  | _ => false

/-- strip the longest prefix of `rr` (in order) that `obs` starts with: how many, and what is left of both -/
def stripRun : List Completion → List Completion → Nat × List Completion × List Completion
  | r :: rr, o :: obs => if r == o then let x := stripRun rr obs; (x.1 + 1, x.2.1, x.2.2) else (0, r :: rr, o :: obs)
  | rr, obs => (0, rr, obs)

/-- the property on the lines the reader answers itself (STARTTLS) -/
def checkRun (a : JAcc) (i : Nat) : List Line → List Completion → JAcc
  | l :: ls, c :: cs => checkRun ((checkTag a i c (lineTag l.bytes).isSome (expectedTag l.bytes)).feat "starttls") (i + 1) ls cs
  | _, _ => a

/-- walk over the reader model's lines with `serveStep`, taking the backend's choices from the observation;
`idleWant` = the tag the property expects for the completion that ends a running IDLE.

The reader is one line ahead of `serve`, and the lines it answers itself (STARTTLS) never go through the channel:
its replies to the run of such lines that follows a line `k` may be written BEFORE `serve`'s completion for `k`
(and, when `serve` closes the session at `k`, some of them may still get out). The walk therefore reads, for
every line `k` that `serve` answers: any prefix of the run's replies, then `serve`'s, then the rest of the run's.
Returns `Except mismatch (acc, how serve ended, rest of the observation)`. -/
def walk (cfg : Cfg) : Nat → Nat → List Line → SState JState → Option Bytes → List Completion → JAcc →
    Except String (JAcc × Option Why × List Completion)
  | 0, _, _, _, _, _, _ => .error "judge out of fuel"
  | _, _, [], _, _, obs, a => .ok (a, none, obs)
  | fuel + 1, i, l :: ls, st, idleWant, obs, a =>
    if isReaderReply l.res then
      -- a reader-answered line with no `serve`-answered line before it: in order
      let out := (serveStep cfg judgeBackend st l.res).1
      if !(out.isPrefixOf obs) then
        .error s!"line {i} ({showHex (l.bytes.take 40)}): the model says {showCompletions out}, the server wrote {showCompletions (obs.take 1)}"
      else walk cfg fuel (i + 1) ls st idleWant (obs.drop out.length) (checkRun a i [l] out)
    else
      let run := ls.takeWhile (fun x => isReaderReply x.res)
      let rest := ls.dropWhile (fun x => isReaderReply x.res)
      let rr := (run.map (fun x => (serveStep cfg judgeBackend st x.res).1)).flatten
      let (p, rr', obs) := stripRun rr obs
      let a := if p > 0 then a.feat "reader-reply-overtakes" else a
      let head := obs.head?
      let bk : JState :=
        { authed := st.bk.authed,
          choice := match head with | some c => execOfCls c.cls | none => .ok,
          inv := match head with | some c => c.cls == .bye | none => false }
      let st := { st with bk := bk }
      let (out, next) := serveStep cfg judgeBackend st l.res
      if !(out.isPrefixOf obs) then
        .error s!"line {i} ({showHex (l.bytes.take 40)}): the model says {showCompletions out}, the server wrote {showCompletions (obs.take (max out.length 1))}"
      else
        let obs := obs.drop out.length
        -- the property, on this line
        let (a, idleWant') :=
          match st.mode, out with
          | .idle _, [c] =>
            ((checkTag a i c true (idleWant.getD star)).feat "idle-end", none)
          | .normal, [] =>
            -- an accepted IDLE: answered together with the next line
            (a.feat "idle-start", some (expectedTag l.bytes))
          | .normal, [c] =>
            let a := match l.res with
              | .err _ => a.feat "parse-error"
              | _ => a.feat (if c.cls == .bye then "bye-invalid-state" else "command")
            (checkTag a i c (lineTag l.bytes).isSome (expectedTag l.bytes), none)
          | _, _ => (a.cause "cause=completion-count" s!"line {i}: {out.length} completions", none)
        match next with
        | .stop w =>
          -- what the reader still got out for the lines right behind the closing one
          let (q, _, obs) := stripRun rr' obs
          .ok (checkRun a (i + 1) run (rr.take (p + q)), some w, obs)
        | .cont st' =>
          if !(rr'.isPrefixOf obs) then
            .error s!"line {i + 1 + p}: the model says {showCompletions rr'} (STARTTLS answered by the reader), the server wrote {showCompletions (obs.take (max rr'.length 1))}"
          else
            walk cfg fuel (i + 1 + run.length) rest st' idleWant' (obs.drop rr'.length) (checkRun a (i + 1) run rr)

/-- for every line the reader hands on: did the failed `Parse` stop with the line's own LF as look-ahead, so that
`ConsumeInvalidInput` went on to skip the line AFTER it (never when `skipStopsAtLookaheadLF`)? -/
def swallowFlags (cfg : Cfg) (fuel : Nat) : Nat → PState → List Bool
  | 0, _ => []
  | n + 1, s =>
    match readStep cfg fuel s with
    | .exit _ => []
    | .line l s' =>
      let f := !skipStopsAtLookaheadLF &&
        (match l.res, parseLine fuel s with
          | .err _, .err (.parse _) s1 => s1.cur.ty == .lf
          | _, _ => false)
      match l.res with
      | .tlsOk _ => [f]
      | _ => f :: swallowFlags cfg fuel n s'

def noBareCRLF : Bytes → Bool
  | 13 :: 10 :: r => noBareCRLF r
  | 13 :: _ => false
  | 10 :: _ => false
  | _ :: r => noBareCRLF r
  | [] => true

def judge (args : List String) : String :=
  match Gluon.Driver.DJudgeParse.splitArrow args with
  | ([tls, hex], [obsS]) =>
    match parseHex hex, parseCompletions obsS with
    | some input, some obs =>
      let cfg := Gluon.C11.sessionCfg (tls == "1")
      let r := readAll cfg (fuelFor input) (iterFor input) (PState.init input)
      let st0 : SState JState := SState.init ⟨false, .ok, false⟩
      match walk cfg (4 * r.1.length + 8) 0 r.1 st0 none obs {} with
      | .error e => s!"violation cause=model-mismatch | {e}"
      | .ok (a, why, rest) =>
        if !rest.isEmpty then
          s!"violation cause=model-mismatch | {rest.length} completions more than the model has lines for: {showCompletions (rest.take 3)} (model end: {match why with | some w => showEnd (.closed w) | none => showExit r.2})"
        else
          let a := match why with
            | some .tooManyErrors => a.feat "closed-errors"
            | some .logout => a.feat "closed-logout"
            | some .invalidState => a.feat "closed-invalid"
            | none =>
              match r.2 with
              | .eofTokenDrop =>
                a.cause "cause=first-line-bad-tag-drops" "the first line starts with a byte that cannot start a tag: the connection is dropped without a reply"
              | .starttlsNoTLS =>
                a.cause "cause=starttls-without-tls-drops" "STARTTLS without a TLS configuration: the connection is dropped without a reply"
              | .hang => a.cause "cause=model-hang" "the parser model ran out of fuel"
              | .panic => a.cause "cause=model-panic" "the parser model panicked"
              | .outOfFuel => a.cause "cause=model-out-of-fuel" "the reader model ran out of iterations"
              | e => a.feat (showExit e)
          -- a line ended by a bare LF that took the following line with it
          let flags := swallowFlags cfg (fuelFor input) (iterFor input) (PState.init input)
          let a := (List.zip (List.range r.1.length) (List.zip r.1 flags)).foldl (fun a (x : Nat × Line × Bool) =>
            if x.2.2 then
              a.cause "cause=bare-lf-swallows-next-line" s!"line {x.1} ends with a bare LF: the failed Parse stops with that LF as look-ahead, ConsumeInvalidInput then skips to the NEXT LF — the server answers only once the following line has arrived, and that line is never answered: {showHex (x.2.1.bytes.take 60)}"
            else a) a
          -- independent cross-check of the line segmentation
          let a :=
            if why.isNone && !input.contains 123 && lfOk input then
              match r.2 with
              | .eof _ =>
                if r.1.length == crlfCount input then a
                else a.cause "cause=line-segmentation" s!"the reader model found {r.1.length} lines, the stream has {crlfCount input} CRLF"
              | _ => a
            else if !noBareCRLF input then a.feat "bare-cr-lf" else a
          if a.causes.isEmpty then
            s!"ok lines={r.1.length} {if a.feats.isEmpty then "-" else ",".intercalate a.feats}"
          else
            s!"violation {",".intercalate a.causes} | {"; ".intercalate a.detail}"
    | _, _ => "violation bad-judge-line"
  | _ => "violation bad-judge-line"

end Gluon.Driver.DSessionLoop

namespace Gluon.Driver
def runSessionLoop : List String → String := DSessionLoop.runModel
def judgeC11Session : List String → String := DSessionLoop.judge
end Gluon.Driver
