/- Judges for the `flush` dialect: the executable statements of C05 / C01 evaluated on what the
   *implementation* answered.  Input words: `<flush op args> => <impl output words>`. -/
import GluonModel.Driver.DFlush

-- DIALECT: judge-c05-flush judgeC05
-- DIALECT: judge-c01-flush judgeC01
-- DIALECT: judge-c01-merge judgeC01Merge
namespace Gluon.Driver
open Gluon Codec

structure FlushObs where
  permit : Bool
  close : Bool
  sid : Nat
  snap : Snap
  queue : List Responder
  head : String           -- ok | err | panic
  out : List Resp
  snap' : Snap
  rem : List Responder
  issued : Bool

def field (words : List String) (key : String) : Option String :=
  (words.find? (·.startsWith (key ++ "="))).map fun w => (w.drop (key.length + 1)).toString

def parseFlushObs (args : List String) : Option FlushObs :=
  match args with
  | permit :: close :: sid :: snap :: queue :: "=>" :: head :: rest => do
    let s ← parseSnap snap
    let q ← parseQueue queue
    let out ← if head == "ok" then (field rest "out").bind parseResps else some []
    let s' ← (field rest "snap").bind parseSnap
    let rem ← (field rest "rem").bind parseQueue
    let issued ← field rest "issued"
    some { permit := bool! permit, close := bool! close, sid := nat! sid, snap := s, queue := q,
           head, out, snap' := s', rem, issued := bool! issued }
  | _ => none

/-- is `a` a subsequence of `b` -/
def isSubseq : List Responder → List Responder → Bool
  | [], _ => true
  | _ :: _, [] => false
  | x :: xs, y :: ys => if x == y then isSubseq xs ys else isSubseq (x :: xs) ys

/-- C05 on one observed flush -/
def judgeC05 (args : List String) : String :=
  match parseFlushObs args with
  | none => "violation unparsable-implementation-output"
  | some o =>
    let hadExp := o.queue.any (·.isExpunge)
    if o.permit then
      if !o.rem.isEmpty && o.head == "ok" then "violation permit-true-flush-retained-responders"
      else if hadExp then "ok nontrivial-permit" else "ok trivial"
    else
      if o.out.any (·.isExpunge) then "violation expunge-sent-with-permitExpunge-false"
      else if o.rem.filter (·.isExpunge) != o.queue.filter (·.isExpunge) then "violation expunge-responder-dropped"
      else if !(isSubseq o.rem (o.queue.map Responder.unsilent)) then "violation retained-queue-reordered-or-invented"
      else if o.issued != hadExp then "violation expungeissued-mismatch"
      else if !(o.snap.all fun m => o.snap'.any fun m' => m'.id == m.id && m'.uid == m.uid) then
        "violation known-message-removed-without-expunge"
      else if !(o.snap'.all fun m' => !(o.snap.has m'.id) || o.snap.any fun m => m.id == m'.id && m.uid == m'.uid) then
        "violation readded-instance-visible-before-removal"
      else if hadExp then "ok nontrivial-heldback" else "ok trivial"

/-- executable `AllAtEnd` (Lemmas/Explicable.lean) -/
def allAtEndB (close : Bool) (sid : Nat) : Snap → List Responder → Bool
  | _, [] => true
  | snap, r :: rs =>
    (match r with
     | .exists id uid _ _ _ => snap.has id || snap.all (·.uid < uid)
     | _ => true) && allAtEndB close sid (r.handle close sid snap).snap rs

/-- C01 on one observed flush = the statement of `C01.flush_explicable_partial` evaluated on the
    implementation's answer: inside the theorem's hypotheses (no CLOSE context, no own-`.SILENT`
    responder, every EXISTS adds at the end, no responder error) the flush must not panic and a
    client mirror that knew the whole snapshot, fed with the responses, must agree with the snapshot
    the server now answers from. Outside the hypotheses the case is only classified. -/
def judgeC01 (args : List String) : String :=
  match parseFlushObs args with
  | none => "violation unparsable-implementation-output"
  | some o =>
    let pop := (popResponders o.permit o.queue).1
    if o.close then "ok outside-close"
    else if pop.any (·.isSilent) then "ok outside-silent"
    else if !(allAtEndB false o.sid o.snap pop) then "ok outside-notatend"
    else if ((handleAll false o.sid o.snap pop).2.2.2).isSome then "ok outside-handler-error"
    else if o.head != "ok" then s!"violation {o.head}-inside-hypotheses"
    else
      let m0 : Mirror := { msgs := o.snap.map fun m => { uid := some m.uid, flags := some m.flags } }
      match m0.applyAll o.out with
      | none => "violation inexplicable-response-stream"
      | some m =>
        if !(m.agree o.snap') then "violation mirror-disagrees-with-snapshot"
        else if o.out.isEmpty then "ok trivial" else "ok nontrivial"

/-- C01 on one observed `Merge`: the statement of `C01.merge_sound` evaluated on the
    implementation's answer. Words: `<n0> <input> => <impl output>` -/
def judgeC01Merge (args : List String) : String :=
  match args with
  | [n0, input, "=>", out] =>
    match parseResps input with
    | none => "violation unparsable-input"
    | some inp =>
      let m0 := Mirror.ofCount (nat! n0)
      match m0.applyAll inp with
      | none => "ok outside-inexplicable"
      | some m' =>
        if out == "panic" then "violation merge-panics-on-explicable-stream"
        else match parseResps out with
          | none => "violation unparsable-implementation-output"
          | some o =>
            if m0.applyAll o == some m' then (if o == inp then "ok trivial" else "ok nontrivial")
            else "violation merged-stream-changes-client-view"
  | _ => "violation unparsable-implementation-output"

end Gluon.Driver
