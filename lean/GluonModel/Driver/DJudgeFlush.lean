/- Judges for the `flush` dialect: the executable statements of C05 / C01 evaluated on what the
   *implementation* answered.  Input words: `<flush op args> => <impl output words>`. -/
import GluonModel.Driver.DFlush

-- DIALECT: judge-c05-flush judgeC05
-- DIALECT: judge-c01-flush judgeC01
namespace Gluon.Driver
open Gluon Codec

structure FlushObs where
  permit : Bool
  close : Bool
  sid : Nat
  snap : Snap
  queue : List Responder
  head : String           -- ok | err | panic
  out : List Resp
  snap' : Snap
  rem : List Responder
  issued : Bool

def field (words : List String) (key : String) : Option String :=
  (words.find? (·.startsWith (key ++ "="))).map fun w => (w.drop (key.length + 1)).toString

def parseFlushObs (args : List String) : Option FlushObs :=
  match args with
  | permit :: close :: sid :: snap :: queue :: "=>" :: head :: rest => do
    let s ← parseSnap snap
    let q ← parseQueue queue
    let out ← if head == "ok" then (field rest "out").bind parseResps else some []
    let s' ← (field rest "snap").bind parseSnap
    let rem ← (field rest "rem").bind parseQueue
    let issued ← field rest "issued"
    some { permit := bool! permit, close := bool! close, sid := nat! sid, snap := s, queue := q,
           head, out, snap' := s', rem, issued := bool! issued }
  | _ => none

/-- C05 on one observed flush -/
def judgeC05 (args : List String) : String :=
  match parseFlushObs args with
  | none => "violation unparsable-implementation-output"
  | some o =>
    let hadExp := o.queue.any (·.isExpunge)
    if o.permit then
      if !o.rem.isEmpty && o.head == "ok" then "violation permit-true-flush-retained-responders"
      else if hadExp then "ok nontrivial-permit" else "ok trivial"
    else
      if o.out.any (·.isExpunge) then "violation expunge-sent-with-permitExpunge-false"
      else if o.rem.filter (·.isExpunge) != o.queue.filter (·.isExpunge) then "violation expunge-responder-dropped"
      else if o.issued != hadExp then "violation expungeissued-mismatch"
      else if !(o.snap.all fun m => o.snap'.any fun m' => m'.id == m.id && m'.uid == m.uid) then
        "violation known-message-removed-without-expunge"
      else if !(o.snap'.all fun m' => !(o.snap.has m'.id) || o.snap.any fun m => m.id == m'.id && m.uid == m'.uid) then
        "violation readded-instance-visible-before-removal"
      else if hadExp then "ok nontrivial-heldback" else "ok trivial"

/-- C01 on one observed flush: a client mirror that knew the whole snapshot, fed with the
    responses, must agree with the snapshot the server now answers from. -/
def judgeC01 (args : List String) : String :=
  match parseFlushObs args with
  | none => "violation unparsable-implementation-output"
  | some o =>
    if o.head == "panic" then "violation panic"
    else if o.head == "err" then "violation flush-error-drops-responders"
    else
      let m0 : Mirror := { msgs := o.snap.map fun m => { uid := some m.uid, flags := some m.flags } }
      match m0.applyAll o.out with
      | none => "violation inexplicable-response-stream"
      | some m =>
        if !(m.agree o.snap') then
          if o.close then "ok close-context" else "violation mirror-disagrees-with-snapshot"
        else if o.out.isEmpty then "ok trivial" else "ok nontrivial"

end Gluon.Driver
