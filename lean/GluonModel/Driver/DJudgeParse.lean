/- judges for the `parse` / `parsebad` dialects.

judge-c10-parse <seed> <hex> <expected AST> <features> => <implementation output>
  C10 evaluated on what the implementation answered: the command that was parsed is the command that
  was written. Known classes of failure are named from the generator's feature list (listlit = a
  list-mailbox written as a literal, lbr = `[` inside an atom).

judge-c11-parse <seed> <hex> ? <features> => <implementation output>
  parser part of C11: on arbitrary bytes the parser terminates, does not panic, and fails only with a
  `*rfcparser.Error` (which the session turns into a tagged BAD) or because the input ended inside a
  literal (`ioeof`).
-/
import GluonModel.Model.Parse.Grammar

-- DIALECT: judge-c10-parse judgeC10Parse
-- DIALECT: judge-c11-parse judgeC11Parse
namespace Gluon.Driver.DJudgeParse

def splitArrow (args : List String) : List String × List String :=
  (args.takeWhile (· != "=>"), (args.dropWhile (· != "=>")).drop 1)

def hasFeat (feats : String) (f : String) : Bool := (feats.splitOn ",").contains f

def judgeC10 (args : List String) : String :=
  match splitArrow args with
  | ([_seed, _hex, expected, feats], impl) =>
    match impl with
    | "ok" :: ast :: _ =>
      if ast == expected then
        (if (expected.splitOn "(").length > 1 then "ok nontrivial" else "ok trivial")
      else if hasFeat feats "listlit" then
        s!"violation list-mailbox-literal-misparsed: written {expected} parsed {ast}"
      else s!"violation parsed-differs: written {expected} parsed {ast}"
    | "err" :: "parse" :: t :: _ =>
      if hasFeat feats "lbr" then s!"violation lbracket-in-atom-rejected: written {expected}, parser answered err parse {t}"
      else s!"violation valid-command-rejected: written {expected}, parser answered err parse {t}"
    | _ => s!"violation valid-command-rejected: written {expected}, parser answered {" ".intercalate impl}"
  | _ => "violation bad-judge-line"

def judgeC11 (args : List String) : String :=
  match splitArrow args with
  | (_seed :: _hex :: _, impl) =>
    match impl with
    | "ok" :: _ => "ok trivial"
    | "err" :: "parse" :: _ => "ok nontrivial-parse-error"
    | "err" :: "ioeof" :: _ => "ok nontrivial-input-ended-in-literal"
    | "err" :: "other" :: _ => "violation plain-error: the parser returned an error that is not a *rfcparser.Error; the command reader exits, no tagged BAD"
    | "hang" :: _ => "violation hang: the parser does not terminate at end of input"
    | "panic" :: r => s!"violation panic: {" ".intercalate r}"
    | _ => s!"violation unexpected-outcome: {" ".intercalate impl}"
  | _ => "violation bad-judge-line"

end Gluon.Driver.DJudgeParse

namespace Gluon.Driver
def judgeC10Parse : List String → String := DJudgeParse.judgeC10
def judgeC11Parse : List String → String := DJudgeParse.judgeC11
end Gluon.Driver
