/-
Text codec of the `db` dialect (C08), shared by the model side (`DDb.lean`) and the judge
(`DJudgeDb.lean`); the Go side is harness/d_db.go.  One op line is one *session* on a fresh
database:

  db <mode> <token>*          mode: d = results longer than 160 bytes are replaced by `#len:fnv1a64`, f = full

tokens
  R[  W[                      open a Client.Read / Client.Write transaction
  ]c  ]a                      the closure returns nil / returns an error (Write: rollback)
  dump                        (outside transactions) canonical dump of every table
  reopen                      (outside transactions) Close + New + Init on the same directory
  client:<variant>            (outside transactions) the same, with the client built as plain | debug | trace | debug+trace
                              (sqlite3.NewBuilder options Debug(), Trace()); answer `ok`
  grow:<k>                    (outside transactions) k ≤ 32 goroutines enter Client.Read together and issue the argument-less
                              lookups: the database/sql pool opens further connections, what follows runs on another one.
                              Answer `ok`; the implementation side answers `err:read` / `err:diverged` when a concurrent
                              lookup fails / differs from the sequential one, `fk-off:<n>/<m>` when n of the m idle pooled
                              connections do not enforce foreign keys
  Method:arg:arg…             one call of db.ReadOnly / db.Transaction inside a transaction

arguments
  mailbox id, message id, numbers : decimal      bool : 0/1      string : [A-Za-z0-9_.\$]+, `~` = ""
  id list        : `-` | item,item…   item = n | lo..hi
  pair list      : item = n (remote id x<n>) | lo..hi | n=rid
  remote id list : item = rid | lo..hi (r<lo> … r<hi>)
  flag set       : `~` | f+f+…          string list : `-` | s,s,…
  create reqs    : item = id=rid=size=date=flags | lo..hi=flags   (remote id x<i>, size i%97+1, date 1000+i);
                   body/structure/envelope are B<size>/S<size>/E<size>

result words (one per token, joined by one space)
  `.` (transaction opened)  `committed` `rolledback` `end`  `skip` (call after a failed call)  `bad`
  ok | b0 | b1 | n<k> | s<str> | tuples `a/b/c` | lists `-` or `i,i,…` (unordered SQL results sorted byte-wise)
  err:notfound err:unique err:fk err:notnull err:sql err:nochange err:args err:other err:unmodelled  panic
  dump:<section>=<text>;…     sections mb mf mp ma seq tb ms fl mm ds cs
-/
import GluonModel.Model.DB

namespace Gluon.DbCodec
open Gluon.DB

def sortStrings (l : List String) : List String := (l.toArray.qsort (· < ·)).toList

def nat! (s : String) : Nat := s.toNat?.getD 0
def str! (s : String) : String := if s == "~" then "" else s
def showStr (s : String) : String := if s == "" then "~" else s
def showBool (b : Bool) : String := if b then "1" else "0"

def list! (s : String) : List String := if s == "-" || s == "" then [] else s.splitOn ","
def showList (l : List String) : String := if l.isEmpty then "-" else ",".intercalate l
def showSet (l : List String) : String := showList (sortStrings l)

/-- canonical form of an `imap.FlagSet` / GROUP_CONCAT result: lower-case, duplicate-free, sorted, `+`-joined -/
def showFlags (l : List String) : String :=
  let l := sortStrings (l.map String.toLower)
  let l := l.foldr (fun x acc => match acc with | y :: _ => if x == y then acc else x :: acc | [] => [x]) []
  if l.isEmpty then "~" else "+".intercalate l

def flags! (s : String) : List String := if s == "~" || s == "" then [] else s.splitOn "+"

def range (lo hi : Nat) : List Nat := (List.range (hi + 1 - lo)).map (· + lo)

/-- `n` or `lo..hi` -/
def span? (s : String) : Option (Nat × Nat) :=
  match s.splitOn ".." with
  | [a] => a.toNat?.map fun n => (n, n)
  | [a, b] => match a.toNat?, b.toNat? with
    | some x, some y => some (x, y)
    | _, _ => none
  | _ => none

def ids! (s : String) : List Nat :=
  (list! s).flatMap fun it => match span? it with
    | some (lo, hi) => range lo hi
    | none => []

def pairs! (s : String) : List (Nat × String) :=
  (list! s).flatMap fun it =>
    match it.splitOn "=" with
    | [a, r] => [(nat! a, str! r)]
    | _ => match span? it with
      | some (lo, hi) => (range lo hi).map fun i => (i, s!"x{i}")
      | none => []

def rids! (s : String) : List String :=
  (list! s).flatMap fun it =>
    match it.splitOn ".." with
    | [a, b] => match a.toNat?, b.toNat? with
      | some x, some y => (range x y).map fun i => s!"r{i}"
      | _, _ => [str! it]
    | _ => [str! it]

def mkReq (id : Nat) (rid : String) (size date : Nat) (flags : List String) : CreateReq :=
  { id := id, remoteId := rid, date := date, size := size, body := s!"B{size}", bodyStructure := s!"S{size}",
    envelope := s!"E{size}", flags := flags }

def reqs! (s : String) : List CreateReq :=
  (list! s).flatMap fun it =>
    match it.splitOn "=" with
    | [id, rid, size, date, fl] => [mkReq (nat! id) (str! rid) (nat! size) (nat! date) (flags! fl)]
    | [sp, fl] => match span? sp with
      | some (lo, hi) => (range lo hi).map fun i => mkReq i s!"x{i}" (i % 97 + 1) (1000 + i) (flags! fl)
      | none => []
    | _ => []

def showErr : DbErr → String
  | .notFound => "err:notfound"
  | .unique => "err:unique"
  | .fk => "err:fk"
  | .notNull => "err:notnull"
  | .sql => "err:sql"
  | .noChange => "err:nochange"
  | .notEnoughArgs => "err:args"
  | .panic => "panic"
  | .unmodelled => "err:unmodelled"

def showMbox (m : MboxRow) : String :=
  s!"{m.id}/{showStr m.remoteId}/{showStr m.name}/{m.uidValidity}/{showBool m.subscribed}"

def showMsg (m : MsgRow) : String :=
  s!"{m.id}/{showStr m.remoteId}/{m.date}/{m.size}/{showStr m.body}/{showStr m.bodyStructure}/{showStr m.envelope}/{showBool m.deleted}"

def showSnapRow (r : SnapRow) : String :=
  s!"{r.msgId}/{showStr r.remoteId}/{r.uid}/{showBool r.recent}/{showBool r.deleted}/{showFlags r.flags}"

/-- FNV-1a, 64 bit, over the UTF-8 bytes -/
def fnv1a (s : String) : UInt64 :=
  s.toUTF8.foldl (fun h b => (h ^^^ b.toUInt64) * 1099511628211) 14695981039346656037

def hex64 (h : UInt64) : String :=
  let ds := (Nat.toDigits 16 h.toNat)
  String.ofList (List.replicate (16 - ds.length) '0' ++ ds)

def digest (full : Bool) (w : String) : String :=
  if full || w.utf8ByteSize ≤ 160 then w else s!"#{w.utf8ByteSize}:{hex64 (fnv1a w)}"

/-- canonical dump of every table -/
def dump (full : Bool) (db : DB) : String :=
  let sec (name : String) (body : String) := s!"{name}={digest full body}"
  let flagRows (l : List (Nat × String)) := showSet (l.map fun p => s!"{p.1}={showStr p.2}")
  let seq := (if db.mailboxSeq == 0 then [] else [s!"mailboxes={db.mailboxSeq}"]) ++
    (db.mtables.filter (·.2.seq != 0)).map fun p => s!"mm{p.1}={p.2.seq}"
  let tb := db.mtables.map fun p =>
    s!"{p.1}[" ++ ";".intercalate ((sortByUid p.2.rows).map fun r =>
      s!"{r.uid}/{showBool r.deleted}/{showBool r.recent}/{r.msgId}/{showStr r.remoteId}") ++ "]"
  "dump:" ++ ";;".intercalate [
    sec "mb" (showSet (db.mailboxes.map showMbox)),
    sec "mf" (flagRows db.mboxFlags),
    sec "mp" (flagRows db.mboxPermFlags),
    sec "ma" (flagRows db.mboxAttrs),
    sec "seq" (showSet seq),
    sec "tb" (showSet tb),
    sec "ms" (showSet (db.messages.map showMsg)),
    sec "fl" (flagRows db.msgFlags),
    sec "mm" (showSet (db.m2m.map fun p => s!"{p.1}={p.2}")),
    sec "ds" (showSet (db.deletedSubs.map fun p => s!"{showStr p.1}={showStr p.2}")),
    sec "cs" (match db.settings with | none => "~" | some s => "s" ++ s)]

end Gluon.DbCodec
