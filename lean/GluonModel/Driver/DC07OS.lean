/- Judge of the oracle `vh oracle c07os` (property C07): OS-level write failures under the real on-disk store.

   judge-c07os <op> <size> <mode> sets=<e>,<e>,… ack=<ok|no|update> live=<ok|badN> restart=<ok|badN>
       <e> = <healthy|faulted>/<nil|err>/<complete|partial|absent|devfull>   one per real `Store.Set` call of the operation:
             was the kernel made to fail its writes, what did the call return, what did it leave under the id
             (`complete`: the real `Get` returns exactly the bytes `Set` was given; `devfull`: the bytes went to /dev/full)
       live / restart: the messages listed in all mailboxes that could NOT be fetched with their exact bytes, right
             after the operation and after a restart on the same directories with a connector that serves nothing

   The verdict is the named hypothesis `Gluon.Crash.SetFaithful` (Model/CrashSetOS.lean) on every call, then the
   conclusion of `listed_is_cached_real_partial` (Theorems/C07SetOS.lean):
       violation cause=os-write-error-swallowed   a `Set` returned nil and the bytes are not in the file
       violation cause=listed-message-not-fetchable   (with faithful `Set`s: something else lost the bytes)
       ok nontrivial   at least one `Set` call really failed (returned an error or left no complete file)
       ok trivial      the fault did not reach any write (limit beyond the file, operation never stored anything) -/
import GluonModel.Model.CrashSetOS

-- DIALECT: judge-c07os DC07OS.judge
namespace Gluon.Driver.DC07OS
open Gluon.Crash

structure Ev where
  faulted : Bool
  res : SetResult

/-- the literal of the call is abstract here: 0 -/
def parseEv (w : String) : Option Ev :=
  match w.splitOn "/" with
  | [f, r, file] =>
    let fl : Option (Option File) :=
      if file == "complete" then some (some (.complete 0))
      else if file == "partial" || file == "devfull" then some (some .partialF)
      else if file == "absent" then some none else none
    match fl with
    | some x => if (f == "healthy" || f == "faulted") && (r == "nil" || r == "err") then
        some { faulted := f == "faulted", res := { returnedNil := r == "nil", file := x } } else none
    | none => none
  | _ => none

def field (args : List String) (key : String) : Option String :=
  (args.find? (·.startsWith (key ++ "="))).map fun w => (w.drop (key.length + 1)).toString

def judge (args : List String) : String :=
  match field args "sets", field args "ack", field args "live", field args "restart" with
  | some sets, some ack, some live, some restart =>
    let evs := if sets == "-" then some [] else (sets.splitOn ",").mapM parseEv
    match evs with
    | none => "violation cause=malformed-sets"
    | some evs =>
      -- the named hypothesis, call by call
      match evs.find? (fun e => !decide (SetFaithful 0 e.res)) with
      | some e =>
        let left := match e.res.file with | none => "no-file" | some .partialF => "incomplete-file" | some (.complete _) => "complete"
        s!"violation cause=os-write-error-swallowed hypothesis=SetFaithful set-returned=nil left={left} kernel-fault={e.faulted} ack={ack} live={live} restart={restart}"
      | none =>
        if live != "ok" || restart != "ok" then
          s!"violation cause=listed-message-not-fetchable ack={ack} live={live} restart={restart} sets-faithful=true"
        else
          let failed := evs.filter fun e => !e.res.returnedNil || e.res.file != some (.complete 0)
          if failed.isEmpty then s!"ok trivial no-write-failed sets={evs.length}"
          else s!"ok nontrivial failed-sets={failed.length} of={evs.length} ack={ack}"
  | _, _, _, _ => "violation cause=malformed-line"

end Gluon.Driver.DC07OS
