/-
Judge of the wire-level oracle `vh oracle c16sets` (property C16): the RFC 3501 selection of
Spec/SeqSetSpec.lean (the reference semantics the C16 theorems speak about) evaluated on what the
*server* did over TCP.  The text of the set is read by the self-contained twin Spec/SetSelect.lean,
whose own selection must agree with SeqSetSpec on every judged case (`cause=spec-twin-mismatch`).

  judge-c16-sets <CMD> <s|u> <view> <set> => <status> <obs>=<pairs> …

  CMD     label of the IMAP command (FETCH, UIDSTORE, SEARCH, SEARCHUID, UIDEXPUNGE …); only used for
          the `cause=` label
  s|u     the set holds message sequence numbers | UIDs
  view    UIDs of the session's view in order, `,`-joined, `-` = empty mailbox
  set     the text of the set as sent
  status  ok | bad | no | other      (tagged completion)
  obs     what the command acted on, as the harness observed it (answered FETCH lines, flags found by a
          following `FETCH 1:* (UID FLAGS)`, COPYUID source set, destination content, messages that
          disappeared, SEARCH result …): `<name>=<seq>:<uid>,…` or `<name>=-`

  -> ok nontrivial-… | ok trivial-… | violation <why> cause=<label> …
-/
import GluonModel.Spec.SetSelect
import GluonModel.Spec.SeqSetSpec

-- DIALECT: judge-c16-sets judgeC16Sets
namespace Gluon.Driver
open Gluon.SetSelect

namespace JSets

def parseView (s : String) : Option View :=
  if s == "-" then some [] else (s.splitOn ",").mapM String.toNat?

def parsePair (s : String) : Option (Nat × Nat) :=
  match s.splitOn ":" with
  | [a, b] => do some (← a.toNat?, ← b.toNat?)
  | _ => none

def parseObs (s : String) : Option (String × List (Nat × Nat)) :=
  match s.splitOn "=" with
  | [name, l] => if l == "-" then some (name, []) else ((l.splitOn ",").mapM parsePair).map fun p => (name, p)
  | _ => none

def showNats (l : List Nat) : String := if l.isEmpty then "-" else ",".intercalate (l.map toString)

def bigNum (set : SSet) : Bool :=
  set.any fun it => it.nums.any fun a => match a with | .num n => n ≥ 4294967296 | .star => false

def beyond (v : View) (set : SSet) : Bool :=
  set.any fun it => it.nums.any fun a => match a with | .num n => n > v.length | .star => v.isEmpty

def kind (set : SSet) : String :=
  let hasRange := set.any fun it => match it with | .range _ _ => true | _ => false
  let hasStar := set.any fun it => it.nums.any fun a => a == .star
  (if set.length > 1 then "union" else "single") ++ (if hasRange then "+range" else "") ++ (if hasStar then "+star" else "")

/-- every observed pair names the message that really is at that position of the view -/
def consistent (v : View) (l : List (Nat × Nat)) : Bool :=
  l.all fun (seq, uid) => seq ≥ 1 && v[seq - 1]? == some uid

def isSearch (cmd : String) : Bool := (cmd.splitOn "SEARCH").length > 1

/-! The verdict uses the shared reference semantics `Spec/SeqSetSpec.lean` (the one the C16 theorems speak
    about); its self-contained twin `Spec/SetSelect.lean` reads the text and must agree on every case. -/

def toSharedNum : SNum → SeqSetSpec.SNum
  | .star => .star
  | .num n => .num n

def toShared (set : SSet) : SeqSetSpec.SSet :=
  set.map fun it => match it with
    | .one a => .one (toSharedNum a)
    | .range a b => .range (toSharedNum a) (toSharedNum b)

def selSeq (v : View) (set : SSet) : Option (List Nat) :=
  (SeqSetSpec.selectSeq v (toShared set)).map fun l => l.map (·.1)

def selUID (v : View) (set : SSet) : List Nat := (SeqSetSpec.selectUID v (toShared set)).map (·.1)

def excluded (v : View) (it : SItem) : Bool :=
  match toShared [it] with
  | [x] => SeqSetSpec.excludedUIDItem v x
  | _ => false

def twinsAgree (v : View) (set : SSet) : Bool :=
  (selSeq v set).map sortDedup == (selectSeq v set).map sortDedup &&
  sortDedup (selUID v set) == sortDedup (selectUID v set) &&
  set.all fun it => excluded v it == excludedUIDItem v it

/-- C16 on one observed command -/
def judge (cmd : String) (uidMode : Bool) (v : View) (set : SSet) (status : String)
    (obs : List (String × List (Nat × Nat))) : String :=
  let cls := if bigNum set then "class=number-ge-2^32" else "class=in-range"
  if !twinsAgree v set then "violation the-two-reference-specs-disagree cause=spec-twin-mismatch" else
  if status == "ok" then
    match obs.find? (fun o => !consistent v o.2) with
    | some o => s!"violation observation-names-a-message-not-in-the-view obs={o.1} cause=wrong-message {cls}"
    | none =>
      let gots := obs.map fun o => (o.1, sortDedup (o.2.map (·.1)))
      if !uidMode then
        match selSeq v set with
        | none =>
          let cause := if isSearch cmd then "search-seq-beyond-count-accepted" else "seq-beyond-count-accepted"
          let acted := gots.any fun g => !g.2.isEmpty
          s!"violation sequence-number-beyond-count-not-rejected cause={cause} {cls} count={v.length} acted-on-some-message={acted}"
        | some want =>
          let w := sortDedup want
          match gots.find? (fun g => g.2 != w) with
          | some g => s!"violation selection-differs-from-rfc3501 cause=wrong-selection {cls} obs={g.1} want={showNats w} got={showNats g.2}"
          | none => s!"ok nontrivial-selected-{kind set}"
      else
        let judged := set.filter fun it => !(excluded v it)
        let wantA := sortDedup (selUID v judged)
        let wantB := sortDedup (selUID v set)
        let okA := gots.all fun g => g.2 == wantA
        let okB := gots.all fun g => g.2 == wantB
        if okA || okB then
          (if judged.length < set.length then s!"ok nontrivial-excluded-range-{kind set}"
           else if v.isEmpty then "ok nontrivial-empty-view"
           else if wantA.isEmpty then s!"ok nontrivial-absent-uids-skipped-{kind set}"
           else s!"ok nontrivial-selected-{kind set}")
        else
          match gots.find? (fun g => g.2 != wantA) with
          | some g => s!"violation selection-differs-from-rfc3501 cause=wrong-selection {cls} obs={g.1} want={showNats wantA} got={showNats g.2}"
          | none => "violation selection-differs-from-rfc3501 cause=wrong-selection"
  else if status == "bad" || status == "no" then
    match obs.find? (fun o => !o.2.isEmpty) with
    | some o => s!"violation rejected-command-acted-on-messages cause=rejected-but-acted obs={o.1} {cls}"
    | none =>
      if !uidMode then
        match selSeq v set with
        | none => if bigNum set then "ok nontrivial-rejected-number-ge-2^32"
                  else if beyond v set then s!"ok nontrivial-rejected-beyond-count-{status}" else "ok nontrivial-rejected"
        | some want =>
          -- the items overlap: some message is named more than once (`1,1`, `1:3,2:4`)
          if want.eraseDups.length < want.length then s!"violation valid-set-rejected cause=overlapping-items-rejected {cls}"
          else s!"violation valid-set-rejected cause=valid-set-rejected {cls}"
      else
        -- nz-number is a 32-bit number in the grammar: refusing a UID ≥ 2^32 is allowed
        if bigNum set then "ok nontrivial-rejected-number-ge-2^32"
        else
          let sel := selUID v set
          let cause := if isSearch cmd && v.isEmpty then "search-uid-empty-view-rejected"
            else if sel.eraseDups.length < sel.length then "overlapping-items-rejected" else "valid-uid-set-rejected"
          s!"violation valid-uid-set-rejected cause={cause} {cls}"
  else s!"violation no-tagged-completion cause=no-completion status={status}"

end JSets

open JSets in
def judgeC16Sets (args : List String) : String :=
  if args.getLast? == some "bad-dialect" then "ok not-an-op" else
  match args with
  | cmd :: mode :: view :: set :: "=>" :: status :: obs =>
    match parseView view, obs.mapM parseObs with
    | some v, some os =>
      if mode != "s" && mode != "u" then "violation unparsable-op" else
      (match readSet set with
       | none =>
         -- not a sequence-set of the grammar (the generator sends a few: `0`, `1:`, `,1`): must be refused
         if (status == "bad" || status == "no") && os.all (fun o => o.2.isEmpty) then "ok trivial-not-a-sequence-set-rejected"
         else "violation not-a-sequence-set-accepted cause=invalid-set-accepted"
       | some st => judge cmd (mode == "u") v st status os)
    | _, _ => "violation unparsable-op"
  | _ => "violation unparsable-op"

end Gluon.Driver
