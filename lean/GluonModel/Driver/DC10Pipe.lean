/- dialect `c10pipe` (C10) and its judge: a pipelined stream of valid commands through ONE parser, the
way the reader loop of internal/session/command.go runs it (harness/d_c10pipe.go).

op:      c10pipe <seed> <hex stream> <written AST 1>|<written AST 2>|... <features>
result:  the `parsen` groups (one per `Parse` call), joined by " | ":
           ok <tag>:<payload> used=<n>  /  err … exit  /  err … skip=ok  /  more  /  hang
The implementation side keeps every returned command and renders all of them only after the last `Parse`
call; when such a late rendering differs from the one taken when `Parse` returned it adds a group
`changed <index> <early AST>`. The model's commands are values: it never prints `changed` (theorem
`C10.pipeline_roundtrip`: the i-th `Parse` of the stream returns the i-th written command, whatever came
before it and whatever follows).

judge-c10-pipe <seed> <hex> <written ASTs> <features> => <implementation output>
  C10 on a pipeline: each command the session gets to execute IS the command that was written at that
  position of the stream, and still is after the following commands were parsed.
-/
import GluonModel.Driver.DParse
import GluonModel.Driver.DJudgeParse

-- DIALECT: c10pipe runC10Pipe
-- DIALECT: judge-c10-pipe judgeC10Pipe
namespace Gluon.Driver.DC10Pipe
open Gluon.Parse Gluon.Driver.DParse

def run (args : List String) : String :=
  match args with
  | _seed :: hex :: _ =>
    match parseHex hex with
    | some input => " | ".intercalate (sessionRun input.length (fuelFor input) 8 (PState.init input))
    | none => "bad-op"
  | _ => "bad-op"

/-- split the words of the implementation's answer into groups at the `|` words -/
def groups : List String → List (List String)
  | [] => [[]]
  | w :: ws =>
    match groups ws with
    | [] => [[w]]
    | g :: gs => if w == "|" then [] :: g :: gs else (w :: g) :: gs

def short (s : String) : String := if s.length > 400 then (s.take 400).toString ++ "…" else s

/-- first written command that the i-th `Parse` did not return -/
def firstDiff (i : Nat) : List String → List (List String) → Option String
  | [], _ => none
  | e :: _, [] => some s!"command {i} of the stream ({short e}) was never returned"
  | e :: es, g :: gs =>
    match g with
    | ["ok", ast, _used] =>
      if ast == e then firstDiff (i + 1) es gs
      else some s!"command {i} of the stream: written {short e} executed {short ast}"
    | _ => some s!"command {i} of the stream: written {short e}, parser answered {short (" ".intercalate g)}"

def judge (args : List String) : String :=
  match Gluon.Driver.DJudgeParse.splitArrow args with
  | ([_seed, _hex, expected, _feats], impl) =>
    let written := expected.splitOn "|"
    let gs := groups impl
    let changed := gs.filter fun g => g.head? == some "changed"
    let calls := gs.filter fun g => g.head? != some "changed"
    match changed with
    | ("changed" :: i :: early :: _) :: _ =>
      let idx := i.toNat?.getD 0
      let late := match calls[idx - 1]? with | some ["ok", ast, _] => ast | _ => "?"
      let w := written[idx - 1]?.getD "?"
      s!"violation parsed-command-changed-after-return: command {i} of the stream, written {short w}, was {if early == w then "returned as written" else "returned as " ++ short early} and is {short late} once the following commands have been parsed (its payload shares memory with a buffer the parser reuses)"
    | _ =>
      match firstDiff 1 written calls with
      | some why => s!"violation pipelined-command-differs: {why}"
      | none =>
        match calls.drop written.length with
        | ["err" :: _] =>
          -- the stream is over: whatever the reader loop says about the end of input is C11's matter
          if written.length ≥ 2 then "ok nontrivial" else "ok trivial"
        | rest => s!"violation pipeline-tail: after the {written.length} written commands the reader loop answered {short (" | ".intercalate (rest.map " ".intercalate))}"
  | _ => "violation bad-judge-line"

end Gluon.Driver.DC10Pipe

namespace Gluon.Driver
def runC10Pipe : List String → String := DC10Pipe.run
def judgeC10Pipe : List String → String := DC10Pipe.judge
end Gluon.Driver
