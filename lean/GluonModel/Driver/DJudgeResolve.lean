/- Judges for the `resolve` and `seqset-parse` dialects: property C16 (RFC 3501 selection,
   Spec/SeqSetSpec.lean, numbers unbounded) evaluated on what the *implementation* answered.
   Input words: `<op args> => <impl output words>`.

   Answers:
     ok trivial-…                      the op is outside the property (not an RFC sequence set,
                                       negative Go ints fed through the hook)
     ok nontrivial-…                   the implementation's answer is the RFC answer
     violation <why> class=<c> …       <c> = number-ge-2^32 when the set holds a number ≥ 2^32
                                       (where Go's uint32 / int64 conversions bite), else in-range
-/
import GluonModel.Driver.DResolve
import GluonModel.Spec.SeqSetSpec

-- DIALECT: judge-c16-resolve judgeC16Resolve
-- DIALECT: judge-c16-seqset-parse judgeC16SeqSetParse
-- DIALECT: judge-c16-wire judgeC16Wire
-- DIALECT: judge-c16-wire-stale judgeC16WireStale
namespace Gluon.Driver.Resolve
open Gluon Gluon.SeqSetSpec

inductive Ans where
  | bad                                  -- parse error (tagged BAD)
  | err                                  -- ErrNoSuchMessage (tagged BAD)
  | panic
  | sel (l : List (Nat × Nat × Nat))     -- seq, id, uid
  | unparsable

def parseTriple (s : String) : Option (Nat × Nat × Nat) :=
  match s.splitOn ":" with
  | [a, b, c] => do some (← a.toNat?, ← b.toNat?, ← c.toNat?)
  | _ => none

/-- the implementation's answer (the words after `=>`, `ranges=`/`used=` words dropped) -/
def parseAns (words : List String) : Ans :=
  match words.filter (fun w => !(w.startsWith "ranges=" || w.startsWith "used=")) with
  | ["err", "parse"] => .bad
  | ["err", "nosuchmessage"] => .err
  | ["panic"] => .panic
  | ["ok", l] => match (splitNE l ",").mapM parseTriple with
    | some t => .sel t
    | none => .unparsable
  | _ => .unparsable

def sortDedup (l : List Nat) : List Nat := (l.toArray.qsort (· < ·)).toList.eraseDups

def showNats (l : List Nat) : String := if l.isEmpty then "-" else ",".intercalate (l.map toString)

def bigNum (set : SSet) : Bool :=
  set.any fun it => it.nums.any fun a => match a with | .num n => n ≥ 4294967296 | .star => false

def cls (set : SSet) : String := if bigNum set then "class=number-ge-2^32" else "class=in-range"

def kind (set : SSet) : String :=
  let hasRange := set.any fun it => match it with | .range _ _ => true | _ => false
  let hasStar := set.any fun it => it.nums.any fun a => a == .star
  (if set.length > 1 then "union" else "single-item") ++ (if hasRange then "+range" else "") ++ (if hasStar then "+star" else "")

/-- every answered triple names the message that really is at that sequence number -/
def consistent (view : View) (l : List (Nat × Nat × Nat)) : Bool :=
  l.all fun (seq, id, uid) => seq ≥ 1 && id == seq && view[seq - 1]? == some uid

def beyond (view : View) (set : SSet) : Bool :=
  set.any fun it => it.nums.any fun a => match a with | .num n => n > view.length | .star => view.isEmpty

/-- C16 on one observed resolution. -/
def judgeCore (uidMode : Bool) (view : View) (set : SSet) (ans : Ans) : String :=
  let c := cls set
  match ans with
  | .unparsable => "violation unparsable-implementation-output"
  | .panic => s!"violation panic {c}"
  | .sel l =>
    if !consistent view l then s!"violation answer-names-wrong-message {c}" else
    let got := sortDedup (l.map (·.1))
    if !uidMode then
      match selectSeq view set with
      | none => s!"violation number-beyond-count-not-rejected {c} count={view.length} selected={showNats got}"
      | some want =>
        if got == sortDedup (want.map (·.1)) then s!"ok nontrivial-selected-{kind set}"
        else s!"violation selection-differs-from-rfc {c} want={showNats (sortDedup (want.map (·.1)))} got={showNats got}"
    else
      -- the one case not judged: n:* with n above the highest UID (RFC: last message; gluon: nothing)
      let judged := set.filter fun it => !(excludedUIDItem view it)
      let wantA := sortDedup ((selectUID view judged).map (·.1))
      let wantB := sortDedup ((selectUID view set).map (·.1))
      if got == wantA || got == wantB then
        (if judged.length < set.length then s!"ok nontrivial-selected-excluded-range-{kind set}"
         else if view.isEmpty then "ok nontrivial-empty-view" else s!"ok nontrivial-selected-{kind set}")
      else s!"violation selection-differs-from-rfc {c} want={showNats wantA} got={showNats got}"
  | .bad | .err =>
    if !uidMode then
      match selectSeq view set with
      | none => if beyond view set then "ok nontrivial-rejected-beyond-count" else "ok nontrivial-rejected"
      | some _ => s!"violation valid-set-rejected {c}"
    else
      -- nz-number is a 32-bit number in the grammar: rejecting a UID ≥ 2^32 is fine
      if bigNum set then "ok nontrivial-rejected-number-ge-2^32"
      else s!"violation valid-uid-set-rejected {c}"

def intToSNum (x : Int) : SNum := if x = 0 then .star else .num x.toNat

/-- `[]command.SeqRange` as an abstract set (`n:n` is the number `n`, as `ParseSeqRange` builds it) -/
def absSet (rs : List SeqSet.SeqRange) : SSet :=
  rs.map fun r => if r.b = r.e then .one (intToSNum r.b) else .range (intToSNum r.b) (intToSNum r.e)

/-! spec-side reading of a text as an RFC `sequence-set` (strict: no leading zeros, no zero) -/

def setChar (c : Char) : Bool := ('0' ≤ c ∧ c ≤ '9') || c == '*' || c == ':' || c == ','

def readNum (s : String) : Option SNum :=
  if s == "*" then some .star
  else if s.isEmpty || s.startsWith "0" || !(s.all Char.isDigit) then none
  else s.toNat?.map .num

def readItem (s : String) : Option SItem :=
  match s.splitOn ":" with
  | [a] => (readNum a).map .one
  | [a, b] => do some (.range (← readNum a) (← readNum b))
  | _ => none

/-- some run of digits of the text has a value ≥ 2^32 -/
def bigDigits (text : List Char) : Bool :=
  let runs := (String.ofList (text.map fun c => if c.isDigit then c else ' ')).splitOn " "
  runs.any fun r => (r.toNat?.getD 0) ≥ 4294967296

def readSet (text : List Char) : Option SSet :=
  let s := String.ofList (text.takeWhile setChar)
  if s.isEmpty then none else (s.splitOn ",").mapM readItem

end Resolve

open Resolve in
def judgeC16Resolve (args : List String) : String :=
  match args with
  | mode :: uids :: set :: "=>" :: rest =>
    match modeOf mode, parseUids uids, parseSet set with
    | some m, some u, some st =>
      -- the parser only lets 0 (`*`) … 2^32-1 through (Theorems/C16: parser_range); raw values
      -- outside are compared with the model but are not inputs of the property
      if st.any (fun r => r.b < 0 || r.e < 0 || r.b ≥ 4294967296 || r.e ≥ 4294967296) then
        (match parseAns rest with
         | .unparsable => "violation unparsable-implementation-output"
         | _ => "ok trivial-number-outside-parser-range")
      else if st.isEmpty then "ok trivial-empty-set"
      else judgeCore m u (absSet st) (parseAns rest)
    | _, _, _ => "violation unparsable-op"
  | _ => "violation unparsable-op"

open Resolve in
def judgeC16SeqSetParse (args : List String) : String :=
  match args with
  | mode :: uids :: hex :: "=>" :: rest =>
    match modeOf mode, parseUids uids, unhex hex with
    | some m, some u, some text =>
      match readSet text with
      | none =>
        (match parseAns rest with
         | .unparsable => "violation unparsable-implementation-output"
         | .panic => if bigDigits text then "violation panic class=number-ge-2^32 not-a-sequence-set"
                     else "violation panic class=in-range not-a-sequence-set"
         | .bad => "ok trivial-not-a-sequence-set-rejected"
         | _ => "ok trivial-not-a-sequence-set-accepted")
      | some set => judgeCore m u set (parseAns rest)
    | _, _, _ => "violation unparsable-op"
  | _ => "violation unparsable-op"

/-- one wire-level observation of the oracle `c16wire`:
    `<KIND> <uids of the view> <hex set text> => <OK|NO|BAD|LOST|PANIC> <sequence numbers worked on|->`
    (sequence number 0 stands for "a message that is not in the view"). -/
def judgeC16Wire (args : List String) : String :=
  match args with
  | [kind, uids, hex, "=>", status, seqs] =>
    let mode : Option Bool :=
      if ["FETCH", "SEARCH", "STORE", "COPY", "MOVE"].contains kind then some false
      else if ["UIDFETCH", "SEARCHUID", "UIDSEARCHUID", "UIDSTORE", "UIDCOPY", "UIDMOVE", "UIDEXPUNGE"].contains kind then some true
      else none
    match mode, Resolve.parseUids uids, Resolve.unhex hex, (Resolve.splitNE seqs ",").mapM String.toNat? with
    | some m, some view, some text, some ks =>
      if status == "NO" then
        -- no message-set error is answered NO: classify what kind of set it was
        let overlap : Bool := match Resolve.readSet text with
          | some set =>
            let l : List Nat := if m then (SeqSetSpec.selectUID view set).map (·.1)
              else ((SeqSetSpec.selectSeq view set).getD []).map (·.1)
            l.eraseDups.length != l.length
          | none => false
        let c := if overlap = true then "class=overlapping-items" else if view.isEmpty then "class=empty-mailbox" else "class=other"
        s!"violation unexpected-NO-instead-of-OK-or-BAD {c}"
      else
        let ans : Resolve.Ans :=
          if status == "OK" then .sel (ks.map fun k => (k, k, (view[k - 1]?).getD 0))
          else if status == "BAD" then .bad
          else if status == "PANIC" || status == "LOST" then .panic
          else .unparsable
        match Resolve.readSet text with
        | none => (match ans with
            | .panic => "violation panic class=not-a-sequence-set"
            | .unparsable => "violation unparsable-implementation-output"
            | _ => "ok trivial-not-a-sequence-set")
        | some set => Resolve.judgeCore m view set ans
    | _, _, _, _ => "violation unparsable-op"
  | _ => "violation unparsable-op"

/-- a wire-level observation on a STALE view (oracle `c16wire`, kinds STALE…): the session's view
    `uids` still holds the messages with the sequence numbers `gone`, expunged by another session.
    `<KIND> <uids of the view> <gone> <hex set text> => <OK|NO|BAD|LOST|PANIC> <sequence numbers|->`.
    The set is read against the session's view.  RFC 3501 / RFC 2180 allow a server to answer NO, or
    to leave out a message, only for messages that no longer exist. -/
def judgeC16WireStale (args : List String) : String :=
  match args with
  | [kind, uids, gone, hex, "=>", status, seqs] =>
    let uidMode := kind == "STALEUIDFETCH" || kind == "STALEUIDSTORE"
    match Resolve.parseUids uids, Resolve.parseUids gone, Resolve.unhex hex, (Resolve.splitNE seqs ",").mapM String.toNat? with
    | some view, some gone, some text, some ks =>
      match Resolve.readSet text with
      | none => if status == "PANIC" || status == "LOST" then "violation panic class=not-a-sequence-set" else "ok trivial-not-a-sequence-set"
      | some set =>
        let c := Resolve.cls set
        if status == "PANIC" || status == "LOST" then s!"violation panic {c}" else
        let wants : List (List Nat) :=
          if uidMode then
            let judged := set.filter fun it => !(SeqSetSpec.excludedUIDItem view it)
            [Resolve.sortDedup ((SeqSetSpec.selectUID view judged).map (·.1)), Resolve.sortDedup ((SeqSetSpec.selectUID view set).map (·.1))]
          else match SeqSetSpec.selectSeq view set with
            | some sel => [Resolve.sortDedup (sel.map (·.1))]
            | none => []
        if wants.isEmpty then
          (if status == "BAD" then "ok nontrivial-stale-rejected-beyond-view-count"
           else s!"violation number-beyond-count-not-rejected {c} count={view.length} stale-view")
        else if status == "BAD" then
          (if uidMode && Resolve.bigNum set then "ok nontrivial-rejected-number-ge-2^32"
           else s!"violation valid-set-rejected-on-stale-view {c} view-count={view.length} expunged-elsewhere={Resolve.showNats gone}")
        else if status == "NO" then
          (if wants.any fun w => w.any fun k => gone.contains k then "ok nontrivial-stale-NO-set-names-expunged-message"
           else s!"violation unexpected-NO-instead-of-OK-or-BAD {c} stale-view")
        else if status == "OK" then
          let got := Resolve.sortDedup ks
          if got.any fun k => k == 0 || k > view.length then s!"violation answer-names-wrong-message {c} stale-view got={Resolve.showNats got}"
          else if wants.any fun w => got.all (fun k => w.contains k) && w.all (fun k => got.contains k || gone.contains k) then
            let touches := wants.any fun w => w.any fun k => gone.any fun g => g ≤ k
            (if touches then "ok nontrivial-stale-selected-relative-to-the-view" else "ok nontrivial-stale-selected-before-any-expunged")
          else s!"violation selection-differs-from-rfc {c} stale-view want={Resolve.showNats (wants.headD [])} got={Resolve.showNats got}"
        else "violation unparsable-implementation-output"
    | _, _, _, _ => "violation unparsable-op"
  | _ => "violation unparsable-op"

end Gluon.Driver
