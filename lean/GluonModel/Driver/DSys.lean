/- dialect `sys` (C01, C02): a whole multi-session history on the system model (Model/System.lean), in the step
   vocabulary of the wire-level history runner (harness/hist.go), so that the same line runs on the real server
   (harness/d_sys.go).

   `sys N=<sessions> ; <step> ; <step> ; …`   (words separated by single spaces, `;` is a word of its own)

   steps  S<i> SELECT <mb> | S<i> UNSELECT | S<i> APPEND <mb> <flags|-> | S<i> STORE <seqs> <+|-|=>[s] <flags>
          S<i> EXPUNGE | S<i> COPY <seqs> <mb> | S<i> MOVE <seqs> <mb> | S<i> NOOP | S<i> PROBE
          C CREATE <mb> <flags|-> | C BOXES m<k> <mb,mb…|-> | C FLAG m<k> <flag> <0|1>
          X HOLD <i> | X RELEASE <i> <k> (k<0: all, and the hold ends) | X BARRIER
   mailboxes INBOX mb1 mb2 (= 0 1 2); m<k> = the k-th message created in the history (APPEND or C CREATE).

   Scheduling as in hist.go: before every S step each session that is not held applies its whole queue (the
   runner's barrier); a held session applies updates only on X RELEASE.  At the end every hold is released,
   every session applies everything and answers a NOOP; its view and a fresh session's view of each mailbox are
   printed.

   output  <step out> | <step out> | … || S<i>=<noop resps>/<view> … || F0=<view> F1=<view> F2=<view>
           step out: `-` (C, X) or `<status>:<resps>`, PROBE `P:<view>/<resps>` (`P:none`: nothing selected);
           status ok | refused | no-<err> | panic; view = `<uid>:<flags>+…`; resps as in Codec, without RECENT
           and `\recent`, every run of consecutive FETCHes ordered by sequence number. -/
import GluonModel.Driver.DJudgeTrace
import GluonModel.Model.System

-- DIALECT: sys SysD.runSys
-- DIALECT: judge-c02-sys SysD.judgeC02
-- DIALECT: judge-c01-sys SysD.judgeC01
namespace Gluon.Driver.SysD
open Gluon Codec Gluon.Sys

def mboxNames : List String := ["INBOX", "mb1", "mb2"]

def parseMbox (s : String) : Option Nat := mboxNames.findIdx? (· == s)

def parseSeqs (s : String) : List Nat := (splitNonEmpty s ",").map nat!

/-- `m<k>` -/
def parseMsg (s : String) : Option MsgId := if s.startsWith "m" then (s.drop 1).toString.toNat? else none

/-- `S<i>` -/
def parseSess (s : String) : Option Nat := if s.startsWith "S" then (s.drop 1).toString.toNat? else none

def insertBySeq (r : Resp) : List Resp → List Resp
  | [] => [r]
  | x :: xs =>
    match r, x with
    | .fetch s _ _, .fetch s' _ _ => if s ≤ s' then r :: x :: xs else x :: insertBySeq r xs
    | _, _ => r :: x :: xs

/-- drop RECENT, strip `\recent`, order every run of consecutive FETCHes by sequence number -/
def canonResps (l : List Resp) : List Resp :=
  let l1 := l.filterMap fun r => match r with
    | .recent _ => none
    | .fetch s f u => some (.fetch s (f.map fun fl => fl.filter (· != Flags.recent)) u)
    | r => some r
  -- insertion sort inside runs: a FETCH moves left only past FETCHes
  l1.foldl (fun acc r =>
    match r with
    | .fetch .. =>
      let run := (acc.reverse.takeWhile fun x => match x with | .fetch .. => true | _ => false).reverse
      let pre := acc.take (acc.length - run.length)
      pre ++ insertBySeq r run
    | _ => acc ++ [r]) []

def showView (s : Snap) : String :=
  if s.isEmpty then "-" else
  "+".intercalate (s.map fun m => s!"{m.uid}:{showFlags (m.flags.filter (· != Flags.recent))}")

def showViewV (v : View) : String := showView (snapOf v)

def showStatus : Status → String
  | .ok => "ok"
  | .refused => "refused"
  | .err .outOfOrder => "no-outoforder"
  | .err .noSuchMessage => "no-nosuchmessage"
  | .err .panic => "no-panic"
  | .panic => "panic"

def showOut (o : Out) : String := s!"{showStatus o.status}:{showResps (canonResps o.resps)}"

structure DState where
  sys : Sys
  held : List Bool
  outs : List String := []
  /-- steps at which the model's schedule hypothesis `NoOvertake` fails (`opNoOvertakeB`) -/
  overtakes : Nat := 0

/-- the runner's barrier before a session step: every session that is not held applies its whole queue -/
def autoDrain (d : DState) : DState :=
  let sys := (List.range d.sys.sess.length).foldl (fun s j =>
    if d.held.getD j false then s else (step s (.drain j ((s.sess[j]?).map (·.inbox.length) |>.getD 0))).1) d.sys
  { d with sys }

def emit (d : DState) (o : String) : DState := { d with outs := d.outs ++ [o] }

def doOp (d : DState) (op : SysOp) : DState × Out :=
  let (s', o) := step d.sys op
  ({ d with sys := s', overtakes := if opNoOvertakeB d.sys op then d.overtakes else d.overtakes + 1 }, o)

def parseStoreOp (s : String) : Option (FlagOp × Bool) :=
  match s with
  | "+" => some (.add, false) | "-" => some (.rem, false) | "=" => some (.set, false)
  | "+s" => some (.add, true) | "-s" => some (.rem, true) | "=s" => some (.set, true)
  | _ => none

/-- one step; `none` = unparsable -/
def doStep (d : DState) (w : List String) : Option DState :=
  match w with
  | ["X", "HOLD", i] =>
    let i := nat! i
    -- what was delivered before the hold has been applied (the session was running freely)
    let d1 := if d.held.getD i false then d else
      (doOp d (.drain i ((d.sys.sess[i]?).map (·.inbox.length) |>.getD 0))).1
    some (emit { d1 with held := d1.held.set i true } "-")
  | ["X", "RELEASE", i, k] =>
    let i := nat! i
    if !(d.held.getD i false) then some (emit d "-") else
    if k.startsWith "-" then
      let d1 := (doOp d (.drain i ((d.sys.sess[i]?).map (·.inbox.length) |>.getD 0))).1
      some (emit { d1 with held := d1.held.set i false } "-")
    else some (emit (doOp d (.drain i (nat! k))).1 "-")
  | ["X", "BARRIER"] => some (emit (autoDrain d) "-")
  | ["C", "CREATE", mb, fl] => do
    let mb ← parseMbox mb
    some (emit (doOp d (.conn (.create mb (parseFlags fl)))).1 "-")
  | ["C", "BOXES", m, mbs] => do
    let id ← parseMsg m
    let mbs ← (splitNonEmpty mbs ",").mapM parseMbox
    some (emit (doOp d (.conn (.boxes id mbs))).1 "-")
  | ["C", "FLAG", m, fl, on] => do
    let id ← parseMsg m
    some (emit (doOp d (.conn (.setFlag id fl.toLower (on == "1")))).1 "-")
  | s :: rest => do
    let i ← parseSess s
    let d := autoDrain d
    match rest with
    | ["SELECT", mb] =>
      let mb ← parseMbox mb
      let (d', o) := doOp d (.select i mb)
      some (emit d' (showOut o))
    | ["UNSELECT"] =>
      let (d', o) := doOp d (.unselect i)
      some (emit d' (showOut o))
    | ["APPEND", mb, fl] =>
      let mb ← parseMbox mb
      let (d', o) := doOp d (.cmd i (.append mb (parseFlags fl)))
      some (emit d' (showOut o))
    | ["STORE", seqs, op, fl] =>
      let (op, silent) ← parseStoreOp op
      let (d', o) := doOp d (.cmd i (.store (parseSeqs seqs) op (parseFlags fl) silent))
      some (emit d' (showOut o))
    | ["EXPUNGE"] =>
      let (d', o) := doOp d (.cmd i .expunge)
      some (emit d' (showOut o))
    | ["COPY", seqs, mb] =>
      let mb ← parseMbox mb
      let (d', o) := doOp d (.cmd i (.copy (parseSeqs seqs) mb))
      some (emit d' (showOut o))
    | ["MOVE", seqs, mb] =>
      let mb ← parseMbox mb
      let (d', o) := doOp d (.cmd i (.move (parseSeqs seqs) mb))
      some (emit d' (showOut o))
    | ["NOOP"] =>
      let (d', o) := doOp d (.flush i true)
      some (emit d' (showOut o))
    | ["PROBE"] =>
      match d.sys.sess[i]? with
      | none => none
      | some me =>
        match me.sel with
        | none => some (emit d "P:none")
        | some _ =>
          let (d', o) := doOp d (.flush i false)
          some (emit d' s!"P:{showView me.snap}/{showResps (canonResps o.resps)}")
    | _ => none
  | _ => none

def splitSteps (ws : List String) : List (List String) :=
  let (acc, cur) := ws.foldl (fun (p : List (List String) × List String) w =>
    if w == ";" then (p.1 ++ [p.2], []) else (p.1, p.2 ++ [w])) ([], [])
  (acc ++ [cur]).filter (!·.isEmpty)

/-- the quiescent end: every hold released, every queue applied, a NOOP per selected session -/
def converge (d : DState) : String :=
  let d1 := autoDrain { d with held := d.held.map fun _ => false }
  let (parts, sys) := (List.range d1.sys.sess.length).foldl (fun (p : List String × Sys) i =>
    match p.2.sess[i]? with
    | none => p
    | some me =>
      match me.sel with
      | none => (p.1 ++ [s!"S{i}=none"], p.2)
      | some _ =>
        let (s', o) := step p.2 (.flush i true)
        let v := (s'.sess[i]?).map (fun x => showView x.snap) |>.getD "-"
        (p.1 ++ [s!"S{i}={showOut o}/{v}"], s')) ([], d1.sys)
  let fresh := (List.range sys.idx.boxes.length).map fun mb => s!"F{mb}={showViewV (sys.idx.view mb)}"
  " ".intercalate parts ++ " || " ++ " ".intercalate fresh

def parseHeader (w : String) : Option Nat := if w.startsWith "N=" then (w.drop 2).toString.toNat? else none

def runSys (args : List String) : String :=
  match args with
  | hdr :: ";" :: rest =>
    match parseHeader hdr with
    | none => "bad-op"
    | some n =>
      let d0 : DState := { sys := Sys.init n mboxNames.length, held := List.replicate n false }
      let rec go (d : DState) : List (List String) → Option DState
        | [] => some d
        | st :: more => match doStep d st with
          | none => none
          | some d' => go d' more
      match go d0 (splitSteps rest) with
      | none => "bad-op"
      | some d => " | ".intercalate d.outs ++ " || " ++ converge d
  | _ => "bad-op"

/-! ### judges: the properties evaluated on what the IMPLEMENTATION answered

`judge-c02-sys <op words> => <impl output words>` — C02 at quiescence: every session's final view equals the fresh
session's view of the mailbox it has selected.  `judge-c01-sys …` — C01: the client mirror (Spec/Mirror.lean) fed with
every untagged response a session received, checked against every FETCH 1:* the session answered.
The model is run on the ops only to evaluate the schedule hypothesis of the theorems (`NoOvertake`): a failure on an
overtaking schedule is the known defect family (worded like the history oracle: `# property C0x: …`, the op line
holds the `X HOLD`); a failure on a schedule inside the hypothesis is worded differently and is never a known finding. -/

structure Parsed where
  header : String
  steps : List (List String)
  outs : List String
  finalS : List String
  finalF : List String

def parseJudge (args : List String) : Option Parsed :=
  let (opw, rest) := args.span (· != "=>")
  match opw, rest with
  | hdr :: ";" :: stepWords, _ :: implWords =>
    let impl := " ".intercalate implWords
    match impl.splitOn " || " with
    | [st, ss, ff] =>
      some { header := hdr, steps := splitSteps stepWords, outs := st.splitOn " | ",
             finalS := ss.splitOn " ", finalF := ff.splitOn " " }
    | _ => none
  | _, _ => none

/-- the model's verdict on the schedule: number of steps at which an own update overtakes -/
def modelOvertakes (p : Parsed) : Option Nat :=
  match parseHeader p.header with
  | none => none
  | some n =>
    let d0 : DState := { sys := Sys.init n mboxNames.length, held := List.replicate n false }
    let rec go (d : DState) : List (List String) → Option DState
      | [] => some d
      | st :: more => match doStep d st with
        | none => none
        | some d' => go d' more
    (go d0 p.steps).map (·.overtakes)

def afterColon (s : String) : String := ":".intercalate ((s.splitOn ":").drop 1)
def beforeColon (s : String) : String := (s.splitOn ":").headD ""

/-- the mailbox each session has selected at the end, from the implementation's answers -/
def finalSelection (p : Parsed) (n : Nat) : List (Option String) :=
  (p.steps.zip p.outs).foldl (fun (sel : List (Option String)) (so : List String × String) =>
    match so.1 with
    | [s, "SELECT", mb] =>
      match parseSess s with
      | some i => if beforeColon so.2 == "ok" then sel.set i (some mb) else sel
      | none => sel
    | [s, "UNSELECT"] =>
      match parseSess s with
      | some i => if beforeColon so.2 == "ok" then sel.set i none else sel
      | none => sel
    | _ => sel) (List.replicate n none)

def judgeC02 (args : List String) : String :=
  match parseJudge args with
  | none =>
    -- the harness could not run the history (or the server panicked): the correspondence reports that
    if args.any (· == "panic") then "violation # property C02: server panic" else "ok outside-unparsable"
  | some p =>
    match parseHeader p.header, modelOvertakes p with
    | some n, some ov =>
      let sel := finalSelection p n
      let fresh := p.finalF.map afterEq
      let checks := p.finalS.filterMap fun w =>
        -- S<i>=<status>:<resps>/<view>
        match w.splitOn "=" with
        | name :: _ =>
          let v := afterEq w
          if v == "none" then none else
          match parseSess name with
          | none => none
          | some i =>
            match sel.getD i none with
            | none => some (name, "?", "session-answers-but-nothing-selected", "-")
            | some mb =>
              let view := "/".intercalate ((v.splitOn "/").drop 1)
              let want := fresh.getD ((parseMbox mb).getD 0) "?"
              some (name, mb, view, want)
        | [] => none
      match checks.find? (fun c => c.2.2.1 != c.2.2.2) with
      | some (name, mb, view, want) =>
        if ov > 0 then
          s!"violation # property C02: {name} ({mb}): after quiescence + NOOP the session's view is [{view}] but a fresh session sees [{want}] (own update overtakes an earlier foreign one at {ov} step(s) of this schedule)"
        else
          s!"violation convergence-fails-inside-NoOvertake {name} ({mb}): session view [{view}] fresh view [{want}]"
      | none =>
        if checks.isEmpty then "ok trivial"
        else if ov > 0 then "ok nontrivial-overtake-converged" else "ok nontrivial-fifo"
    | _, _ => "violation unparsable-history"
where
  afterEq (w : String) : String := "=".intercalate ((w.splitOn "=").drop 1)

/-- the events (DJudgeTrace vocabulary) one answer contributes to the trace of its session -/
def eventsOfResps (r : String) : List String := splitNonEmpty r ";"

def eventsOfView (v : String) : List String :=
  let entries := if v == "-" then [] else v.splitOn "+"
  (entries.mapIdx fun k e =>
    -- <uid>:<flags>
    let uid := beforeColon e
    let fl := afterColon e
    s!"Q{k + 1}:{fl}:{uid}") ++ [s!"P{entries.length}"]

def judgeC01 (args : List String) : String :=
  match parseJudge args with
  | none => if args.any (· == "panic") then "violation # property C01: server panic" else "ok outside-unparsable"
  | some p =>
    match parseHeader p.header, modelOvertakes p with
    | some n, some ov =>
      -- per-session event traces
      let traces : List (List String) := (p.steps.zip p.outs).foldl (fun (tr : List (List String)) (so : List String × String) =>
        match so.1 with
        | s :: rest =>
          match parseSess s with
          | none => tr
          | some i =>
            let cur := tr.getD i []
            let out := so.2
            let st := beforeColon out
            let body := afterColon out
            let add : List String :=
              match rest with
              | ["SELECT", _] => if st == "ok" then [s!"RESET{(body.drop 1).toString}"] else []
              | ["UNSELECT"] => if st == "ok" then ["RESET0"] else []
              | ["PROBE"] =>
                if out == "P:none" then [] else
                match body.splitOn "/" with
                | [v, r] => eventsOfView v ++ eventsOfResps r
                | _ => ["bad-probe"]
              | ["STORE", seqs, op, _] =>
                eventsOfResps body ++ (if st == "ok" && op.endsWith "s" then [s!"Z{seqs}"] else [])
              | _ => eventsOfResps body
            tr.set i (cur ++ add)
        | [] => tr) (List.replicate n [])
      let traces := p.finalS.foldl (fun (tr : List (List String)) w =>
        match w.splitOn "=" with
        | name :: _ =>
          let v := "=".intercalate ((w.splitOn "=").drop 1)
          if v == "none" then tr else
          match parseSess name with
          | none => tr
          | some i =>
            let body := afterColon v
            match body.splitOn "/" with
            | [r, view] => tr.set i (tr.getD i [] ++ eventsOfResps r ++ eventsOfView view)
            | _ => tr.set i (tr.getD i [] ++ ["bad-final"])
        | [] => tr) traces
      let verdicts := traces.mapIdx fun i evs =>
        let rec go (m : Mirror) (k : Nat) : List String → Option String
          | [] => none
          | e :: rest =>
            match traceStep m e with
            | .ok m' => go m' (k + 1) rest
            | .error why => some s!"S{i}: {why} (event {k} of the session's trace)"
        go (Mirror.ofCount 0) 0 evs
      match verdicts.filterMap id with
      | why :: _ =>
        if ov > 0 then s!"violation # property C01: {why} (own update overtakes an earlier foreign one at {ov} step(s) of this schedule)"
        else s!"violation announcements-inexplicable-inside-NoOvertake {why}"
      | [] =>
        if traces.all (·.length ≤ 4) then "ok trivial"
        else if ov > 0 then "ok nontrivial-overtake-explicable" else "ok nontrivial-fifo"
    | _, _ => "violation unparsable-history"

end Gluon.Driver.SysD
