/- dialect `sys` (C01, C02): a whole multi-session history on the system model (Model/System.lean), in the step
   vocabulary of the wire-level history runner (harness/hist.go), so that the same line runs on the real server
   (harness/d_sys.go).

   `sys N=<sessions> ; <step> ; <step> ; …`   (words separated by single spaces, `;` is a word of its own)

   steps  S<i> SELECT <mb> | S<i> UNSELECT | S<i> CLOSE | S<i> APPEND <mb> <flags|-> | S<i> STORE <seqs> <+|-|=>[s] <flags>
          S<i> EXPUNGE | S<i> COPY <seqs> <mb> | S<i> MOVE <seqs> <mb> | S<i> NOOP | S<i> PROBE
          C CREATE <mb> <flags|-> | C BOXES m<k> <mb,mb…|-> | C FLAG m<k> <flag> <0|1> | C DELETE m<k>
          X HOLD <i> | X RELEASE <i> <k> (k<0: all, and the hold ends) | X BARRIER
   mailboxes INBOX mb1 mb2 (= 0 1 2); m<k> = the k-th message created in the history (APPEND or C CREATE).

   Scheduling as in hist.go: before every S step each session that is not held applies its whole queue (the
   runner's barrier); a held session applies updates only on X RELEASE.  At the end every hold is released,
   every session applies everything and answers a NOOP; its view and a fresh session's view of each mailbox are
   printed.

   output  <step out> | <step out> | … || S<i>=<noop resps>/<view> … || F0=<view> F1=<view> F2=<view>
           step out: `-` (C, X) or `<status>:<resps>`, PROBE `P:<view>/<resps>` (`P:none`: nothing selected);
           status ok | refused | no-<err> | panic; view = `<uid>:<flags>+…`; resps as in Codec, without RECENT
           and `\recent`, every run of consecutive FETCHes ordered by sequence number; a last item `I` on STORE / PROBE =
           the tagged completion carries `[EXPUNGEISSUED]`. -/
import GluonModel.Driver.DJudgeTrace
import GluonModel.Model.System

-- DIALECT: sys SysD.runSys
-- DIALECT: judge-c02-sys SysD.judgeC02
-- DIALECT: judge-c01-sys SysD.judgeC01
-- DIALECT: judge-c05-sys SysD.judgeC05
-- DIALECT: judge-c05-sys-strict SysD.judgeC05Strict
namespace Gluon.Driver.SysD
open Gluon Codec Gluon.Sys

def mboxNames : List String := ["INBOX", "mb1", "mb2"]

def parseMbox (s : String) : Option Nat := mboxNames.findIdx? (· == s)

def parseSeqs (s : String) : List Nat := (splitNonEmpty s ",").map nat!

/-- `m<k>` -/
def parseMsg (s : String) : Option MsgId := if s.startsWith "m" then (s.drop 1).toString.toNat? else none

/-- `S<i>` -/
def parseSess (s : String) : Option Nat := if s.startsWith "S" then (s.drop 1).toString.toNat? else none

def insertBySeq (r : Resp) : List Resp → List Resp
  | [] => [r]
  | x :: xs =>
    match r, x with
    | .fetch s _ _, .fetch s' _ _ => if s ≤ s' then r :: x :: xs else x :: insertBySeq r xs
    | _, _ => r :: x :: xs

/-- drop RECENT, strip `\recent`, order every run of consecutive FETCHes by sequence number -/
def canonResps (l : List Resp) : List Resp :=
  let l1 := l.filterMap fun r => match r with
    | .recent _ => none
    | .fetch s f u => some (.fetch s (f.map fun fl => fl.filter (· != Flags.recent)) u)
    | r => some r
  -- insertion sort inside runs: a FETCH moves left only past FETCHes
  l1.foldl (fun acc r =>
    match r with
    | .fetch .. =>
      let run := (acc.reverse.takeWhile fun x => match x with | .fetch .. => true | _ => false).reverse
      let pre := acc.take (acc.length - run.length)
      pre ++ insertBySeq r run
    | _ => acc ++ [r]) []

def showView (s : Snap) : String :=
  if s.isEmpty then "-" else
  "+".intercalate (s.map fun m => s!"{m.uid}:{showFlags (m.flags.filter (· != Flags.recent))}")

def showViewV (v : View) : String := showView (snapOf v)

def showStatus : Status → String
  | .ok => "ok"
  | .refused => "refused"
  | .err .outOfOrder => "no-outoforder"
  | .err .noSuchMessage => "no-nosuchmessage"
  | .err .panic => "no-panic"
  | .panic => "panic"

def showOut (o : Out) : String := s!"{showStatus o.status}:{showResps (canonResps o.resps)}"

structure DState where
  sys : Sys
  held : List Bool
  outs : List String := []
  /-- steps at which the model's schedule hypothesis `NoOvertake` fails (`opNoOvertakeB`) -/
  overtakes : Nat := 0

/-- the runner's barrier before a session step: every session that is not held applies its whole queue -/
def autoDrain (d : DState) : DState :=
  let sys := (List.range d.sys.sess.length).foldl (fun s j =>
    if d.held.getD j false then s else (step s (.drain j ((s.sess[j]?).map (·.inbox.length) |>.getD 0))).1) d.sys
  { d with sys }

def emit (d : DState) (o : String) : DState := { d with outs := d.outs ++ [o] }

def doOp (d : DState) (op : SysOp) : DState × Out :=
  let (s', o) := step d.sys op
  ({ d with sys := s', overtakes := if opNoOvertakeB d.sys op then d.overtakes else d.overtakes + 1 }, o)

/-- `Mailbox.ExpungeIssued()` of session `i`: a removal is held back -/
def issuedOf (s : Sys) (i : Nat) : Bool := ((s.sess[i]?).map fun me => expungeIssued me.res).getD false

/-- the pseudo-response `I`: the tagged completion of STORE / FETCH carries `[EXPUNGEISSUED]` -/
def withIssued (b : Bool) (resps : String) : String :=
  if !b then resps else if resps == "-" then "I" else resps ++ ";I"

def parseStoreOp (s : String) : Option (FlagOp × Bool) :=
  match s with
  | "+" => some (.add, false) | "-" => some (.rem, false) | "=" => some (.set, false)
  | "+s" => some (.add, true) | "-s" => some (.rem, true) | "=s" => some (.set, true)
  | _ => none

/-- one step; `none` = unparsable -/
def doStep (d : DState) (w : List String) : Option DState :=
  match w with
  | ["X", "HOLD", i] =>
    let i := nat! i
    -- what was delivered before the hold has been applied (the session was running freely)
    let d1 := if d.held.getD i false then d else
      (doOp d (.drain i ((d.sys.sess[i]?).map (·.inbox.length) |>.getD 0))).1
    some (emit { d1 with held := d1.held.set i true } "-")
  | ["X", "RELEASE", i, k] =>
    let i := nat! i
    if !(d.held.getD i false) then some (emit d "-") else
    if k.startsWith "-" then
      let d1 := (doOp d (.drain i ((d.sys.sess[i]?).map (·.inbox.length) |>.getD 0))).1
      some (emit { d1 with held := d1.held.set i false } "-")
    else some (emit (doOp d (.drain i (nat! k))).1 "-")
  | ["X", "BARRIER"] => some (emit (autoDrain d) "-")
  | ["C", "CREATE", mb, fl] => do
    let mb ← parseMbox mb
    some (emit (doOp d (.conn (.create mb (parseFlags fl)))).1 "-")
  | ["C", "BOXES", m, mbs] => do
    let id ← parseMsg m
    let mbs ← (splitNonEmpty mbs ",").mapM parseMbox
    some (emit (doOp d (.conn (.boxes id mbs))).1 "-")
  | ["C", "DELETE", m] => do
    let id ← parseMsg m
    some (emit (doOp d (.conn (.delete id))).1 "-")
  | ["C", "FLAG", m, fl, on] => do
    let id ← parseMsg m
    some (emit (doOp d (.conn (.setFlag id fl.toLower (on == "1")))).1 "-")
  | s :: rest => do
    let i ← parseSess s
    let d := autoDrain d
    match rest with
    | ["SELECT", mb] =>
      let mb ← parseMbox mb
      let (d', o) := doOp d (.select i mb)
      some (emit d' (showOut o))
    | ["UNSELECT"] =>
      let (d', o) := doOp d (.unselect i)
      some (emit d' (showOut o))
    | ["CLOSE"] =>
      let (d', o) := doOp d (.close i)
      some (emit d' (showOut o))
    | ["APPEND", mb, fl] =>
      let mb ← parseMbox mb
      let (d', o) := doOp d (.cmd i (.append mb (parseFlags fl)))
      some (emit d' (showOut o))
    | ["STORE", seqs, op, fl] =>
      let (op, silent) ← parseStoreOp op
      let (d', o) := doOp d (.cmd i (.store (parseSeqs seqs) op (parseFlags fl) silent))
      some (emit d' s!"{showStatus o.status}:{withIssued (o.status == .ok && issuedOf d'.sys i) (showResps (canonResps o.resps))}")
    | ["EXPUNGE"] =>
      let (d', o) := doOp d (.cmd i .expunge)
      some (emit d' (showOut o))
    | ["COPY", seqs, mb] =>
      let mb ← parseMbox mb
      let (d', o) := doOp d (.cmd i (.copy (parseSeqs seqs) mb))
      some (emit d' (showOut o))
    | ["MOVE", seqs, mb] =>
      let mb ← parseMbox mb
      let (d', o) := doOp d (.cmd i (.move (parseSeqs seqs) mb))
      some (emit d' (showOut o))
    | ["NOOP"] =>
      let (d', o) := doOp d (.flush i true)
      some (emit d' (showOut o))
    | ["PROBE"] =>
      match d.sys.sess[i]? with
      | none => none
      | some me =>
        match me.sel with
        | none => some (emit d "P:none")
        | some _ =>
          let (d', o) := doOp d (.flush i false)
          -- FETCH 1:* is refused (BAD, no response code) on an empty mailbox
          some (emit d' s!"P:{showView me.snap}/{withIssued (!me.snap.isEmpty && issuedOf d'.sys i) (showResps (canonResps o.resps))}")
    | _ => none
  | _ => none

def splitSteps (ws : List String) : List (List String) :=
  let (acc, cur) := ws.foldl (fun (p : List (List String) × List String) w =>
    if w == ";" then (p.1 ++ [p.2], []) else (p.1, p.2 ++ [w])) ([], [])
  (acc ++ [cur]).filter (!·.isEmpty)

/-- the quiescent end: every hold released, every queue applied, a NOOP per selected session -/
def converge (d : DState) : String :=
  let d1 := autoDrain { d with held := d.held.map fun _ => false }
  let (parts, sys) := (List.range d1.sys.sess.length).foldl (fun (p : List String × Sys) i =>
    match p.2.sess[i]? with
    | none => p
    | some me =>
      match me.sel with
      | none => (p.1 ++ [s!"S{i}=none"], p.2)
      | some _ =>
        let (s', o) := step p.2 (.flush i true)
        let v := (s'.sess[i]?).map (fun x => showView x.snap) |>.getD "-"
        (p.1 ++ [s!"S{i}={showOut o}/{v}"], s')) ([], d1.sys)
  let fresh := (List.range sys.idx.boxes.length).map fun mb => s!"F{mb}={showViewV (sys.idx.view mb)}"
  " ".intercalate parts ++ " || " ++ " ".intercalate fresh

def parseHeader (w : String) : Option Nat := if w.startsWith "N=" then (w.drop 2).toString.toNat? else none

def runSys (args : List String) : String :=
  match args with
  | hdr :: ";" :: rest =>
    match parseHeader hdr with
    | none => "bad-op"
    | some n =>
      let d0 : DState := { sys := Sys.init n mboxNames.length, held := List.replicate n false }
      let rec go (d : DState) : List (List String) → Option DState
        | [] => some d
        | st :: more => match doStep d st with
          | none => none
          | some d' => go d' more
      match go d0 (splitSteps rest) with
      | none => "bad-op"
      | some d => " | ".intercalate d.outs ++ " || " ++ converge d
  | _ => "bad-op"

/-! ### judges: the properties evaluated on what the IMPLEMENTATION answered

`judge-c02-sys <op words> => <impl output words>` — C02 at quiescence: every session's final view equals the fresh
session's view of the mailbox it has selected.  `judge-c01-sys …` — C01: the client mirror (Spec/Mirror.lean) fed with
every untagged response a session received, checked against every FETCH 1:* the session answered.
The model is run on the ops only to evaluate the schedule hypothesis of the theorems (`NoOvertake`): a failure on an
overtaking schedule is the known defect family (worded like the history oracle: `# property C0x: …`, the op line
holds the `X HOLD`); a failure on a schedule inside the hypothesis is worded differently and is never a known finding. -/

structure Parsed where
  header : String
  steps : List (List String)
  outs : List String
  finalS : List String
  finalF : List String

def parseJudge (args : List String) : Option Parsed :=
  let (opw, rest) := args.span (· != "=>")
  match opw, rest with
  | hdr :: ";" :: stepWords, _ :: implWords =>
    let impl := " ".intercalate implWords
    match impl.splitOn " || " with
    | [st, ss, ff] =>
      some { header := hdr, steps := splitSteps stepWords, outs := st.splitOn " | ",
             finalS := ss.splitOn " ", finalF := ff.splitOn " " }
    | _ => none
  | _, _ => none

/-- the model's verdict on the schedule: number of steps at which an own update overtakes -/
def modelOvertakes (p : Parsed) : Option Nat :=
  match parseHeader p.header with
  | none => none
  | some n =>
    let d0 : DState := { sys := Sys.init n mboxNames.length, held := List.replicate n false }
    let rec go (d : DState) : List (List String) → Option DState
      | [] => some d
      | st :: more => match doStep d st with
        | none => none
        | some d' => go d' more
    (go d0 p.steps).map (·.overtakes)

def afterColon (s : String) : String := ":".intercalate ((s.splitOn ":").drop 1)
def beforeColon (s : String) : String := (s.splitOn ":").headD ""

/-- the mailbox each session has selected at the end, from the implementation's answers -/
def finalSelection (p : Parsed) (n : Nat) : List (Option String) :=
  (p.steps.zip p.outs).foldl (fun (sel : List (Option String)) (so : List String × String) =>
    match so.1 with
    | [s, "SELECT", mb] =>
      match parseSess s with
      | some i => if beforeColon so.2 == "ok" then sel.set i (some mb) else sel
      | none => sel
    | [s, "UNSELECT"] =>
      match parseSess s with
      | some i => if beforeColon so.2 == "ok" then sel.set i none else sel
      | none => sel
    | [s, "CLOSE"] =>
      match parseSess s with
      | some i => if beforeColon so.2 == "ok" then sel.set i none else sel
      | none => sel
    | _ => sel) (List.replicate n none)

def judgeC02 (args : List String) : String :=
  match parseJudge args with
  | none =>
    -- the harness could not run the history (or the server panicked): the correspondence reports that
    if args.any (· == "panic") then "violation # property C02: server panic" else "ok outside-unparsable"
  | some p =>
    match parseHeader p.header, modelOvertakes p with
    | some n, some ov =>
      let sel := finalSelection p n
      let fresh := p.finalF.map afterEq
      let checks := p.finalS.filterMap fun w =>
        -- S<i>=<status>:<resps>/<view>
        match w.splitOn "=" with
        | name :: _ =>
          let v := afterEq w
          if v == "none" then none else
          match parseSess name with
          | none => none
          | some i =>
            match sel.getD i none with
            | none => some (name, "?", "session-answers-but-nothing-selected", "-")
            | some mb =>
              let view := "/".intercalate ((v.splitOn "/").drop 1)
              let want := fresh.getD ((parseMbox mb).getD 0) "?"
              some (name, mb, view, want)
        | [] => none
      match checks.find? (fun c => c.2.2.1 != c.2.2.2) with
      | some (name, mb, view, want) =>
        if ov > 0 then
          s!"violation # property C02: {name} ({mb}): after quiescence + NOOP the session's view is [{view}] but a fresh session sees [{want}] (own update overtakes an earlier foreign one at {ov} step(s) of this schedule)"
        else
          s!"violation convergence-fails-inside-NoOvertake {name} ({mb}): session view [{view}] fresh view [{want}]"
      | none =>
        if checks.isEmpty then "ok trivial"
        else if ov > 0 then "ok nontrivial-overtake-converged" else "ok nontrivial-fifo"
    | _, _ => "violation unparsable-history"
where
  afterEq (w : String) : String := "=".intercalate ((w.splitOn "=").drop 1)

/-- the events (DJudgeTrace vocabulary) one answer contributes to the trace of its session -/
def eventsOfResps (r : String) : List String := (splitNonEmpty r ";").filter (· != "I")

def eventsOfView (v : String) : List String :=
  let entries := if v == "-" then [] else v.splitOn "+"
  (entries.mapIdx fun k e =>
    -- <uid>:<flags>
    let uid := beforeColon e
    let fl := afterColon e
    s!"Q{k + 1}:{fl}:{uid}") ++ [s!"P{entries.length}"]

def judgeC01 (args : List String) : String :=
  match parseJudge args with
  | none => if args.any (· == "panic") then "violation # property C01: server panic" else "ok outside-unparsable"
  | some p =>
    match parseHeader p.header, modelOvertakes p with
    | some n, some ov =>
      -- per-session event traces
      let traces : List (List String) := (p.steps.zip p.outs).foldl (fun (tr : List (List String)) (so : List String × String) =>
        match so.1 with
        | s :: rest =>
          match parseSess s with
          | none => tr
          | some i =>
            let cur := tr.getD i []
            let out := so.2
            let st := beforeColon out
            let body := afterColon out
            let add : List String :=
              match rest with
              | ["SELECT", _] => if st == "ok" then [s!"RESET{(body.drop 1).toString}"] else []
              | ["UNSELECT"] => if st == "ok" then ["RESET0"] else []
              | ["CLOSE"] => eventsOfResps body ++ (if st == "ok" then ["RESET0"] else [])
              | ["PROBE"] =>
                if out == "P:none" then [] else
                match body.splitOn "/" with
                | [v, r] => eventsOfView v ++ eventsOfResps r
                | _ => ["bad-probe"]
              | ["STORE", seqs, op, _] =>
                eventsOfResps body ++ (if st == "ok" && op.endsWith "s" then [s!"Z{seqs}"] else [])
              | _ => eventsOfResps body
            tr.set i (cur ++ add)
        | [] => tr) (List.replicate n [])
      let traces := p.finalS.foldl (fun (tr : List (List String)) w =>
        match w.splitOn "=" with
        | name :: _ =>
          let v := "=".intercalate ((w.splitOn "=").drop 1)
          if v == "none" then tr else
          match parseSess name with
          | none => tr
          | some i =>
            let body := afterColon v
            match body.splitOn "/" with
            | [r, view] => tr.set i (tr.getD i [] ++ eventsOfResps r ++ eventsOfView view)
            | _ => tr.set i (tr.getD i [] ++ ["bad-final"])
        | [] => tr) traces
      let verdicts := traces.mapIdx fun i evs =>
        let rec go (m : Mirror) (k : Nat) : List String → Option String
          | [] => none
          | e :: rest =>
            match traceStep m e with
            | .ok m' => go m' (k + 1) rest
            | .error why => some s!"S{i}: {why} (event {k} of the session's trace)"
        go (Mirror.ofCount 0) 0 evs
      match verdicts.filterMap id with
      | why :: _ =>
        if ov > 0 then s!"violation # property C01: {why} (own update overtakes an earlier foreign one at {ov} step(s) of this schedule)"
        else s!"violation announcements-inexplicable-inside-NoOvertake {why}"
      | [] =>
        if traces.all (·.length ≤ 4) then "ok trivial"
        else if ov > 0 then "ok nontrivial-overtake-explicable" else "ok nontrivial-fifo"
    | _, _ => "violation unparsable-history"

/-! ### judge-c05-sys

C05 on what the IMPLEMENTATION answered in a `sys` history:
 (a) no untagged EXPUNGE in the answer to a command that does not permit it (STORE, COPY, FETCH = PROBE, any refused
     command) — in every history, whatever the schedule;
 (b) per session and message the announcements are ordered: the client is never shown two instances of one message
     at a time (a re-add's EXISTS comes after the removal's EXPUNGE).  Instances are the positions of the client's
     view, identified by the UIDs the session answered (PROBE, final view); which UIDs of a mailbox are the same
     message is read off the model's index (UIDs are never reused, the correspondence compares them);
 (c) after the quiescent end (every queue applied, a permitting NOOP) every message the session still shows is in the
     authoritative mailbox (`removal-never-announced`) and vice versa (`addition-never-announced`);
 (d) `[EXPUNGEISSUED]` (item `I`) iff removals are held back: after `I` the session's next permitting command
     announces an EXPUNGE; if that command is the very next step, also conversely.
(b)–(d) are the system-level theorems' conclusions (Theorems/SysC05.lean) and carry their hypothesis `NoOvertake`: on a
schedule outside it `judge-c05-sys` answers `ok outside-NoOvertake …` (the same history is reported by the C01 / C02
judges), `judge-c05-sys-strict` words it `violation # property C05: …` like the history oracle. -/

structure Slot where
  uid : Option Nat := none
  mb : String
  born : Nat
  died : Option Nat := none

structure C05State where
  cur : List Slot := []
  dead : List Slot := []
  mb : Option String := none
  t : Nat := 0
  /-- `I` seen and not yet followed by a permitting command: (step index) -/
  pendingIssued : Option Nat := none
  always : Option String := none     -- a violation of (a)
  inside : Option String := none     -- a violation of (b)–(d)
  sawX : Bool := false
  sawI : Bool := false

def C05State.closeAll (c : C05State) : C05State :=
  { c with dead := c.dead ++ c.cur.map (fun sl => { sl with died := some c.t }), cur := [], pendingIssued := none }

def C05State.flagInside (c : C05State) (why : String) : C05State :=
  if c.inside.isSome then c else { c with inside := some why }

/-- untagged EXISTS / EXPUNGE of one answer -/
def C05State.feed (c : C05State) (resps : String) : C05State :=
  (eventsOfResps resps).foldl (fun c ev =>
    let c := { c with t := c.t + 1 }
    if ev.startsWith "E" then
      let n := nat! (ev.drop 1).toString
      if n > c.cur.length then
        { c with cur := c.cur ++ (List.range (n - c.cur.length)).map fun _ => { mb := c.mb.getD "?", born := c.t } }
      else c
    else if ev.startsWith "X" then
      let k := nat! (ev.drop 1).toString
      match c.cur[k - 1]? with
      | some sl => if k == 0 then c else
        { c with cur := c.cur.eraseIdx (k - 1), dead := c.dead ++ [{ sl with died := some c.t }], sawX := true }
      | none => c
    else c) c

/-- the UIDs a FETCH 1:* answered, position by position -/
def C05State.learn (c : C05State) (view : String) : C05State :=
  let uids := (if view == "-" then [] else view.splitOn "+").map fun e => nat! (beforeColon e)
  if uids.length != c.cur.length then c
  else { c with cur := (c.cur.zip uids).map fun p => { p.1 with uid := some p.2 } }

def hasX (resps : String) : Bool := (eventsOfResps resps).any (·.startsWith "X")
def hasI (resps : String) : Bool := (splitNonEmpty resps ";").any (· == "I")

/-- (mailbox index, UID) ↦ message id, for every row the model's index ever held -/
def modelRows (p : Parsed) : Option (Nat × List ((Nat × Nat) × Nat)) :=
  match parseHeader p.header with
  | none => none
  | some n =>
    let d0 : DState := { sys := Sys.init n mboxNames.length, held := List.replicate n false }
    let collect (acc : List ((Nat × Nat) × Nat)) (s : Sys) : List ((Nat × Nat) × Nat) :=
      (List.range s.idx.boxes.length).foldl (fun acc mb =>
        (s.idx.box mb).rows.foldl (fun acc r => if acc.any (·.1 == (mb, r.uid)) then acc else acc ++ [((mb, r.uid), r.id)]) acc) acc
    let rec go (d : DState) (acc : List ((Nat × Nat) × Nat)) : List (List String) → Option (DState × List ((Nat × Nat) × Nat))
      | [] => some (d, acc)
      | st :: more => match doStep d st with
        | none => none
        | some d' => go d' (collect acc d'.sys) more
    (go d0 [] p.steps).map fun r => (r.1.overtakes, r.2)

def judgeC05With (strict : Bool) (args : List String) : String :=
  match parseJudge args with
  | none => if args.any (· == "panic") then "violation # property C05: server panic" else "ok outside-unparsable"
  | some p =>
    match parseHeader p.header, modelRows p with
    | some n, some (ov, rows) =>
      let fresh := p.finalF.map fun w => "=".intercalate ((w.splitOn "=").drop 1)
      let steps := (p.steps.zip p.outs)
      let idx := List.range steps.length
      let st0 : List C05State := List.replicate n {}
      let sts := (idx.zip steps).foldl (fun (sts : List C05State) (kso : Nat × List String × String) =>
        let k := kso.1
        let w := kso.2.1
        let out := kso.2.2
        match w with
        | s :: rest =>
          match parseSess s with
          | none => sts
          | some i =>
            let c := sts.getD i {}
            let st := beforeColon out
            let body := afterColon out
            let c : C05State :=
              match rest with
              | ["SELECT", mb] =>
                if st == "ok" then
                  let c := c.closeAll
                  let c := { c with mb := some mb, t := c.t + 1 }
                  { c with cur := (List.range (nat! ((body.drop 1).toString))).map fun _ => { mb := mb, born := c.t } }
                else c
              | ["UNSELECT"] => if st == "ok" then { c.closeAll with mb := none } else c
              | ["CLOSE"] =>
                -- CLOSE expunges silently: no untagged EXPUNGE in its answer, whatever the schedule
                let c := if hasX body && c.always.isNone then
                  { c with always := some s!"S{i}: untagged EXPUNGE while answering CLOSE ({st}, step {k})" } else c
                if st == "ok" then { c.closeAll with mb := none } else c.feed body
              | ["PROBE"] =>
                if out == "P:none" then c else
                match body.splitOn "/" with
                | [v, r] =>
                  let c := c.learn v
                  let c := if hasX r && c.always.isNone then { c with always := some s!"S{i}: untagged EXPUNGE while answering FETCH (step {k})" } else c
                  let c := c.feed r
                  if hasI r then { c with pendingIssued := some k, sawI := true } else
                    -- nothing held back: a NOOP right after must announce no removal (checked below through `notIssuedAt`)
                    { c with pendingIssued := none }
                | _ => c
              | _ =>
                let kind := rest.headD ""
                let nonPermitting := kind == "STORE" || kind == "COPY" || st == "refused"
                let c := if nonPermitting && hasX body && c.always.isNone then
                  { c with always := some s!"S{i}: untagged EXPUNGE while answering {kind} ({st}, step {k})" } else c
                let permitting := st == "ok" && (kind == "NOOP" || kind == "EXPUNGE" || kind == "MOVE" ||
                  (kind == "APPEND" && rest.getD 1 "" == c.mb.getD "?"))
                let c := if permitting then
                    match c.pendingIssued with
                    | some k0 =>
                      let c := if !hasX body then c.flagInside s!"expungeissued-without-removal: S{i}: [EXPUNGEISSUED] at step {k0} but the next permitting command ({kind}, step {k}) announced no removal" else c
                      { c with pendingIssued := none }
                    | none => c
                  else c
                let c := c.feed body
                if kind == "STORE" && st == "ok" then
                  if hasI body then { c with pendingIssued := some k, sawI := true } else c
                else c
            sts.set i c
        | [] => sts) st0
      -- (d), converse: STORE ok / PROBE without `I`, and the very next step is the same session's NOOP announcing a removal
      let conv : Option String := (idx.zip steps).findSome? fun kso =>
        let k := kso.1
        let w := kso.2.1
        let out := kso.2.2
        match w, steps[k + 1]? with
        | s :: rest, some (s' :: ["NOOP"], out') =>
          if s != s' then none else
          let isStore := rest.headD "" == "STORE" && beforeColon out == "ok"
          let isProbe := rest == ["PROBE"] && out != "P:none" && !(afterColon out).startsWith "-/"
          let body := if isProbe then ("/".intercalate (((afterColon out).splitOn "/").drop 1)) else afterColon out
          if (isStore || isProbe) && !hasI body && hasX (afterColon out') then
            some s!"removal-without-expungeissued: {s}: no [EXPUNGEISSUED] at step {k} but the NOOP right after announced a removal"
          else none
        | _, _ => none
      -- the quiescent end
      let sts := p.finalS.foldl (fun (sts : List C05State) w =>
        match w.splitOn "=" with
        | name :: _ =>
          let v := "=".intercalate ((w.splitOn "=").drop 1)
          if v == "none" then sts else
          match parseSess name with
          | none => sts
          | some i =>
            let c := sts.getD i {}
            match (afterColon v).splitOn "/" with
            | [r, view] =>
              let c := match c.pendingIssued with
                | some k0 => if !hasX r then c.flagInside s!"expungeissued-without-removal: S{i}: [EXPUNGEISSUED] at step {k0} but the final NOOP announced no removal" else c
                | none => c
              let c := c.feed r
              let c := c.learn view
              -- (c)
              let mine := (if view == "-" then [] else view.splitOn "+").map fun e => nat! (beforeColon e)
              let mbName := c.mb.getD "?"
              let fv := fresh.getD ((parseMbox mbName).getD 0) "-"
              let theirs := (if fv == "-" || fv == "?" then [] else fv.splitOn "+").map fun e => nat! (beforeColon e)
              let c := match mine.find? (fun u => !theirs.contains u) with
                | some u => c.flagInside s!"removal-never-announced: S{i} ({mbName}): after quiescence + NOOP the session still shows UID {u}, which the mailbox no longer holds (session [{view}] fresh [{fv}])"
                | none =>
                  match theirs.find? (fun u => !mine.contains u) with
                  | some u => c.flagInside s!"addition-never-announced: S{i} ({mbName}): after quiescence + NOOP the session does not show UID {u}, which the mailbox holds (session [{view}] fresh [{fv}])"
                  | none =>
                    if c.cur.length != mine.length then
                      c.flagInside s!"announced-count-differs: S{i} ({mbName}): the client was told {c.cur.length} messages are present, the session answers {mine.length}"
                    else c
              sts.set i c.closeAll
            | _ => sts
        | [] => sts) sts
      -- (b): two instances of one message shown at the same time
      let overlap : Option String := (List.range sts.length).findSome? fun i =>
        let c := sts.getD i {}
        let known := c.dead.filterMap fun sl =>
          match sl.uid, parseMbox sl.mb with
          | some u, some mb => (rows.find? (·.1 == (mb, u))).map fun r => (sl, r.2)
          | _, _ => none
        known.findSome? fun a => known.findSome? fun b =>
          if a.2 == b.2 && a.1.mb == b.1.mb && a.1.uid != b.1.uid && a.1.born < b.1.born &&
              (match a.1.died with | some d => b.1.born < d | none => true) then
            some s!"readd-before-removal: S{i} ({a.1.mb}): the re-added instance UID {b.1.uid.getD 0} of a message was announced while the removal of its instance UID {a.1.uid.getD 0} was not"
          else none
      let always := sts.findSome? (·.always)
      let inside := (sts.findSome? (·.inside)).orElse fun _ => conv.orElse fun _ => overlap
      match always, inside with
      | some why, _ => s!"violation # property C05: {why}"
      | none, some why =>
        if ov == 0 then s!"violation {(why.splitOn ": ").headD "c05"}-inside-NoOvertake {why}"
        else if strict then s!"violation # property C05: {why} (own update overtakes an earlier foreign one at {ov} step(s) of this schedule)"
        else "ok outside-NoOvertake-announcements-differ"
      | none, none =>
        if sts.any (·.sawI) then (if ov > 0 then "ok nontrivial-heldback-overtake" else "ok nontrivial-heldback")
        else if sts.any (·.sawX) then (if ov > 0 then "ok nontrivial-removals-overtake" else "ok nontrivial-removals")
        else "ok trivial"
    | _, _ => "violation unparsable-history"

def judgeC05 (args : List String) : String := judgeC05With false args
def judgeC05Strict (args : List String) : String := judgeC05With true args

end Gluon.Driver.SysD
