/- dialects `mime-scan`, `mime-split`, `mime-walk` (C12): rfc822.ByteScanner / Split / Parse+Walk
   as index ranges.  Bytes are hex encoded, `-` = empty. -/
import GluonModel.Model.MimeScan

-- DIALECT: mime-scan Mime.runScan
-- DIALECT: mime-split Mime.runSplit
-- DIALECT: mime-walk Mime.runWalk
-- DIALECT: judge-c12-walk Mime.judgeWalk
namespace Gluon.Driver.Mime
open Gluon.Mime

def hexVal (c : Char) : Option Nat :=
  if '0' ≤ c ∧ c ≤ '9' then some (c.toNat - '0'.toNat)
  else if 'a' ≤ c ∧ c ≤ 'f' then some (c.toNat - 'a'.toNat + 10)
  else if 'A' ≤ c ∧ c ≤ 'F' then some (c.toNat - 'A'.toNat + 10)
  else none

/-- accumulator loop (a message of some hundred KB is a line of twice as many characters: no
    recursion depth proportional to the input) -/
def unhexLoop : List Char → List UInt8 → Option Bytes
  | [], acc => some acc.reverse
  | [_], _ => none
  | a :: b :: rest, acc =>
    match hexVal a, hexVal b with
    | some x, some y => unhexLoop rest (UInt8.ofNat (x * 16 + y) :: acc)
    | _, _ => none

def unhexChars (cs : List Char) : Option Bytes := unhexLoop cs []

def unhex (s : String) : Option Bytes := if s == "-" then some [] else unhexChars s.toList

def hexDigit (n : Nat) : Char := if n < 10 then Char.ofNat (48 + n) else Char.ofNat (87 + n)

def hex (b : Bytes) : String :=
  if b.isEmpty then "-" else
  String.ofList (b.flatMap fun c => [hexDigit (c.toNat / 16), hexDigit (c.toNat % 16)])

def showErr (e : String) : String := if e.startsWith "panic" then "panic" else "model-" ++ e

/-- `mime-scan <hexdata> <hexboundary>` → `ok off:lo:len;…` -/
def runScan (args : List String) : String :=
  match args with
  | [d, b] =>
    match unhex d, unhex b with
    | some data, some bnd =>
      match scanAll data bnd with
      | .ok parts =>
        if parts.isEmpty then "ok -" else
        "ok " ++ ";".intercalate (parts.map fun p => s!"{p.offset}:{p.lo}:{p.len}")
      | .error e => showErr e
    | _, _ => "bad-op"
  | _ => "bad-op"

/-- `mime-split <hexdata>` → `ok <len header> <len body>` -/
def runSplit (args : List String) : String :=
  match args with
  | [d] =>
    match unhex d with
    | some data =>
      match split data with
      | .ok (h, t) => s!"ok {h.length} {t.length}"
      | .error e => showErr e
    | none => "bad-op"
  | _ => "bad-op"

/-- table `hexhdr:ok:kind:hexbnd,…` (kind o|r|m) of the abstract header results -/
def parseEnv (s : String) : Option (List (Bytes × HdrInfo)) :=
  (if s == "-" then [] else s.splitOn ",").mapM fun item =>
    match item.splitOn ":" with
    | [h, ok, kind, bnd] => do
      let hb ← unhex h
      let bb ← unhex bnd
      let ct := if kind == "r" then CT.rfc822 else if kind == "m" then CT.multipart bb else CT.other
      some (hb, { ok := ok == "1", ct })
    | _ => none

def envOf (tbl : List (Bytes × HdrInfo)) : HdrEnv := fun h =>
  match tbl.lookup h with
  | some i => i
  | none => { ok := true, ct := .other }

def showFlat (l : List (Nat × Sec)) : String :=
  ";".intercalate (l.map fun (d, s) => s!"{d}:{s.header}:{s.body}:{s.end_}")

/-- `mime-walk <hexmsg> <envtable>` → `ok depth:header:body:end;…` (pre-order) -/
def runWalk (args : List String) : String :=
  match args with
  | [d, e] =>
    match unhex d, parseEnv e with
    | some lit, some tbl =>
      match parseWalk (envOf tbl) lit with
      | .ok t => "ok " ++ showFlat (t.flatten 0)
      | .error e => showErr e
    | _, _ => "bad-op"
  | _ => "bad-op"

/-- number of sections and the longest part path of a pre-order listing `depth:header:body:end;…` -/
def walkShape (flat : String) : Option (Nat × Nat) :=
  (flat.splitOn ";").foldlM (fun (acc : Nat × Nat) item =>
    match item.splitOn ":" with
    | [d, _, _, _] => d.toNat?.map fun dn => (acc.1 + 1, max acc.2 dn)
    | _ => none) (0, 0)

/-- (sections, longest part path) of the model's section tree -/
def modelWalkShape (d e : String) : Option (Except String (Nat × Nat)) :=
  match unhex d, parseEnv e with
  | some lit, some tbl =>
    match parseWalk (envOf tbl) lit with
    | .ok t =>
      let fl := t.flatten 0
      some (.ok (fl.length, fl.foldl (fun m x => max m x.1) 0))
    | .error e => some (.error e)
  | _, _ => none

/-- C12 on one observed `Parse(...).Walk`: the section tree the implementation walked is as deep as the
    MIME tree of the message and has as many sections — the MIME tree being what `parseWalk` (the model
    without any limit on depth, width or length; `sections_of_built_message`: for a well-built message
    exactly the tree it was built from, at every depth) finds in the same bytes under the same header
    answers.
    `judge-c12-walk <hexmsg> <envtable> => ok depth:header:body:end;…` -/
def judgeWalk (args : List String) : String :=
  match args with
  | [d, e, "=>", "ok", flat] =>
    match modelWalkShape d e, walkShape flat with
    | some (.ok (mn, mdep)), some (n, dep) =>
      if dep != mdep then s!"violation tree-depth-differs walked-depth={dep} mime-depth={mdep}"
      else if n != mn then s!"violation tree-section-count-differs walked-sections={n} mime-parts={mn}"
      else if dep ≥ 2 then "ok nontrivial-nested" else if n > 1 then "ok nontrivial" else "ok trivial"
    | some (.error e), _ => "violation model-" ++ e
    | _, _ => "violation unparsable-implementation-output"
  | _ :: _ :: "=>" :: "panic" :: _ => "violation panic"
  | _ :: _ :: "=>" :: "err" :: _ => "violation walk-returned-error"
  | _ => "violation unparsable-implementation-output"

end Gluon.Driver.Mime
