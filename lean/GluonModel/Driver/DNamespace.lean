/-
Model side of the namespace dialect (C14, for the wire-level oracle that runs the whole server):

  namespace <del> <op>;<op>;…      ops:  C:<name>  D:<name>  R:<old>:<new>     (names hex, `~` = empty)
    -> <r1>,<r2>,… names=<sorted list of the visible mailbox names> list=<LIST "" "*" as name=class;…>

  r = ok | no:<reason>   reasons: createinbox deleteinbox notallowed beginswithsep adjacentsep existing nosuch dbunique
  class = real | noselect

There is no Go `Impl` for this dialect in `vh impl`; it is meant to be driven by an oracle.
-/
import GluonModel.Model.Namespace
import GluonModel.Driver.DMatch

-- DIALECT: namespace runNamespace
namespace Gluon.Driver
open Gluon.Match Gluon.NS

def showNsErr : Err → String
  | .createInbox => "createinbox"
  | .deleteInbox => "deleteinbox"
  | .notAllowed => "notallowed"
  | .beginsWithSep => "beginswithsep"
  | .adjacentSep => "adjacentsep"
  | .existing => "existing"
  | .noSuch => "nosuch"
  | .dbUnique => "dbunique"

def parseCmd (s : String) : Option Cmd :=
  match s.splitOn ":" with
  | ["C", n] => (Hex.decode n).map .create
  | ["D", n] => (Hex.decode n).map .delete
  | ["R", o, n] => do
    let o' ← Hex.decode o
    let n' ← Hex.decode n
    some (.rename o' n')
  | _ => none

def runNamespace (args : List String) : String :=
  match args with
  | [del, ops] =>
    match delim? del, (if ops == "-" then some [] else (ops.splitOn ";").mapM parseCmd) with
    | some d, some cmds =>
      let (S, rs) := cmds.foldl (fun (acc : Names × List String) c =>
        match step d acc.1 c with
        | .ok S' => (S', acc.2 ++ ["ok"])
        | .error e => (acc.1, acc.2 ++ ["no:" ++ showNsErr e])) (initial, [])
      let vis := visible S
      let all := vis.map fun n => ({ name := n, subscribed := false, ent := some [] } : MBox)
      let m := getMatches all [] ['*'] d false
      let listing :=
        if m.isEmpty then "-" else
        ";".intercalate (sortStr (m.map fun (n, a) => s!"{Hex.encode n}={match a with | Atts.noselect => "noselect" | Atts.real _ => "real"}"))
      s!"{if rs.isEmpty then "-" else ",".intercalate rs} names={Hex.encodeList (sortNames vis)} list={listing}"
    | _, _ => "bad-op"
  | _ => "bad-op"

end Gluon.Driver
