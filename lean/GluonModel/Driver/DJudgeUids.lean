/- Judge `judge-c04-uids` (property C04, oracle `c04uids`, harness/o_uids.go): the observation log
   of one whole-server history, one event per word, evaluated by `Spec/UidHistory.lean`.

     R                                   server restart
     K:<mb>:<clock>                      mailbox name created (clock = generator clock before the command)
     D:<mb>      M:<old>:<new>      B    deleted / renamed / UIDVALIDITY of every mailbox bumped
     A:<mb>:<uidv>:<uid>:<marker>        APPENDUID
     P:<src>:<srcuidv>:<dst>:<dstuidv>:<s1,s2,..>:<d1,d2,..>      COPYUID (sets expanded, in order)
     N:<mb>:<uidv>:<uidnext>             STATUS / SELECT
     F:<mb>:<uidv>:<uidnext>:<uid>=<marker>,..|-     fresh full listing
     V:<mb>:<uidv>:<uid>=<marker>,..|-               listing in a long-lived session
     W:<mb>:<uidv>:<exists>:<uidnext>:<uid>=<marker>,..|-:<u1,u2,..|->    SELECT/EXAMINE raced by a second party
                                         (own response, the view it opened, UIDs the second party added)
     T:<mb>:<uidv>:<messages>:<uidnext>:<uid>=<marker>,..|-:<u1,..|->      STATUS raced by a second party
                                         (own response, fresh listing right after, UIDs the second party added)

   Answer: `ok trivial` | `ok nontrivial k=v …` | `violation property cause=<label> …` |
   `violation model cause=<label> …` (the log contradicts a prediction of the UidSeq / UidValidity
   models, not the property itself). -/
import GluonModel.Spec.UidHistory

-- DIALECT: judge-c04-uids DJudgeUids.judgeUids
namespace Gluon.Driver.DJudgeUids
open Gluon.UidHistory

def parsePairs (s : String) : Option (List (Nat × String)) :=
  if s == "-" || s == "" then some [] else
  (s.splitOn ",").mapM fun item =>
    match item.splitOn "=" with
    | [u, mk] => u.toNat?.map fun n => (n, mk)
    | _ => none

def parseNats (s : String) : Option (List Nat) :=
  if s == "-" || s == "" then some [] else (s.splitOn ",").mapM String.toNat?

def parseEv (w : String) : Option Ev :=
  match w.splitOn ":" with
  | ["R"] => some .restart
  | ["B"] => some .bumped
  | ["K", n, c] => c.toNat?.map fun c => .created n c
  | ["D", n] => some (.deleted n)
  | ["M", a, b] => some (.renamed a b)
  | ["A", n, v, u, mk] => do
    let v ← v.toNat?
    let u ← u.toNat?
    pure (.appendUid n v u mk)
  | ["P", s, sv, d, dv, ss, ds] => do
    let sv ← sv.toNat?
    let dv ← dv.toNat?
    let ss ← parseNats ss
    let ds ← parseNats ds
    pure (.copyUid s sv d dv ss ds)
  | ["N", n, v, x] => do
    let v ← v.toNat?
    let x ← x.toNat?
    pure (.status n v x)
  | ["F", n, v, x, ps] => do
    let v ← v.toNat?
    let x ← x.toNat?
    let ps ← parsePairs ps
    pure (.listing n v x ps)
  | ["V", n, v, ps] => do
    let v ← v.toNat?
    let ps ← parsePairs ps
    pure (.view n v ps)
  | ["W", n, v, e, x, ps, inj] => do
    let v ← v.toNat?
    let e ← e.toNat?
    let x ← x.toNat?
    let ps ← parsePairs ps
    let inj ← parseNats inj
    pure (.selectRace n v e x ps inj)
  | ["T", n, v, m, x, ps, inj] => do
    let v ← v.toNat?
    let m ← m.toNat?
    let x ← x.toNat?
    let ps ← parsePairs ps
    let inj ← parseNats inj
    pure (.statusRace n v m x ps inj)
  | _ => none

def verdict (st : St) : String :=
  if !invariant st then "violation model cause=model-invariant-broken (the judge's own invariant over the final state does not hold)"
  else if st.assigned < 2 then "ok trivial"
  else
    s!"ok nontrivial assigned={st.assigned} announced={st.announced} confirmed={st.confirmed} topgone={st.topGone} afterrestart={st.afterRestart} restarts={st.restarts} recreated={st.recreated} bumps={st.bumps} renames={st.renames} boxes={st.boxes.length} raced={st.raced} racedseen={st.racedSeen}"

def judgeUids (args : List String) : String :=
  let words := args.filter (· != "")
  match words.mapM parseEv with
  | none => "violation unparsable-observation-log"
  | some evs =>
    match run {} evs with
    | .error e => s!"violation {e}"
    | .ok st => verdict st

-- regression examples (evaluated at build time)
-- expunge of the highest UID, then an addition: 3 is not reused; APPENDUID confirmed
#guard (judgeUids ["K:a:100", "F:a:100:1:-", "A:a:100:1:m1", "F:a:100:2:1=m1", "A:a:100:2:m2", "A:a:100:3:m3",
  "F:a:100:4:1=m1,2=m2,3=m3", "F:a:100:4:1=m1,2=m2", "A:a:100:4:m4", "F:a:100:5:1=m1,2=m2,4=m4"]).startsWith "ok nontrivial"
-- the same, but the server hands UID 3 out again
#guard (judgeUids ["K:a:100", "A:a:100:1:m1", "A:a:100:2:m2", "A:a:100:3:m3", "F:a:100:4:1=m1,2=m2,3=m3",
  "F:a:100:4:1=m1,2=m2", "A:a:100:3:m4"]).startsWith "violation property cause=uid-denotes-two-messages"
-- UIDNEXT going down after the expunge
#guard (judgeUids ["K:a:100", "A:a:100:1:m1", "A:a:100:2:m2", "F:a:100:3:1=m1,2=m2", "F:a:100:2:1=m1"]).startsWith
  "violation property cause=uidnext-not-above-assigned"
-- COPYUID pairing: destination UIDs swapped
#guard (judgeUids ["A:a:100:1:m1", "A:a:100:2:m2", "F:a:100:3:1=m1,2=m2", "P:a:100:b:101:1,2:1,2", "F:b:101:3:1=m2,2=m1"]).startsWith
  "violation property cause=copyuid-pairing"
-- the announced UID holds nothing at the next listing
#guard (judgeUids ["A:a:100:1:m1", "F:a:100:2:-"]).startsWith "violation property cause=announced-uid-not-found"
-- DESIGN §9 #12: burst, restart, delete + create of the last name
#guard (judgeUids ["K:w1:100", "N:w1:100:1", "K:w2:100", "N:w2:101:1", "K:w3:100", "N:w3:102:1", "R", "N:w3:102:1",
  "D:w3", "K:w3:100", "N:w3:101:1"]).startsWith "violation property cause=uidvalidity-regress-after-restart"
-- the same without the restart is a different cause
#guard (judgeUids ["K:w3:100", "N:w3:102:1", "D:w3", "K:w3:100", "N:w3:101:1"]).startsWith "violation property cause=uidvalidity-regress "
-- rename keeps the table, bump keeps the table under the new value
#guard (judgeUids ["K:a:100", "A:a:100:1:m1", "A:a:100:2:m2", "F:a:100:3:1=m1,2=m2", "M:a:b", "F:b:100:3:1=m1,2=m2", "B",
  "F:b:105:3:1=m1,2=m2", "A:b:105:3:m3", "F:b:105:4:1=m1,2=m2,3=m3"]).startsWith "ok nontrivial"
#guard (judgeUids ["K:a:100", "A:a:100:1:m1", "A:a:100:2:m2", "F:a:100:3:1=m1,2=m2", "F:a:100:3:1=m1", "M:a:b", "A:b:100:2:m3"]).startsWith
  "violation property cause=uid-denotes-two-messages"
-- renamed away and back: the same mailbox under its old name again, UIDs assigned in between are known
#guard (judgeUids ["K:a:100", "A:a:100:1:m1", "F:a:100:2:1=m1", "M:a:b", "F:b:100:2:1=m1", "A:b:100:2:m2", "F:b:100:3:1=m1,2=m2",
  "F:b:100:3:1=m1", "M:b:a", "F:a:100:3:1=m1", "A:a:100:3:m3", "F:a:100:4:1=m1,3=m3"]).startsWith "ok nontrivial"
#guard (judgeUids ["K:a:100", "A:a:100:1:m1", "F:a:100:2:1=m1", "M:a:b", "A:b:100:2:m2", "F:b:100:3:1=m1,2=m2",
  "F:b:100:3:1=m1", "M:b:a", "A:a:100:2:m3"]).startsWith "violation property cause=uid-denotes-two-messages"

-- raced SELECT: the second party's APPEND ran after the mailbox was looked up and before its messages were loaded;
-- UIDNEXT read late (as the code does) is fine, UIDNEXT read early is not
#guard (judgeUids ["K:a:100", "A:a:100:1:m1", "F:a:100:2:1=m1", "W:a:100:2:3:1=m1,2=m2:2", "A:a:100:2:m2",
  "F:a:100:3:1=m1,2=m2"]).startsWith "ok nontrivial"
#guard (judgeUids ["K:a:100", "A:a:100:1:m1", "F:a:100:2:1=m1", "W:a:100:2:2:1=m1,2=m2:2", "A:a:100:2:m2",
  "F:a:100:3:1=m1,2=m2"]).startsWith "violation property cause=select-uidnext-not-above-view"
-- the second party ran after the response was built: the view shows its message beyond EXISTS, UIDNEXT is the old one
#guard (judgeUids ["K:a:100", "A:a:100:1:m1", "F:a:100:2:1=m1", "W:a:100:1:2:1=m1,2=m2:2", "A:a:100:2:m2",
  "F:a:100:3:1=m1,2=m2"]).startsWith "ok nontrivial"
-- … or before the messages were loaded but UIDNEXT already counts it while the view does not show it yet
#guard (judgeUids ["K:a:100", "A:a:100:1:m1", "F:a:100:2:1=m1", "W:a:100:1:3:1=m1:2", "A:a:100:2:m2",
  "F:a:100:3:1=m1,2=m2"]).startsWith "ok nontrivial"
#guard (judgeUids ["K:a:100", "A:a:100:1:m1", "F:a:100:2:1=m1", "W:a:100:1:2:1=m1,2=m2:-"]).startsWith
  "violation property cause=select-view-unexplained"
#guard (judgeUids ["K:a:100", "A:a:100:1:m1", "F:a:100:2:1=m1", "W:a:100:3:4:1=m1,2=m2:2"]).startsWith
  "violation property cause=select-exists-above-view"
-- raced STATUS
#guard (judgeUids ["K:a:100", "A:a:100:1:m1", "F:a:100:2:1=m1", "T:a:100:2:3:1=m1,2=m2:2", "A:a:100:2:m2",
  "F:a:100:3:1=m1,2=m2"]).startsWith "ok nontrivial"
#guard (judgeUids ["K:a:100", "A:a:100:1:m1", "F:a:100:2:1=m1", "T:a:100:1:3:1=m1,2=m2:2", "A:a:100:2:m2",
  "F:a:100:3:1=m1,2=m2"]).startsWith "ok nontrivial"
#guard (judgeUids ["K:a:100", "A:a:100:1:m1", "F:a:100:2:1=m1", "T:a:100:2:2:1=m1,2=m2:2", "A:a:100:2:m2"]).startsWith
  "violation property cause=status-uidnext-not-above-counted"
#guard (judgeUids ["K:a:100", "A:a:100:1:m1", "F:a:100:2:1=m1", "T:a:100:3:4:1=m1,2=m2:2"]).startsWith
  "violation property cause=status-messages-unexplained"
-- a raced response may not go below what was announced before, and later ones not below it
#guard (judgeUids ["K:a:100", "A:a:100:1:m1", "A:a:100:2:m2", "F:a:100:3:1=m1,2=m2", "F:a:100:3:1=m1",
  "W:a:100:1:2:1=m1:-"]).startsWith "violation property cause=uidnext-not-above-assigned"
#guard (judgeUids ["K:a:100", "A:a:100:1:m1", "F:a:100:2:1=m1", "T:a:100:1:5:1=m1:-", "N:a:100:2"]).startsWith
  "violation property cause=uidnext-decreased"

end Gluon.Driver.DJudgeUids
