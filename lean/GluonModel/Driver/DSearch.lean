/- dialects `c15-search` (model + spec prediction) and `judge-c15-search` (property C15 judged on what the
   real server answered).  Text format (harness/o_search.go writes it):

     <mode> <cs> <snap> <data> <dectab> <keys> [=> <impl>]

   mode    seq | uid
   cs      absent | unknown | unsupported | dec        (outcome of the charset lookup)
   snap    id:uid:flags;…  | -                          (Codec.parseSnap; the observer's view in order)
   data    id:size:unix:off:sent:hdr:body:text;… | -    sent = x | <unix>/<off>;  hdr = ! | - | name=value,…
                                                        (names, values, body, text hex; ~ = empty)
   dectab  raw=dec,… | -                                (hex; dec = ! when decoder.Bytes fails)
   keys    prefix token list joined by `,`: L<n> k1 … kn | not k | or a b | <leaf>; the top level is L<n>.
           leaves: all answered … | bcc:<hex> | header:<hexfield>:<hex> | keyword:<hexatom> | before:<day> |
                   larger:<int> | uid:<set> | seq:<set>     set = b_e+b_e…  (0 = `*`)
   impl    ok:n,n,… | ok:- | no | bad | badcharset | panic | lost
   A number of 2^32 or more is refused by the command parser (BAD); the judge expects exactly that.

   dialect `judge-c15-dayident` (the day identities, on three answers of the real server on one view):

     <mode> <snap> <data> <day> <on> <nb> <sb>

   on / nb / sb = what the server answered (impl format) to `ON d`, `NOT BEFORE d BEFORE d+1`, `SINCE d BEFORE d+1`.
   Theorems `C15.on_is_day_interval` / `C15.on_is_since_before_partial` are the same identities on the model.

   dialect `c15-unfold <header block hex>` (correspondence; harness/d_search_unfold.go): `rfc822.NewHeader` + `Entries`,
   i.e. the keyed fields in order with their merged ("unfolded") values — `Search.headerOf` (C13's entry parser +
   `Search.unfold` = mergeMultiline).  Answer: `err` | `ok -` | `ok name=value,…` (hex, ~ = empty).

   dialect `judge-c15-hdr <hdr> <stored literal hex>`: does the header the oracle claims for a message (the `hdr` item
   of `data`: fields and unfolded values as GENERATED) equal the header the model derives from the stored literal
   (`Search.hdrOfLiteral`)?  `ok nontrivial` (some value of the literal is folded) | `ok trivial` | `violation hdr-derivation …`.
-/
import GluonModel.Driver.Codec
import GluonModel.Spec.SearchSpec
import GluonModel.Model.SearchHeader

-- DIALECT: c15-search DSearch.runSearch
-- DIALECT: judge-c15-search DSearch.judgeSearch
-- DIALECT: judge-c15-dayident DSearch.judgeDayIdent
-- DIALECT: c15-unfold DSearch.runUnfold
-- DIALECT: judge-c15-hdr DSearch.judgeHdr

namespace Gluon.Driver.DSearch
open Gluon Gluon.Search Gluon.Codec

def hexVal (c : Char) : Nat :=
  if c.isDigit then c.toNat - 48 else if 'a' ≤ c && c ≤ 'f' then c.toNat - 87 else c.toNat - 55

def unhexGo : List Char → Bytes → Bytes
  | a :: b :: tl, acc => unhexGo tl (UInt8.ofNat (hexVal a * 16 + hexVal b) :: acc)
  | _, acc => acc.reverse

def unhex (s : String) : Bytes := if s == "~" then [] else unhexGo s.toList []

def int! (s : String) : Int := s.toInt?.getD 0

def parseTime (s : String) : Option Time :=
  match s.splitOn "/" with
  | [u, o] => some ⟨int! u, int! o⟩
  | _ => none

def parseHdr (s : String) : Option (List (Bytes × Bytes)) :=
  if s == "!" then none
  else some ((splitNonEmpty s ",").filterMap fun item =>
    match item.splitOn "=" with
    | [a, b] => some (unhex a, unhex b)
    | _ => none)

def parseData (s : String) : List (Nat × MsgData) :=
  (splitNonEmpty s ";").filterMap fun item =>
    match item.splitOn ":" with
    | [id, size, unix, off, sent, hdr, body, text] =>
      some (nat! id, { size := int! size, date := ⟨int! unix, int! off⟩, sent := parseTime sent,
                       hdr := parseHdr hdr, body := unhex body, text := unhex text })
    | _ => none

def parseDec (s : String) : Bytes → Option Bytes :=
  let tab : List (Bytes × Option Bytes) := (splitNonEmpty s ",").filterMap fun item =>
    match item.splitOn "=" with
    | [a, b] => some (unhex a, if b == "!" then none else some (unhex b))
    | _ => none
  fun raw => match tab.lookup raw with
    | some r => r
    | none => some raw

def parseSet (s : String) : List SeqRange :=
  (s.splitOn "+").filterMap fun r =>
    match r.splitOn "_" with
    | [a, b] => some ⟨int! a, int! b⟩
    | _ => none

def parseLeaf (tok : String) : Option Leaf :=
  match tok.splitOn ":" with
  | ["all"] => some .all | ["answered"] => some .answered | ["deleted"] => some .deleted
  | ["draft"] => some .draft | ["flagged"] => some .flagged | ["new"] => some .new | ["old"] => some .old
  | ["recent"] => some .recent | ["seen"] => some .seen | ["unanswered"] => some .unanswered
  | ["undeleted"] => some .undeleted | ["undraft"] => some .undraft | ["unflagged"] => some .unflagged
  | ["unseen"] => some .unseen
  | ["bcc", v] => some (.bcc (unhex v)) | ["body", v] => some (.body (unhex v)) | ["cc", v] => some (.cc (unhex v))
  | ["from", v] => some (.from (unhex v)) | ["subject", v] => some (.subject (unhex v))
  | ["text", v] => some (.text (unhex v)) | ["to", v] => some (.to (unhex v))
  | ["header", f, v] => some (.header (unhex f) (unhex v))
  | ["keyword", a] => some (.keyword (String.fromUTF8! ⟨(unhex a).toArray⟩))
  | ["unkeyword", a] => some (.unkeyword (String.fromUTF8! ⟨(unhex a).toArray⟩))
  | ["before", d] => some (.before (int! d)) | ["on", d] => some (.on (int! d)) | ["since", d] => some (.since (int! d))
  | ["sentbefore", d] => some (.sentBefore (int! d)) | ["senton", d] => some (.sentOn (int! d))
  | ["sentsince", d] => some (.sentSince (int! d))
  | ["larger", k] => some (.larger (int! k)) | ["smaller", k] => some (.smaller (int! k))
  | ["uid", s] => some (.uid (parseSet s)) | ["seq", s] => some (.seqSet (parseSet s))
  | _ => none

mutual
/-- one key from the token list (fuel = number of tokens) -/
def parseKey : Nat → List String → Option (Key × List String)
  | 0, _ => none
  | _ + 1, [] => none
  | fuel + 1, tok :: rest =>
    if tok == "not" then
      match parseKey fuel rest with
      | some (k, r) => some (.not k, r)
      | none => none
    else if tok == "or" then
      match parseKey fuel rest with
      | some (a, r) =>
        match parseKey fuel r with
        | some (b, r') => some (.or a b, r')
        | none => none
      | none => none
    else if tok.startsWith "L" then
      match parseKeys fuel (nat! (tok.drop 1).toString) rest with
      | some (ks, r) => some (.list ks, r)
      | none => none
    else
      match parseLeaf tok with
      | some l => some (.leaf l, rest)
      | none => none
def parseKeys : Nat → Nat → List String → Option (List Key × List String)
  | 0, _, _ => none
  | _ + 1, 0, toks => some ([], toks)
  | fuel + 1, n + 1, toks =>
    match parseKey fuel toks with
    | some (k, r) =>
      match parseKeys fuel n r with
      | some (ks, r') => some (k :: ks, r')
      | none => none
    | none => none
end

def parseTop (s : String) : Option (List Key) :=
  let toks := s.splitOn ","
  match parseKey (2 * toks.length + 2) toks with
  | some (.list ks, []) => some ks
  | _ => none

structure Case where
  uidMode : Bool
  cs : Charset
  snap : Snap
  data : MsgId → MsgData
  dec : Bytes → Option Bytes
  keys : List Key

def parseCase : List String → Option Case
  | mode :: cs :: snap :: data :: dectab :: keys :: _ => do
    let s ← parseSnap snap
    let ks ← parseTop keys
    let tab := parseData data
    let dec := parseDec dectab
    let cs' : Charset := match cs with
      | "absent" => .absent | "unknown" => .unknown | "unsupported" => .unsupported | _ => .decoder dec
    some { uidMode := mode == "uid", cs := cs', snap := s,
           data := fun id => (tab.lookup id).getD default,
           dec := (match cs' with | .absent => some | _ => dec), keys := ks }
  | _ => none

def showNums (l : List Nat) : String := if l.isEmpty then "ok:-" else "ok:" ++ ",".intercalate (l.map toString)

def showOutcome : Outcome → String
  | .results l => showNums l
  | .no => "no"
  | .badCharset => "badcharset"
  | .panic => "panic"

def model (c : Case) : Outcome := handleSearch c.cs c.uidMode c.snap c.data c.keys

def leafKind : Leaf → String
  | .bcc _ | .cc _ | .from _ | .subject _ | .to _ => "named"
  | .header _ _ => "header"
  | .since _ => "since" | .before _ => "before" | .on _ => "on"
  | .sentBefore _ | .sentOn _ | .sentSince _ => "sent"
  | .uid _ => "uid" | .seqSet _ => "seq"
  | .body _ | .text _ => "text"
  | .larger _ | .smaller _ => "size"
  | _ => "flag"

def leafValueEmpty (dec : Bytes → Option Bytes) : Leaf → Bool
  | .bcc v | .cc v | .from v | .subject v | .to v | .header _ v => (dec v).getD [] == []
  | _ => false

def setHasBig (set : List SeqRange) : Bool := set.any fun r => r.b ≥ 4294967296 || r.e ≥ 4294967296

/-- deviation classes of one leaf: where the model's closure and the RFC predicate differ on a message of the view -/
def leafClasses (c : Case) (l : Leaf) : List String :=
  let box := SearchSpec.boxOf c.snap
  match buildLeaf c.snap c.dec l with
  | .error .noSuchMessage => ["uid-empty-mailbox"]
  | .error _ => ["decode-error"]
  | .ok op =>
    let idx := List.range c.snap.length
    let devs := idx.filterMap fun i =>
      match c.snap[i]? with
      | none => none
      | some sm =>
        let d := c.data sm.id
        let spec := SearchSpec.satLeaf box c.dec (SearchSpec.toMsg (i + 1) sm d) l
        match op.eval ⟨i + 1, sm, d⟩ with
        | .error _ => some "sent-unparsable"
        | .ok b => if b == spec then none else
          some (match l with
            | .since _ => "since-zone"
            | .uid set => if setHasBig set then "num-trunc" else "uid-star-above"
            | .seqSet set => if setHasBig set then "num-trunc" else "seq-beyond-count"
            | _ => if leafValueEmpty c.dec l then s!"{leafKind l}-empty" else
                   if leafKind l == "named" || leafKind l == "header" then s!"{leafKind l}-dup" else s!"other-{leafKind l}")
    devs.eraseDups

def classes (c : Case) : List String :=
  sortStrings ((Key.leavesAll c.keys).flatMap (leafClasses c)).eraseDups

/-- classes that are recorded but not judged here (C16 owns them: the property text leaves `n:*` above the
    highest UID unconstrained; a sequence number above the count is C16's BAD requirement) -/
def unjudged (cl : String) : Bool := cl == "uid-star-above" || cl == "seq-beyond-count" || cl == "num-trunc"

/-- `rfcparser.ParseNumber` refuses a number that does not fit into 32 bits (tagged BAD, nothing is searched);
    the model starts behind the parser, so the driver answers for it -/
def leafTooBig : Leaf → Bool
  | .uid set | .seqSet set => setHasBig set
  | .larger k | .smaller k => k ≥ 4294967296
  | _ => false

def parserRejects (c : Case) : Bool := (Key.leavesAll c.keys).any leafTooBig

def specResult (c : Case) : List Nat := SearchSpec.expected c.uidMode c.snap c.data c.dec c.keys

def runSearch (args : List String) : String :=
  match parseCase args with
  | none => "bad-op"
  | some c =>
    let cl := classes c
    if parserRejects c then "model=bad spec=bad classes=-" else
    s!"model={showOutcome (model c)} spec={showNums (specResult c)} classes={if cl.isEmpty then "-" else ",".intercalate cl}"

def judgeSearch (args : List String) : String :=
  match parseCase args with
  | none => "violation unparsable-case"
  | some c =>
    let impl := match args.dropWhile (· != "=>") with
      | _ :: w :: _ => w
      | _ => "?"
    let m := if parserRejects c then "bad" else showOutcome (model c)
    if parserRejects c && impl == "bad" then "ok trivial parser-rejects-number"
    else if impl != m then s!"violation model-mismatch model={m} impl={impl}"
    else
      let spec := specResult c
      let cl := classes c
      let cls := if cl.isEmpty then "-" else ",".intercalate cl
      match model c with
      | .badCharset => "ok trivial badcharset"
      | .panic => s!"violation spec-mismatch classes=panic model=panic spec={showNums spec}"
      | .no =>
        if cl.contains "decode-error" then "ok trivial decode-error"
        else s!"violation spec-mismatch classes={cls} model=no spec={showNums spec}"
      | .results r =>
        if r == spec then
          if !(SearchSpec.seqValidAll c.snap.length c.keys) then "ok unjudged seq-beyond-count-answered-ok"
          else if r.length > 0 && r.length < c.snap.length then "ok nontrivial" else "ok trivial"
        else if cl.all unjudged && !cl.isEmpty then s!"ok unjudged {cls}"
        else s!"violation spec-mismatch classes={cls} model={m} spec={showNums spec}"

def parseNums (s : String) : Option (List Nat) :=
  if s == "ok:-" then some []
  else if s.startsWith "ok:" then some (((s.drop 3).toString.splitOn ",").map nat!)
  else none

/-- the numbers (sequence numbers or UIDs) of the messages of the view whose data satisfies `p` -/
def numsWhere (uidMode : Bool) (s : Snap) (tab : List (Nat × MsgData)) (p : MsgData → Bool) : List Nat :=
  (List.range s.length).filterMap fun i =>
    match s[i]? with
    | none => none
    | some sm => if p ((tab.lookup sm.id).getD default) then some (if uidMode then sm.uid else i + 1) else none

/-- **the day identities on what the server answered**: `ON d` and `NOT BEFORE d BEFORE d+1` name the same messages — those
    whose internal date lies on day `d` (UTC, the day FETCH INTERNALDATE shows); `SINCE d BEFORE d+1` names them too, except
    that SINCE reads the day in the zone the date was stored with (recorded deviation since-zone): the messages whose
    stored zone names another day than UTC are left out of that comparison. -/
def judgeDayIdent (args : List String) : String :=
  match args with
  | mode :: snap :: data :: day :: on :: nb :: sb :: _ =>
    match parseSnap snap, parseNums on, parseNums nb, parseNums sb with
    | some s, some ron, some rnb, some rsb =>
      let tab := parseData data
      let d := int! day
      let uidMode := mode == "uid"
      let onDay := numsWhere uidMode s tab fun m => m.date.utcDay == d
      let zoned := numsWhere uidMode s tab fun m => m.date.localDay != m.date.utcDay
      let free (l : List Nat) := l.filter fun n => !zoned.contains n
      if ron != rnb then s!"violation day-identity on-vs-before day={d} on={showNums ron} not-before-and-before-next={showNums rnb} on-that-day={showNums onDay}"
      else if free ron != free rsb then
        s!"violation day-identity on-vs-since day={d} on={showNums ron} since-and-before-next={showNums rsb} on-that-day={showNums onDay}"
      else if ron != onDay then s!"violation day-identity on-vs-internaldate day={d} on={showNums ron} on-that-day={showNums onDay}"
      else if ron != rsb then "ok known since-zone"
      else if ron.isEmpty || ron.length == s.length then "ok trivial" else "ok nontrivial"
    | _, _, _, _ => "ok trivial not-answered"
  | _ => "violation unparsable-case"

def hexDigit (n : Nat) : Char := if n < 10 then Char.ofNat (48 + n) else Char.ofNat (87 + n)

def hexOf (b : Bytes) : String :=
  if b.isEmpty then "~" else String.ofList (b.flatMap fun c => [hexDigit (c.toNat / 16), hexDigit (c.toNat % 16)])

def showHdr : Option (List (Bytes × Bytes)) → String
  | none => "!"
  | some [] => "-"
  | some l => ",".intercalate (l.map fun e => hexOf e.1 ++ "=" ++ hexOf e.2)

def runUnfold (args : List String) : String :=
  match args with
  | [h] =>
    match headerOf (unhex h) with
    | none => "err"
    | some l => "ok " ++ showHdr (some l)
  | _ => "bad-op"

/-- is there a line break inside some field value of the header block (a fold), as opposed to the one that ends it -/
def hasFold (text : Bytes) : Bool :=
  let h := (Rfc822.split text).1
  match Rfc822.parseEntries h with
  | .error _ => false
  | .ok es => es.any fun e => e.hasKey && ((e.value h).dropLast.dropLast).contains 10

def judgeHdr (args : List String) : String :=
  match args with
  | hdr :: lit :: _ =>
    let text := unhex lit
    let claimed : Option (List (Bytes × Bytes)) := if hdr == "-" then some [] else parseHdr hdr
    let derived := hdrOfLiteral text
    if claimed == derived then (if hasFold text then "ok nontrivial" else "ok trivial")
    else s!"violation hdr-derivation model={showHdr derived}"
  | _ => "violation unparsable-case"

end Gluon.Driver.DSearch
