/- dialect `limits` (C17): the public package github.com/ProtonMail/gluon/limits against
   GluonModel/Model/Limits.lean, and the judge evaluating `check_sound` / `check_complete` on what
   the implementation answered.

   ops   mb <max> <count> | msg <max> <existing> <new> | uid <max> <uid> <new> | uidv <max> <uid>
         dmb <count> | dmsg <existing> <new> | duid <uid> <new> | duidv <uid>      (DefaultLimits)
   out   ok | err mailbox-count | err message-count | err uid | err uidvalidity -/
import GluonModel.Model.Limits

-- DIALECT: limits DLimits.runLimits
-- DIALECT: judge-c17-limits DLimits.judgeLimits
namespace Gluon.Driver.DLimits
open Gluon.Limits

def showLimitRes : Option Err → String
  | none => "ok"
  | some .maxMailboxCount => "err mailbox-count"
  | some .maxMailboxMessageCount => "err message-count"
  | some .maxUID => "err uid"
  | some .maxUIDValidity => "err uidvalidity"

def runLimits (args : List String) : String :=
  let i (s : String) : Int := s.toInt?.getD 0
  let n (s : String) : Nat := s.toNat?.getD 0
  match args with
  | ["mb", mx, c] => showLimitRes (checkMailBoxCount (newIMAPLimits (n mx) 0 0 0) (i c))
  | ["msg", mx, e, k] => showLimitRes (checkMailBoxMessageCount (newIMAPLimits 0 (n mx) 0 0) (i e) (i k))
  | ["uid", mx, u, k] => showLimitRes (checkUIDCount (newIMAPLimits 0 0 (n mx) 0) (n u) (i k))
  | ["uidv", mx, u] => showLimitRes (checkUIDValidity (newIMAPLimits 0 0 0 (n mx)) (n u))
  | ["dmb", c] => showLimitRes (checkMailBoxCount defaultLimits (i c))
  | ["dmsg", e, k] => showLimitRes (checkMailBoxMessageCount defaultLimits (i e) (i k))
  | ["duid", u, k] => showLimitRes (checkUIDCount defaultLimits (n u) (i k))
  | ["duidv", u] => showLimitRes (checkUIDValidity defaultLimits (n u))
  | _ => "bad-op"

/-- the property on one observed answer: a pass implies the true sum fits (soundness), a refusal
    of non-negative arguments implies it does not (operations that fit are accepted) -/
def judgeSum (mx a b : Int) (signOk : Bool) (passed : Bool) : String :=
  let near := (a + b - mx).natAbs ≤ 1 || a + b ≥ 2 ^ 63 || a + b < -(2 : Int) ^ 63
  if passed then
    if !signOk then "ok trivial"       -- both arguments negative: outside check_sound's hypothesis
    else if a + b ≤ mx ∧ 0 ≤ b then (if near then "ok nontrivial-boundary-pass" else "ok trivial")
    else "violation check-passed-but-sum-exceeds-maximum"
  else
    if 0 ≤ a ∧ 0 ≤ b ∧ a + b ≤ mx then "violation fitting-operation-refused"
    else if near then "ok nontrivial-boundary-refuse" else "ok trivial"

def judgeLimits (args : List String) : String :=
  let i (s : String) : Int := s.toInt?.getD 0
  let d : Int := 4294967295
  match args.span (· != "=>") with
  | (op, "=>" :: res) =>
    let passed := res == ["ok"]
    if !passed && res.head? != some "err" then "violation unparsable-implementation-output" else
    match op with
    | ["mb", mx, c] => judgeSum (i mx) (i c) 1 true passed
    | ["dmb", c] => judgeSum d (i c) 1 true passed
    | ["msg", mx, e, k] => judgeSum (i mx) (i e) (i k) (decide (0 ≤ i k ∨ 0 ≤ i e)) passed
    | ["dmsg", e, k] => judgeSum d (i e) (i k) (decide (0 ≤ i k ∨ 0 ≤ i e)) passed
    | ["uid", mx, u, k] => judgeSum (i mx) (i u) (i k) true passed
    | ["duid", u, k] => judgeSum d (i u) (i k) true passed
    | ["uidv", mx, u] => judgeSum (i mx) (i u) 1 true passed
    | ["duidv", u] => judgeSum d (i u) 1 true passed
    | _ => "violation unparsable-op"
  | _ => "violation unparsable-implementation-output"

end Gluon.Driver.DLimits
