/- dialects `parse`, `parsebad` (C10, C11): run the parser model on hex-encoded bytes and render the
outcome in the canonical text form shared with harness/d_parse.go.

op:      parse <seed> <hex input> <expected AST or ?>
result:  ok <tag>:<payload> conts=<n> used=<n> cmd=<LastParsedCommand>    (used = bytes the scanner has read)
         err parse <Go token type of the error> used=<n> tag=<LastParsedTag> cmd=<LastParsedCommand>
             skip=<ok|eof> used2=<n>                (after ConsumeInvalidInput)
         err ioeof used=<n>                          (input ended inside a literal)
         hang                                        (model: out of fuel at `fuelFor input`)
AST text (no spaces): bytes = lower-case hex, `~` if empty; lists joined by `,`, `-` if empty;
sequence sets `b:e,…` with `*` for 0; dates as Unix seconds (`time.Date` semantics), date-times
`<unix>z<zone seconds>`.
-/
import GluonModel.Model.Parse.Grammar

-- DIALECT: parse runParse
-- DIALECT: parsebad runParse
-- DIALECT: parsen runParseN
namespace Gluon.Driver.DParse
open Gluon.Parse

def hexDigit (n : Nat) : Char := if n < 10 then Char.ofNat (48 + n) else Char.ofNat (87 + n)

def showHex (b : List UInt8) : String :=
  if b.isEmpty then "~" else
  String.ofList (b.foldr (fun x acc => hexDigit (x.toNat / 16) :: hexDigit (x.toNat % 16) :: acc) [])

def hexVal (c : Char) : Option Nat :=
  if '0' ≤ c && c ≤ '9' then some (c.toNat - 48)
  else if 'a' ≤ c && c ≤ 'f' then some (c.toNat - 87)
  else if 'A' ≤ c && c ≤ 'F' then some (c.toNat - 55)
  else none

def parseHexChars : List Char → Option (List UInt8)
  | [] => some []
  | [_] => none
  | a :: b :: r => do
    let x ← hexVal a
    let y ← hexVal b
    let t ← parseHexChars r
    pure ((x * 16 + y).toUInt8 :: t)

def parseHex (s : String) : Option (List UInt8) :=
  if s == "~" || s == "-" then some [] else parseHexChars s.toList

def joinOr (empty : String) (l : List String) : String :=
  if l.isEmpty then empty else ",".intercalate l

def showBL (l : List BStr) : String := joinOr "-" (l.map showHex)

def showSeqNum (n : Int) : String := if n == 0 then "*" else toString n
def showSeqSet (s : SeqSet) : String :=
  joinOr "-" (s.map fun r => s!"{showSeqNum r.b}:{showSeqNum r.e}")

def showDate (d : Date) : String := toString (goUnix d.toDateTime)
def showDateTime (d : DateTime) : String := s!"{goUnix d}z{d.zone}"

def showStatusAttr : StatusAttr → String
  | .messages => "messages" | .recent => "recent" | .uidNext => "uidnext"
  | .uidValidity => "uidvalidity" | .unseen => "unseen"

def showSecText : SecText → String
  | .header => "header"
  | .headerFields neg f => (if neg then "hfn(" else "hf(") ++ showBL f ++ ")"
  | .text => "text"
  | .mime => "mime"

def showPart (p : List Int) : String := ".".intercalate (p.map toString)

def showSection : Section → String
  | .msg t => showSecText t
  | .part p none => s!"part({showPart p}/)"
  | .part p (some t) => s!"part({showPart p}/{showSecText t})"

def showFetchAttr : FetchAttr → String
  | .all => "all" | .full => "full" | .fast => "fast" | .envelope => "envelope" | .flags => "flags"
  | .internalDate => "internaldate" | .rfc822Header => "rfc822.header" | .rfc822Size => "rfc822.size"
  | .rfc822 => "rfc822" | .rfc822Text => "rfc822.text" | .bodyStructure => "bodystructure"
  | .body => "body" | .uid => "uid"
  | .bodySection sec peek part =>
    (if peek then "p[" else "b[") ++ (match sec with | none => "" | some s => showSection s) ++ "]"
      ++ (match part with | none => "" | some (o, c) => s!"<{o}.{c}>")

mutual
def showKey : SearchKey → String
  | .all => "all" | .answered => "answered" | .deleted => "deleted" | .flagged => "flagged"
  | .new => "new" | .old => "old" | .recent => "recent" | .seen => "seen"
  | .unanswered => "unanswered" | .undeleted => "undeleted" | .unflagged => "unflagged"
  | .unseen => "unseen" | .draft => "draft" | .undraft => "undraft"
  | .bcc v => s!"bcc({showHex v})" | .body v => s!"body({showHex v})" | .cc v => s!"cc({showHex v})"
  | .from v => s!"from({showHex v})" | .subject v => s!"subject({showHex v})"
  | .text v => s!"text({showHex v})" | .to v => s!"to({showHex v})"
  | .keyword v => s!"keyword({showHex v})" | .unkeyword v => s!"unkeyword({showHex v})"
  | .header f v => s!"header({showHex f},{showHex v})"
  | .before d => s!"before({showDate d})" | .on d => s!"on({showDate d})"
  | .since d => s!"since({showDate d})" | .sentBefore d => s!"sentbefore({showDate d})"
  | .sentOn d => s!"senton({showDate d})" | .sentSince d => s!"sentsince({showDate d})"
  | .larger n => s!"larger({n})" | .smaller n => s!"smaller({n})"
  | .uid s => s!"uid({showSeqSet s})" | .seqSet s => s!"seq({showSeqSet s})"
  | .not k => "not(" ++ showKey k ++ ")"
  | .or a b => "or(" ++ showKey a ++ "," ++ showKey b ++ ")"
  | .list ks => "list(" ++ showKeys ks ++ ")"
def showKeys : SearchKeys → String
  | .nil => ""
  | .cons k .nil => showKey k
  | .cons k ks => showKey k ++ "," ++ showKeys ks
end

def sortStrs (l : List String) : List String := (l.toArray.qsort (· < ·)).toList

def showCmd : Cmd → String
  | .done => "done" | .capability => "capability" | .idle => "idle" | .noop => "noop"
  | .logout => "logout" | .check => "check" | .close => "close" | .expunge => "expunge"
  | .unselect => "unselect" | .starttls => "starttls"
  | .login u p => s!"login({showHex u},{showHex p})"
  | .select m => s!"select({showHex m})" | .examine m => s!"examine({showHex m})"
  | .create m => s!"create({showHex m})" | .delete m => s!"delete({showHex m})"
  | .subscribe m => s!"subscribe({showHex m})" | .unsubscribe m => s!"unsubscribe({showHex m})"
  | .rename a b => s!"rename({showHex a},{showHex b})"
  | .list m p => s!"list({showHex m},{showHex p})" | .lsub m p => s!"lsub({showHex m},{showHex p})"
  | .status m a => s!"status({showHex m};{joinOr "-" (a.map showStatusAttr)})"
  | .store s a f silent =>
    let act := match a with | .add => "add" | .rem => "rem" | .set => "set"
    s!"store({showSeqSet s};{act};{if silent then "1" else "0"};{showBL f})"
  | .copy s m => s!"copy({showSeqSet s};{showHex m})"
  | .move s m => s!"move({showSeqSet s};{showHex m})"
  | .uid c => "uid(" ++ showCmd c ++ ")"
  | .uidExpunge s => s!"uidexpunge({showSeqSet s})"
  | .fetch s a => s!"fetch({showSeqSet s};{joinOr "-" (a.map showFetchAttr)})"
  | .append m f dt lit =>
    s!"append({showHex m};{showBL f};{match dt with | none => "none" | some d => showDateTime d};{showHex lit})"
  | .search cs keys => s!"search({showHex cs};{joinOr "-" (keys.map showKey)})"
  | .idGet => "idget"
  | .idSet vals => s!"idset({joinOr "-" (sortStrs (vals.map fun (k, v) => showHex k ++ "=" ++ showHex v))})"

def showCommand (c : Command) : String := showHex c.tag ++ ":" ++ showCmd c.payload

def showErr : PErr → String
  | .parse t => s!"parse {t.ord}"
  | .ioEOF => "ioeof"
  | .panic => "panic"

def showRes (input : Bytes) : Res Command → String
  | .ok c s =>
    let cmd := lastParsedCommand (fuelFor input) (PState.init input)
    s!"ok {showCommand c} conts={s.conts} used={input.length - s.rest.length} cmd={showHex cmd}"
  | .err (.parse t) s =>
    let tag := lastParsedTag (fuelFor input) (PState.init input)
    let cmd := lastParsedCommand (fuelFor input) (PState.init input)
    let (s2, ok) := consumeInvalidInput s
    s!"err parse {t.ord} used={input.length - s.rest.length} tag={showHex tag} cmd={showHex cmd} skip={if ok then "ok" else "eof"} used2={input.length - s2.rest.length}"
  | .err e s => s!"err {showErr e} used={input.length - s.rest.length}"
  | .fuel => "hang"

/-- `parse <seed> <hex> <expected>` -/
def run (args : List String) : String :=
  match args with
  | _seed :: hex :: _ =>
    match parseHex hex with
    | some input => showRes input (parse (fuelFor input) input)
    | none => "bad-op"
  | _ => "bad-op"

/-- one step of the reader loop of `startCommandReader`: `Parse`, and after a parser error
`ConsumeInvalidInput`; `none` = the reader exits -/
def sessionStep (total : Nat) (fuel : Nat) (s : PState) : String × Option PState :=
  match parseLine fuel s with
  | .ok c s' => (s!"ok {showCommand c} used={total - s'.rest.length}", some s')
  | .err (.parse t) s' =>
    let tag := lastParsedTag fuel s
    let cmd := lastParsedCommand fuel s
    if t == .eof then (s!"err parse {t.ord} used={total - s'.rest.length} tag={showHex tag} cmd={showHex cmd} exit", none)
    else
      let (s2, ok) := consumeInvalidInput s'
      (s!"err parse {t.ord} used={total - s'.rest.length} tag={showHex tag} cmd={showHex cmd} skip={if ok then "ok" else "eof"}",
        if ok then some s2 else none)
  | .err e s' => (s!"err {showErr e} used={total - s'.rest.length} exit", none)
  | .fuel => ("hang", none)

def sessionRun (total fuel : Nat) : Nat → PState → List String
  | 0, _ => ["more"]
  | n + 1, s =>
    match sessionStep total fuel s with
    | (line, some s') => line :: sessionRun total fuel n s'
    | (line, none) => [line]

/-- `parsen <seed> <hex>`: the sequence of `Parse` results of one parser over the stream, as the session's
reader loop produces them (at most 8) -/
def runN (args : List String) : String :=
  match args with
  | _seed :: hex :: _ =>
    match parseHex hex with
    | some input => "|".intercalate (sessionRun input.length (fuelFor input) 8 (PState.init input))
    | none => "bad-op"
  | _ => "bad-op"

end Gluon.Driver.DParse

namespace Gluon.Driver
def runParseN : List String → String := DParse.runN
def runParse : List String → String := DParse.run
end Gluon.Driver
