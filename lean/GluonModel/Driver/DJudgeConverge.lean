/- Judge for the `flush` dialect (C02): the executable statement of
   `C02.flush_false_replay_eq` / `C02.flush_true_converges` evaluated on what the
   *implementation* answered.  Input words: `<flush op args> => <impl output words>`. -/
import GluonModel.Driver.DJudgeFlush
import GluonModel.Spec.MailboxView

-- DIALECT: judge-c02-flush judgeC02
namespace Gluon.Driver
open Gluon Codec

/-- C02 on one observed flush: inside the hypotheses (snapshot invariant, `UidsOk`) the flush must
    not fail, and handling the
    queue the IMPLEMENTATION retained, afterwards, on the snapshot the IMPLEMENTATION left (second
    step by the model, permit = true), must fail nowhere and reach the snapshot that the model's
    `replay` of the whole queue reaches.  Outside the hypotheses the case is only classified. -/
def judgeC02 (args : List String) : String :=
  match parseFlushObs args with
  | none => "violation unparsable-implementation-output"
  | some o =>
    if !o.snap.invB then "ok outside-snapshot-invariant"
    else if !(decide (UidsOk o.sid o.snap o.queue)) then "ok outside-uids"
    else
      let full := handleAll false o.sid o.snap o.queue
      if full.2.2.2.isSome then "violation queue-order-replay-fails-inside-hypotheses"
      else if o.head == "err" then "violation flush-fails-inside-hypotheses"
      else if o.head != "ok" then "ok outside-merge-panic"
      else if o.permit && !o.rem.isEmpty then "violation permit-true-flush-retained-responders"
      else
        let rest := handleAll false o.sid o.snap' o.rem
        if rest.2.2.2.isSome then "violation retained-queue-fails-after-flush"
        else if showSnap rest.1 != showSnap full.1 then "violation diverges-from-queue-order"
        else if o.queue.isEmpty then "ok trivial"
        else if !o.permit && !o.rem.isEmpty && o.rem.length < o.queue.length then "ok nontrivial-split"
        else if !o.permit && !o.rem.isEmpty then "ok nontrivial-all-retained"
        else "ok nontrivial-all-popped"

end Gluon.Driver
