/- dialects `mime-struct` (imap.Structure / imap.Envelope as writer-call trees), `sexp` (the
   s-expression reader) and the judge `judge-c12-struct` (C12). -/
import GluonModel.Driver.DMime
import GluonModel.Model.Structure

-- DIALECT: mime-struct Mime.runStruct
-- DIALECT: sexp Mime.runSexp
-- DIALECT: judge-c12-struct Mime.judgeStruct
namespace Gluon.Driver.Mime
open Gluon.Mime

/-- `*` = empty list, else `k=v;k=v` (hex) -/
def parsePairs (s : String) : Option (List (Bytes × Bytes)) :=
  if s == "*" then some [] else
  (s.splitOn ";").mapM fun item =>
    match item.splitOn "=" with
    | [k, v] => do some ((← unhex k), (← unhex v))
    | _ => none

/-- `~` = absent, `*` = empty list, else `name=addr;…` -/
def parseAddrs (s : String) : Option (Option (List Addr)) :=
  if s == "~" then some none else
  (parsePairs s).map fun l => some (l.map fun (n, a) => { name := n, address := a })

/-- `~` = error, else `value|params` -/
def parseDisp (s : String) : Option (Option (Bytes × List (Bytes × Bytes))) :=
  if s == "~" then some none else
  match s.splitOn "|" with
  | [v, ps] => do some (some ((← unhex v), (← parsePairs ps)))
  | _ => none

/-- one table entry: `hdr:ok:kind:bnd:type:sub:params:cid:desc:enc:md5:lang:loc:disp:date:subject:
    inreplyto:msgid:from:sender:replyto:to:cc:bcc` -/
def parseEntry (item : String) : Option (Bytes × HdrInfo × HInfo) :=
  match item.splitOn ":" with
  | [h, ok, kind, bnd, ty, sub, params, cid, desc, enc, md5, lang, loc, disp, date, subj, irt, mid,
     from_, sender, replyTo, to, cc, bcc] => do
    let hb ← unhex h
    let bb ← unhex bnd
    let ct := if kind == "r" then CT.rfc822 else if kind == "m" then CT.multipart bb else CT.other
    let info : HInfo := {
      mimeType := ← unhex ty, sub := ← unhex sub, params := ← parsePairs params,
      cid := ← unhex cid, desc := ← unhex desc, enc := ← unhex enc, md5 := ← unhex md5,
      lang := ← unhex lang, loc := ← unhex loc, disp := ← parseDisp disp,
      date := ← unhex date, subject := ← unhex subj, inReplyTo := ← unhex irt, messageId := ← unhex mid,
      from_ := ← parseAddrs from_, sender := ← parseAddrs sender, replyTo := ← parseAddrs replyTo,
      to := ← parseAddrs to, cc := ← parseAddrs cc, bcc := ← parseAddrs bcc }
    some (hb, { ok := ok == "1", ct }, info)
  | _ => none

def parseTable (s : String) : Option (List (Bytes × HdrInfo × HInfo)) :=
  (if s == "-" then [] else s.splitOn ",").mapM parseEntry

def detOfTable (tbl : List (Bytes × HdrInfo × HInfo)) : HdrDetail := fun h =>
  match tbl.lookup h with
  | some (_, i) => i
  | none => {}

def envOfTable (tbl : List (Bytes × HdrInfo × HInfo)) : HdrEnv := fun h =>
  match tbl.lookup h with
  | some (e, _) => e
  | none => { ok := true, ct := .other }

/-- the quoting function as a finite table `v=q;…`; unknown strings map to `?` (shows up as a
    correspondence mismatch) -/
def quoteOfTable (tbl : List (Bytes × Bytes)) : Bytes → Bytes := fun v =>
  match tbl.lookup v with
  | some q => q
  | none => [63]

def parseQ (s : String) : Option (List (Bytes × Bytes)) := if s == "-" then some [] else parsePairs s

/-- `mime-struct <hexmsg> <table> <qtable>` → `ok <hexbody> <hexstructure> <hexenvelope>` -/
def runStruct (args : List String) : String :=
  match args with
  | [d, t, qt] =>
    match unhex d, parseTable t, parseQ qt with
    | some lit, some tbl, some qtbl =>
      let env := envOfTable tbl
      let det := detOfTable tbl
      let q := quoteOfTable qtbl
      match structureTexts env det q lit, envelopeText env det q lit with
      | .ok (b, s), .ok e => s!"ok {hex b} {hex s} {hex e}"
      | .error e, _ => showErr e
      | _, .error e => showErr e
    | _, _, _ => "bad-op"
  | _ => "bad-op"

partial def showSexp : Sexp → String
  | .nil => "n"
  | .num d => "#" ++ hex d
  | .atom a => "a" ++ hex a
  | .str s => "s" ++ hex s
  | .lit d => "l" ++ hex d
  | .list l => "(" ++ " ".intercalate (l.map showSexp) ++ ")"

/-- `sexp <hextext>` → `ok <items>` | `malformed` -/
def runSexp (args : List String) : String :=
  match args with
  | [t] =>
    match unhex t with
    | some b =>
      match parseSexp b with
      | some items => "ok " ++ " ".intercalate (items.map showSexp)
      | none => "malformed"
    | none => "bad-op"
  | _ => "bad-op"

partial def depth : Sexp → Nat
  | .list l => 1 + (l.map depth).foldl max 0
  | _ => 0

/-- number of lists in an item tree -/
partial def listCount : Sexp → Nat
  | .list l => 1 + (l.map listCount).foldl (· + ·) 0
  | _ => 0

/-- (nesting depth, number of lists) of a text that is one parenthesised list -/
def textShape (t : Bytes) : Option (Nat × Nat) :=
  match parseSexp t with
  | some [x] => some (depth x, listCount x)
  | _ => none

/-- (nesting depth, number of lists) of the model's BODYSTRUCTURE for the message `m` under the header
    answers `t` -/
def modelShape (m t : String) (qtbl : List (Bytes × Bytes)) : Option (Nat × Nat) :=
  match unhex m, parseTable t with
  | some lit, some tbl =>
    match structureTexts (envOfTable tbl) (detOfTable tbl) (quoteOfTable qtbl) lit with
    | .ok (_, ms) => textShape ms
    | .error _ => none
  | _, _ => none

/-- C12 on one observed `NewParsedMessage`: every quoting result in the table satisfies the
    hypothesis `QuoteOK`, and the three produced texts are well-formed parenthesised lists
    according to the Lean reader, and the BODYSTRUCTURE list is nested as deep as the MIME tree of the
    message is (and holds as many lists): the reference is the BODYSTRUCTURE of the model — no limit on
    depth, width or length; for a well-built message the tree it was built from
    (`structure_of_built_message_partial`) — for the same bytes under the same header answers.
    `judge-c12-struct <hexmsg> <table> <qtable> => ok <hexbody> <hexstructure> <hexenvelope>` -/
def judgeStruct (args : List String) : String :=
  match args with
  | [m, t, qt, "=>", "ok", b, s, e] =>
    match parseQ qt with
    | none => "violation unparsable-implementation-output"
    | some qtbl =>
      -- the model's BODYSTRUCTURE first (the implementation's texts are decoded afterwards: the model is
      -- several times slower with some hundred KB more of live lists around)
      let shapeM := modelShape m t qtbl
      match unhex b, unhex s, unhex e with
      | some bb, some sb, some eb =>
        if !(qtbl.all fun (_, q) => quotedOK q) then "violation quote-hypothesis-fails"
        else if !isParenList bb then "violation body-not-a-wellformed-list"
        else if !isParenList sb then "violation bodystructure-not-a-wellformed-list"
        else if !isParenList eb then "violation envelope-not-a-wellformed-list"
        else
          match textShape sb, shapeM with
          | some (di, ni), some (dm, nm) =>
            if di != dm then s!"violation tree-depth-differs bodystructure-depth={di} mime-tree-depth={dm}"
            else if ni != nm then s!"violation tree-list-count-differs bodystructure-lists={ni} mime-tree-lists={nm}"
            else if di ≥ 4 then "ok nontrivial-nested" else if di ≥ 3 then "ok nontrivial" else "ok trivial"
          | some _, none => "violation model-has-no-structure"
          | none, _ => "ok trivial"
      | _, _, _ => "violation unparsable-implementation-output"
  | _ :: _ :: _ :: "=>" :: "panic" :: _ => "violation panic"
  | _ => "violation unparsable-implementation-output"

end Gluon.Driver.Mime
