/-
Dialects of the wire-level oracle `vh oracle c14namespace` (property C14).  No Go `Impl` in `vh impl`:
the implementation side is the whole server over TCP, driven by harness/o_namespace.go.

  namespace-subs <del> <op>;<op>;…
      ops (names hex, `~` = empty):  C:<name> D:<name> R:<old>:<new> S:<name> U:<name> A:<name>   (IMAP commands;
                                     A = APPEND of one marker message)
                                     KC:<rid>:<name> KD:<rid> KN:<name> KR:<name>:<new>      (connector updates;
                                     KN / KR address the mailbox that currently has that name)
      -> <r1>,<r2>,… list=<…> lsub=<…> listmb=<…> lsubcode=<…> lsubref=<…>
         r = ok | no:<reason> | k (connector update: no reply)
         list / lsub   = the model's LIST "" "*" / LSUB "" "*" as <name>=<real|noselect>;…
         listmb        = what State.List hands to getMatches for LIST   (<name>:<sub>:<ent>:- ;…, the
                         `mboxes` format of the getmatches dialect)
         lsubcode      = the same for LSUB (subscribed mailboxes, then deleted subscriptions)
         lsubref       = the reference subscription list: a name once; an existing mailbox decides

  namespace-trace <del> <op>;<op>;…
      -> one word per op: <r>!<list>!<lsub>!<status> — the reply class and the model's FULL namespace after
         that op: LIST "" "*", LSUB "" "*" (as above) and STATUS (MESSAGES) of every selectable name of that
         LIST as <name>=<count|x>;… (x = STATUS cannot resolve the name); `-` for an empty sequence

  judge-c14-nsops <del> <ops> => <r1>,<r2>,…
      the reference namespace rules (Spec/Namespace.lean: ValidName, Create, Delete, Rename) evaluated on
      the replies the *server* gave, along the state the model passes through
      -> ok nontrivial-… | violation <what> cause=<label> op=<index>

  judge-c14-wirelist <refdecoded> <refwire> <pattern> <del> <lsub> <refmboxes> <codemboxes> => ok <out>
      judge-c14-getmatches (RFC 3501 selection) on a LIST/LSUB answer of the server, with the cause
      refined when the model explains the deviation
-/
import GluonModel.Model.NamespaceSubs
import GluonModel.Spec.Namespace
import GluonModel.Driver.DMatch
import GluonModel.Driver.DNamespace

-- DIALECT: namespace-subs runNamespaceSubs
-- DIALECT: namespace-trace runNamespaceTrace
-- DIALECT: judge-c14-nsops judgeC14NsOps
-- DIALECT: judge-c14-wirelist judgeC14WireList
namespace Gluon.Driver
open Gluon.Match Gluon.NS Gluon.NSS

namespace NSubs

def hexStr (s : String) : Option String := (Hex.decode s).map String.ofList

def parseCmd (s : String) : Option NSS.Cmd :=
  match s.splitOn ":" with
  | ["C", n] => (Hex.decode n).map .create
  | ["D", n] => (Hex.decode n).map .delete
  | ["R", o, n] => do some (.rename (← Hex.decode o) (← Hex.decode n))
  | ["S", n] => (Hex.decode n).map .subscribe
  | ["U", n] => (Hex.decode n).map .unsubscribe
  | ["A", n] => (Hex.decode n).map .append
  | ["KC", r, n] => do some (.kCreated (← hexStr r) (← Hex.decode n))
  | ["KD", r] => (hexStr r).map .kDeletedRid
  | ["KN", n] => (Hex.decode n).map .kDeletedName
  | ["KR", n, m] => do some (.kRenamedName (← Hex.decode n) (← Hex.decode m))
  | _ => none

def parseCmds (ops : String) : Option (List NSS.Cmd) :=
  if ops == "-" then some [] else (ops.splitOn ";").mapM parseCmd

def showErr : NSS.Err → String
  | .ns e => showNsErr e
  | .alreadySubscribed => "alreadysub"
  | .alreadyUnsubscribed => "alreadyunsub"

def showRes : Option (Except NSS.Err Unit) → String
  | none => "k"
  | some (.ok _) => "ok"
  | some (.error e) => "no:" ++ showErr e

def showMBoxes (l : List MBox) : String :=
  if l.isEmpty then "-" else
  ";".intercalate (l.map fun m => s!"{Hex.encode m.name}:{if m.subscribed then 1 else 0}:{if m.ent.isSome then 1 else 0}:-")

def showListing (m : Matches) : String :=
  if m.isEmpty then "-" else
  ";".intercalate (sortStr (m.map fun (n, a) => s!"{Hex.encode n}={match a with | Atts.noselect => "noselect" | Atts.real _ => "real"}"))

/-- the reference subscription list: an existing (visible) mailbox decides by its flag; a deleted
    subscription counts only while no mailbox has that name -/
def lsubRef (S : St) : List MBox :=
  let vis := visibleRows S
  (vis.filter (·.sub)).map (fun r => ({ name := r.name, subscribed := true, ent := some [] } : MBox)) ++
  ((S.dsubs.filter fun x => !(vis.any (·.name == x.1))).map fun x => { name := x.1, subscribed := true, ent := none })

/-! ### reference rules -/

inductive Must where
  | refuse (cause : String)
  | accept
  | either

def validName (d : Char) (n : Name) : Bool := !((Spec.NS.segments d n).contains [])

/-- the recovery mailbox or one of its inferiors, in any letter case -/
def underRecovery (d : Char) (n : Name) : Bool :=
  isRecovery n || (recoveryLower ++ [d]).isPrefixOf (n.map Char.toLower)

def refCreate (d : Char) (S : St) (raw : Name) : Must :=
  -- "CREATE ignores one trailing delimiter" (Spec/Namespace.lean, ValidName)
  let n0 := decodeName d raw
  let n := if n0.getLast? == some d then n0.dropLast else n0
  if n.isEmpty then .refuse "create-empty-name"
  else if !validName d n then .refuse "create-invalid-name"
  else if isInbox n then .refuse "create-inbox"
  else if hasName S n then .refuse "create-existing"
  else if underRecovery d n then .refuse "create-into-recovery"
  else if hasRecoveryPrefix n then .either      -- gluon refuses every name that starts like the recovery mailbox
  else .accept

def refDelete (d : Char) (S : St) (raw : Name) : Must :=
  let n := decodeName d raw
  if isInbox n then .refuse "delete-inbox"
  else if isRecovery n then .refuse "delete-recovery"
  else if !hasName S n then .refuse "delete-missing"
  else .accept

def refRename (d : Char) (S : St) (rawOld rawNew : Name) : Must :=
  let o := decodeName d rawOld
  let n := decodeName d rawNew
  if !hasName S o then .refuse "rename-missing"
  else if isRecovery o then .refuse "rename-recovery"
  else if underRecovery d n then .refuse "rename-into-recovery"
  else if hasName S n then .refuse "rename-existing"
  else if !validName d n then .refuse "rename-skips-validation"
  else if o != inboxName && (listSuperiors d n).contains o then .refuse "rename-onto-own-inferior"
  else if o == inboxName && (listSuperiors d n).contains o then .either     -- gluon refuses RENAME INBOX INBOX/x
  else if o != inboxName && (names S).any (fun x => (listSuperiors d x).contains o && hasName S (n ++ x.drop o.length)) then .either
  else .accept

def refSubscribe (d : Char) (S : St) (raw : Name) : Must :=
  match rowByName S (decodeName d raw) with
  | some r => if r.sub then .either else .accept
  | none => .either

def refUnsubscribe (d : Char) (S : St) (raw : Name) : Must :=
  let n := decodeName d raw
  if (lsubRef S).any (·.name == n) then .accept else .either

def refOf (d : Char) (S : St) : NSS.Cmd → Option Must
  | .create n => some (refCreate d S n)
  | .delete n => some (refDelete d S n)
  | .rename o n => some (refRename d S o n)
  | .subscribe n => some (refSubscribe d S n)
  | .unsubscribe n => some (refUnsubscribe d S n)
  | _ => none

def kindOfCmd : NSS.Cmd → String
  | .create _ => "create" | .delete _ => "delete" | .rename .. => "rename" | .subscribe _ => "subscribe"
  | .unsubscribe _ => "unsubscribe" | .append _ => "append" | _ => "connector"

/-- walk the sequence; first deviation wins -/
def judgeOps (d : Char) : St → Nat → List NSS.Cmd → List String → Nat → String
  | _, _, [], _, judged => s!"ok nontrivial-{if judged ≥ 10 then "10+" else toString judged}-replies-judged"
  | S, i, c :: cs, rs, judged =>
    let (S', mres) := step d S c
    match mres, rs with
    | none, "k" :: rs' => judgeOps d S' (i + 1) cs rs' judged
    | none, _ => "violation unparsable-op cause=harness-observation"
    | some _, [] => "violation unparsable-op cause=harness-observation"
    | some _, r :: rs' =>
      if r == "no:sqlerror" then s!"violation no-reply-carries-a-raw-database-error cause=raw-sqlite-error op={i} kind={kindOfCmd c}"
      else if r != "ok" && !(r.startsWith "no:") then s!"violation unexpected-completion cause=unexpected-completion op={i} kind={kindOfCmd c} reply={r}"
      else
        match refOf d S c with
        | some (.refuse cause) =>
          if r == "ok" then s!"violation accepted-what-the-reference-refuses cause={cause} op={i} kind={kindOfCmd c}"
          else judgeOps d S' (i + 1) cs rs' (judged + 1)
        | some .accept =>
          if r != "ok" then s!"violation refused-what-the-reference-accepts cause=valid-{kindOfCmd c}-refused op={i} reply={r}"
          else judgeOps d S' (i + 1) cs rs' (judged + 1)
        | _ => judgeOps d S' (i + 1) cs rs' judged

end NSubs

open NSubs in
def runNamespaceSubs (args : List String) : String :=
  match args with
  | [del, ops] =>
    match delim? del, parseCmds ops with
    | some d, some cmds =>
      let (S, rs) := cmds.foldl (fun (acc : St × List String) c =>
        let (S', r) := step d acc.1 c
        (S', acc.2 ++ [showRes r])) (NSS.initial, [])
      let list := showListing (getMatches (listInput S) [] ['*'] d false)
      let lsub := showListing (getMatches (lsubInput S) [] ['*'] d true)
      s!"{if rs.isEmpty then "-" else ",".intercalate rs} list={list} lsub={lsub} listmb={showMBoxes (listInput S)} lsubcode={showMBoxes (lsubInput S)} lsubref={showMBoxes (lsubRef S)}"
    | _, _ => "bad-op"
  | _ => "bad-op"

/-- STATUS (MESSAGES) of every selectable name of the model's LIST "" "*" -/
def NSubs.showStatus (d : Char) (S : St) (list : Matches) : String :=
  let items := list.filterMap fun (n, a) => match a with
    | Atts.noselect => none
    | Atts.real _ => some s!"{Hex.encode n}={match statusOf d S n with | some k => toString k | none => "x"}"
  if items.isEmpty then "-" else ";".intercalate (sortStr items)

open NSubs in
def runNamespaceTrace (args : List String) : String :=
  match args with
  | [del, ops] =>
    match delim? del, parseCmds ops with
    | some d, some cmds =>
      let (_, ws) := cmds.foldl (fun (acc : St × List String) c =>
        let (S', r) := step d acc.1 c
        let list := getMatches (listInput S') [] ['*'] d false
        let lsub := getMatches (lsubInput S') [] ['*'] d true
        (S', acc.2 ++ [s!"{showRes r}!{showListing list}!{showListing lsub}!{showStatus d S' list}"])) (NSS.initial, [])
      if ws.isEmpty then "-" else " ".intercalate ws
    | _, _ => "bad-op"
  | _ => "bad-op"

open NSubs in
def judgeC14NsOps (args : List String) : String :=
  if args.getLast? == some "bad-dialect" then "ok not-an-op" else
  match args with
  | [del, ops, "=>", res] =>
    match delim? del, parseCmds ops with
    | some d, some cmds =>
      let rs := if res == "-" then [] else res.splitOn ","
      if rs.length != cmds.length then "violation unparsable-op cause=harness-observation"
      else judgeOps d NSS.initial 0 cmds rs 0
    | _, _ => "violation unparsable-op cause=harness-observation"
  | _ => "violation unparsable-op cause=harness-observation"

/-- canonical rendering of a model answer in the wire format of the harness (`real` mailboxes carry `\Unmarked`) -/
def showWireMatches (m : Matches) : String :=
  if m.isEmpty then "-" else
  ";".intercalate (sortStr (m.map fun (n, a) => s!"{Hex.encode n}={match a with | Atts.noselect => "noselect" | Atts.real _ => "unmarked"}"))

/-- set the `cause=` word of a verdict (appended when the verdict has none) -/
def replaceCause (v cause : String) : String :=
  let ws := v.splitOn " "
  if ws.any (·.startsWith "cause=") then
    " ".intercalate (ws.map fun w => if w.startsWith "cause=" then "cause=" ++ cause else w)
  else v ++ " cause=" ++ cause

/-- every violation verdict carries a `cause=` word -/
def withCause (v : String) : String :=
  if (v.splitOn " ").any (·.startsWith "cause=") then v else v ++ " cause=list-differs-from-rfc3501"

def judgeC14WireList (args : List String) : String :=
  if args.getLast? == some "bad-dialect" then "ok not-an-op" else
  match args with
  | [refDec, refWire, pat, del, lsub, refMb, codeMb, "=>", "ok", out] =>
    let v := judgeC14GetMatches [refDec, pat, del, lsub, refMb, "=>", "ok", out]
    if v.startsWith "ok" then v else
    -- with a non-empty reference the pattern's first level is not the first level of the name, yet the
    -- session layer rewrites a pattern that starts with `inbox<del>` (any case) to `INBOX<del>…`
    let patCanon := (Hex.decode pat).bind fun p => (delim? del).map fun d => Hex.encode (NS.decodeName d p)
    if refDec != "~" && patCanon.isSome && patCanon != some pat &&
        (judgeC14GetMatches [refDec, patCanon.getD pat, del, lsub, refMb, "=>", "ok", out]).startsWith "ok" then
      replaceCause v "pattern-inbox-prefix-with-reference"
    -- the RFC selection with the reference as it travelled (still in modified UTF-7) explains the answer
    else if refWire != refDec && (judgeC14GetMatches [refWire, pat, del, lsub, refMb, "=>", "ok", out]).startsWith "ok" then
      replaceCause v "list-reference-not-utf7-decoded"
    -- the RFC selection over what State.List hands to getMatches (a deleted subscription listed after a
    -- mailbox of the same name replaces it) explains the answer
    else if refMb != codeMb && (judgeC14GetMatches [refDec, pat, del, lsub, codeMb, "=>", "ok", out]).startsWith "ok" then
      replaceCause v "stale-deleted-subscription"
    else
    match Hex.decode refDec, Hex.decode refWire, Hex.decode pat, delim? del, parseMBoxes codeMb with
    | some rd, some rw, some p, some d, some code =>
      let ls := lsub == "1"
      if refWire != refDec && showWireMatches (getMatches code rw p d ls) == out then
        replaceCause v "list-reference-not-utf7-decoded"
      else if refMb != codeMb && showWireMatches (getMatches code rd p d ls) == out then
        replaceCause v "stale-deleted-subscription"
      else withCause v
    | _, _, _, _, _ => withCause v
  | [_, _, _, del, _, _, _, "=>", "panic"] =>
    s!"violation server-panic-in-list cause={if del == "5c" then "backslash-delimiter" else "panic"} delimiter={del}"
  | _ => "violation unparsable-op cause=harness-observation"

end Gluon.Driver
