/- dialects `rfc822-hdr`, `rfc822-sect`, `rfc822-splice`, `fetch-partial`, `fetch-sect`, `fetch-rel` (C13) and their
   judges.  Text format: see harness/d_rfc822.go. -/
import GluonModel.Model.Rfc822
import GluonModel.Spec.Rfc822Spec

-- DIALECT: rfc822-hdr R8.runRfc822Hdr
-- DIALECT: rfc822-sect R8.runRfc822Sect
-- DIALECT: rfc822-splice R8.runRfc822Splice
-- DIALECT: fetch-partial R8.runPartial
-- DIALECT: fetch-sect R8.runFetchSect
-- DIALECT: fetch-rel R8.runFetchRel
-- DIALECT: fetch-partial-raw R8.runPartial
-- DIALECT: fetch-sect-raw R8.runFetchSect
-- DIALECT: judge-c13-hdr R8.judgeC13Hdr
-- DIALECT: judge-c13-sect R8.judgeC13Sect
-- DIALECT: judge-c13-splice R8.judgeC13Splice
-- DIALECT: judge-c13-partial R8.judgeC13Partial
-- DIALECT: judge-c13-fetch R8.judgeC13Fetch
-- DIALECT: judge-c13-rel R8.judgeC13Rel
namespace Gluon.Driver.R8
open Gluon.Rfc822

def hexVal (c : Char) : Nat :=
  if c.isDigit then c.toNat - 48 else if 'a' ≤ c && c ≤ 'f' then c.toNat - 87 else c.toNat - 55

def unhexGo : List Char → Bytes → Bytes
  | a :: b :: tl, acc => unhexGo tl (UInt8.ofNat (hexVal a * 16 + hexVal b) :: acc)
  | _, acc => acc.reverse

def unhex (s : String) : Bytes := if s == "~" then [] else unhexGo s.toList []

def hexDigit (n : Nat) : Char := if n < 10 then Char.ofNat (48 + n) else Char.ofNat (87 + n)

def hexGo : Bytes → List Char → List Char
  | [], acc => acc.reverse
  | b :: tl, acc => hexGo tl (hexDigit (b.toNat % 16) :: hexDigit (b.toNat / 16) :: acc)

def hex (b : Bytes) : String := if b.isEmpty then "~" else String.ofList (hexGo b [])

def unhexList (s : String) : List Bytes := if s == "-" then [] else (s.splitOn ",").map unhex
def hexList (l : List Bytes) : String := if l.isEmpty then "-" else ",".intercalate (l.map hex)

def parsePath (s : String) : List Int :=
  if s == "-" then [] else (s.splitOn ".").map fun w => w.toInt?.getD 0

/-- `raw:o | raw:r | raw:m:boundary` joined by `;`; unknown raw values classify as `other` -/
def parseCt (s : String) : Bytes → CT :=
  let tab : List (Bytes × CT) :=
    if s == "-" then [] else (s.splitOn ";").filterMap fun item =>
      match item.splitOn ":" with
      | [raw, "o"] => some (unhex raw, CT.other)
      | [raw, "r"] => some (unhex raw, CT.rfc822)
      | [raw, "m", b] => some (unhex raw, CT.multipart (unhex b))
      | _ => none
  fun raw => (tab.lookup raw).getD .other

def showHErr : HErr → String
  | .nonAscii => "nonascii"
  | .keyNotFound => "keynotfound"
  | .parse => "parse"
  | .unexpectedEOF => "ueof"
  | .other => "other"
  | .fuel => "fuel"

def showPErr : PErr → String
  | .noSuchPart => "nosuchpart"
  | .invalidIndex => "invalidindex"
  | .header e => showHErr e
  | .panic => "panic"
  | .fuel => "fuel"

def parsePartial (b c : String) : Option (Int × Int) :=
  if b == "~" then none else some (b.toInt?.getD 0, c.toInt?.getD 0)

def parseText (kind names : String) : SecText :=
  match kind with
  | "MIME" => .mime
  | "HEADER" => .header
  | "TEXT" => .text
  | "FIELDS" => .fields false (unhexList names)
  | "FIELDS.NOT" => .fields true (unhexList names)
  | _ => .none

/-- one fetch as the Go side prints it: hex of the rendered item, `err:<kind>` or `panic` -/
def fetchWord (ct : Bytes → CT) (lit : Bytes) (path : List Int) (kind names : String)
    (p : Option (Int × Int)) : String :=
  match kind with
  | "RFC822" => hex (fetchRFC822 lit)
  | "RFC822.HEADER" => hex (fetchRFC822Header lit)
  | "RFC822.TEXT" => hex (fetchRFC822Text lit)
  | _ =>
    match fetchAttributeBodySection ct lit ⟨path, parseText kind names⟩ p with
    | .ok r => hex r
    | .error .panic => "panic"
    | .error (.part .panic) => "panic"
    | .error (.part e) => "err:" ++ showPErr e

def fieldOf (words : List String) (key : String) : Option String :=
  (words.find? (·.startsWith (key ++ "="))).map fun w => (w.drop (key.length + 1)).toString

/-- `rfc822-hdr <hdr> <names>` -/
def runRfc822Hdr (args : List String) : String :=
  match args with
  | [hdr, names] =>
    let h := unhex hdr
    let want := (unhexList names).map foldKey       -- wantFields[foldKey(field)]
    match parseEntries h with
    | .error e => "err " ++ showHErr e
    | .ok es => s!"ok keys={hexList (keysOf h es)} f={hex (fields h es want)} n={hex (fieldsNot h es want)}"
  | _ => "bad-op"

/-- `rfc822-sect <lit> <path> <cttab> <expect>` -/
def runRfc822Sect (args : List String) : String :=
  match args with
  | [lit, path, cttab, _] =>
    let l := unhex lit
    let ct := parseCt cttab
    let s := splitIndex l
    match part ct l (parseRoot l) (parsePath path) with
    | .error .panic => "panic"
    | .error e => s!"err {showPErr e} s={s}"
    | .ok p =>
      let nch := match children ct l p with
        | .ok ch => toString ch.length
        | .error _ => "err"
      s!"ok s={s} h={p.header} b={p.body} e={p.end} nch={nch} H={hex (p.headerBytes l)} B={hex (p.bodyBytes l)}"
  | _ => "bad-op"

/-- `rfc822-splice <lit> <key> <val>` -/
def runRfc822Splice (args : List String) : String :=
  match args with
  | [lit, k, v] =>
    match setHeaderValue (unhex lit) (unhex k) (unhex v) with
    | .error e => "err " ++ showHErr e
    | .ok (out, size) => s!"ok {hex out} size={size}"
  | _ => "bad-op"

/-- `fetch-partial <section> <data> <begin|~> <count|~>` -/
def runPartial (args : List String) : String :=
  match args with
  | [sec, data, b, c] =>
    match bodyLiteralItem (unhex sec) (unhex data) (parsePartial b c) with
    | none => "panic"
    | some r => "ok " ++ hex r
  | _ => "bad-op"

/-- `fetch-sect <lit> <path> <kind> <names> <b|~> <c|~> <cttab>` -/
def runFetchSect (args : List String) : String :=
  match args with
  | [lit, path, kind, names, b, c, cttab] =>
    let l := unhex lit
    let ct := parseCt cttab
    let p := parsePath path
    let full := fetchWord ct l p kind names none
    let part := match parsePartial b c with
      | none => full
      | some pc => fetchWord ct l p kind names (some pc)
    s!"P={part} F={full}"
  | _ => "bad-op"

/-- `fetch-rel <lit> <path> <cttab> <expect>` -/
def runFetchRel (args : List String) : String :=
  match args with
  | [lit, path, cttab, _] =>
    let l := unhex lit
    let ct := parseCt cttab
    let p := parsePath path
    let get := fun kind => fetchWord ct l p kind "-" none
    let base := s!"A={get "-"} H={get "HEADER"} T={get "TEXT"}"
    if p.isEmpty then s!"{base} R={get "RFC822"} RH={get "RFC822.HEADER"} RT={get "RFC822.TEXT"}"
    else s!"{base} M={get "MIME"}"
  | _ => "bad-op"

/-! ## judges: the property's relations evaluated on what the implementation answered -/

/-- comment lines of a replay file (`# …`) reach the judge with the answer `bad-dialect` -/
def notAnOp (args : List String) : Bool := args.getLast? == some "bad-dialect" && args.dropLast.getLast? == some "=>"

/-- header of a message as the reference semantics sees it: up to and including the first blank line -/
def specHeaderOf (l : Bytes) : Bytes :=
  let rec go : List Bytes → Bytes → Bytes
    | [], acc => acc
    | ln :: rest, acc => if Spec.isBlankLine ln then acc ++ ln else go rest (acc ++ ln)
  go (Spec.lines l) []

/-- does the header contain a field whose first line is `name:` directly followed by the line break and
    which is followed by another line that is not a continuation (the shape of the repaired finding #15, kept as a regression label)? -/
def hasEmptyValuedField (h : Bytes) : Bool :=
  let rec go : List Bytes → Bool
    | l :: next :: rest =>
      (Spec.isField l && (let v := l.drop ((Spec.fieldName l).length + 1); v == [13, 10] || v == [10]) &&
        !Spec.startsWSP next) || go (next :: rest)
    | _ => false
  go (Spec.lines h)

/-- some field's value starts with `:` directly after the colon (`Key::…`, finding d25) -/
def hasDoubleColonField (h : Bytes) : Bool :=
  (Spec.lines h).any fun l => Spec.isField l && (l.drop ((Spec.fieldName l).length + 1)).head? == some 58

def stripEol (l : Bytes) : Bytes := (l.reverse.dropWhile (fun c => c == 10 || c == 13)).reverse

/-- shape of the literal behind a "part bytes differ" verdict: a delimiter line with trailing white
    space (RFC 2046 transport padding, d27), else a message without any closing delimiter line (d26) -/
def partShape (l : Bytes) : String :=
  let ls := (Spec.lines l).map stripEol
  let isDelim := fun (x : Bytes) => x.take 2 == [45, 45] && x.length > 2
  if ls.any (fun x => isDelim x && (x.getLast? == some 32 || x.getLast? == some 9)) then "-delimiter-transport-padding"
  else if !(ls.any (fun x => isDelim x && x.length > 4 && x.reverse.take 2 == [45, 45])) then "-unterminated-multipart"
  else ""

def containsSub (pat l : Bytes) : Bool := (indexOf pat l).isSome

/-- the message's own Content-Type line mentions message/rfc822 -/
def topIsMessageRfc822 (l : Bytes) : Bool :=
  (Spec.logicalLines (specHeaderOf l)).any fun ln =>
    lowerBytes (Spec.fieldName ln) == [99, 111, 110, 116, 101, 110, 116, 45, 116, 121, 112, 101] &&
    containsSub [109, 101, 115, 115, 97, 103, 101, 47, 114, 102, 99, 56, 50, 50] (lowerBytes ln)


/-- `strings.ToLower(s)` (Unicode folding: U+212A -> k, U+0130 -> i, ill-formed bytes -> U+FFFD): what
    rfc822.Header.Fields / FieldsNot folded the requested names with before fix 047f712 (finding d28).  Not part
    of the model any more; only the regression label `-unicode-fold-of-requested-name` below uses it. -/
def goLower (b : Bytes) : Bytes := goCaseLoop false b.length b

/-- the requested names as the reference semantics reads them: ASCII letters folded, nothing else -/
def specWant (names : String) : List Bytes := (unhexList names).map lowerBytes

/-- A HEADER.FIELDS / HEADER.FIELDS.NOT answer `got` differs from the reference selection: classify.
    `-unicode-fold-of-requested-name`: the answer is the reference selection for the names folded the way
    `strings.ToLower` folds them (U+212A -> k, U+0130 -> i), i.e. a non-ASCII requested name matched an ASCII
    field name (finding d28, repaired by fix 047f712: regression detector); `-name-selection`: the answer is a different subset of the header's fields
    (some field sits on the wrong side), the bytes of the returned fields are intact. -/
def fieldsMismatchShape (negate : Bool) (names : String) (h got : Bytes) : String :=
  let goWant := (unhexList names).map goLower
  if goWant != specWant names && got == Spec.selectFields negate goWant h then "-unicode-fold-of-requested-name"
  else
    let ls := Spec.logicalLines h
    let rec sub : List Bytes → Bytes → Bool
      | [], g => g.isEmpty
      | l :: rest, g => (l.isPrefixOf g && sub rest (g.drop l.length)) || sub rest g
    if sub ls got then "-name-selection" else ""

/-- HEADER.FIELDS / HEADER.FIELDS.NOT split the fields of a well-formed header without loss or
    duplication, each field with its exact bytes, and each field is on the side its name puts it: in
    FIELDS iff its name equals a requested name up to the case of ASCII letters. -/
def judgeC13Hdr (args : List String) : String :=
  if notAnOp args then "ok trivial-not-an-op" else
  match args with
  | hdr :: names :: "=>" :: out =>
    let h := unhex hdr
    let want := specWant names
    let wf := Spec.wellFormed h
    match out with
    | ["panic"] => "violation panic"
    | ["err", k] =>
      if !wf then "ok trivial-rejected"
      else if hasDoubleColonField h then s!"violation wellformed-header-rejected-{k}-value-starts-with-colon"
      else s!"violation wellformed-header-rejected-{k}"
    | "ok" :: rest =>
      match fieldOf rest "f", fieldOf rest "n" with
      | some f, some n =>
        if !wf then "ok trivial-not-wellformed"
        else if unhex f != Spec.selectFields false want h then
          (let shape := fieldsMismatchShape false names h (unhex f)
           if shape != "" then "violation fields-not-exact" ++ shape
           else if hasEmptyValuedField h then "violation fields-not-exact-empty-valued-field"
           else "violation fields-not-exact")
        else if unhex n != Spec.selectFields true want h then
          (let shape := fieldsMismatchShape true names h (unhex n)
           if shape != "" then "violation fieldsnot-not-exact" ++ shape
           else if hasEmptyValuedField h then "violation fieldsnot-not-exact-empty-valued-field"
           else "violation fieldsnot-not-exact")
        else if !Spec.hasField h then "ok trivial"
        else if (Spec.logicalLines h).any (fun l => Spec.isField l && want.contains (lowerBytes (Spec.fieldName l))) then
          (if (Spec.logicalLines h).any (fun l => Spec.isField l && (unhexList names).contains (Spec.fieldName l))
           then "ok nontrivial-hit" else "ok nontrivial-hit-other-case")
        else "ok nontrivial"
      | _, _ => "violation unparsable-implementation-output"
    | _ => "violation unparsable-implementation-output"
  | _ => "violation unparsable-implementation-output"

/-- header ++ body of the addressed part is a byte range of the literal (and the expected one). -/
def judgeC13Sect (args : List String) : String :=
  if notAnOp args then "ok trivial-not-an-op" else
  match args with
  | lit :: path :: _ :: expect :: "=>" :: out =>
    let l := unhex lit
    match out with
    | ["panic"] => "violation panic"
    | "err" :: _ => if expect != "?" then "violation existing-part-not-found" else "ok trivial-nopart"
    | "ok" :: rest =>
      match fieldOf rest "h", fieldOf rest "b", fieldOf rest "e", fieldOf rest "H", fieldOf rest "B" with
      | some h, some b, some e, some hh, some bb =>
        let (h, b, e) := (h.toNat!, b.toNat!, e.toNat!)
        let (hh, bb) := (unhex hh, unhex bb)
        if !(h ≤ b && b ≤ e && e ≤ l.length) then "violation range-out-of-bounds"
        else if hh != slice l h b then "violation header-not-a-slice"
        else if bb != slice l b e then "violation body-not-a-slice"
        else if hh ++ bb != slice l h e then "violation header-body-not-literal"
        else if path == "-" && !(h == 0 && e == l.length) then "violation root-is-not-whole-literal"
        else if expect != "?" && hh ++ bb != unhex expect then "violation part-bytes-differ-from-construction" ++ partShape l
        else if expect != "?" && path != "-" then "ok nontrivial-part" else if path == "-" then "ok nontrivial-root" else "ok trivial"
      | _, _, _, _, _ => "violation unparsable-implementation-output"
    | _ => "violation unparsable-implementation-output"
  | _ => "violation unparsable-implementation-output"

def lcp : Bytes → Bytes → Nat → Nat
  | a :: as, b :: bs, n => if a == b then lcp as bs (n + 1) else n
  | _, _, n => n

/-- the result is the literal with exactly one `Key: value\r\n` line inserted (in front of the first
    field when the header is well-formed, at the end of the header when it has no field). -/
def judgeC13Splice (args : List String) : String :=
  if notAnOp args then "ok trivial-not-an-op" else
  match args with
  | lit :: k :: v :: "=>" :: out =>
    let l := unhex lit
    let line := joinLine (canonKey (unhex k)) (unhex v)
    match out with
    | ["panic"] => "violation panic"
    | ["err", k] =>
      if !Spec.wellFormed (specHeaderOf l) then "ok trivial-rejected"
      else if hasDoubleColonField (specHeaderOf l) then s!"violation wellformed-header-rejected-{k}-value-starts-with-colon"
      else s!"violation wellformed-header-rejected-{k}"
    | ["ok", o, size] =>
      let o := unhex o
      if size != s!"size={o.length}" then "violation size-differs-from-length"
      else if o.length != l.length + line.length then "violation length"
      else
        let p := lcp o l 0
        let sfx := lcp o.reverse l.reverse 0
        -- candidates i with take i agreeing and drop i agreeing: l.length - sfx ≤ i ≤ p
        let lo := l.length - sfx
        let cands := (List.range (p + 1 - lo)).map (· + lo)
        match cands.find? (fun i => o == l.take i ++ line ++ l.drop i) with
        | none => "violation not-a-single-line-insertion"
        | some _ =>
          let h := specHeaderOf l
          if Spec.wellFormed h then
            let want := if Spec.hasField h then 0 else h.length
            if o == l.take want ++ line ++ l.drop want then "ok nontrivial" else "violation inserted-at-wrong-place"
          else "ok nontrivial-garbage"
    | _ => "violation unparsable-implementation-output"
  | _ => "violation unparsable-implementation-output"

/-- split a rendered item at the first `{`: (name, data) with the framing checked -/
def unrender (r : Bytes) : Option (Bytes × Bytes) :=
  -- the item name may itself contain `{` (a requested field name such as `X-{a}`): take the first `{` from
  -- which `{N}` CRLF and exactly N bytes up to the end can be read (a name has no CR LF, so an earlier `{`
  -- inside the name cannot frame)
  let rec go : Bytes → Bytes → Option (Bytes × Bytes)
    | [], _ => none
    | c :: tl, acc =>
      if c == 123 then
        match Spec.unframe (c :: tl) with
        | some (d, []) => some (acc.reverse, d)
        | _ => go tl (c :: acc)
      else go tl (c :: acc)
  go r []

/-- a partial is exactly that slice; the announced length is the number of bytes that follow; no panic -/
def judgeC13Partial (args : List String) : String :=
  if notAnOp args then "ok trivial-not-an-op" else
  match args with
  | sec :: data :: b :: c :: "=>" :: out =>
    let d := unhex data
    match out with
    | ["panic"] =>
      (match parsePartial b c with
       | some (bi, ci) =>
         if ci < 0 then "ok trivial-negative-count"       -- a count is never negative on the wire (nz-number)
         else if bi < 0 then "violation partial-panic-negative-begin"
         else if bi + ci > maxInt64 then "violation partial-panic-int64-overflow"
         else "violation partial-panic"
       | none => "violation partial-panic")
    | ["ok", r] =>
      match unrender (unhex r) with
      | none => "violation literal-framing"
      | some (name, got) =>
        match parsePartial b c with
        | none =>
          if got != d then "violation data-changed"
          else if name != [66, 79, 68, 89, 91] ++ unhex sec ++ [93, 32] then "violation item-name" else "ok trivial"
        | some (bi, ci) =>
          if bi < 0 || ci < 0 then "ok trivial-negative"
          else if got != Spec.partialOf d bi.toNat ci.toNat then "violation partial-not-that-slice"
          else if name != [66, 79, 68, 89, 91] ++ unhex sec ++ [93, 60] ++ dec bi.toNat ++ [62, 32] then "violation item-name"
          else "ok nontrivial"
    | _ => "violation unparsable-implementation-output"
  | _ => "violation unparsable-implementation-output"

/-- a fetched section: framing exact, the partial is that slice of the unpartialled section, no panic;
    top-level HEADER.FIELDS[.NOT] of a well-formed header is the reference selection -/
def judgeC13Fetch (args : List String) : String :=
  if notAnOp args then "ok trivial-not-an-op" else
  match args with
  | lit :: path :: kind :: names :: b :: c :: cttab :: "=>" :: out =>
    match fieldOf out "P", fieldOf out "F" with
    | some p, some f =>
      let neg := parsePartial b c |>.map (fun (bi, ci) => decide (bi < 0) || decide (ci < 0)) |>.getD false
      if (p == "panic" || f == "panic") then
        (if f != "panic" && neg then
           (if (parsePartial b c).any (fun (_, ci) => ci < 0) then "ok trivial-negative-count" else "violation fetch-panic-negative-begin")
         else if f != "panic" && (parsePartial b c).any (fun (bi, ci) => bi + ci > maxInt64) then "violation fetch-panic-int64-overflow"
         else "violation fetch-panic")
      else if f.startsWith "err:" then (if p == f then "ok trivial-error" else "violation partial-changes-error")
      else if p.startsWith "err:" then "violation partial-changes-error"
      else
        match unrender (unhex p), unrender (unhex f) with
        | some (_, pd), some (_, fd) =>
          let l := unhex lit
          let h := specHeaderOf l
          if path == "-" && (kind == "FIELDS" || kind == "FIELDS.NOT") && !((cttab.splitOn ":r").length > 1)
              && Spec.wellFormed h
              && fd != Spec.selectFields (kind == "FIELDS.NOT") (specWant names) h then
            (if hasDoubleColonField h then "violation header-fields-not-exact-value-starts-with-colon"
             else if fieldsMismatchShape (kind == "FIELDS.NOT") names h fd != "" then
               "violation header-fields-not-exact" ++ fieldsMismatchShape (kind == "FIELDS.NOT") names h fd
             else if hasEmptyValuedField h then "violation header-fields-not-exact-empty-valued-field"
             else "violation header-fields-not-exact")
          else
          match parsePartial b c with
          | none => if pd == fd then "ok nontrivial-whole" else "violation nondeterministic"
          | some (bi, ci) =>
            if bi < 0 || ci < 0 then "ok trivial-negative"
            else if pd != Spec.partialOf fd bi.toNat ci.toNat then "violation partial-not-that-slice"
            else "ok nontrivial-partial"
        | _, _ => "violation literal-framing"
    | _, _ => "violation unparsable-implementation-output"
  | _ => "violation unparsable-implementation-output"

def relData (w : Option String) : Option (Except String Bytes) :=
  match w with
  | none => none
  | some s =>
    if s == "panic" then some (.error "panic")
    else if s.startsWith "err:" then some (.error s)
    else match unrender (unhex s) with
      | some (_, d) => some (.ok d)
      | none => some (.error "framing")

/-- relations between the sections of one message (part): RFC822 = BODY[] = the literal,
    HEADER ++ TEXT = BODY[] (top level) resp. = BODY[p] (embedded message) or MIME/BODY[p] (other part),
    MIME ++ BODY[p] = the part's bytes by construction. -/
def judgeC13Rel (args : List String) : String :=
  if notAnOp args then "ok trivial-not-an-op" else
  match args with
  | lit :: path :: _ :: expect :: "=>" :: out =>
    let l := unhex lit
    let get := fun k => relData (fieldOf out k)
    let all := ["A", "H", "T", "M", "R", "RH", "RT"].filterMap get
    if all.any (fun r => match r with | .error "panic" => true | _ => false) then "violation fetch-panic"
    else if all.any (fun r => match r with | .error "framing" => true | _ => false) then "violation literal-framing"
    else if path == "-" then
      match get "A", get "H", get "T", get "R", get "RH", get "RT" with
      | some (.ok a), some (.ok h), some (.ok t), some (.ok r), some (.ok rh), some (.ok rt) =>
        if a != l then "violation body-is-not-the-literal"
        else if r != l then "violation rfc822-is-not-body"
        else if rh ++ rt != l then "violation rfc822header-text-not-literal"
        else if h ++ t != l then
          (if topIsMessageRfc822 l then "violation header-text-not-body-top-level-message-rfc822" else "violation header-text-not-body")
        else "ok nontrivial-top"
      | _, _, _, _, _, _ => "violation top-level-section-error"
    else
      match get "A", get "H", get "T", get "M" with
      | some (.ok a), some (.ok h), some (.ok t), some (.ok m) =>
        if expect != "?" && m ++ a != unhex expect then "violation part-bytes-differ-from-construction" ++ partShape l
        else if !(h ++ t == a || (h == m && t == a)) then "violation header-text-not-part"
        else if expect != "?" then "ok nontrivial-part" else "ok trivial-unknown-part"
      | some (.error _), some (.error _), some (.error _), some (.error _) =>
        if expect != "?" then "violation existing-part-not-found" else "ok trivial-nopart"
      | _, _, _, _ => "violation sections-disagree-on-existence"
  | _ => "violation unparsable-implementation-output"

end Gluon.Driver.R8
