/-
judge `judge-c09-store`: the C09 property as an executable predicate on what the *implementation*
answered in a `store` scenario (independent of the format model: only a map id → content).

    judge-c09-store <ops> => r<n> <results>

  * Get of an id that was never stored / was deleted            → must be err:notfound
  * Get of an id stored under the current passphrase, file
    untouched since                                               → must be ok:<digest of the content>
  * Get of an id whose file was altered (X) or that was stored
    under another passphrase                                      → must be an error or the exact content
  * List                                                          → exactly the stored ids
  * Delete                                                        → ok iff every id (in order) had a file
-/
import GluonModel.Driver.DStore

-- DIALECT: judge-c09-store judgeC09Store
namespace Gluon.Driver.StoreD

structure Entry where
  id : Nat
  dig : String
  key : Nat
  tainted : Bool

structure JState where
  entries : List Entry := []
  key : Nat := 0
  gets : Nat := 0      -- Gets of stored ids (the non-trivial evaluations)
  detected : Nat := 0  -- altered / foreign files answered with an error

def JState.find (j : JState) (id : Nat) : Option Entry := j.entries.find? (·.id == id)
def JState.drop (j : JState) (id : Nat) : JState := { j with entries := j.entries.filter (·.id != id) }

/-- `none` = fine, `some why` = violation -/
def judgeOp (j : JState) (op res : String) : JState × Option String :=
  match op.toList with
  | 'S' :: r =>
    match (String.ofList r).splitOn "=" with
    | [id, c] =>
      match parseContent c with
      | some b =>
        let j' := { (j.drop (nat! id)) with entries := ⟨nat! id, digest b, j.key, false⟩ :: (j.drop (nat! id)).entries }
        (j', if res == "ok" then none else some s!"Set failed: {res}")
      | none => (j, some "bad-op")
    | _ => (j, some "bad-op")
  | 'G' :: r =>
    let id := nat! (String.ofList r)
    match j.find id with
    | none => (j, if res == "err:notfound" then none else some s!"Get of an id that is not stored answered {res}")
    | some e =>
      let j := { j with gets := j.gets + 1 }
      if e.tainted || e.key != j.key then
        if res == s!"ok:{e.dig}" then (j, none)
        else if res.startsWith "err:" && res != "err:notfound" then ({ j with detected := j.detected + 1 }, none)
        else (j, some s!"altered or foreign file of id {id} read back as {res}, stored {e.dig}: neither an error nor the exact bytes")
      else
        (j, if res == s!"ok:{e.dig}" then none else some s!"Get of id {id} answered {res}, stored {e.dig}")
  | 'D' :: r =>
    let ids := ((String.ofList r).splitOn ",").map nat!
    let rec go : JState → List Nat → JState × Bool
      | j, [] => (j, true)
      | j, id :: rest => match j.find id with
        | none => (j, false)
        | some _ => go (j.drop id) rest
    let (j', okAll) := go j ids
    let want := if okAll then "ok" else "err:notfound"
    (j', if res == want then none else some s!"Delete answered {res}, expected {want}")
  | ['L'] =>
    let ids := sortNat (j.entries.map (·.id))
    let want := "ids:" ++ (if ids.isEmpty then "-" else ",".intercalate (ids.map toString))
    (j, if res == want then none else some s!"List answered {res}, stored {want}")
  | 'K' :: r => ({ j with key := nat! (String.ofList r) }, none)
  | 'X' :: r =>
    match (String.ofList r).splitOn ":" with
    | [id, _] =>
      match j.find (nat! id) with
      | none => (j, if res == "err:notfound" then none else some s!"altering a missing file answered {res}")
      | some e =>
        ({ (j.drop e.id) with entries := { e with tainted := true } :: (j.drop e.id).entries }, none)
    | _ => (j, some "bad-op")
  | _ => (j, some "bad-op")

def judgeC09Store (args : List String) : String :=
  match args with
  | [ops, "=>", _count, results] =>
    let os := ops.splitOn ";"
    let rs := results.splitOn ";"
    if os.length != rs.length then s!"violation result count {rs.length} for {os.length} ops" else
    let rec go : JState → List (String × String) → Nat → String
      | j, [], _ =>
        if j.gets == 0 then "ok trivial"
        else if j.detected > 0 then "ok nontrivial-detected" else "ok nontrivial"
      | j, (o, r) :: rest, i =>
        match judgeOp j o r with
        | (_, some why) => s!"violation op {i} ({o}): {why}"
        | (j', none) => go j' rest (i + 1)
    go {} (os.zip rs) 1
  | _ => "violation malformed judge line"

end Gluon.Driver.StoreD

namespace Gluon.Driver
def judgeC09Store := StoreD.judgeC09Store
end Gluon.Driver
