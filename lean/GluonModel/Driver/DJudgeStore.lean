/-
judge `judge-c09-store`: the C09 property as an executable predicate on what the *implementation*
answered in a `store` scenario (independent of the format model: only a map id → content).

    judge-c09-store <ops> => r<n> <results>

  * Get of an id that was never stored / was deleted            → must be err:notfound
  * Get of an id stored under the current passphrase, file
    untouched since                                               → must be ok:<digest of the content>
  * Get of an id whose file was altered (X) or that was stored
    under another passphrase                                      → must be an error or the exact content
  * Get of an id whose last Set was interrupted (A)               → must be an error, or exactly the content stored
                                                                    before, or exactly the content being stored;
                                                                    not-found only if the id had no file before
  * List                                                          → exactly the stored ids; while a Set is in
                                                                    progress (B … E/A) and after an interrupted Set
                                                                    of a new id that id may or may not be listed;
                                                                    never anything that was not given to Set
                                                                    (cause=list-id-never-stored)
  * Delete                                                        → ok iff every id (in order) had a file
  * an interrupted Set (A)                                        → must report an error
  * any result carrying `!changed:<i>`                            → violation cause=returned-bytes-changed-later:
                                                                    bytes a Get returned earlier were modified by a
                                                                    later operation
-/
import GluonModel.Driver.DStore

-- DIALECT: judge-c09-store judgeC09Store
namespace Gluon.Driver.StoreD

structure Entry where
  id : Nat
  digs : List String     -- the contents Get may return (one, unless a Set of this id was interrupted)
  key : Nat
  tainted : Bool         -- an error is acceptable
  optional : Bool := false   -- it may have no file (List may omit it, Get may say not-found)

/-- a Set in progress: id, digest of the content being stored, the entry the id had before -/
structure JFlight where
  id : Nat
  dig : String
  prior : Option Entry

structure JState where
  entries : List Entry := []
  key : Nat := 0
  flights : List JFlight := []
  gets : Nat := 0      -- Gets of stored ids (the non-trivial evaluations)
  detected : Nat := 0  -- altered / foreign files answered with an error
  flightLists : Nat := 0  -- Lists judged while a Set was in progress

def JState.find (j : JState) (id : Nat) : Option Entry := j.entries.find? (·.id == id)
def JState.drop (j : JState) (id : Nat) : JState := { j with entries := j.entries.filter (·.id != id) }
def JState.put (j : JState) (e : Entry) : JState := { (j.drop e.id) with entries := e :: (j.drop e.id).entries }
def JState.inFlight (j : JState) (id : Nat) : Bool := j.flights.any (·.id == id)

def showIds (ids : List Nat) : String :=
  "ids:" ++ (if ids.isEmpty then "-" else ",".intercalate ((sortNat ids).map toString))

def hasDup : List Nat → Bool
  | a :: b :: rest => a == b || hasDup (b :: rest)
  | _ => false

/-- Delete(ids…) when some of the ids may or may not have a file: both answers are possible -/
def judgeDeleteUnsure (j : JState) (ids : List Nat) (res : String) : JState × Option String :=
  if res == "ok" then
    match ids.find? (fun id => (j.find id).isNone) with
    | some id => (j, some s!"Delete answered ok, but id {id} has no file")
    | none => (ids.foldl (fun j id => j.drop id) j, none)
  else if res == "err:notfound" then
    -- everything up to the first id that may be missing is gone; what follows may or may not be
    let rec go : JState → List Nat → Bool → JState
      | j, [], _ => j
      | j, id :: rest, unsure =>
        match j.find id with
        | none => j
        | some e =>
          if unsure then go (j.put { e with optional := true }) rest true
          else if e.optional then go (j.drop id) rest true
          else go (j.drop id) rest false
    (go j ids false, none)
  else (j, some s!"Delete answered {res}")

/-- `none` = fine, `some why` = violation -/
def judgeOp (j : JState) (op res : String) : JState × Option String :=
  if (opIds op).any j.inFlight || (op.startsWith "K" && !j.flights.isEmpty) then
    (j, if res == "bad-op" then none else some s!"operation on an id whose Set is in progress answered {res}")
  else
  match op.toList with
  | 'S' :: r =>
    match (String.ofList r).splitOn "=" with
    | [id, c] =>
      match parseContent c with
      | some b =>
        (j.put ⟨nat! id, [digest b], j.key, false, false⟩, if res == "ok" then none else some s!"Set failed: {res}")
      | none => (j, some "bad-op")
    | _ => (j, some "bad-op")
  | 'B' :: r =>
    match (String.ofList r).splitOn "=" with
    | [id, ck] =>
      match ck.splitOn "@" with
      | [c, _] =>
        match parseContent c with
        | some b =>
          let id := nat! id
          let prior := j.find id
          let during : Entry := match prior with
            | some e => { e with tainted := true }
            | none => ⟨id, [], j.key, true, true⟩
          ({ (j.put during) with flights := ⟨id, digest b, prior⟩ :: j.flights },
            if res == "ok" then none else some s!"Set ended before its reader reached the end: {res}")
        | none => (j, some "bad-op")
      | _ => (j, some "bad-op")
    | _ => (j, some "bad-op")
  | 'E' :: r =>
    let id := nat! (String.ofList r)
    match j.flights.find? (·.id == id) with
    | some f =>
      ({ (j.put ⟨id, [f.dig], j.key, false, false⟩) with flights := j.flights.filter (·.id != id) },
        if res == "ok" then none else some s!"Set failed: {res}")
    | none => (j, if res == "bad-op" then none else some "bad-op")
  | 'A' :: r =>
    let id := nat! (String.ofList r)
    match j.flights.find? (·.id == id) with
    | some f =>
      let after : Entry := match f.prior with
        | some e => { e with digs := f.dig :: e.digs, tainted := true }
        | none => ⟨id, [f.dig], j.key, true, true⟩
      ({ (j.put after) with flights := j.flights.filter (·.id != id) },
        if res.startsWith "err:" then none else some s!"Set answered {res} although its reader failed")
    | none => (j, if res == "bad-op" then none else some "bad-op")
  | 'G' :: r =>
    let id := nat! (String.ofList r)
    match j.find id with
    | none => (j, if res == "err:notfound" then none else some s!"Get of an id that is not stored answered {res}")
    | some e =>
      let j := { j with gets := j.gets + 1 }
      if e.tainted || e.key != j.key then
        if e.digs.any (fun d => res == s!"ok:{d}") then (j, none)
        else if res.startsWith "err:" && (res != "err:notfound" || e.optional) then ({ j with detected := j.detected + 1 }, none)
        else (j, some s!"altered, foreign or interrupted file of id {id} read back as {res}, stored {e.digs}: neither an error nor the exact bytes")
      else
        (j, if res == s!"ok:{e.digs.headD ""}" then none else some s!"Get of id {id} answered {res}, stored {e.digs.headD ""}")
  | 'D' :: r =>
    let ids := ((String.ofList r).splitOn ",").map nat!
    if ids.any (fun id => match j.find id with | some e => e.optional | none => false) then judgeDeleteUnsure j ids res else
    let rec go : JState → List Nat → JState × Bool
      | j, [] => (j, true)
      | j, id :: rest => match j.find id with
        | none => (j, false)
        | some _ => go (j.drop id) rest
    let (j', okAll) := go j ids
    let want := if okAll then "ok" else "err:notfound"
    (j', if res == want then none else some s!"Delete answered {res}, expected {want}")
  | ['L'] =>
    let required := (j.entries.filter (fun e => !e.optional)).map (·.id)
    let allowed := j.entries.map (·.id)
    let j := if j.flights.isEmpty then j else { j with flightLists := j.flightLists + 1 }
    if !res.startsWith "ids:" then (j, some s!"List answered {res}") else
    let items := if res == "ids:-" then [] else ((res.drop 4).toString.splitOn ",")
    match items.find? (fun w => w.toNat?.isNone) with
    | some w => (j, some s!"List answered {res}: `{w}` was never given to Set (cause=list-id-never-stored); stored {showIds required}")
    | none =>
      let got := items.map nat!
      if allowed.length == required.length then
        (j, if res == showIds required then none else some s!"List answered {res}, stored {showIds required}")
      else
        match got.find? (fun id => !allowed.contains id), required.find? (fun id => !got.contains id) with
        | some id, _ => (j, some s!"List answered {res}: id {id} was never given to Set (cause=list-id-never-stored); stored {showIds required}")
        | none, some id => (j, some s!"List answered {res}: stored id {id} is missing (stored {showIds required}, a Set in progress or interrupted on {showIds (allowed.filter (fun id => !required.contains id))})")
        | none, none => (j, if hasDup (sortNat got) then some s!"List answered {res}: an id twice" else none)
  | 'K' :: r => ({ j with key := nat! (String.ofList r) }, none)
  | 'X' :: r =>
    match (String.ofList r).splitOn ":" with
    | [id, _] =>
      match j.find (nat! id) with
      | none => (j, if res == "err:notfound" then none else some s!"altering a missing file answered {res}")
      | some e => (j.put { e with tainted := true }, none)
    | _ => (j, some "bad-op")
  | _ => (j, some "bad-op")

def judgeC09Store (args : List String) : String :=
  match args with
  | [ops, "=>", _count, results] =>
    let os := ops.splitOn ";"
    let rs := results.splitOn ";"
    if os.length != rs.length then s!"violation result count {rs.length} for {os.length} ops" else
    let rec go : JState → List (String × String) → Nat → String
      | j, [], _ =>
        if j.gets == 0 && j.flightLists == 0 then "ok trivial"
        else if j.flightLists > 0 then "ok nontrivial-inflight"
        else if j.detected > 0 then "ok nontrivial-detected" else "ok nontrivial"
      | j, (o, r) :: rest, i =>
        match r.splitOn "!changed:" with
        | [_, k] => s!"violation op {i} ({o}): cause=returned-bytes-changed-later: the bytes that the Get of op {k} returned (correct at that time) were no longer the same after this operation"
        | _ =>
        match judgeOp j o r with
        | (_, some why) => s!"violation op {i} ({o}): {why}"
        | (j', none) => go j' rest (i + 1)
    go {} (os.zip rs) 1
  | _ => "violation malformed judge line"

end Gluon.Driver.StoreD

namespace Gluon.Driver
def judgeC09Store := StoreD.judgeC09Store
end Gluon.Driver
