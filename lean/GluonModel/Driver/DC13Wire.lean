/-
C13 on the IMAP wire, over STORAGE STATES (oracle `c13wire`, harness/o_c13wire.go).

One message is created (APPEND, connector MessageCreated, …), then FETCHed in several phases: fresh, again,
after its cache file was removed / made unreadable behind the server's back (the FETCH that restores it from
the connector), again after that restore, after a restart, from another session, after COPY / MOVE, after the
connector updated it.  Every phase asks for the same items (RFC822.SIZE, BODY[], RFC822, RFC822.HEADER,
RFC822.TEXT, BODY[HEADER], BODY[TEXT], HEADER.FIELDS, parts, partials).

  judge-c13-wire <way> <lit> <id> <cttab> <items> <steps> => <table> <phases>
      the property evaluated on the answers: every answer present and framed; the answers to one item are
      the same bytes in every phase; within a phase RFC822.SIZE = length of BODY[], RFC822 = BODY[],
      HEADER ++ TEXT = BODY[], a partial is that slice of the whole item; and every answer is the model's
      section (Model/Rfc822.lean `fetchAttributeBodySection`) of the REFERENCE bytes = <lit> with exactly the
      line `X-Pm-Gluon-Id: <id> CRLF` spliced in where `SetHeaderValue` puts it.
      <items>  `;`-separated `kind/path/names/b/c` (kind SIZE, -, MIME, HEADER, TEXT, FIELDS, FIELDS.NOT, RFC822,
               RFC822.HEADER, RFC822.TEXT; as in dialect fetch-sect)
      <table>  `,`-separated hex of the distinct raw items the server sent (`BODY[…] {n} CRLF data`)
      <phases> `;`-separated `label/a,a,…` one answer per item: index into <table>, `n<k>` a number,
               `-` not asked in this phase, `x` asked but not answered
  c13-wire-model <lit> <lit2> <id1> <id2> <steps>
      Model/LitCache.lean run over the same steps: which bytes `getLiteral` hands to FETCH in every fetch
      phase (`1` = <lit> spliced with <id1>, `2` = <lit2> spliced with <id2>, `E` = error).
-/
import GluonModel.Driver.DRfc822
import GluonModel.Model.LitCache
import GluonModel.Generated.Facts.Rfc822

-- DIALECT: judge-c13-wire C13W.judgeWire
-- DIALECT: c13-wire-model C13W.runModel

namespace Gluon.Driver.C13W
open Gluon.Rfc822 Gluon.Driver.R8 Gluon.LitCache

structure Item where
  kind  : String
  path  : String
  names : String
  b     : String
  c     : String

def Item.desc (it : Item) : String :=
  let p := if it.path == "-" then "" else it.path
  let n := if it.names == "-" then "" else s!"({it.names})"
  let q := if it.b == "~" then "" else s!"<{it.b}.{it.c}>"
  s!"{it.kind}[{p}]{n}{q}"

def parseItem (s : String) : Option Item :=
  match s.splitOn "/" with
  | [k, p, n, b, c] => some ⟨k, p, n, b, c⟩
  | _ => none

def Item.isWhole (it : Item) : Bool := it.kind == "-" && it.path == "-" && it.b == "~"

inductive Ans where
  | notAsked
  | missing
  | num (n : Nat)
  | entry (i : Nat)
  | bad
deriving BEq

def parseAns (s : String) : Ans :=
  if s == "-" then .notAsked
  else if s == "x" then .missing
  else if s.startsWith "n" then
    match (s.drop 1).toString.toNat? with
    | some n => .num n
    | none => .bad
  else
    match s.toNat? with
    | some i => .entry i
    | none => .bad

structure Phase where
  label : String
  ans   : List Ans

def parsePhase (s : String) : Option Phase :=
  match s.splitOn "/" with
  | [l, a] => some ⟨l, (a.splitOn ",").map parseAns⟩
  | _ => none

def keyBytes : Bytes := Gluon.Facts.internalIDKey.getD []

/-- the bytes FETCH has to work on: the literal with exactly the id line spliced in.  For a well-formed
    header with a field that is `line ++ lit` (reference semantics, Spec/Rfc822Spec.lean); the model's
    `setHeaderValue` must agree there, otherwise it decides. -/
def reference (lit id : Bytes) : Except String Bytes :=
  match setHeaderValue lit keyBytes id with
  | .error e => .error ("header-" ++ showHErr e)
  | .ok (out, size) =>
    let h := specHeaderOf lit
    if size != out.length then .error "model-size"
    else if Spec.wellFormed h && Spec.hasField h && out != joinLine (canonKey keyBytes) id ++ lit then .error "model-vs-spec"
    else .ok out

/-- first index `k` with `f k = some msg` -/
def firstSome {α : Type} (l : List α) (f : Nat → α → Option String) : Option String :=
  let rec go : List α → Nat → Option String
    | [], _ => none
    | a :: tl, k => match f k a with
      | some m => some m
      | none => go tl (k + 1)
  go l 0

def dataOf (tab : Array (Option (Bytes × Bytes))) (a : Ans) : Option Bytes :=
  match a with
  | .entry i => (tab.getD i none).map (·.2)
  | _ => none

/-- the answer a phase gave to the first item satisfying `p` -/
def phaseFind (items : List Item) (ph : Phase) (p : Item → Bool) : Option Ans :=
  ((items.zip ph.ans).find? fun (it, a) => p it && a != .notAsked).map (·.2)

def natOf (s : String) : Nat := s.toNat?.getD 0

def stepsClass (steps : String) (nph : Nat) : String :=
  let st := steps.splitOn ","
  let isDrop := fun (s : String) => s == "RM" || s == "CORRUPT" || s.startsWith "TRUNC" || s == "RMDIR"
  let isFetch := fun (s : String) => s == "F" || s == "FI" || s == "FB" || s == "FH"
  let afterDrop := (st.dropWhile (fun s => !isDrop s)).filter isFetch
  if nph < 2 then "ok trivial-single-fetch"
  else if afterDrop.length ≥ 2 then "ok nontrivial-restored-and-read-back"
  else if afterDrop.length == 1 then "ok nontrivial-restored"
  else if st.contains "RESTART" then "ok nontrivial-restart"
  else "ok nontrivial-repeat"

def judgeWire (args : List String) : String :=
  if notAnOp args then "ok trivial-not-an-op" else
  match args with
  | [_, litS, idS, cttab, itemsS, steps, "=>", tableS, phasesS] =>
    let items := (itemsS.splitOn ";").filterMap parseItem
    let phases := if phasesS == "-" then [] else (phasesS.splitOn ";").filterMap parsePhase
    let rawTab : Array Bytes := (if tableS == "-" then [] else (tableS.splitOn ",").map unhex).toArray
    let tab : Array (Option (Bytes × Bytes)) := rawTab.map unrender
    let lit := unhex litS
    let ct := parseCt cttab
    if items.length != (itemsS.splitOn ";").length || phases.any (fun ph => ph.ans.length != items.length) then
      "violation unparsable-implementation-output"
    else if phases.any (fun ph => ph.ans.any (· == .bad)) then "violation unparsable-implementation-output"
    else
    -- (1) every asked item was answered
    match firstSome phases (fun _ ph => firstSome (items.zip ph.ans) (fun _ (it, a) =>
        if a == .missing then some s!"violation item-not-answered phase={ph.label} item={it.desc}" else none)) with
    | some m => m
    | none =>
    -- (2) framing
    if tab.any (·.isNone) then "violation literal-framing" else
    -- (3) the answers to one item are the same in every phase
    match firstSome items (fun k it =>
        let asked := phases.filterMap fun ph =>
          match ph.ans.getD k .notAsked with
          | .notAsked => none
          | a => some (ph.label, a)
        match asked with
        | [] => none
        | (l0, a0) :: rest =>
          match rest.find? (fun (_, a) => a != a0) with
          | none => none
          | some (l1, a1) =>
            let shape :=
              if it.isWhole || it.kind == "RFC822" then
                (if dataOf tab a1 == some lit then "-id-line-missing-in-later-answer"
                 else if dataOf tab a0 == some lit then "-id-line-missing-in-earlier-answer" else "")
              else ""
            some s!"violation answers-differ-between-fetches{shape} item={it.desc} phases={l0},{l1}") with
    | some m => m
    | none =>
    -- (4) relations inside one phase
    match firstSome phases (fun _ ph =>
        let body := (phaseFind items ph Item.isWhole).bind (dataOf tab)
        let get := fun (kind : String) =>
          (phaseFind items ph (fun it => it.kind == kind && it.path == "-" && it.b == "~")).bind (dataOf tab)
        let size := match phaseFind items ph (fun it => it.kind == "SIZE") with
          | some (.num n) => some n
          | _ => none
        match body with
        | none => none
        | some bd =>
          if size.any (· != bd.length) then
            some s!"violation size-differs-from-body-length phase={ph.label} size={size.getD 0} body={bd.length}"
          else if (get "RFC822").any (· != bd) then some s!"violation rfc822-is-not-body phase={ph.label}"
          else if (match get "RFC822.HEADER", get "RFC822.TEXT" with
                   | some h, some t => h ++ t != bd
                   | _, _ => false) then some s!"violation rfc822header-text-not-literal phase={ph.label}"
          else if (match get "HEADER", get "TEXT" with
                   | some h, some t => h ++ t != bd
                   | _, _ => false) then
            (if topIsMessageRfc822 bd then some "violation header-text-not-body-top-level-message-rfc822"
             else some s!"violation header-text-not-body phase={ph.label}")
          else
            -- a partial is that slice of the whole item of the same phase
            firstSome (items.zip ph.ans) (fun _ (it, a) =>
              if it.b == "~" || it.kind == "SIZE" then none else
              match dataOf tab a,
                    (phaseFind items ph (fun w => w.kind == it.kind && w.path == it.path && w.names == it.names && w.b == "~")).bind (dataOf tab) with
              | some pd, some fd =>
                if pd != Spec.partialOf fd (natOf it.b) (natOf it.c) then
                  some s!"violation partial-not-that-slice phase={ph.label} item={it.desc}"
                else none
              | _, _ => none)) with
    | some m => m
    | none =>
    -- (5) every answer is the model's section of the reference bytes
    match reference lit (unhex idS) with
    | .error e => s!"violation reference-{e}"
    | .ok ref =>
      match firstSome phases (fun _ ph => firstSome (items.zip ph.ans) (fun _ (it, a) =>
          match a with
          | .num n =>
            if it.kind == "SIZE" && n != ref.length then
              some s!"violation size-is-not-reference-length phase={ph.label} size={n} reference={ref.length}"
            else none
          | .entry i =>
            let want := fetchWord ct ref (parsePath it.path) it.kind it.names (parsePartial it.b it.c)
            if hex (rawTab.getD i []) == want then none
            else if it.isWhole || it.kind == "RFC822" then
              let shape := if dataOf tab a == some lit then "-id-line-missing" else ""
              some s!"violation body-differs-from-reference{shape} phase={ph.label} item={it.desc}"
            else some s!"violation section-differs-from-reference phase={ph.label} item={it.desc}"
          | _ => none)) with
      | some m => m
      | none => stepsClass steps phases.length
  | _ => "violation unparsable-implementation-output"

/-! ## the storage model over the same steps -/

structure MState where
  st    : St
  cur   : Nat
  reads : List String

def runModel (args : List String) : String :=
  match args with
  | [litS, lit2S, id1S, id2S, stepsS] =>
    let lit := unhex litS
    let lit2 := unhex lit2S
    let idText : Nat → Bytes := fun n => if n == 1 then unhex id1S else unhex id2S
    let env : Env := ⟨keyBytes, idText, fun _ => false, fun _ => true⟩
    let splice := fun (l : Bytes) (n : Nat) =>
      match setHeaderValue l keyBytes (idText n) with
      | .ok (o, _) => some o
      | .error _ => none
    let r1 := splice lit 1
    let r2 := if id2S == "-" then none else splice lit2 2
    match create env ⟨[], []⟩ 1 lit with
    | none => "refused"
    | some st0 =>
      let stepFn := fun (m : MState) (s : String) =>
        if s == "F" || s == "FI" || s == "FB" || s == "FH" || s == "SRCH" then
          let (r, st') := getLiteral env m.st m.cur
          let w := match r with
            | .ok b => if some b == r1 then "1" else if some b == r2 then "2" else "o"
            | .error _ => "E"
          { m with st := st', reads := if s == "SRCH" then m.reads else m.reads ++ [w] }
        else if s == "RM" || s == "CORRUPT" || s.startsWith "TRUNC" then { m with st := dropFile m.st m.cur }
        else if s == "RMDIR" then { m with st := { m.st with store := [] } }
        else if s == "UPDATE" || s == "UPDATESAME" then
          match update env m.st m.cur 2 lit2 with
          | some (st', cur') => { m with st := st', cur := cur' }
          | none => { m with reads := m.reads ++ ["refused"] }
        else m      -- RESTART COPY MOVE REAPPEND: neither the cache nor the connector's copy changes
      let fin := (if stepsS == "-" then [] else stepsS.splitOn ",").foldl stepFn ⟨st0, 1, []⟩
      let showR := fun (r : Option Bytes) => match r with
        | some b => hex b
        | none => "-"
      s!"ok R1={showR r1} R2={showR r2} cur={fin.cur} reads={if fin.reads.isEmpty then "-" else ",".intercalate fin.reads}"
  | _ => "bad-op"

end Gluon.Driver.C13W
