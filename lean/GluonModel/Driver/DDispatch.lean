/- dialect `dispatch` (C18): the real `Session.handleCommand` / `handleIdle` on a session that has not
   authenticated (hook `verifhooks.DispatchUnauth`), against what the facts-driven model says
   happens to each payload type in state not-authenticated; and the judge evaluating the property
   (mailbox / message commands are refused before any handler body runs) on the implementation's answer.

   op   <payload type name>
   out  handled | notauthenticated | badcommand | reached-body | no-such-type | error … -/
import GluonModel.Model.AuthFacts
import GluonModel.Spec.AuthSpec

-- DIALECT: dispatch DDispatch.runDispatch
-- DIALECT: judge-c18-dispatch DDispatch.judgeDispatch
namespace Gluon.Driver.DDispatch
open Gluon Gluon.Auth

/-- what `handleCommand` (or `handleIdle`) does with a payload of type `ty` when `s.state == nil` -/
def unauthOutcome (F : DispatchFacts) (ty : String) : String :=
  match route F ty with
  | .idle => if F.idleGuard then "notauthenticated" else "reached-body"
  | .any => if F.anyNilSafe then "handled" else "reached-body"
  | .login => "reached-body"          -- handleLogin calls backend.GetState (the hook has no backend)
  | .auth => if F.authGuard then "notauthenticated" else "reached-body"
  | .selected => if F.selectedGuard then "notauthenticated" else "reached-body"
  | .bad => "badcommand"
  -- taken by the serve loop / the command reader before handleCommand; handleCommand has no case for them
  | .logout | .starttls => if (F.table.lookup ty).isNone && F.defaultRefuses then "badcommand" else "unknown"
  | .unknown => "unknown"

def runDispatch (args : List String) : String :=
  match args with
  | [ty] => if Facts.commandPayloadTypes.contains ty then unauthOutcome C18.facts ty else "no-such-type"
  | _ => "bad-op"

def judgeDispatch (args : List String) : String :=
  match args with
  | [ty, "=>", out] =>
    if AuthSpec.needsAuth ty then
      if out == "notauthenticated" then "ok nontrivial-gated" else "violation gated-command-not-refused-before-authentication"
    else match AuthSpec.required.lookup ty with
      | some .anyState => if out == "handled" || ty == "Logout" then "ok nontrivial-any-state" else "violation any-state-command-not-handled"
      | some .notAuthOnly => "ok nontrivial-not-authenticated-only"
      | _ => if out == "badcommand" || out == "no-such-type" then "ok trivial" else "violation unknown-command-not-refused"
  | ty :: "=>" :: "error" :: _ =>
    if AuthSpec.needsAuth ty then "violation gated-command-not-refused-with-not-authenticated" else "ok trivial"
  | _ => "violation unparsable-implementation-output"

end Gluon.Driver.DDispatch
