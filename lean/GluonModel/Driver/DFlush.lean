/- dialects `flush`, `merge`, `mirror` (C01, C05) -/
import GluonModel.Driver.Codec
import GluonModel.Spec.Mirror

-- DIALECT: flush runFlush
-- DIALECT: merge runMerge
namespace Gluon.Driver
open Gluon Codec

def showErr : Err → String
  | .outOfOrder => "outoforder"
  | .noSuchMessage => "nosuchmessage"
  | .panic => "panic"

/-- `flush <permit> <close> <stateId> <snap> <queue>` -/
def runFlush (args : List String) : String :=
  match args with
  | [permit, close, sid, snap, queue] =>
    match parseSnap snap, parseQueue queue with
    | some s, some q =>
      let r := flush (bool! permit) (bool! close) (nat! sid) s q
      let res := match r.result with
        | .ok out => s!"ok out={showResps out}"
        | .err e => s!"err {showErr e}"
        | .mergePanic => "panic merge"
      s!"{res} snap={showSnap r.snap} rem={showQueue r.rem} issued={showBool (expungeIssued r.rem)}"
    | _, _ => "bad-op"
  | _ => "bad-op"

/-- `merge <initial count> <resps>` (the count is only used by the judge) -/
def runMerge (args : List String) : String :=
  match args with
  | [_, resps] =>
    match parseResps resps with
    | some l => match Resp.merge l with
      | .ok out => showResps out
      | .error () => "panic"
    | none => "bad-op"
  | _ => "bad-op"

end Gluon.Driver
