/- dialect `c03-sys` (C03): histories in the vocabulary of the `sys` dialect (Driver/DSys.lean) whose point is that
   `\Deleted` is kept per MAILBOX while every other flag is kept per MESSAGE: the same messages live in two or three
   mailboxes (COPY), every session stays in its own mailbox, STOREs naming `\Deleted` (alone / with other flags, all six
   modes) are issued from every mailbox, and the sessions that were selected all along EXPUNGE.  Generator:
   harness/d_c03sys.go; implementation side: the `sys` runner (harness/d_sys.go: the real server over TCP).

     c03-sys        the system MODEL (Model/System.lean) on the history = `sys`            -> tie of the model that
                                                                                              Theorems/SysC03.lean is about
     judge-c03-sys  <history> => <what the implementation answered>                        -> property verdict

   The judge runs the REFERENCE (Spec/MailboxRef.lean) on the history and compares what fresh sessions saw at the
   end (`F<k>=`: UIDs, flags, `\Deleted`, in order, for every mailbox) and every answer (ok / refused).  It needs no
   model of sessions, because it only judges histories that keep the generator's discipline: no `X` / `C` steps, and
   every STORE / EXPUNGE / COPY / MOVE of a session directly preceded by a NOOP of that session — the runner's barrier
   plus the NOOP make the session's view the authoritative mailbox (Theorems/SysC02.lean: `settle_converges`), so
   sequence numbers name the entries of the reference mailbox and EXPUNGE is `refExpunge`.  Other histories are
   answered `ok outside-discipline`.  Core Lean only. -/
import GluonModel.Driver.DSys
import GluonModel.Spec.MailboxRef

-- DIALECT: c03-sys C03SysD.run
-- DIALECT: judge-c03-sys C03SysD.judge
namespace Gluon.Driver.C03SysD
open Gluon Codec Gluon.Driver.SysD

def run (args : List String) : String := runSys args

structure JState where
  st : MailboxRef.State
  /-- the mailbox each session has selected -/
  sel : List (Option String)
  /-- the previous step was `S<i> NOOP` -/
  fresh : Option Nat := none
  crossStores : Nat := 0
  expunged : Nat := 0
  bad : Option String := none
  outside : Bool := false

def entriesOf (st : MailboxRef.State) (mb : String) : List MailboxRef.Entry :=
  ((st.mailbox? mb).map (·.entries)).getD []

/-- single sequence numbers against the mailbox, every message once, `none` = out of range (refused) -/
def resolveSeqs (es : List MailboxRef.Entry) (seqs : List Nat) : Option (List MailboxRef.Entry) :=
  (seqs.mapM fun n => if n = 0 then none else es[n - 1]?).map fun l =>
    l.foldl (fun acc e => if acc.any (·.msg == e.msg) then acc else acc ++ [e]) []

def insertByUid (e : MailboxRef.Entry) : List MailboxRef.Entry → List MailboxRef.Entry
  | [] => [e]
  | x :: xs => if e.uid ≤ x.uid then e :: x :: xs else x :: insertByUid e xs

def byUid (l : List MailboxRef.Entry) : List MailboxRef.Entry := l.foldr insertByUid []

def storeOpOf : FlagOp → MailboxRef.StoreOp
  | .add => .add | .rem => .remove | .set => .set

/-- in how many mailboxes the message lives -/
def holders (st : MailboxRef.State) (m : MailboxRef.MsgRef) : Nat :=
  (st.mailboxes.filter fun p => p.2.entries.any (·.msg == m)).length

def showRefView (st : MailboxRef.State) (mb : String) : String :=
  let es := entriesOf st mb
  if es.isEmpty then "-" else
  "+".intercalate (es.map fun e =>
    let fl := ((st.messages.lookup e.msg).map (·.flags)).getD []
    let fl := if e.deleted then MailboxRef.deletedKey :: fl else fl
    s!"{e.uid}:{showFlags fl}")

/-- one step of the history with the implementation's answer `out` (`<status>:<resps>`) -/
def jstep (j : JState) (w : List String) (out : String) : JState :=
  if j.bad.isSome || j.outside then j else
  let status := beforeColon out
  let answer (j : JState) (want : String) (k : JState → JState) : JState :=
    if status != want then { j with bad := some s!"cause=answer step={" ".intercalate w} want={want} got={status}" }
    else if want == "ok" then k j else j
  match w with
  | s :: rest =>
    match parseSess s with
    | none => { j with outside := true }   -- X / C steps: not this judge's histories
    | some i =>
      let wasFresh := j.fresh == some i
      let j := { j with fresh := none }
      let selMb := (j.sel.getD i none)
      match rest with
      | ["NOOP"] => { j with fresh := some i }
      | ["PROBE"] => j
      | ["SELECT", mb] =>
        answer j (if j.st.hasMailbox mb then "ok" else "refused") fun j => { j with sel := j.sel.set i (some mb) }
      | ["UNSELECT"] =>
        answer j (if selMb.isSome then "ok" else "refused") fun j => { j with sel := j.sel.set i none }
      | ["APPEND", mb, fl] =>
        answer j (if j.st.hasMailbox mb then "ok" else "refused") fun j =>
          { j with st := MailboxRef.refAppend j.st mb (parseFlags fl) "" }
      | ["STORE", seqs, op, fl] =>
        match selMb, parseStoreOp op with
        | some mb, some (op, _) =>
          if !wasFresh then { j with outside := true } else
          match resolveSeqs (entriesOf j.st mb) (parseSeqs seqs) with
          | none => answer j "refused" id
          | some es =>
            let flags := parseFlags fl
            let cross := MailboxRef.hasDeleted flags && es.any fun e => holders j.st e.msg ≥ 2
            answer j "ok" fun j =>
              { j with st := MailboxRef.refStore j.st mb (es.map (·.msg)) (storeOpOf op) flags,
                       crossStores := j.crossStores + (if cross then 1 else 0) }
        | _, _ => answer j "refused" id
      | ["EXPUNGE"] =>
        match selMb with
        | some mb =>
          if !wasFresh then { j with outside := true } else
          answer j "ok" fun j =>
            { j with st := MailboxRef.refExpunge j.st mb, expunged := j.expunged + (MailboxRef.deletedOf j.st mb).length }
        | none => answer j "refused" id
      | [cmd, seqs, dst] =>
        if cmd != "COPY" && cmd != "MOVE" then { j with outside := true } else
        match selMb with
        | some mb =>
          if !wasFresh then { j with outside := true } else
          if !j.st.hasMailbox dst then answer j "refused" id else
          match resolveSeqs (entriesOf j.st mb) (parseSeqs seqs) with
          | none => answer j "refused" id
          | some es =>
            -- `Mailbox.Copy` / `Mailbox.Move` hand the messages on in ascending UID order
            let msgs := (byUid es).map (·.msg)
            answer j "ok" fun j =>
              { j with st := if cmd == "COPY" then MailboxRef.refCopy j.st dst msgs else MailboxRef.refMove j.st mb dst msgs }
        | none => answer j "refused" id
      | _ => { j with outside := true }
  | [] => j

def judge (args : List String) : String :=
  match parseJudge args with
  | none => if args.any (· == "panic") then "violation cause=panic server panic" else "ok outside-unparsable"
  | some p =>
    match parseHeader p.header with
    | none => "ok outside-unparsable"
    | some n =>
      if p.steps.length != p.outs.length then "ok outside-unparsable" else
      let j0 : JState := { st := { mailboxes := mboxNames.map fun m => (m, {}) }, sel := List.replicate n none }
      let j := (p.steps.zip p.outs).foldl (fun j so => jstep j so.1 so.2) j0
      if j.outside then "ok outside-discipline" else
      match j.bad with
      | some why => s!"violation {why}"
      | none =>
        let want := mboxNames.mapIdx fun k m => s!"F{k}={showRefView j.st m}"
        match (want.zip p.finalF).find? (fun x => x.1 != x.2) with
        | some (w, g) => s!"violation cause=content reference {w} fresh-session {g} cross-stores={j.crossStores} expunged={j.expunged}"
        | none =>
          if want.length != p.finalF.length then "violation cause=content mailbox-count" else
          if j.crossStores > 0 && j.expunged > 0 then s!"ok nontrivial cross-stores={j.crossStores} expunged={j.expunged}"
          else "ok trivial-no-cross-store-or-no-expunge"

end Gluon.Driver.C03SysD
