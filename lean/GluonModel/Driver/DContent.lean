/-
Dialects of the wire-level oracle `vh oracle c03content` (property C03).

A run is ONE line: the mailbox names, then one word per step in the order the harness executed them.

  c03-model         <mailboxes> <step> …     -> <answers> <dump> …      the MODEL (`Model/Actions.lean`) on the steps
  judge-c03-content <mailboxes> <step> …     -> ok … | violation cause=<class> step=<i> …
                                                the REFERENCE (`Spec/MailboxRef.lean`) on the steps, compared with
                                                what the server answered and with what fresh sessions saw

  mailboxes  `,`-joined names (all empty at the start, created in this order)
  step       A:<mb>:<flags>:<hex literal>:<ans>          APPEND
             B:<mb>:<flags>:<digest,…>:<ans>             messages created through the connector (population)
             S:<mb>:<add|rem|set>:<flags>:<uids>:<ans>   STORE / UID STORE (.SILENT or not)
             X:<mb>:<sync|stale>:<all|set>:<named>:<uids>:<ans>   EXPUNGE / CLOSE (`all`) / UID EXPUNGE (`set`)
             C:<src>:<dst>:<uids>:<ans>                  COPY / UID COPY
             M:<src>:<dst>:<uids>:<ans>                  MOVE / UID MOVE
             K:<dump>                                    checkpoint: what a FRESH session saw
  flags      `,`-joined as sent, `-` = none
  uids       the UIDs (in the issuing session's view, view order) of the messages the command's set selects; for
             X the selected messages the view shows as \Deleted; `-` = none.  A UID the mailbox no longer has (the
             view was stale) is resolved through the log of every (mailbox, UID) that ever existed.
  named      (X) the UIDs of the session's view the command speaks about: all of them (`all`: EXPUNGE, CLOSE) or
             those the UID set names (`set`: UID EXPUNGE).  The REFERENCE removes the messages that are `\Deleted`
             IN THE AUTHORITATIVE MAILBOX: all of them for `sync all` (`refExpunge`: the session had applied and
             flushed everything, Theorems/SysC03.lean), otherwise those among `named` (`refUidExpunge`: a stale view
             limits which messages a session can name, it never decides what is `\Deleted`).  `uids` — what the
             session's view shows as `\Deleted` — is what the MODEL of the code runs on (`Mailbox.Expunge` takes the
             snapshot's marks); the judge reports the first X step at which `uids` differs from the authoritative
             `\Deleted` entries among `named` as `expunge-view=…` next to the verdict.
  ans        ok | no | bad (what the server answered; ignored by c03-model) | nofault (answered NO because the harness
             made the transaction that queues the state updates fail: a legitimate NO; c03-model runs the step with
             `Second.fails`)
  dump       <mb>@<uidnext>=<uid>/<flags>/<0|1>/<digest>|… ; …      flags lower-cased, sorted, without \recent and
             \deleted; the third field is \Deleted; digest = FNV-1a 64 of the literal without the X-Pm-Gluon-Id line
  answers    `,`-joined ok|no|bad|oos, one per non-K step, `-` = none

In both runs the bytes of a message are represented by their digest.  Core Lean only.
-/
import GluonModel.Model.ActionsAbs
import GluonModel.Model.DBFacts

-- DIALECT: c03-model runC03Model
-- DIALECT: judge-c03-content judgeC03Content
namespace Gluon.Driver
namespace Content
open Gluon.DB

/-! ### codec -/

def splitList (s : String) : List String := if s == "-" || s == "" then [] else s.splitOn ","

def hexVal (c : Char) : Nat :=
  if '0' ≤ c && c ≤ '9' then c.toNat - '0'.toNat
  else if 'a' ≤ c && c ≤ 'f' then c.toNat - 'a'.toNat + 10
  else if 'A' ≤ c && c ≤ 'F' then c.toNat - 'A'.toNat + 10 else 0

def hexBytes : List Char → List UInt8
  | a :: b :: rest => UInt8.ofNat (hexVal a * 16 + hexVal b) :: hexBytes rest
  | _ => []

/-- FNV-1a, 64 bit -/
def fnv (bs : List UInt8) : UInt64 := bs.foldl (fun h b => (h ^^^ b.toUInt64) * 1099511628211) 14695981039346656037

def digestOfHex (h : String) : String := toString (fnv (hexBytes h.toList)).toNat

inductive Step where
  | append (mb : String) (flags : List String) (digest : String) (ans : String)
  | bulk (mb : String) (flags : List String) (digests : List String) (ans : String)
  | store (mb : String) (op : String) (flags : List String) (uids : List Nat) (ans : String)
  | expunge (mb : String) (sync all : Bool) (named uids : List Nat) (ans : String)
  | copy (src dst : String) (uids : List Nat) (ans : String)
  | move (src dst : String) (uids : List Nat) (ans : String)
  | check (dump : String)
  | junk (w : String)

def nats (s : String) : List Nat := (splitList s).map fun x => x.toNat?.getD 0

def parseStep (w : String) : Step :=
  match w.splitOn ":" with
  | ["A", mb, fl, hex, ans] => .append mb (splitList fl) (digestOfHex hex) ans
  | ["B", mb, fl, ds, ans] => .bulk mb (splitList fl) (splitList ds) ans
  | ["S", mb, op, fl, us, ans] => .store mb op (splitList fl) (nats us) ans
  | ["X", mb, mode, what, named, us, ans] => .expunge mb (mode == "sync") (what == "all") (nats named) (nats us) ans
  | ["C", src, dst, us, ans] => .copy src dst (nats us) ans
  | ["M", src, dst, us, ans] => .move src dst (nats us) ans
  | "K" :: rest => .check (":".intercalate rest)
  | _ => .junk w

def sortStrings (l : List String) : List String := (l.toArray.qsort (· < ·)).toList

def showFlags (l : List String) : String := if l.isEmpty then "-" else ",".intercalate (sortStrings l)

/-- a reference state in the dump format -/
def dumpState (s : MailboxRef.State) : String :=
  ";".intercalate (s.mailboxes.map fun (name, b) =>
    s!"{name}@{b.uidNext}=" ++ "|".intercalate (b.entries.map fun e =>
      let m := (s.messages.lookup e.msg).getD { flags := ["?"], bytes := "?" }
      s!"{e.uid}/{showFlags m.flags}/{if e.deleted then "1" else "0"}/{m.bytes}"))

/-! ### the reference run -/

abbrev UidLog := List ((String × Nat) × Nat)

structure RefRun where
  st : MailboxRef.State
  log : UidLog := []

/-- every (mailbox, UID) of the state that the log does not have yet (new entries sit at the end, above the old UIDNEXT) -/
def logNew (old new : MailboxRef.State) (log : UidLog) : UidLog :=
  new.mailboxes.foldl (fun log (name, b) =>
    let oldNext := ((old.mailbox? name).map (·.uidNext)).getD 1
    (b.entries.filter (fun e => e.uid ≥ oldNext)).foldl (fun log e => ((name, e.uid), e.msg) :: log) log) log

def resolveRef (r : RefRun) (mb : String) (uids : List Nat) : List MailboxRef.MsgRef :=
  let cur := ((r.st.mailbox? mb).map (·.entries)).getD []
  uids.filterMap fun u =>
    match cur.find? (·.uid == u) with
    | some e => some e.msg
    | none => r.log.lookup (mb, u)

def hasRecent (flags : List String) : Bool := flags.any fun f => MailboxRef.lower f == MailboxRef.recentKey

/-- what the reference expects the server to answer -/
def expectAns (st : MailboxRef.State) : Step → String
  | .append mb fl _ _ => if hasRecent fl then "bad" else if st.hasMailbox mb then "ok" else "no"
  | .store _ _ fl _ _ => if hasRecent fl then "bad" else "ok"
  | .copy _ dst _ _ => if st.hasMailbox dst then "ok" else "no"
  | .move _ dst _ _ => if st.hasMailbox dst then "ok" else "no"
  | _ => "ok"

def opOf (s : String) : MailboxRef.StoreOp := if s == "add" then .add else if s == "rem" then .remove else .set

/-- the UIDs of the authoritative `\Deleted` entries of `mb` among `named` -/
def authDeleted (st : MailboxRef.State) (mb : String) (named : List Nat) : List Nat :=
  match st.mailbox? mb with
  | some b => (b.entries.filter fun e => e.deleted && named.contains e.uid).map (·.uid)
  | none => []

/-- what EXPUNGE / CLOSE / UID EXPUNGE remove according to the reference: `refExpunge` for a session in sync that
    names the whole mailbox, else `refUidExpunge` on the UIDs of the view the command names -/
def expungeTarget (st : MailboxRef.State) (mb : String) (sync all : Bool) (named : List Nat) : List MailboxRef.MsgRef :=
  if sync && all then MailboxRef.deletedOf st mb
  else match st.mailbox? mb with
    | some b => (b.entries.filter fun e => e.deleted && named.contains e.uid).map (·.msg)
    | none => []

/-- the reference command of a step (message sets resolved), `none` for checkpoints -/
def refCmds (r : RefRun) : Step → List MailboxRef.Cmd
  | .append mb fl d _ => [.append mb fl d]
  | .bulk mb fl ds _ => ds.map fun d => .append mb fl d
  | .store mb op fl us _ => [.store mb (resolveRef r mb us) (opOf op) fl]
  | .expunge mb sync all named _ _ => [.expunge mb (expungeTarget r.st mb sync all named)]
  | .copy src dst us _ => [.copy src dst (resolveRef r src us)]
  | .move src dst us _ => [.move src dst (resolveRef r src us)]
  | _ => []

def stepAns : Step → String
  | .append _ _ _ a => a
  | .bulk _ _ _ a => a
  | .store _ _ _ _ a => a
  | .expunge _ _ _ _ _ a => a
  | .copy _ _ _ a => a
  | .move _ _ _ a => a
  | _ => "ok"

def refAdvance (r : RefRun) (st : Step) : RefRun :=
  let new := MailboxRef.refRun r.st (refCmds r st)
  { st := new, log := logNew r.st new r.log }

/-! ### comparing a dump with the reference state -/

def firstDiff (want got : String) : String :=
  let w := want.splitOn ";"
  let g := got.splitOn ";"
  if w.length != g.length then s!"class=mailbox-count want={w.length} got={g.length}" else
  match (w.zip g).find? (fun p => p.1 != p.2) with
  | none => "class=none"
  | some (a, b) =>
    match a.splitOn "=", b.splitOn "=" with
    | [ha, ea], [hb, eb] =>
      let ea := if ea == "" then [] else ea.splitOn "|"
      let eb := if eb == "" then [] else eb.splitOn "|"
      if ea.length != eb.length then s!"class=count mailbox={ha} want={ea.length} got={eb.length}" else
      match (ea.zip eb).find? (fun p => p.1 != p.2) with
      | none => if ha != hb then s!"class=uidnext mailbox={ha} got={hb}" else "class=none"
      | some (x, y) =>
        match x.splitOn "/", y.splitOn "/" with
        | [u1, f1, d1, b1], [u2, f2, d2, b2] =>
          if u1 != u2 then s!"class=uid mailbox={ha} want={u1} got={u2}"
          else if f1 != f2 then s!"class=flags mailbox={ha} uid={u1} want={f1} got={f2}"
          else if d1 != d2 then s!"class=deleted mailbox={ha} uid={u1} want={d1} got={d2}"
          else if b1 != b2 then s!"class=bytes mailbox={ha} uid={u1}"
          else "class=none"
        | _, _ => s!"class=malformed-entry mailbox={ha}"
    | _, _ => "class=malformed-dump"

structure Verdict where
  bad : Option String := none
  /-- the first EXPUNGE-class step at which the issuing session's view of `\Deleted` differs from the mailbox -/
  note : Option String := none
  steps : Nat := 0
  checks : Nat := 0
  msgs : Nat := 0
  refused : Nat := 0

def showNats (l : List Nat) : String := if l.isEmpty then "-" else ",".intercalate (l.map toString)

/-- diagnosis only (the verdict is the content at the next checkpoint): does the view of the session that issues an
    EXPUNGE-class step show, among the messages it names and the mailbox still holds, exactly the authoritative
    `\Deleted` ones? -/
def expungeViewNote (st : MailboxRef.State) (i : Nat) : Step → Option String
  | .expunge mb _ _ named us _ =>
    let cur := ((st.mailbox? mb).map (·.entries)).getD []
    let viewDel := us.filter fun u => cur.any (·.uid == u)
    let auth := authDeleted st mb named
    if viewDel == auth then none
    else some s!"expunge-view=differs at-step={i} mailbox={mb} view-deleted={showNats viewDel} authoritative-deleted={showNats auth}"
  | _ => none

def judgeLoop : List Step → Nat → RefRun → Verdict → Verdict
  | [], _, _, v => v
  | st :: rest, i, r, v =>
    if v.bad.isSome then v else
    match st with
    | .junk w => { v with bad := some s!"cause=malformed-step step={i} word={w.take 40}" }
    | .check dump =>
      let want := dumpState r.st
      if want == dump then
        judgeLoop rest (i + 1) r { v with checks := v.checks + 1, msgs := v.msgs + (r.st.mailboxes.map (·.2.entries.length)).sum }
      else { v with bad := some s!"cause=content {firstDiff want dump} step={i} checkpoint={v.checks + 1}" }
    | _ =>
      let v := if v.note.isSome then v else { v with note := expungeViewNote r.st i st }
      let want := expectAns r.st st
      let got := stepAns st
      if got == "nofault" then judgeLoop rest (i + 1) r { v with steps := v.steps + 1, refused := v.refused + 1 }
      else if want != got then { v with bad := some s!"cause=answer step={i} want={want} got={got}" }
      else if got == "ok" then judgeLoop rest (i + 1) (refAdvance r st) { v with steps := v.steps + 1 }
      else judgeLoop rest (i + 1) r { v with steps := v.steps + 1, refused := v.refused + 1 }

def initRef (mailboxes : List String) : RefRun :=
  { st := { mailboxes := mailboxes.map fun n => (n, {}) } }

/-! ### the model run -/

open Gluon.Act

def env : Env := { sites := factSites, rid := fun k => s!"r{k}", recovery := 0 }

abbrev PairLog := List ((String × Nat) × (Nat × String))

structure ModelRun where
  st : Act.State
  log : PairLog := []

def tableOf (s : Act.State) (mb : String) : Option MTable :=
  match s.db.mailboxes.find? (·.name == mb) with
  | some row => s.db.table? row.id
  | none => none

def logNewM (old new : Act.State) (log : PairLog) : PairLog :=
  new.db.mailboxes.foldl (fun log row =>
    let oldSeq := ((old.db.table? row.id).map (·.seq)).getD 0
    match new.db.table? row.id with
    | some t => (t.rows.filter (fun r => r.uid > oldSeq)).foldl (fun log r => ((row.name, r.uid), (r.msgId, r.remoteId)) :: log) log
    | none => log) log

def resolveM (r : ModelRun) (mb : String) (uids : List Nat) : Pairs :=
  let rows := ((tableOf r.st mb).map (·.rows)).getD []
  uids.filterMap fun u =>
    match rows.find? (·.uid == u) with
    | some row => some (row.msgId, row.remoteId)
    | none => r.log.lookup (mb, u)

def actionOf (s : String) : StoreAction := if s == "add" then .add else if s == "rem" then .rem else .set

/-- messages created through the connector (`applyMessagesCreated` for messages the index does not have): one
    `CreateMessages`, one `AddMessagesToMailbox` — population only, C06 owns this path -/
def bulkCreate (s : Act.State) (mb : String) (flags : List String) (digests : List String) : Answer × Act.State :=
  match s.db.mailboxes.find? (·.name == mb) with
  | none => (.no .noSuchMailbox, s)
  | some row =>
    let n := digests.length
    let ids := (List.range n).map fun i => (s.nextId + i, env.rid (s.nextRid + i))
    let reqs : List CreateReq := ids.map fun p =>
      { id := p.1, remoteId := p.2, date := 0, size := 0, body := "", bodyStructure := "", envelope := "", flags := FSet.new flags }
    match write (do createMessages factSites reqs; let _ ← addMessagesToMailbox factSites row.id ids; pure ()) s.db with
    | (.ok _, db') =>
      (.ok, { db := db', store := (ids.zip digests).map (fun p => (p.1.1, p.2)) ++ s.store, nextId := s.nextId + n, nextRid := s.nextRid + n })
    | (.error e, _) => (.no (.db e), s)

def secondOf (ans : String) : Second := { fails := ans == "nofault" }

def modelStep (r : ModelRun) : Step → Option (Answer × Act.State)
  | .append mb fl d a => some (Act.step env r.st (.append mb fl { bytes := d }) (secondOf a))
  | .bulk mb fl ds _ => some (bulkCreate r.st mb fl ds)
  | .store mb op fl us a => some (Act.step env r.st (.store mb (resolveM r mb us) (actionOf op) fl) (secondOf a))
  | .expunge mb _ _ _ us a => some (Act.step env r.st (.expunge mb (resolveM r mb us)) (secondOf a))
  | .copy src dst us a => some (Act.step env r.st (.copy src dst (resolveM r src us)) (secondOf a))
  | .move src dst us a => some (Act.step env r.st (.move src dst (resolveM r src us)) (secondOf a))
  | _ => none

def showAnswer : Answer → String
  | .ok => "ok"
  | .no _ => "no"
  | .bad => "bad"
  | .outOfScope => "oos"

def modelLoop : List Step → ModelRun → List String → List String → List String × List String
  | [], _, as, ds => (as.reverse, ds.reverse)
  | st :: rest, r, as, ds =>
    match st with
    | .check _ => modelLoop rest r as (dumpState (Gluon.C03.abs r.st) :: ds)
    | .junk _ => modelLoop rest r ("junk" :: as) ds
    | _ =>
      match modelStep r st with
      | some (a, s') => modelLoop rest { st := s', log := logNewM r.st s' r.log } (showAnswer a :: as) ds
      | none => modelLoop rest r as ds

def initModel (mailboxes : List String) : ModelRun :=
  let db := mailboxes.foldl (fun db n =>
    match createMailbox n n [] [] [] 1 db with
    | .ok (_, db') => db'
    | .error _ => db) DB.empty
  { st := { db := db } }

end Content

open Content in
def runC03Model (args : List String) : String :=
  match args with
  | mbs :: words =>
    let (as, ds) := modelLoop (words.map parseStep) (initModel (splitList mbs)) [] []
    " ".intercalate ((if as.isEmpty then "-" else ",".intercalate as) :: ds)
  | _ => "bad-op"

open Content in
def judgeC03Content (args : List String) : String :=
  match args with
  | mbs :: words =>
    let v := judgeLoop (words.map parseStep) 1 (initRef (splitList mbs)) {}
    match v.bad with
    | some why => match v.note with
      | some n => s!"violation {why} {n}"
      | none => s!"violation {why}"
    | none =>
      if v.checks == 0 then "ok trivial no-checkpoint"
      else s!"ok nontrivial steps={v.steps} refused={v.refused} checkpoints={v.checks} messages-compared={v.msgs}"
  | _ => "bad-op"

end Gluon.Driver
