/-
Dialects of the wire-level oracle `vh oracle c03content` (property C03).

A run is ONE line: the mailbox names, then one word per step in the order the harness executed them.

  c03-model         <mailboxes> <step> …     -> <answers> <dump> …      the MODEL (`Model/Actions.lean`) on the steps
  judge-c03-content <mailboxes> <step> …     -> ok … | violation cause=<class> step=<i> …
                                                the REFERENCE (`Spec/MailboxRef.lean`) on the steps, compared with
                                                what the server answered and with what fresh sessions saw

  mailboxes  `,`-joined names (all empty at the start, created in this order)
  step       A:<mb>:<flags>:<hex literal>:<ans>          APPEND
             B:<mb>:<flags>:<digest,…>:<ans>             messages created through the connector (population)
             S:<mb>:<add|rem|set>:<flags>:<uids>:<ans>   STORE / UID STORE (.SILENT or not)
             X:<mb>:<sync|stale>:<all|close|set>:<named>:<uids>:<ans>   EXPUNGE (`all`) / CLOSE (`close`) / UID EXPUNGE (`set`)
             C:<src>:<dst>:<uids>:<ans>                  COPY / UID COPY
             M:<src>:<dst>:<uids>:<ans>                  MOVE / UID MOVE
             K:<dump>                                    checkpoint: what a FRESH session saw
             W:<i>                                       the following steps are commands of session <i>
             O:<sel|exa>:<mb>:<ans>:<kept|dropped|none>  SELECT / EXAMINE of <mb> (`-` = the command without an argument);
                                                         refused: did the server keep the mailbox that was open?
  flags      `,`-joined as sent, `-` = none
  uids       the UIDs (in the issuing session's view, view order) of the messages the command's set selects; for
             X the selected messages the view shows as \Deleted; `-` = none.  A UID the mailbox no longer has (the
             view was stale) is resolved through the log of every (mailbox, UID) that ever existed.
  named      (X) the UIDs of the session's view the command speaks about: all of them (`all`: EXPUNGE, CLOSE) or
             those the UID set names (`set`: UID EXPUNGE).  The REFERENCE removes the messages that are `\Deleted`
             IN THE AUTHORITATIVE MAILBOX: all of them for `sync all` (`refExpunge`: the session had applied and
             flushed everything, Theorems/SysC03.lean), otherwise those among `named` (`refUidExpunge`: a stale view
             limits which messages a session can name, it never decides what is `\Deleted`).  `uids` — what the
             session's view shows as `\Deleted` — is what the MODEL of the code runs on (`Mailbox.Expunge` takes the
             snapshot's marks); the judge reports the first X step at which `uids` differs from the authoritative
             `\Deleted` entries among `named` as `expunge-view=…` next to the verdict.  A UID of `uids` the mailbox no
             longer has is an entry whose removal is pending in the session (`State.pendingExpunges`, gluon 9c5a27f):
             the model drops it as the code does (`Sel.notPending`).
  ans        ok | no | bad (what the server answered; ignored by c03-model) | nofault (answered NO because the harness
             made the transaction that queues the state updates fail: a legitimate NO; c03-model runs the step with
             `Second.fails`)
  dump       <mb>@<uidnext>=<uid>/<flags>/<0|1>/<digest>|… ; …      flags lower-cased, sorted, without \recent and
             \deleted; the third field is \Deleted; digest = FNV-1a 64 of the literal without the X-Pm-Gluon-Id line
  answers    `,`-joined ok|no|bad|oos, one per non-K step, `-` = none

  <mb> of S / X / C / M is the mailbox the harness believes the session has open (`-` = none).  The PROTOCOL STATE is
  kept by the two runs themselves: the judge follows `Spec/MailboxRefProto.lean` (a SELECT / EXAMINE answered OK opens
  the mailbox read-write / read-only, CLOSE answered OK closes it, a command answered NO / BAD changes nothing; STORE,
  EXPUNGE, UID EXPUNGE and MOVE may be answered OK only in a read-write session, CLOSE of a read-only session removes
  nothing, COPY from a read-only session may be answered either way), the model follows `Model/SelState.lean`
  (`State.Select` / `State.Examine` / the handlers' read-only checks).  A session command whose <mb> is not the mailbox
  the reference has open for that session is reported as `cause=protocol-state` (the server kept or dropped a mailbox
  where the reference does not).

In both runs the bytes of a message are represented by their digest.  Core Lean only.
-/
import GluonModel.Model.ActionsAbs
import GluonModel.Model.DBFacts
import GluonModel.Model.SelState
import GluonModel.Spec.MailboxRefProto

-- DIALECT: c03-model runC03Model
-- DIALECT: judge-c03-content judgeC03Content
namespace Gluon.Driver
namespace Content
open Gluon.DB

/-! ### codec -/

def splitList (s : String) : List String := if s == "-" || s == "" then [] else s.splitOn ","

def hexVal (c : Char) : Nat :=
  if '0' ≤ c && c ≤ '9' then c.toNat - '0'.toNat
  else if 'a' ≤ c && c ≤ 'f' then c.toNat - 'a'.toNat + 10
  else if 'A' ≤ c && c ≤ 'F' then c.toNat - 'A'.toNat + 10 else 0

def hexBytes : List Char → List UInt8
  | a :: b :: rest => UInt8.ofNat (hexVal a * 16 + hexVal b) :: hexBytes rest
  | _ => []

/-- FNV-1a, 64 bit -/
def fnv (bs : List UInt8) : UInt64 := bs.foldl (fun h b => (h ^^^ b.toUInt64) * 1099511628211) 14695981039346656037

def digestOfHex (h : String) : String := toString (fnv (hexBytes h.toList)).toNat

inductive Step where
  | append (mb : String) (flags : List String) (digest : String) (ans : String)
  | bulk (mb : String) (flags : List String) (digests : List String) (ans : String)
  | store (mb : String) (op : String) (flags : List String) (uids : List Nat) (ans : String)
  | expunge (mb : String) (sync all close : Bool) (named uids : List Nat) (ans : String)
  | who (i : Nat)
  | openMb (ro : Bool) (mb : String) (ans : String) (after : String)
  | copy (src dst : String) (uids : List Nat) (ans : String)
  | move (src dst : String) (uids : List Nat) (ans : String)
  | check (dump : String)
  | junk (w : String)

def nats (s : String) : List Nat := (splitList s).map fun x => x.toNat?.getD 0

def parseStep (w : String) : Step :=
  match w.splitOn ":" with
  | ["A", mb, fl, hex, ans] => .append mb (splitList fl) (digestOfHex hex) ans
  | ["B", mb, fl, ds, ans] => .bulk mb (splitList fl) (splitList ds) ans
  | ["S", mb, op, fl, us, ans] => .store mb op (splitList fl) (nats us) ans
  | ["X", mb, mode, what, named, us, ans] =>
    .expunge mb (mode == "sync") (what != "set") (what == "close") (nats named) (nats us) ans
  | ["W", i] => .who (i.toNat?.getD 0)
  | ["O", kind, mb, ans, after] => .openMb (kind == "exa") mb ans after
  | ["C", src, dst, us, ans] => .copy src dst (nats us) ans
  | ["M", src, dst, us, ans] => .move src dst (nats us) ans
  | "K" :: rest => .check (":".intercalate rest)
  | _ => .junk w

def sortStrings (l : List String) : List String := (l.toArray.qsort (· < ·)).toList

def showFlags (l : List String) : String := if l.isEmpty then "-" else ",".intercalate (sortStrings l)

/-- a reference state in the dump format -/
def dumpState (s : MailboxRef.State) : String :=
  ";".intercalate (s.mailboxes.map fun (name, b) =>
    s!"{name}@{b.uidNext}=" ++ "|".intercalate (b.entries.map fun e =>
      let m := (s.messages.lookup e.msg).getD { flags := ["?"], bytes := "?" }
      s!"{e.uid}/{showFlags m.flags}/{if e.deleted then "1" else "0"}/{m.bytes}"))

/-! ### the reference run -/

abbrev UidLog := List ((String × Nat) × Nat)

structure RefRun where
  st : MailboxRef.State
  log : UidLog := []
  /-- the reference's protocol state per session (`Spec/MailboxRefProto.lean`) -/
  protos : List (Nat × MailboxRef.Proto) := []
  /-- the session that issues the following steps -/
  cur : Nat := 0

def RefRun.proto (r : RefRun) : MailboxRef.Proto := (r.protos.lookup r.cur).getD {}

def RefRun.setProto (r : RefRun) (p : MailboxRef.Proto) : RefRun :=
  { r with protos := (r.cur, p) :: r.protos.filter (·.1 != r.cur) }

/-- every (mailbox, UID) of the state that the log does not have yet (new entries sit at the end, above the old UIDNEXT) -/
def logNew (old new : MailboxRef.State) (log : UidLog) : UidLog :=
  new.mailboxes.foldl (fun log (name, b) =>
    let oldNext := ((old.mailbox? name).map (·.uidNext)).getD 1
    (b.entries.filter (fun e => e.uid ≥ oldNext)).foldl (fun log e => ((name, e.uid), e.msg) :: log) log) log

def resolveRef (r : RefRun) (mb : String) (uids : List Nat) : List MailboxRef.MsgRef :=
  let cur := ((r.st.mailbox? mb).map (·.entries)).getD []
  uids.filterMap fun u =>
    match cur.find? (·.uid == u) with
    | some e => some e.msg
    | none => r.log.lookup (mb, u)

def hasRecent (flags : List String) : Bool := flags.any fun f => MailboxRef.lower f == MailboxRef.recentKey

/-- what the reference expects the server to answer to APPEND / connector creations (no protocol state involved) -/
def expectAns (st : MailboxRef.State) : Step → String
  | .append mb fl _ _ => if hasRecent fl then "bad" else if st.hasMailbox mb then "ok" else "no"
  | _ => "ok"

/-- the UIDs of the authoritative `\Deleted` entries of `mb` among `named` -/
def authDeleted (st : MailboxRef.State) (mb : String) (named : List Nat) : List Nat :=
  match st.mailbox? mb with
  | some b => (b.entries.filter fun e => e.deleted && named.contains e.uid).map (·.uid)
  | none => []

/-- what EXPUNGE / CLOSE / UID EXPUNGE remove according to the reference: `refExpunge` for a session in sync that
    names the whole mailbox, else `refUidExpunge` on the UIDs of the view the command names -/
def expungeTarget (st : MailboxRef.State) (mb : String) (sync all : Bool) (named : List Nat) : List MailboxRef.MsgRef :=
  if sync && all then MailboxRef.deletedOf st mb
  else match st.mailbox? mb with
    | some b => (b.entries.filter fun e => e.deleted && named.contains e.uid).map (·.msg)
    | none => []

/-- the reference commands of a step that does not depend on a session (message sets resolved) -/
def refCmds (_r : RefRun) : Step → List MailboxRef.Cmd
  | .append mb fl d _ => [.append mb fl d]
  | .bulk mb fl ds _ => ds.map fun d => .append mb fl d
  | _ => []

def opOf (s : String) : MailboxRef.StoreOp := if s == "add" then .add else if s == "rem" then .remove else .set

/-- the mailbox the harness believes the issuing session has open (`-` = none) -/
def stepMb : Step → Option String
  | .store mb _ _ _ _ => some mb
  | .expunge mb _ _ _ _ _ _ => some mb
  | .copy src _ _ _ => some src
  | .move src _ _ _ => some src
  | _ => none

/-- the command of the session layer of a step (message sets resolved against the mailbox the REFERENCE has open) -/
def sessCmdOf (r : RefRun) : Step → Option MailboxRef.SessCmd
  | .openMb ro mb _ _ => some (if ro then .examine mb else .select mb)
  | .store _ op fl us _ => some (.store (resolveRef r (r.proto.selected.getD "-") us) (opOf op) fl)
  | .expunge _ sync all close named _ _ =>
    let msgs := expungeTarget r.st (r.proto.selected.getD "-") sync all named
    some (if close then .close msgs else .expunge msgs)
  | .copy _ dst us _ => some (.copy dst (resolveRef r (r.proto.selected.getD "-") us))
  | .move _ dst us _ => some (.move dst (resolveRef r (r.proto.selected.getD "-") us))
  | _ => none

/-- the answers the reference accepts for a command of the session layer: OK only where `permits` says so; a STORE
    naming `\Recent` and a SELECT / EXAMINE without an argument are BAD; COPY from a read-only session may be refused
    (gluon does) or done (RFC 3501) -/
def acceptedAns (r : RefRun) (st : Step) (c : MailboxRef.SessCmd) : List String :=
  let p := r.proto
  let permitted := MailboxRef.permits r.st p c
  match st with
  | .openMb _ mb _ _ => if mb == "-" then ["bad"] else if permitted then ["ok"] else ["no"]
  | .store _ _ fl _ _ =>
    if hasRecent fl then (if permitted then ["bad"] else ["no", "bad"]) else if permitted then ["ok"] else ["no"]
  | .copy _ _ _ _ => if !permitted then ["no"] else if p.readOnly then ["ok", "no"] else ["ok"]
  | _ => if permitted then ["ok"] else ["no"]

def stepAns : Step → String
  | .append _ _ _ a => a
  | .bulk _ _ _ a => a
  | .store _ _ _ _ a => a
  | .expunge _ _ _ _ _ _ a => a
  | .copy _ _ _ a => a
  | .move _ _ _ a => a
  | .openMb _ _ a _ => a
  | _ => "ok"

def refAdvance (r : RefRun) (st : Step) : RefRun :=
  let new := MailboxRef.refRun r.st (refCmds r st)
  { r with st := new, log := logNew r.st new r.log }

/-- a command of the session layer that was answered OK: its `effect` -/
def refAdvanceSess (r : RefRun) (c : MailboxRef.SessCmd) : RefRun :=
  let e := MailboxRef.effect r.st r.proto c
  { (r.setProto e.1) with st := e.2, log := logNew r.st e.2 r.log }

/-! ### comparing a dump with the reference state -/

def firstDiff (want got : String) : String :=
  let w := want.splitOn ";"
  let g := got.splitOn ";"
  if w.length != g.length then s!"class=mailbox-count want={w.length} got={g.length}" else
  match (w.zip g).find? (fun p => p.1 != p.2) with
  | none => "class=none"
  | some (a, b) =>
    match a.splitOn "=", b.splitOn "=" with
    | [ha, ea], [hb, eb] =>
      let ea := if ea == "" then [] else ea.splitOn "|"
      let eb := if eb == "" then [] else eb.splitOn "|"
      if ea.length != eb.length then s!"class=count mailbox={ha} want={ea.length} got={eb.length}" else
      match (ea.zip eb).find? (fun p => p.1 != p.2) with
      | none => if ha != hb then s!"class=uidnext mailbox={ha} got={hb}" else "class=none"
      | some (x, y) =>
        match x.splitOn "/", y.splitOn "/" with
        | [u1, f1, d1, b1], [u2, f2, d2, b2] =>
          if u1 != u2 then s!"class=uid mailbox={ha} want={u1} got={u2}"
          else if f1 != f2 then s!"class=flags mailbox={ha} uid={u1} want={f1} got={f2}"
          else if d1 != d2 then s!"class=deleted mailbox={ha} uid={u1} want={d1} got={d2}"
          else if b1 != b2 then s!"class=bytes mailbox={ha} uid={u1}"
          else "class=none"
        | _, _ => s!"class=malformed-entry mailbox={ha}"
    | _, _ => "class=malformed-dump"

structure Verdict where
  bad : Option String := none
  /-- the first EXPUNGE-class step at which the issuing session's view of `\Deleted` differs from the mailbox -/
  note : Option String := none
  steps : Nat := 0
  checks : Nat := 0
  msgs : Nat := 0
  refused : Nat := 0

def showNats (l : List Nat) : String := if l.isEmpty then "-" else ",".intercalate (l.map toString)

/-- diagnosis only (the verdict is the content at the next checkpoint): does the view of the session that issues an
    EXPUNGE-class step show, among the messages it names and the mailbox still holds, exactly the authoritative
    `\Deleted` ones? -/
def expungeViewNote (st : MailboxRef.State) (i : Nat) : Step → Option String
  | .expunge mb _ _ _ named us _ =>
    let cur := ((st.mailbox? mb).map (·.entries)).getD []
    let viewDel := us.filter fun u => cur.any (·.uid == u)
    let auth := authDeleted st mb named
    if viewDel == auth then none
    else some s!"expunge-view=differs at-step={i} mailbox={mb} view-deleted={showNats viewDel} authoritative-deleted={showNats auth}"
  | _ => none

def judgeLoop : List Step → Nat → RefRun → Verdict → Verdict
  | [], _, _, v => v
  | st :: rest, i, r, v =>
    if v.bad.isSome then v else
    match st with
    | .junk w => { v with bad := some s!"cause=malformed-step step={i} word={w.take 40}" }
    | .check dump =>
      let want := dumpState r.st
      if want == dump then
        judgeLoop rest (i + 1) r { v with checks := v.checks + 1, msgs := v.msgs + (r.st.mailboxes.map (·.2.entries.length)).sum }
      else { v with bad := some s!"cause=content {firstDiff want dump} step={i} checkpoint={v.checks + 1}" }
    | .who k => judgeLoop rest i { r with cur := k } v
    | _ =>
      let v := if v.note.isSome then v else { v with note := expungeViewNote r.st i st }
      let got := stepAns st
      match sessCmdOf r st with
      | none =>
        -- APPEND / connector creations
        let want := expectAns r.st st
        if got == "nofault" then judgeLoop rest (i + 1) r { v with steps := v.steps + 1, refused := v.refused + 1 }
        else if want != got then { v with bad := some s!"cause=answer step={i} want={want} got={got}" }
        else if got == "ok" then judgeLoop rest (i + 1) (refAdvance r st) { v with steps := v.steps + 1 }
        else judgeLoop rest (i + 1) r { v with steps := v.steps + 1, refused := v.refused + 1 }
      | some c =>
        let p := r.proto
        let mode := if p.selected.isNone then "none" else if p.readOnly then "read-only" else "read-write"
        let believed := (stepMb st).map fun mb => if mb == "-" then none else some mb
        if believed.isSome && believed != some p.selected then
          { v with bad := some s!"cause=protocol-state step={i} session={r.cur} server-has-open={(stepMb st).getD "-"} reference-has-open={p.selected.getD "-"}" }
        else if got == "nofault" then judgeLoop rest (i + 1) r { v with steps := v.steps + 1, refused := v.refused + 1 }
        else
        let acc := acceptedAns r st c
        if !acc.contains got then
          { v with bad := some s!"cause=answer step={i} want={"|".intercalate acc} got={got} session={r.cur} open={p.selected.getD "-"} mode={mode}" }
        else if got == "ok" then judgeLoop rest (i + 1) (refAdvanceSess r c) { v with steps := v.steps + 1 }
        else
          -- refused: nothing changes; a refused SELECT / EXAMINE after which the server has no mailbox open any more
          -- (RFC 3501 §6.3.1; gluon keeps the old one) is accepted as well
          let r := match st with
            | .openMb _ _ _ "dropped" => r.setProto {}
            | _ => r
          judgeLoop rest (i + 1) r { v with steps := v.steps + 1, refused := v.refused + 1 }

def initRef (mailboxes : List String) : RefRun :=
  { st := { mailboxes := mailboxes.map fun n => (n, {}) } }

/-! ### the model run -/

open Gluon.Act

def env : Env := { sites := factSites, rid := fun k => s!"r{k}", recovery := 0 }

abbrev PairLog := List ((String × Nat) × (Nat × String))

structure ModelRun where
  st : Act.State
  log : PairLog := []
  /-- `state.State` (`snap`, `ro`) per session (`Model/SelState.lean`) -/
  sess : List (Nat × Sel.Sess) := []
  cur : Nat := 0

def ModelRun.session (r : ModelRun) : Sel.Sess := (r.sess.lookup r.cur).getD {}

def ModelRun.setSession (r : ModelRun) (x : Sel.Sess) : ModelRun :=
  { r with sess := (r.cur, x) :: r.sess.filter (·.1 != r.cur) }

def tableOf (s : Act.State) (mb : String) : Option MTable :=
  match s.db.mailboxes.find? (·.name == mb) with
  | some row => s.db.table? row.id
  | none => none

def logNewM (old new : Act.State) (log : PairLog) : PairLog :=
  new.db.mailboxes.foldl (fun log row =>
    let oldSeq := ((old.db.table? row.id).map (·.seq)).getD 0
    match new.db.table? row.id with
    | some t => (t.rows.filter (fun r => r.uid > oldSeq)).foldl (fun log r => ((row.name, r.uid), (r.msgId, r.remoteId)) :: log) log
    | none => log) log

def resolveM (r : ModelRun) (mb : String) (uids : List Nat) : Pairs :=
  let rows := ((tableOf r.st mb).map (·.rows)).getD []
  uids.filterMap fun u =>
    match rows.find? (·.uid == u) with
    | some row => some (row.msgId, row.remoteId)
    | none => r.log.lookup (mb, u)

def actionOf (s : String) : StoreAction := if s == "add" then .add else if s == "rem" then .rem else .set

/-- messages created through the connector (`applyMessagesCreated` for messages the index does not have): one
    `CreateMessages`, one `AddMessagesToMailbox` — population only, C06 owns this path -/
def bulkCreate (s : Act.State) (mb : String) (flags : List String) (digests : List String) : Answer × Act.State :=
  match s.db.mailboxes.find? (·.name == mb) with
  | none => (.no .noSuchMailbox, s)
  | some row =>
    let n := digests.length
    let ids := (List.range n).map fun i => (s.nextId + i, env.rid (s.nextRid + i))
    let reqs : List CreateReq := ids.map fun p =>
      { id := p.1, remoteId := p.2, date := 0, size := 0, body := "", bodyStructure := "", envelope := "", flags := FSet.new flags }
    match write (do createMessages factSites reqs; let _ ← addMessagesToMailbox factSites row.id ids; pure ()) s.db with
    | (.ok _, db') =>
      (.ok, { db := db', store := (ids.zip digests).map (fun p => (p.1.1, p.2)) ++ s.store, nextId := s.nextId + n, nextRid := s.nextRid + n })
    | (.error e, _) => (.no (.db e), s)

def secondOf (ans : String) : Second := { fails := ans == "nofault" }

/-- `State.pendingExpunges` of the issuing session: every step runs after a barrier (each session has taken every queued
    update into `state.res`), so an entry of the view whose UID the mailbox no longer has is one whose removal is pending -/
def pendingOf (r : ModelRun) (mb : String) (uids : List Nat) : List MessageId :=
  let rows := ((tableOf r.st mb).map (·.rows)).getD []
  uids.filterMap fun u =>
    if rows.any (·.uid == u) then none else (r.log.lookup (mb, u)).map (·.1)

/-- the command of the session layer of a step (message sets resolved against the mailbox the MODEL has selected) -/
def selCmdOf (r : ModelRun) : Step → Option Sel.Cmd
  | .openMb ro mb _ _ => some (if ro then .examine mb else .select mb)
  | .store _ op fl us _ => some (.store (resolveM r (r.session.snap.getD "-") us) (actionOf op) fl)
  | .expunge _ _ _ close _ us _ =>
    let mb := r.session.snap.getD "-"
    let msgs := resolveM r mb us
    let pending := pendingOf r mb us
    some (if close then .close msgs pending else .expunge msgs pending)
  | .copy _ dst us _ => some (.copy dst (resolveM r (r.session.snap.getD "-") us))
  | .move _ dst us _ => some (.move dst (resolveM r (r.session.snap.getD "-") us))
  | _ => none

def modelStep (r : ModelRun) : Step → Option (Answer × Act.State)
  | .append mb fl d a => some (Act.step env r.st (.append mb fl { bytes := d }) (secondOf a))
  | .bulk mb fl ds _ => some (bulkCreate r.st mb fl ds)
  | _ => none

def showAnswer : Answer → String
  | .ok => "ok"
  | .no _ => "no"
  | .bad => "bad"
  | .outOfScope => "oos"

/-- commands the command parser answers BAD before any handler runs (imap/command): SELECT / EXAMINE without a mailbox,
    STORE with `\\Recent` in its flag list ("Recent Flag is not allowed in this context") -/
def parserRefuses : Step → Bool
  | .openMb _ mb _ _ => mb == "-"
  | .store _ _ fl _ _ => hasRecent fl
  | _ => false

def showSelAnswer : Sel.Answer → String
  | .of a => showAnswer a
  | .readOnly => "no"

def modelLoop : List Step → ModelRun → List String → List String → List String × List String
  | [], _, as, ds => (as.reverse, ds.reverse)
  | st :: rest, r, as, ds =>
    match st with
    | .check _ => modelLoop rest r as (dumpState (Gluon.C03.abs r.st) :: ds)
    | .junk _ => modelLoop rest r ("junk" :: as) ds
    | .who k => modelLoop rest { r with cur := k } as ds
    | _ =>
      if parserRefuses st then modelLoop rest r ("bad" :: as) ds else
      match selCmdOf r st with
      | some c =>
        let (a, x, s') := Sel.step env r.st r.session c (secondOf (stepAns st))
        modelLoop rest { (r.setSession x) with st := s', log := logNewM r.st s' r.log } (showSelAnswer a :: as) ds
      | none =>
        match modelStep r st with
        | some (a, s') => modelLoop rest { r with st := s', log := logNewM r.st s' r.log } (showAnswer a :: as) ds
        | none => modelLoop rest r as ds

def initModel (mailboxes : List String) : ModelRun :=
  let db := mailboxes.foldl (fun db n =>
    match createMailbox n n [] [] [] 1 db with
    | .ok (_, db') => db'
    | .error _ => db) DB.empty
  { st := { db := db } }

end Content

open Content in
def runC03Model (args : List String) : String :=
  match args with
  | mbs :: words =>
    let (as, ds) := modelLoop (words.map parseStep) (initModel (splitList mbs)) [] []
    " ".intercalate ((if as.isEmpty then "-" else ",".intercalate as) :: ds)
  | _ => "bad-op"

open Content in
def judgeC03Content (args : List String) : String :=
  match args with
  | mbs :: words =>
    let v := judgeLoop (words.map parseStep) 1 (initRef (splitList mbs)) {}
    match v.bad with
    | some why => match v.note with
      | some n => s!"violation {why} {n}"
      | none => s!"violation {why}"
    | none =>
      if v.checks == 0 then "ok trivial no-checkpoint"
      else s!"ok nontrivial steps={v.steps} refused={v.refused} checkpoints={v.checks} messages-compared={v.msgs}"
  | _ => "bad-op"

end Gluon.Driver
