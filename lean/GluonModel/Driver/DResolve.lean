/- dialects `resolve` and `seqset-parse` (C16): message-set resolution, model side.

   resolve      <seq|uid> <uids> <set>      set  = b:e,b:e,…   (Go ints, 0 = `*`)
                                            uids = u1,u2,… | -  (ascending; message i has id i)
        ->  ok <seq:id:uid,…|->  |  err nosuchmessage  |  panic
   seqset-parse <seq|uid> <uids> <hex of the text>
        ->  err parse  |  <as for resolve> ranges=<b:e,…> used=<bytes consumed>
-/
import GluonModel.Model.SeqSet

-- DIALECT: resolve runResolve
-- DIALECT: seqset-parse runSeqSetParse
-- DIALECT: c16-wire-model runC16WireModel
namespace Gluon.Driver.Resolve
open Gluon Gluon.SeqSet

def splitNE (s : String) (sep : String) : List String :=
  if s == "-" || s == "" then [] else s.splitOn sep

def parseUids (s : String) : Option (List Nat) := (splitNE s ",").mapM String.toNat?

/-- the snapshot the Go side builds: message i (1-based) has id i and no flags -/
def mkSnap (uids : List Nat) : Snap := (uids.zipIdx 1).map fun p => Snap.mkMsg p.2 p.1 []

def parseRange (s : String) : Option SeqRange :=
  match s.splitOn ":" with
  | [b, e] => do some ⟨← b.toInt?, ← e.toInt?⟩
  | _ => none

def parseSet (s : String) : Option (List SeqRange) := (splitNE s ",").mapM parseRange

def showMsgs (ms : List SeqMsg) : String :=
  if ms.isEmpty then "-" else ",".intercalate (ms.map fun m => s!"{m.seq}:{m.msg.id}:{m.msg.uid}")

def showResult : Except Err (List SeqMsg) → String
  | .ok ms => s!"ok {showMsgs ms}"
  | .error .noSuchMessage => "err nosuchmessage"
  | .error .panic => "panic"
  | .error .outOfOrder => "err outoforder"

def showRanges (rs : List SeqRange) : String :=
  if rs.isEmpty then "-" else ",".intercalate (rs.map fun r => s!"{r.b}:{r.e}")

def hexVal (c : Char) : Option Nat :=
  if '0' ≤ c ∧ c ≤ '9' then some (c.toNat - 48)
  else if 'a' ≤ c ∧ c ≤ 'f' then some (c.toNat - 87)
  else if 'A' ≤ c ∧ c ≤ 'F' then some (c.toNat - 55)
  else none

def unhexAux : List Char → Option (List Char)
  | [] => some []
  | [_] => none
  | a :: b :: rest => do
    let x ← hexVal a
    let y ← hexVal b
    let more ← unhexAux rest
    some (Char.ofNat (16 * x + y) :: more)

/-- hex text → bytes (as `Char`s 0..255); `-` is the empty text -/
def unhex (s : String) : Option (List Char) := if s == "-" then some [] else unhexAux s.toList

def modeOf (s : String) : Option Bool :=
  if s == "uid" then some true else if s == "seq" then some false else none

def run (uidMode : Bool) (s : Snap) (set : List SeqRange) : Except Err (List SeqMsg) :=
  if uidMode then getMessagesInUIDRange s set else getMessagesInSeqRange s set

end Resolve

open Resolve Gluon.SeqSet in
def runResolve (args : List String) : String :=
  match args with
  | [mode, uids, set] =>
    match modeOf mode, parseUids uids, parseSet set with
    | some m, some u, some st => showResult (run m (mkSnap u) st)
    | _, _, _ => "bad-op"
  | _ => "bad-op"

open Resolve Gluon.SeqSet in
def runSeqSetParse (args : List String) : String :=
  match args with
  | [mode, uids, hex] =>
    match modeOf mode, parseUids uids, unhex hex with
    | some m, some u, some text =>
      match parseSeqSet text with
      | none => "err parse"
      | some (set, rest) =>
        s!"{showResult (run m (mkSnap u) set)} ranges={showRanges set} used={text.length - rest.length}"
    | _, _, _ => "bad-op"
  | _ => "bad-op"

/-- What the model expects on the wire (oracle `c16wire`):
    `c16-wire-model <KIND> <uids> <hex text>`  ->  `<OK|BAD|NO|PANIC> <sequence numbers, ascending|->`.
    FETCH, STORE, COPY, MOVE and UID EXPUNGE work on `snapshot.getMessagesInRange` (every message
    once).  A failing SEARCH program is answered NO (handleOther), ErrNoSuchMessage from
    FETCH/STORE/COPY/MOVE and parse errors are answered BAD. -/
def runC16WireModel (args : List String) : String :=
  open Resolve Gluon.SeqSet in
  match args with
  | [kind, uids, hex] =>
    match parseUids uids, unhex hex with
    | some u, some text =>
      let s := mkSnap u
      let sortNats (l : List Nat) : List Nat := (l.toArray.qsort (· < ·)).toList
      let showNats (l : List Nat) : String := if l.isEmpty then "-" else ",".intercalate (l.map toString)
      match parseSeqSet text with
      | none => "BAD -"
      | some (set, _) =>
        let uidMode := ["UIDFETCH", "UIDSTORE", "UIDCOPY", "UIDMOVE", "UIDEXPUNGE"].contains kind
        if ["SEARCH", "SEARCHUID", "UIDSEARCHUID"].contains kind then
          match (if kind == "SEARCH" then searchSeqSet s set else searchUIDSet s set) with
          | .ok ms => s!"OK {showNats (ms.map (·.seq))}"
          | .error .panic => "PANIC -"
          | .error _ => "NO -"
        else
          match getMessagesInRange uidMode s set with
          | .error .panic => "PANIC -"
          | .error _ => "BAD -"
          | .ok ms => s!"OK {showNats (sortNats (ms.map (·.seq)))}"
    | _, _ => "bad-op"
  | _ => "bad-op"

end Gluon.Driver
