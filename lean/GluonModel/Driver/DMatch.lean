/-
Dialects of C14 (LIST/LSUB name selection), model side + judge.

Strings travel hex-encoded (UTF-8 bytes), `~` = empty string; lists are `,`-joined, `-` = empty list.

  match <ref> <pattern> <del> <name>             -> ok <res> <0|1>          (the implementation side prints `panic` if `match` panics)
  match-small …same…                             (exhaustive small universe)
  match-baddelim …same…                          (stream with delimiters `\ * %`, reference/pattern that is not valid UTF-8)
  superiors <del> <name>                         -> <list>
  inferiors <del> <parent> <names>               -> <list>
  getmatches <ref> <pattern> <del> <lsub 0|1> <mboxes>   -> ok <name>=<att+att…>;… | ok -
      mboxes: <name>:<subscribed 0|1>:<ent 0|1>:<attr+attr…|-> joined by `;`
  judge-c14-match <match op words> => <impl answer>      -> ok trivial | ok nontrivial… | violation …
  judge-c14-getmatches <getmatches op words> => <impl answer>
-/
import GluonModel.Model.Match
import GluonModel.Spec.Wildcard

-- DIALECT: match runMatch
-- DIALECT: match-baddelim runMatch
-- DIALECT: match-small runMatch
-- DIALECT: superiors runSuperiors
-- DIALECT: inferiors runInferiors
-- DIALECT: getmatches runGetMatches
-- DIALECT: judge-c14-match judgeC14Match
-- DIALECT: judge-c14-getmatches judgeC14GetMatches
namespace Gluon.Driver
open Gluon.Match

namespace Hex

def digit (c : Char) : Option Nat :=
  if '0' ≤ c ∧ c ≤ '9' then some (c.toNat - '0'.toNat)
  else if 'a' ≤ c ∧ c ≤ 'f' then some (c.toNat - 'a'.toNat + 10)
  else none

def bytes : List Char → Option (List UInt8)
  | [] => some []
  | a :: b :: rest => do
    let x ← digit a
    let y ← digit b
    let r ← bytes rest
    some (UInt8.ofNat (x * 16 + y) :: r)
  | _ => none

/-- hex → bytes (`~` = empty) -/
def decodeBytes (s : String) : Option ByteArray :=
  if s == "~" then some ByteArray.empty else (bytes s.toList).map fun l => ByteArray.mk l.toArray

/-- hex → scalar sequence; `none` if malformed or not valid UTF-8 -/
def decode (s : String) : Option Name := do
  let b ← decodeBytes s
  let str ← String.fromUTF8? b
  some str.toList

def hexDigit (n : Nat) : Char := if n < 10 then Char.ofNat ('0'.toNat + n) else Char.ofNat ('a'.toNat + n - 10)

def encode (n : Name) : String :=
  if n.isEmpty then "~" else
  String.ofList ((String.ofList n).toUTF8.toList.flatMap fun b => [hexDigit (b.toNat / 16), hexDigit (b.toNat % 16)])

def decodeList (s : String) : Option (List Name) :=
  if s == "-" then some [] else (s.splitOn ",").mapM decode

def encodeList (l : List Name) : String := if l.isEmpty then "-" else ",".intercalate (l.map encode)

end Hex

def delim? (s : String) : Option Char :=
  match Hex.decode s with
  | some [c] => some c
  | _ => none

def sortStr (l : List String) : List String := (l.toArray.qsort (· < ·)).toList

/-- `match <ref> <pattern> <del> <name>` -/
def runMatch (args : List String) : String :=
  match args with
  | [ref, pat, del, name] =>
    match delim? del, Hex.decode name with
    | some d, some n =>
      match Hex.decode ref, Hex.decode pat with
      | some r, some p =>
        (match matchName r p d n with
        | .ret res ok => s!"ok {Hex.encode res} {if ok then 1 else 0}")
      | _, _ =>
        -- reference or pattern is not valid UTF-8: regexp.Compile rejects the expression text
        -- (`invalid UTF-8`) and `match` answers "", false — unless the pattern is empty
        -- (matchRoot: not modelled)
        if pat == "~" then "unmodelled" else
        if (Hex.decodeBytes ref).isSome && (Hex.decodeBytes pat).isSome then "ok ~ 0" else "bad-op"
    | _, _ => "bad-op"
  | _ => "bad-op"

/-- `superiors <del> <name>` -/
def runSuperiors (args : List String) : String :=
  match args with
  | [del, name] =>
    match delim? del, Hex.decode name with
    | some d, some n => Hex.encodeList (listSuperiors d n)
    | _, _ => "bad-op"
  | _ => "bad-op"

/-- `inferiors <del> <parent> <names>` -/
def runInferiors (args : List String) : String :=
  match args with
  | [del, parent, names] =>
    match delim? del, Hex.decode parent, Hex.decodeList names with
    | some d, some p, some ns => Hex.encodeList (listInferiors d p ns)
    | _, _, _ => "bad-op"
  | _ => "bad-op"

def parseMBox (s : String) : Option MBox :=
  match s.splitOn ":" with
  | [name, sub, ent, attrs] => do
    let n ← Hex.decode name
    let ats := if attrs == "-" then [] else attrs.splitOn "+"
    some { name := n, subscribed := sub == "1", ent := if ent == "1" then some ats else none }
  | _ => none

def parseMBoxes (s : String) : Option (List MBox) :=
  if s == "-" then some [] else (s.splitOn ";").mapM parseMBox

/-- canonical attribute rendering: lower-case, de-duplicated, sorted, `+`-joined -/
def showAtts : Atts → String
  | .noselect => "noselect"
  | .real attrs => "+".intercalate (sortStr ((attrs.map String.toLower) ++ ["unmarked"]).eraseDups)

def showMatches (m : Matches) : String :=
  if m.isEmpty then "-" else
  ";".intercalate (sortStr (m.map fun (n, a) => s!"{Hex.encode n}={showAtts a}"))

/-- `getmatches <ref> <pattern> <del> <lsub> <mboxes>` -/
def runGetMatches (args : List String) : String :=
  match args with
  | [ref, pat, del, lsub, mboxes] =>
    match Hex.decode ref, Hex.decode pat, delim? del, parseMBoxes mboxes with
    | some r, some p, some d, some all =>
      s!"ok {showMatches (getMatches all r p d (lsub == "1"))}"
    | _, _, _, _ => "bad-op"
  | _ => "bad-op"

/-! ### judges: the RFC reference semantics evaluated on the implementation's answer -/

def hasWildcard (p : Name) : Bool := p.contains '*' || p.contains '%'

/-- C14 / `match`: `ok <res> <flag>` must satisfy `Spec.MatchSpec` -/
def judgeC14Match (args : List String) : String :=
  -- a `#` comment line of a replay file is no op of any dialect: the implementation said `bad-dialect`
  if args.getLast? == some "bad-dialect" then "ok not-an-op" else
  match args with
  | ref :: pat :: del :: name :: "=>" :: ans =>
    match ans with
    | ["panic"] => s!"violation panic-in-match delimiter={del}"     -- no input may make `match` panic
    | ["ok", res, flag] =>
      -- a reference/pattern that is not valid UTF-8 cannot match any (valid UTF-8) mailbox name
      if ((Hex.decode ref).isNone || (Hex.decode pat).isNone) && pat != "~" && (Hex.decode name).isSome then
        (if res == "~" && flag == "0" then "ok nontrivial-invalid-utf8-nomatch"
         else "violation invalid-utf8-pattern-matched")
      else
      (match Hex.decode ref, Hex.decode pat, delim? del, Hex.decode name, Hex.decode res with
      | some r, some p, some d, some n, some rs =>
        if Spec.matchSpecB d r p n rs (flag == "1") then
          (if hasWildcard (r ++ p) && flag == "1" then
             (if rs != n then "ok nontrivial-level" else "ok nontrivial-match")
           else if hasWildcard (r ++ p) then "ok nontrivial-nomatch" else "ok trivial")
        else
          let cp := Spec.canon d (r ++ p)
          let explained := matchName r p d n == .ret rs (flag == "1")
          s!"violation match-differs-from-rfc3501 model-agrees={explained} spec-whole-name-matches={Spec.wild d cp n} matching-levels={Hex.encodeList ((Spec.levels d n).filter (Spec.wild d cp))}"
      | _, _, _, _, _ => "violation unparsable-implementation-output")
    | _ => "violation unparsable-implementation-output"
  | _ => "bad-op"

def parseMatchesOut (s : String) : Option (List (Name × String)) :=
  if s == "-" then some [] else
  (s.splitOn ";").mapM fun it =>
    match it.splitOn "=" with
    | [n, a] => (Hex.decode n).map fun n' => (n', a)
    | _ => none

/-- C14 / `getmatches`: the answer must be exactly `Spec.ListSel` (LIST) / `Spec.LsubSel` (LSUB, all
    given entries subscribed) over the names of the given mailboxes. -/
def judgeC14GetMatches (args : List String) : String :=
  if args.getLast? == some "bad-dialect" then "ok not-an-op" else
  match args with
  | ref :: pat :: del :: lsub :: mboxes :: "=>" :: ans =>
    match ans with
    | ["panic"] => s!"violation panic-in-getmatches delimiter={del}"
    | ["ok", out] =>
      (match Hex.decode ref, Hex.decode pat, delim? del, parseMBoxes mboxes, parseMatchesOut out with
      | some r, some p, some d, some all, some got =>
        if p.isEmpty then "ok trivial" else
        let lsub := lsub == "1"
        if lsub && !(all.all (·.subscribed)) then "ok trivial-not-a-state-list-input" else
        let cp := Spec.canon d (r ++ p)
        let names := (all.map (·.name)).eraseDups
        let selectable := fun (q : Name) => !q.isEmpty && ((lookupMBox all q).bind (·.ent)).isSome
        let cands := (names.flatMap (Spec.levels d)).eraseDups
        let want : List (Name × Bool) :=      -- (name, noselect?)
          if !lsub then
            (cands.filter (Spec.wild d cp)).map fun q => (q, !selectable q)
          else
            (cands.filter (Spec.wild d cp)).filterMap fun q =>
              if names.contains q then some (q, !selectable q)
              else if endsPct p then some (q, true) else none
        let gotN : List (Name × Bool) := got.map fun (n, a) => (n, a == "noselect")
        let key := fun (x : Name × Bool) => s!"{Hex.encode x.1}:{x.2}"
        if sortStr (want.map key) == sortStr (gotN.map key) then
          (if want.isEmpty then "ok nontrivial-empty"
           else if want.any (·.2) then "ok nontrivial-noselect" else "ok nontrivial")
        else
          let explained := showMatches (getMatches all r p d lsub) == out
          s!"violation list-differs-from-rfc3501 model-agrees={explained} want={",".intercalate (sortStr (want.map key))}"
      | _, _, _, _, _ => "violation unparsable-implementation-output")
    | _ => "violation unparsable-implementation-output"
  | _ => "bad-op"

end Gluon.Driver
