/-
Dialect `judge-c06-stream` (oracle c06updates, harness/o_connupd.go): one line = one whole stream of
steps against a real server together with what was observed after every step,

  judge-c06-stream <step>;<step>;… => <obs>;<obs>;…        (words of a step joined by `|`)

The judge replays the stream on `ConnUpd.apply` (Model/ConnUpdates.lean) and evaluates the property
predicates of Spec/ConnUpdates.lean on what the server did:

* class `model-…`   : the model and the code disagree (acknowledged result, index dump, events,
                      observer liveness, wire view) — a correspondence failure;
* class `ack`       : an update was not acknowledged exactly once: `cause=update-never-acknowledged`
                      (no result within the watchdog), `cause=update-acknowledged-twice` (a second `Done`:
                      the one-shot waiter panics on it, or a second result arrives), `cause=update-not-taken`
                      (the loop no longer reads the connector's channel), `cause=server-panic`; with
                      `kind=<update kind> target=<what it named>` and, if the update before was refused,
                      `after-refused=<its kind>` (the pipeline did not go on);
* class `effect-K`  : a valid update of kind K was not applied as described;
* class `idempotent-K` : an update that only restates the state changed it or was announced;
* class `invalid-K` : an update naming unknown / protected objects changed the state or was not refused;
* class `invariant` : the index dump violates the schema-level invariant;
* class `model-spelling` : the flags of a message as `message_flags_v2` spells them (section `SP:` of the
                      dump) are not what `setMessageFlagsSp` / `fsOf` (Model/ConnFlagSpelling.lean) say;
* class `model-client` : a client's SUBSCRIBE / UNSUBSCRIBE / DELETE did to the subscription tables (column
                      `subscribed`, table `deleted_subscriptions`, the mailbox row) something else than
                      `clientStep` (Model/ConnClientSubs.lean = the C14 model of these commands on this index).

The states client commands prepare: for every valid, effective update the judge counts the cells
`p.<Kind>.<state>` of the kind × client-prepared-state table (`prepStates`), judged on the index, the
live sessions and what clients did before (`cliFlag`, `cliExp`, `cliDel`) at the moment the update arrived.

Flags in steps are tokens that stand for a spelling (`spellOf`, the same function as `cuFlagLong` of the
harness); the model of Model/ConnUpdates.lean runs on their names (`keyTok`).  A message spec
`<prefix>#<a>-<b>:…` stands for the messages `<prefix><a>` … `<prefix><b>`.

After every step the judge continues from the *observed* index (literal tags carried over by remote
id), so one disagreement does not cascade.  Formats: see harness/o_connupd.go.
-/
import GluonModel.Spec.ConnUpdates
import GluonModel.Model.ConnFlagSpelling
import GluonModel.Model.ConnClientSubs
import GluonModel.Generated.Facts.Ack
import GluonModel.Generated.Facts.Chunk

namespace Gluon.Driver.ConnUpdD

open Gluon.ConnUpd

def cfgNow : Cfg := Cfg.default Gluon.Facts.Ack.updateRemoteMessageIDOnMessagesTable

def sortStr (l : List String) : List String := (l.toArray.qsort (· < ·)).toList
def splitNE (s : String) (sep : String) : List String := if s == "-" || s == "" then [] else s.splitOn sep
def nat! (s : String) : Nat := s.toNat?.getD 0
def joinOr (l : List String) (sep : String) : String := if l.isEmpty then "-" else sep.intercalate l
def b01 (b : Bool) : String := if b then "1" else "0"

def recName : String := "Recovered Messages"
def encName (n : String) : String := if n == recName then "@REC" else n.replace " " "_"
def decName (n : String) : String := if n == "@REC" then recName else n
def encRid (r : RID) : String :=
  if r == recoveryRemoteID then "@REC" else if r.startsWith "DELETED-" then "DELETED" else r
def decRid (r : String) : RID := if r == "@REC" then recoveryRemoteID else r

def showFlagsP (f : List Flag) : String := joinOr (sortStr f.eraseDups) "+"

/-! ### printing the index exactly as `cuRunner.dumpDB` does -/

def ridOfMsg (db : DB) (iid : Nat) : String :=
  match db.msgByIid iid with
  | some g => encRid g.rid
  | none => "?"

def showRow (db : DB) (r : Row) : String := s!"{r.uid}.{encRid r.rid}.{ridOfMsg db r.msg}.{b01 r.deleted}"

def showMbox (db : DB) (m : Mbox) : String :=
  s!"{m.iid},{encRid m.rid},{encName m.name},{m.uidv},{b01 m.subscribed},{m.seq},{joinOr (m.rows.map (showRow db)) "+"}"

def showMsg (g : Msg) : String := s!"{encRid g.rid},{showFlagsP g.flags},{b01 g.deleted}"

def dumpDB (db : DB) : String :=
  "M:" ++ joinOr (db.mboxes.map (showMbox db)) ";" ++
  "~G:" ++ joinOr (sortStr (db.msgs.map showMsg)) ";" ++
  "~DS:" ++ joinOr (sortStr (db.delSubs.map (fun e => s!"{encName e.1},{encRid e.2}"))) ";" ++
  s!"~C:{db.nextMbox},{db.gen}"

/-- what a fresh session sees: `LIST "" "*"` (the recovery mailbox only while it holds messages),
    then UIDVALIDITY and `FETCH 1:* (UID FLAGS)` of each mailbox -/
def wireView (db : DB) : String :=
  let shown := db.mboxes.filter (fun m => m.rid != recoveryRemoteID || !m.rows.isEmpty)
  let one (m : Mbox) : String :=
    let rows := m.rows.map (fun r =>
      let fl := flagsOf db r.msg ++ (if r.deleted then ["deleted"] else [])
      s!"{r.uid}:{showFlagsP fl}")
    s!"{encName m.name}={m.uidv}={joinOr rows ","}"
  let sorted := (shown.toArray.qsort (fun a b => encName a.name < encName b.name)).toList
  joinOr (sorted.map one) "|"

/-! ### parsing an observed dump back into an index -/

def findIdx (l : List String) (x : String) : Nat :=
  let rec go : List String → Nat → Nat
    | [], _ => 999999
    | y :: ys, i => if y == x then i else go ys (i + 1)
  go l 0

def parseDump (secs : List String) (lits : RID → String) : Option DB :=
  let sec (p : String) : Option String := (secs.find? (fun s => s.startsWith p)).map (fun s => (s.drop p.length).toString)
  match sec "M:", sec "G:", sec "DS:", sec "C:" with
  | some m, some g, some ds, some c =>
    let gItems := splitNE g ";"
    let gRids := gItems.map (fun it => (it.splitOn ",").headD "")
    let msgs : List Msg := (gItems.zipIdx).filterMap (fun (it, i) =>
      match it.splitOn "," with
      | [rid, fl, del] =>
        let rid' := if rid == "DELETED" then s!"DELETED-{i}" else decRid rid
        some { iid := i, rid := rid', flags := splitNE fl "+", deleted := del == "1", lit := lits rid' }
      | _ => none)
    let mboxes : List Mbox := (splitNE m ";").filterMap (fun it =>
      match it.splitOn "," with
      | [iid, rid, name, uidv, sub, seq, rows] =>
        let rs : List Row := (splitNE rows "+").filterMap (fun r =>
          match r.splitOn "." with
          | [uid, rrid, mrid, del] =>
            some { uid := nat! uid, msg := findIdx gRids mrid, rid := decRid rrid, deleted := del == "1" }
          | _ => none)
        some { iid := nat! iid, rid := decRid rid, name := decName name, uidv := nat! uidv,
               subscribed := sub == "1", seq := nat! seq, rows := rs }
      | _ => none)
    let dsl : List (String × RID) := (splitNE ds ";").filterMap (fun it =>
      match it.splitOn "," with
      | [n, r] => some (decName n, decRid r)
      | _ => none)
    match c.splitOn "," with
    | [nm, gen] =>
      some { mboxes := mboxes, msgs := msgs, delSubs := dsl, nextMbox := nat! nm, nextMsg := msgs.length, gen := nat! gen }
    | _ => none
  | _, _, _, _ => none

/-- section `SP:` of a dump: the flags of every live message as `message_flags_v2` spells them -/
def parseSP (secs : List String) : Option (List (RID × List String)) :=
  (secs.find? (fun s => s.startsWith "SP:")).map (fun s =>
    (splitNE (s.drop 3).toString ";").filterMap (fun it =>
      match it.splitOn "=" with
      | [rid, fl] => some (rid, splitNE fl "+")
      | _ => none))

def spGet (sp : List (RID × List String)) (rid : RID) : List String :=
  match sp.find? (fun e => e.1 == rid) with
  | some e => e.2
  | none => []

/-- the sections of a dump that `dumpDB` prints -/
def indexSecs (secs : List String) : List String := secs.filter (fun s => !s.startsWith "SP:")

/-! ### parsing steps -/

/-- the name of a flag token / of a spelling as the dump shows it: lower-case, no leading backslash
    (`cuFlagShort` of the harness) -/
def keyTok (t : String) : Flag :=
  let l := lowerAscii t
  if l.startsWith "\\" then (l.drop 1).toString else l

def sysFlags : List (String × String) :=
  [("seen", "\\Seen"), ("flagged", "\\Flagged"), ("answered", "\\Answered"), ("draft", "\\Draft"),
   ("deleted", "\\Deleted"), ("recent", "\\Recent")]

/-- the spelling a flag token is sent in (`cuFlagLong` of the harness): a system flag's lower-case short
    name = the spelling of the imap constants; with a leading backslash or an upper-case letter = as
    written; keywords as written -/
def spellOf (t : String) : String :=
  let body := if t.startsWith "\\" then (t.drop 1).toString else t
  match sysFlags.find? (fun e => e.1 == lowerAscii body) with
  | some e => if t.startsWith "\\" || body != lowerAscii body then "\\" ++ body else e.2
  | none => t

/-- the remote ids a message spec stands for: `p#3-5` = p3, p4, p5 -/
def expandRid (rid : String) : List String :=
  match rid.splitOn "#" with
  | [pre, range] =>
    (match range.splitOn "-" with
     | [a, b] =>
       let lo := nat! a
       let hi := nat! b
       if hi + 1 - lo > 100001 then [] else (List.range (hi + 1 - lo)).map (fun i => pre ++ toString (lo + i))
     | _ => [rid])
  | _ => [rid]

def rawToks (s : String) : List String := splitNE s ","
def parseFlagsU (s : String) : List Flag := dedup ((rawToks s).map keyTok)
def parseMbs (s : String) : List RID := (splitNE s "+").flatMap (fun m => (expandRid m).map decRid)

/-- the messages of one spec, each with the flag tokens as written -/
def parseNewMsgs (s : String) : Option (List (NewMsg × List String)) :=
  match s.splitOn ":" with
  | [rid, fl, lit, mbs] =>
    let flags := parseFlagsU fl
    let boxes := parseMbs mbs
    let raw := rawToks fl
    some ((expandRid rid).map (fun r => ({ rid := r, flags := flags, lit := lit, mboxes := boxes }, raw)))
  | _ => none

def parseNewMsg (s : String) : Option NewMsg :=
  match parseNewMsgs s with
  | some [(m, _)] => some m
  | _ => none

def parseBatch (specs : String) : Option (List (NewMsg × List String)) :=
  ((specs.splitOn "/").mapM parseNewMsgs).map List.flatten

/-- (remote id, flag tokens as written) of every message an update step lists -/
def rawFlagsOf (w : List String) : List (RID × List String) :=
  match w with
  | ["MSC", _, specs] => ((parseBatch specs).getD []).map (fun p => (p.1.rid, p.2))
  | ["MMU", rid, _, fl] => [(rid, rawToks fl)]
  | ["MFU", rid, fl] => [(rid, rawToks fl)]
  | ["MSU", _, spec] => ((parseNewMsgs spec).getD []).map (fun p => (p.1.rid, p.2))
  | _ => []

def parseUpdate (db : DB) (w : List String) : Option Update :=
  match w with
  | ["MC", rid, name] => some (.mailboxCreated (decRid rid) (decName name))
  | ["MD", rid] => some (.mailboxDeleted (decRid rid))
  | ["MU", rid, name] => some (.mailboxUpdated (decRid rid) (decName name))
  | ["MI", ref, rid] =>
    let iid := if ref.startsWith "@" then
        match db.mboxByRid (decRid (ref.drop 1).toString) with
        | some m => m.iid
        | none => 999999
      else nat! (ref.drop 1).toString
    some (.mailboxIDChanged iid (decRid rid))
  | ["MSC", ig, specs] =>
    match parseBatch specs with
    | some ms => some (.messagesCreated (ig == "1") (ms.map (·.1)))
    | none => none
  | ["MMU", rid, mbs, fl] => some (.messageMailboxesUpdated rid (parseMbs mbs) (parseFlagsU fl))
  | ["MFU", rid, fl] => some (.messageFlagsUpdated rid (parseFlagsU fl))
  | ["MSI", ref, rid] =>
    let iid := if ref.startsWith "@" then
        match db.msgByRid (ref.drop 1).toString with
        | some g => g.iid
        | none => db.nextMsg + 1000000
      else db.nextMsg + 1000000
    some (.messageIDChanged iid rid)
  | ["MSD", rid] => some (.messageDeleted rid)
  | ["MSU", ac, spec] =>
    match parseNewMsg spec with
    | some m => some (.messageUpdated m (ac == "1"))
    | none => none
  | ["UVB"] => some .uidValidityBumped
  | ["NOP"] => some .noop
  | ["BAD"] => some .unknown
  | _ => none

def kindName : Update → String
  | .mailboxCreated .. => "MailboxCreated"
  | .mailboxDeleted .. => "MailboxDeleted"
  | .mailboxUpdated .. => "MailboxUpdated"
  | .mailboxIDChanged .. => "MailboxIDChanged"
  | .messagesCreated .. => "MessagesCreated"
  | .messageMailboxesUpdated .. => "MessageMailboxesUpdated"
  | .messageFlagsUpdated .. => "MessageFlagsUpdated"
  | .messageIDChanged .. => "MessageIDChanged"
  | .messageDeleted .. => "MessageDeleted"
  | .messageUpdated .. => "MessageUpdated"
  | .uidValidityBumped => "UIDValidityBumped"
  | .noop => "Noop"
  | .unknown => "Unknown"

def showErr : Option Err → String
  | none => "ok"
  | some .protectedMbox => "err:protected"
  | some .notFound => "err:notfound"
  | some .noSuchMessage => "err:nosuchmessage"
  | some .constraint => "err:constraint"
  | some .sql => "err:sql"
  | some .noChange => "err:nochange"
  | some .limit => "err:limit"
  | some .badUpdate => "err:badupdate"
  | some .goPanic => "panic"

/-! ### the judge -/

structure Observer where
  idx : Nat
  alive : Bool
  sel : Option Nat
deriving Repr

structure JState where
  db : DB
  obs : List Observer
  checks : Nat
  nValid : Nat
  nRestate : Nat
  nInvalid : Nat
  kinds : List String
  bad : List (String × String)
  cov : List (String × Nat)
  cfg : Cfg
  /-- the update of the step right before this one (none: that step was not an update) -/
  prevU : Option Update := none
  /-- kind of the last update if it was refused (acknowledged with an error) and no update came since -/
  prevRefused : Option String := none
  /-- the flags as the index spelled them in the last dump (none: no dump with a section `SP:` yet) -/
  sp : Option (List (RID × List String)) := none
  /-- messages whose flags (or `\Deleted` in some mailbox) a client command changed -/
  cliFlag : List RID := []
  /-- messages a client command took out of a mailbox (EXPUNGE, MOVE) -/
  cliExp : List RID := []
  /-- names of the mailboxes clients deleted -/
  cliDel : List String := []

def litsOf (db : DB) (rid : RID) : String :=
  match db.msgByRid rid with
  | some g => g.lit
  | none => "app"

def headTokens (head : String) : List (Nat × String) :=
  (head.splitOn "|").filterMap (fun t =>
    if t.startsWith "S" then
      match t.splitOn "=" with
      | [s, v] => some (nat! (s.drop 1).toString, v)
      | _ => none
    else none)

def evTouches (db : DB) (mb : Nat) : Ev → Bool
  | .exists b items => b == mb && !items.isEmpty
  | .expunge b _ => b == mb
  | .fetchAdd msg _ => (match db.mboxByIid mb with | some m => m.has msg | none => false)
  | .fetchRem msg _ => (match db.mboxByIid mb with | some m => m.has msg | none => false)
  | _ => false

def evKills (mb : Nat) : Ev → Bool
  | .uidValidityBumped => true
  | .mailboxDeleted b => b == mb
  | _ => false

def setObs (l : List Observer) (o : Observer) : List Observer :=
  if l.any (fun x => x.idx == o.idx) then l.map (fun x => if x.idx == o.idx then o else x) else l ++ [o]

def bump (st : JState) (tag : String) : JState :=
  if st.cov.any (fun c => c.1 == tag) then
    { st with cov := st.cov.map (fun c => if c.1 == tag then (c.1, c.2 + 1) else c) }
  else { st with cov := st.cov ++ [(tag, 1)] }

/-- the first failure of every class is kept -/
def fail (st : JState) (k : Nat) (cls : String) (msg : String) : JState :=
  if st.bad.any (fun b => b.1 == cls) then st
  else { st with bad := st.bad ++ [(cls, s!"violation step {k} class {cls} : {msg}")] }

/-- messages in the snapshots of the live observers other than `except` (they are in step with the
    index: every observer issued NOOP after the last change) -/
def heldBy (db : DB) (obs : List Observer) (except : List Nat) (before : Option DB := none) : List Nat :=
  (obs.filter (fun o => o.alive && !except.contains o.idx)).flatMap (fun o =>
    match o.sel with
    | some mb =>
      (match db.mboxByIid mb with
       | some m => m.rows.map (·.msg)
       | none =>
         -- the mailbox was deleted by the update that ends the sessions: a session that has not ended yet still
         -- holds the snapshot it had (the mailbox as it was before the update)
         (match before with
          | some pre => (match pre.mboxByIid mb with | some m => m.rows.map (·.msg) | none => [])
          | none => []))
    | none => [])

/-- observers end one after the other (in index order); each end runs the collection -/
def gcDeaths (db : DB) (obs : List Observer) (died : List Nat) (before : Option DB := none) : DB :=
  let order := (obs.map (·.idx)).filter (fun i => died.contains i)
  let rec go (db : DB) (gone : List Nat) : List Nat → DB
    | [] => db
    | i :: rest => go (gc db (heldBy db obs (i :: gone) before)) (i :: gone) rest
  go db [] order

/-- what the update named (one word, for the `target=` field of an acknowledgement failure) -/
def shortList (l : List String) : String :=
  if l.length > 6 then joinOr (l.take 3) "+" ++ s!"+…({l.length}-in-all)+" ++ joinOr (l.drop (l.length - 2)) "+" else joinOr l "+"

def targetOf : Update → String
  | .mailboxCreated rid name => s!"mailbox:{rid},name:{name.replace " " "_"}"
  | .mailboxDeleted rid => s!"mailbox:{rid}"
  | .mailboxUpdated rid name => s!"mailbox:{rid},name:{name.replace " " "_"}"
  | .mailboxIDChanged iid rid => s!"mailbox-internal-id:{iid},new-id:{rid}"
  | .messagesCreated _ ms =>
    "messages:" ++ "/".intercalate ((ms.take 6).map (fun m => s!"{m.rid}>{shortList m.mboxes}")) ++
      (if ms.length > 6 then s!"/…({ms.length}-in-all)" else "")
  | .messageMailboxesUpdated rid mbs _ => s!"message:{rid},mailboxes:{shortList mbs}"
  | .messageFlagsUpdated rid _ => s!"message:{rid}"
  | .messageIDChanged iid rid => s!"message-internal-id:{iid},new-id:{rid}"
  | .messageDeleted rid => s!"message:{rid}"
  | .messageUpdated m _ => s!"message:{m.rid},mailboxes:{shortList m.mboxes}"
  | .uidValidityBumped => "-"
  | .noop => "-"
  | .unknown => "-"

/-- the cells of the kind × variant table this update falls into, judged on the index `db` it met -/
def variantsOf (cfg : Cfg) (db : DB) (u : Update) (valid restates dup : Bool) (otherSpelling otherOrder : Bool := false) : List String :=
  let unknownMb (b : RID) : Bool := b != cfg.recoveryRID && !db.known b
  let unknown : Bool := match u with
    | .mailboxDeleted rid => unknownMb rid
    | .mailboxUpdated rid _ => unknownMb rid
    | .mailboxIDChanged iid _ => (db.mboxByIid iid).isNone
    | .messagesCreated _ ms => ms.any (fun m => m.mboxes.any unknownMb)
    | .messageMailboxesUpdated rid mbs _ => (db.msgByRid rid).isNone || mbs.any unknownMb
    | .messageFlagsUpdated rid _ => (db.msgByRid rid).isNone
    | .messageIDChanged iid _ => (db.msgByIid iid).isNone
    | .messageDeleted rid => (db.msgByRid rid).isNone
    | .messageUpdated m _ => (db.msgByRid m.rid).isNone || m.mboxes.any unknownMb
    | _ => false
  let protId : Bool := match u with
    | .mailboxCreated rid _ => rid == cfg.recoveryRID
    | .mailboxDeleted rid => rid == cfg.recoveryRID
    | .mailboxUpdated rid _ => rid == cfg.recoveryRID
    | .mailboxIDChanged iid rid => iid == cfg.recoveryIID || rid == cfg.recoveryRID
    | .messagesCreated _ ms => ms.any (fun m => m.mboxes.contains cfg.recoveryRID)
    | .messageMailboxesUpdated _ mbs _ => mbs.contains cfg.recoveryRID
    | .messageUpdated m _ => m.mboxes.contains cfg.recoveryRID
    | _ => false
  let protName : Bool := match u with
    | .mailboxCreated _ name => name == recName
    | .mailboxUpdated _ name => name == recName
    | _ => false
  let isNoop : Bool := match u with | .noop => true | _ => false
  (if valid && (!restates || isNoop) then ["valid"] else []) ++
  (if unknown then ["unknown-id"] else []) ++
  (if protId then ["protected-id"] else []) ++
  (if protName then ["protected-name"] else []) ++
  (if dup then ["duplicate"] else []) ++
  (if restates then ["restating"] else []) ++
  (if restates && otherSpelling then ["restating-other-spelling"] else []) ++
  (if restates && otherOrder then ["restating-other-order"] else [])

/-- classes of batch sizes relative to `db.ChunkLimit` (regenerated: `Facts.chunkLimit`; a row of a mailbox
    table binds two values, so `AddMessagesToMailbox` cuts at half of it) -/
def sizeClass (c : Nat) : String :=
  let h := Gluon.Facts.chunkLimit / 2
  if h == 0 then "no-chunk-limit"
  else if c < h then "lt-half" else if c == h then "eq-half"
  else if c % h == 0 then "multiple-of-half" else "short-last-chunk"

/-- the largest number of listed messages that name one and the same mailbox -/
def maxPerMailbox (ms : List NewMsg) : Nat :=
  let boxes := (ms.flatMap (·.mboxes)).eraseDups
  boxes.foldl (fun acc b => Nat.max acc (ms.countP (fun m => m.mboxes.contains b))) 0

/-- an acknowledgement failure: which one, of which kind of update, naming what -/
def ackFailure (ack head : String) : Option (String × String) :=
  let panics := (head.splitOn "|").filter (fun t => t.startsWith "panic(")
  let closedCh := panics.any (fun t => (t.splitOn "closed_channel").length > 1)
  if closedCh then
    -- `updateWaiter.Done` sends on / closes a channel it has closed already: the update loop dies with it
    some ("update-acknowledged-twice", s!"Done was called again on an acknowledged update, the goroutine applying updates panicked: {head}")
  else if ack == "noack" then
    some ("update-never-acknowledged", "taken from the connector but no acknowledgement within the watchdog: Wait() blocks for ever, a connector that waits for its updates in order delivers nothing further" ++
      (if panics.isEmpty then "" else s!" ({head})"))
  else if ack == "nottaken" then
    some ("update-not-taken", "the server did not take the update from the connector's channel within the watchdog: the update loop has stopped")
  else if ack.startsWith "ack2" then
    if (ack.splitOn "waiter_still_open").length > 1 then some ("update-waiter-left-open", s!"a result was delivered but the waiter was not closed: {ack}")
    else if (ack.splitOn "nil_error").length > 1 then some ("update-nil-error-delivered", s!"success was delivered as a value instead of closing the waiter: {ack}")
    else some ("update-acknowledged-twice", s!"a second acknowledgement arrived: {ack}")
  else if !panics.isEmpty then
    some ("server-panic", s!"a server goroutine panicked while the update was applied: {head}")
  else none


/-- `subsKey` with the deleted subscriptions as a set (the dump sorts them) -/
def subsKeyS (db : DB) : List (Nat × RID × String × Bool) × List String :=
  ((subsKey db).1, sortStr ((subsKey db).2.map (fun e => s!"{e.1},{e.2}")))

/-! ### the states client commands prepare (kind × prepared state) -/

def selectedBy (obs : List Observer) (mb : Nat) : Bool := obs.any (fun o => o.alive && o.sel == some mb)

/-- states of a mailbox an update names -/
def mboxStates (st : JState) (pre : DB) (m : Mbox) : List String :=
  [if m.subscribed then "subscribed" else "unsubscribed"] ++
  (if pre.delSubs.any (fun e => e.1 == m.name) then ["deleted-subscription"] else []) ++
  (if selectedBy st.obs m.iid then ["selected"] else []) ++
  (if !m.rows.isEmpty then ["holding-messages"] else []) ++
  (if m.rows.any (·.deleted) then ["rows-flagged-deleted"] else []) ++
  (if pre.mboxes.any (fun x => x.name.startsWith (m.name ++ "/")) then ["having-inferiors"] else [])

/-- states of a name an update gives to a mailbox -/
def nameStates (st : JState) (pre : DB) (name : String) (created : Bool) : List String :=
  (if pre.delSubs.any (fun e => e.1 == name) then ["name-deleted-subscription"] else []) ++
  (if created && st.cliDel.contains name then ["name-client-deleted"] else [])

/-- states of a message an update names -/
def msgStates (st : JState) (pre : DB) (g : Msg) : List String :=
  let inBoxes := pre.mboxes.filter (fun m => m.has g.iid)
  let delIn := inBoxes.filter (fun m => m.rows.any (fun r => r.msg == g.iid && r.deleted))
  (if delIn.length == 1 then ["deleted-in-one-mailbox"] else []) ++
  (if delIn.length ≥ 2 then ["deleted-in-several-mailboxes"] else []) ++
  (if inBoxes.isEmpty && st.cliExp.contains g.rid then ["expunged-still-known"] else []) ++
  (if st.cliFlag.contains g.rid then ["flagged-by-client"] else []) ++
  (if inBoxes.any (fun m => selectedBy st.obs m.iid) then ["in-selected-mailbox"] else []) ++
  (if inBoxes.length ≥ 2 then ["in-several-mailboxes"] else [])

/-- the cells of kind × client-prepared state the update falls into on the index it met -/
def prepStates (st : JState) (pre : DB) : Update → List String
  | .mailboxCreated _ name => nameStates st pre name true
  | .mailboxDeleted rid => (match pre.mboxByRid rid with | some m => mboxStates st pre m | none => [])
  | .mailboxUpdated rid name =>
    (match pre.mboxByRid rid with | some m => mboxStates st pre m | none => []) ++ nameStates st pre name false
  | .mailboxIDChanged iid _ => (match pre.mboxByIid iid with | some m => mboxStates st pre m | none => [])
  | .messagesCreated _ ms =>
    ((ms.map (·.rid)).eraseDups.flatMap (fun rid =>
      match pre.liveMsg rid with | some g => msgStates st pre g | none => [])).eraseDups
  | .messageMailboxesUpdated rid _ _ => (match pre.liveMsg rid with | some g => msgStates st pre g | none => [])
  | .messageFlagsUpdated rid _ => (match pre.liveMsg rid with | some g => msgStates st pre g | none => [])
  | .messageIDChanged iid _ => (match pre.msgByIid iid with | some g => msgStates st pre g | none => [])
  | .messageDeleted rid => (match pre.liveMsg rid with | some g => msgStates st pre g | none => [])
  | .messageUpdated m _ => (match pre.liveMsg m.rid with | some g => msgStates st pre g | none => [])
  | _ => []

def stepU (st : JState) (k : Nat) (w : List String) (head : String) (secs : List String) : JState :=
  match parseUpdate st.db w with
  | none => fail st k "harness" "unparsable update step"
  | some u =>
    let pre := st.db
    let r := apply st.cfg pre u
    let kind := kindName u
    let ack := (head.splitOn "|").headD ""
    let toks := headTokens head
    let st := { st with checks := st.checks + 1, kinds := if st.kinds.contains kind then st.kinds else kind :: st.kinds }
    -- exactly one acknowledgement, no panic
    let dup := st.prevU == some u
    let after := match st.prevRefused with | some pk => s!" after-refused={pk}" | none => ""
    let ackBad := ackFailure ack head
    let st := match ackBad with
      | some (cause, why) =>
        fail st k "ack" s!"cause={cause} kind={kind} target={targetOf u}{after} : {why}"
      | none => st
    -- the server is abandoned after a missing acknowledgement: nothing else was observed
    if ack == "noack" || ack == "nottaken" then
      (variantsOf st.cfg pre u (Valid st.cfg pre u) (Restates st.cfg pre u) dup).foldl (fun st v => bump st s!"t.{kind}.{v}") st
    else
    -- observers
    let died := toks.filter (fun t => t.2 == "dead") |>.map (·.1)
    let expectDead := (st.obs.filter (fun o => o.alive &&
        match o.sel with
        | some mb => r.evs.any (evKills mb)
        | none => false)).map (·.idx)
    let st := if sortStr (died.map toString) != sortStr (expectDead.map toString) then
                fail st k "model-observer" s!"{kind}: observers that lost their session: observed {died}, model {expectDead}" else st
    let post := gcDeaths r.db st.obs died (some pre)
    -- model against code
    -- (`applyMessagesCreated` walks a Go map: when several mailboxes refuse their messages with different
    --  errors, which one is acknowledged depends on the iteration order; the model takes insertion order,
    --  `C06.messagesCreated_map_order`: every order acknowledges one of `mscPossibleErrs`, the index is the same)
    let possible : List String := match u with
      | .messagesCreated ig ms => (mscPossibleErrs st.cfg pre ig ms).map (fun e => showErr (some e))
      | .messageUpdated m true =>
        if (pre.msgByRid m.rid).isNone then (mscPossibleErrs st.cfg pre true [m]).map (fun e => showErr (some e)) else []
      | _ => []
    -- `MailboxTranslateRemoteIDs` translates a list of mailbox ids chunk by chunk (`… IN (…)` per chunk of
    -- `db.ChunkLimit`): a known id that is listed in two different chunks comes back twice and the message is added
    -- to that mailbox twice (UNIQUE constraint).  The model translates the list as a whole (duplicates collapse): not
    -- modelled; reported as a failure of the property under its own cause, not as model-ack / model-state.
    let dupAcrossChunks : Bool := match u with
      | .messageMailboxesUpdated _ mbs _ =>
        let lim := Gluon.Facts.chunkLimit
        lim > 0 && mbs.length > lim &&
          (mbs.zipIdx.any (fun p => pre.known p.1 && mbs.zipIdx.any (fun q => q.1 == p.1 && q.2 / lim != p.2 / lim)))
      | _ => false
    let chunkDup := dupAcrossChunks && ack == "err:constraint" && r.err.isNone
    let st := if chunkDup then bump st "mmu.duplicate-id-across-chunks" else st
    let st := if ack != showErr r.err && !ack.startsWith "ack2" && !chunkDup then
                (if possible.contains ack then bump st "msc.other-map-order-error"
                 else fail st k "model-ack" s!"{kind}: acknowledged {ack}, model {showErr r.err}") else st
    let spObs := parseSP secs
    let secs := indexSecs secs
    let obsDump := "~".intercalate secs
    let st := if dumpDB post != obsDump && !chunkDup then
                fail st k "model-state" s!"{kind}: index after the update differs; observed {obsDump} model {dumpDB post}" else st
    let obsDB := (parseDump secs (litsOf r.db)).getD post
    -- the spellings: what `imap.FlagSet` / `user.setMessageFlags` do with the flags as written
    let raw := (rawFlagsOf w).map (fun p => (p.1, p.2.map spellOf))
    let firstRaw (rid : RID) : List String := match raw.find? (fun p => p.1 == rid) with | some p => p.2 | none => []
    let st := match st.sp, spObs with
      | some sp0, some sp1 =>
        if ack != "ok" || r.err.isSome then st
        else
          let expected : List (RID × List String) := match u with
            | .messageFlagsUpdated rid _ =>
              if (pre.msgByRid rid).isSome then [(rid, (setMessageFlagsSp (spGet sp0 rid) (firstRaw rid)).1)] else []
            | .messageMailboxesUpdated rid _ _ =>
              if (pre.msgByRid rid).isSome then [(rid, (setMessageFlagsSp (spGet sp0 rid) (firstRaw rid)).1)] else []
            | .messageUpdated m _ =>
              (match pre.msgByRid m.rid with
               | some g =>
                 if g.lit == m.lit then [(m.rid, (setMessageFlagsSp (spGet sp0 m.rid) (firstRaw m.rid)).1)]
                 else [(m.rid, fsOf (firstRaw m.rid))]
               | none => if (r.db.msgByRid m.rid).isSome then [(m.rid, fsOf (firstRaw m.rid))] else [])
            | .messagesCreated _ ms =>
              -- a new message gets the flags of its first occurrence that is not skipped (recovery mailbox listed)
              let creating := (ms.zip raw).filter (fun p => !p.1.mboxes.contains st.cfg.recoveryRID)
              ((creating.map (·.1.rid)).eraseDups.filter (fun rid => (pre.msgByRid rid).isNone && (r.db.msgByRid rid).isSome)).map
                (fun rid => (rid, fsOf (match creating.find? (fun p => p.1.rid == rid) with | some p => p.2.2 | none => [])))
            | _ => []
          match expected.find? (fun e => sortStr e.2 != sortStr (spGet sp1 e.1)) with
          | some e =>
            fail st k "model-spelling" s!"{kind}: message {e.1} has the flags {joinOr (sortStr (spGet sp1 e.1)) "+"} in the index, imap.FlagSet / setMessageFlags on the spellings give {joinOr (sortStr e.2) "+"} (before: {joinOr (spGet sp0 e.1) "+"})"
          | none => if expected.isEmpty then st else bump st "spelling.compared"
      | _, _ => st
    let otherSpelling := match st.sp with
      | some sp0 => raw.any (fun p => p.2.any (fun s => (spGet sp0 p.1).any (fun t => flagKey t == flagKey s && t != s)))
      | none => false
    let otherOrder := (match u with | .messagesCreated .. => false | _ => true) &&
      (rawFlagsOf w).any (fun p => let ks := p.2.map keyTok; ks != sortStr ks.eraseDups)
    let staleCopy := obsDB.mboxes.any (fun m => m.rows.any (fun r =>
      match obsDB.msgByIid r.msg with
      | some g => g.rid != r.rid
      | none => false))
    let st := if !Inv obsDB then
        fail st k "invariant" (s!"{kind}: observed index violates the schema invariant" ++
          (if staleCopy then " cause=row-remote-id-copy (a mailbox row carries a remote id other than its message's)" else "") ++
          s!": {obsDump}") else st
    -- the property on what the server did
    -- (once the observed index has left the schema invariant the property predicates no longer mean
    -- anything; the comparison with the model above goes on)
    let sane := Inv pre && !st.bad.any (fun b => b.1 == "invariant")
    let valid := Valid st.cfg pre u && sane
    let restates := Restates st.cfg pre u && sane
    let invalid := Invalid st.cfg pre u && sane
    let prot := ProtectedViaMessageUpdated st.cfg pre u && sane
    let obsCmp := if died.isEmpty then obsDB else obsDB  -- a dying observer only triggers gc; effects are compared modulo ghosts below
    let st := bump st s!"ack.{(showErr r.err).replace ":" "-"}.{kind}"
    -- the kind × variant table, and "the pipeline goes on": what came right after a refused update
    let st := (variantsOf st.cfg pre u valid restates dup otherSpelling otherOrder).foldl (fun st v => bump st s!"t.{kind}.{v}") st
    -- kind × client-prepared state: valid, effective updates only (judged on this index alone: an earlier
    -- known break of the invariant that has been repaired since does not take the update out of the table)
    let st := if Valid st.cfg pre u && Inv pre && !Restates st.cfg pre u then
        (prepStates st pre u).foldl (fun st v => bump st s!"p.{kind}.{v}") st else st
    let st := match st.prevRefused with
      | some pk =>
        let st := bump st "pipe.update-after-refused"
        if valid && !restates then
          bump (bump st s!"pipe.valid-after-refused.{pk}") (if ack == "ok" then "pipe.valid-after-refused-applied" else "pipe.valid-after-refused-NOT-applied")
        else st
      | none => st
    let st := match u with
      | .messageUpdated m _ =>
        (match pre.msgByRid m.rid with
         | none => bump st "msu.unknown"
         | some g => if g.lit == m.lit then bump st "msu.samelit" else bump st "msu.newlit")
      | .messagesCreated _ ms =>
        let st := bump st (if ms.length > 1 then "msc.batch" else "msc.single")
        if valid && !restates then
          bump (bump st s!"msc.size.one-mailbox.{sizeClass (maxPerMailbox ms)}")
            (if ms.length > Gluon.Facts.chunkLimit then "msc.size.total.gt-limit" else "msc.size.total.le-limit")
        else st
      | _ => st
    let st := if !died.isEmpty then
        (if (r.db.msgs.any (·.deleted)) then (if post.msgs.any (·.deleted) then bump st "gc.blocked-or-held" else bump st "gc.collected") else st)
      else st
    let st := if valid && !restates then
        let st := bump { st with nValid := st.nValid + 1 } s!"valid.{kind}"
        if ack != "ok" then
          fail st k s!"effect-{kind}" (s!"valid update refused: {ack}" ++
            (if chunkDup then " cause=duplicate-mailbox-id-across-chunks (a known mailbox id is listed in two different chunks of db.ChunkLimit ids: MailboxTranslateRemoteIDs returns it twice, the message is added to the mailbox twice)" else ""))
        else if !effectOK u pre obsCmp && died.isEmpty then
          let cause := match u with
            | .messagesCreated _ ms =>
              if ms.any (fun m => pre.ghost m.rid) then " cause=ghost-remote-id (a listed remote id belongs to a message marked deleted but not yet collected)" else ""
            | .messageUpdated m _ =>
              if pre.ghost m.rid then " cause=ghost-remote-id" else ""
            | _ => ""
          fail st k s!"effect-{kind}" s!"valid update not applied as described;{cause} before {dumpDB pre} after {obsDump}"
        else st
      else st
    let st := if restates then
        let st := bump { st with nRestate := st.nRestate + 1 } s!"restates.{kind}"
        if ack != "ok" then fail st k s!"idempotent-{kind}" s!"restating update refused: {ack}"
        else if !sameState pre obsCmp && died.isEmpty then
          fail st k s!"idempotent-{kind}" s!"restating update changed the index; before {dumpDB pre} after {obsDump}"
        else if toks.any (fun t => t.2 != "-" && t.2 != "dead") then
          fail st k s!"idempotent-{kind}" s!"restating update was announced to a selected session: {head}"
        else st
      else st
    let st := if (invalid || prot) && !restates then
        let st := bump { st with nInvalid := st.nInvalid + 1 } s!"invalid.{kind}"
        let cause := if prot then " cause=protected-mailbox-via-MessageUpdated" else ""
        if !sameState pre obsCmp && died.isEmpty then
          fail st k s!"invalid-{kind}" s!"update naming unknown/protected objects changed the index;{cause} before {dumpDB pre} after {obsDump}"
        else if (InvalidErr st.cfg pre u || prot) && ack == "ok" then
          fail st k s!"invalid-{kind}" s!"update naming unknown/protected objects was acknowledged as applied;{cause}"
        else if toks.any (fun t => t.2 != "-" && t.2 != "dead") then
          fail st k s!"invalid-{kind}" s!"update naming unknown/protected objects was announced: {head}"
        else st
      else st
    -- events against what selected sessions were told at their next NOOP
    let st := st.obs.foldl (fun st o =>
      match o.alive, o.sel, toks.find? (fun t => t.1 == o.idx) with
      | true, some mb, some (_, tok) =>
        if tok == "dead" then st
        else
          let touched := r.evs.any (evTouches r.db mb)
          if !touched && tok != "-" then
            fail st k "model-events" s!"{kind}: S{o.idx} was told {tok} but the model queues nothing for its mailbox"
          else if r.evs.any (fun e => match e with | .exists b items => b == mb && !items.isEmpty | _ => false) then
            let n := match r.db.mboxByIid mb with | some m => m.rows.length | none => 0
            if !(tok.splitOn ".").contains s!"E{n}" then
              fail st k "model-events" s!"{kind}: S{o.idx} was told {tok}, the model expects EXISTS {n}"
            else st
          else st
      | _, _, _ => st) st
    let obs' := st.obs.map (fun o => if died.contains o.idx then { o with alive := false, sel := none } else o)
    { st with db := obsDB, obs := obs', prevU := some u, sp := spObs,
              prevRefused := if ack.startsWith "err:" then some kind else none }

def stepS (st : JState) (k : Nat) (i : Nat) (w : List String) (head : String) (secs : List String) : JState :=
  let status := ((head.splitOn "|").headD "")
  let toks := headTokens head
  let died := toks.filter (fun t => t.2 == "dead") |>.map (·.1)
  let died := if status.startsWith "dead" then i :: died else died
  let spObs := if secs.isEmpty then st.sp else parseSP secs
  let secs := indexSecs secs
  let db' := if secs.isEmpty then st.db else (parseDump secs (litsOf st.db)).getD st.db
  let st := { st with sp := spObs }
  let st := if !secs.isEmpty && !Inv db' then
      fail st k "invariant" s!"index after client step violates the schema invariant: {"~".intercalate secs}" else st
  let obs0 : List Observer := st.obs
  let obs : List Observer := match w with
    | ["LOGIN"] => if status == "OK" then setObs obs0 { idx := i, alive := true, sel := none } else obs0
    | ["LOGOUT"] => obs0.map (fun (o : Observer) => if o.idx == i then { o with alive := false, sel := none } else o)
    | ["SELECT", name] =>
      if status.startsWith "OK" then
        let nm := decName name
        let mb := db'.mboxes.find? (fun (m : Mbox) => m.name == nm || (nm.toLower == "inbox" && m.name == "INBOX"))
        obs0.map (fun (o : Observer) => if o.idx == i then { o with sel := mb.map (·.iid) } else o)
      else obs0  -- gluon keeps the old snapshot when SELECT fails
    | _ => obs0
  let st := match w with
    | ["SELECT", name] =>
      if status.startsWith "OK:" then
        let nm := decName name
        match db'.mboxes.find? (fun (m : Mbox) => m.name == nm || (nm.toLower == "inbox" && m.name == "INBOX")) with
        | some m =>
          if nat! (status.drop 3).toString != m.rows.length then
            fail st k "wire" s!"SELECT {name} announced {status} but the index holds {m.rows.length} messages"
          else st
        | none => st
      else st
    | _ => st
  let obs := obs.map (fun (o : Observer) => if died.contains o.idx then { o with alive := false, sel := none } else o)
  -- SUBSCRIBE / UNSUBSCRIBE / DELETE: the subscription tables against the C14 model of these commands
  let cmd : Option ClientCmd := match w with
    | ["SUBSCRIBE", name] => some (.subscribe (decName name))
    | ["UNSUBSCRIBE", name] => some (.unsubscribe (decName name))
    | ["DELETE", name] => some (.delete (decName name))
    | _ => none
  let st := match cmd with
    | some c =>
      if secs.isEmpty || status == "skip" || status.startsWith "dead" then st
      else
        let st := bump st s!"client.{w.headD ""}.{status}"
        match clientStep st.db c with
        | .ok db1 =>
          if status != "OK" then
            fail st k "model-client" s!"{" ".intercalate w}: answered {status}, the model (Model/ConnClientSubs.lean) accepts it"
          else if subsKeyS db1 != subsKeyS db' then
            fail st k "model-client" s!"{" ".intercalate w}: subscription tables differ; observed {"~".intercalate secs} model {dumpDB db1}"
          else st
        | .error _ =>
          if status == "OK" then
            fail st k "model-client" s!"{" ".intercalate w}: answered OK, the model (Model/ConnClientSubs.lean) refuses it"
          else if subsKeyS st.db != subsKeyS db' then
            fail st k "model-client" s!"{" ".intercalate w}: refused, but the subscription tables changed; observed {"~".intercalate secs}"
          else st
    | none => st
  -- the session that deleted the mailbox it had selected has none selected afterwards
  let obs := match w with
    | ["DELETE", name] =>
      if status == "OK" then
        match st.db.mboxes.find? (fun (m : Mbox) => m.name == decName name) with
        | some m => obs.map (fun (o : Observer) => if o.idx == i && o.sel == some m.iid then { o with sel := none } else o)
        | none => obs
      else obs
    | _ => obs
  -- what the client did to messages: flags / `\Deleted` changed, rows taken out of a mailbox
  let pre := st.db
  let flagged : List RID := if secs.isEmpty then [] else
    (db'.msgs.filter (fun g' =>
      match pre.msgByRid g'.rid with
      | some g =>
        !sameSet g.flags g'.flags ||
        db'.mboxes.any (fun m' => match pre.mboxByIid m'.iid with
          | some m => m'.rows.any (fun r' => r'.rid == g'.rid && m.rows.any (fun r => r.rid == r'.rid && r.deleted != r'.deleted))
          | none => false)
      | none => false)).map (·.rid)
  let expunged : List RID := if secs.isEmpty then [] else
    (pre.mboxes.flatMap (fun m => match db'.mboxByIid m.iid with
      | some m' => (m.rows.filter (fun r => !m'.rows.any (fun r' => r'.rid == r.rid))).map (·.rid)
      | none => []))
  let deleted : List String := match w with
    | ["DELETE", name] => if status == "OK" then [decName name] else []
    | _ => []
  { st with db := db', obs := obs,
            cliFlag := (st.cliFlag ++ flagged).eraseDups, cliExp := (st.cliExp ++ expunged).eraseDups,
            cliDel := (st.cliDel ++ deleted).eraseDups }

def stepCheck (st : JState) (k : Nat) (secs : List String) : JState :=
  let wire := ((secs.find? (fun s => s.startsWith "W:")).map (fun s => (s.drop 2).toString)).getD "?"
  let spObs := parseSP secs
  let dumpSecs := secs.filter (fun s => !(s.startsWith "W:") && !(s.startsWith "N:") && !(s.startsWith "SP:"))
  let st := { st with checks := st.checks + 1, sp := spObs }
  let st := if wireView st.db != wire then
      fail st k "wire" s!"a fresh session sees {wire}, the index says {wireView st.db}" else st
  let post := gc st.db (heldBy st.db st.obs [])
  let st := if st.db.msgs.any (·.deleted) then
      (if post.msgs.any (·.deleted) then bump st "gc.blocked-or-held" else bump st "gc.collected") else st
  let obsDump := "~".intercalate dumpSecs
  let st := if dumpDB post != obsDump then
      fail st k "model-gc" s!"index after the checking session ended differs; observed {obsDump} model {dumpDB post}" else st
  let db' := (parseDump dumpSecs (litsOf st.db)).getD post
  { st with db := db' }

def runSteps : JState → Nat → List String → List String → JState
  | st, _, [], _ => st
  | st, _, _, [] => st
  | st, k, s :: ss, o :: os =>

    let w := s.splitOn "|"
    let parts := o.splitOn "~"
    let head := parts.headD ""
    let secs := parts.drop 1
    let st' :=
      match w with
      | "U" :: rest => stepU st k rest head secs
      | "X" :: _ => { stepCheck st k (parts.filter (fun p => p != "CHK" && !(p.startsWith "CHK|"))) with prevU := none }
      | sx :: rest => if sx.startsWith "S" then { stepS st k (nat! (sx.drop 1).toString) rest head secs with prevU := none } else st
      | [] => st
    runSteps st' (k + 1) ss os

def parseCfg (s : String) : Cfg :=
  match s.splitOn "," with
  | [a, b, c, d] => { cfgNow with maxMailboxes := nat! a, maxMessages := nat! b, maxUID := nat! c, maxUIDValidity := nat! d }
  | _ => cfgNow

-- DIALECT: judge-c06-stream Gluon.Driver.ConnUpdD.judgeStream
def judgeStream (args : List String) : String :=
  match args with
  | [cfgS, steps, "=>", obs] =>
    let cfg := parseCfg cfgS
    let ss := steps.splitOn ";"
    let os := obs.splitOn "^"
    if ss.length != os.length then s!"violation step 0 class harness : {ss.length} steps but {os.length} observations"
    else
      let st0 : JState := { db := DB.initial, obs := [], checks := 0, nValid := 0, nRestate := 0, nInvalid := 0, kinds := [], bad := [], cov := [], cfg := cfg }
      let st := runSteps st0 1 ss os
      let cov := ",".intercalate (st.cov.map (fun c => s!"{c.1}:{c.2}"))
      if !st.bad.isEmpty then " ||| ".intercalate (st.bad.map (·.2)) ++ s!" ||| cov={cov}"
      else
        if st.checks == 0 then "ok trivial"
        else s!"ok nontrivial checks={st.checks} valid={st.nValid} restating={st.nRestate} invalid={st.nInvalid} kinds={st.kinds.length} cov={cov}"
  | _ => "bad-op"

end Gluon.Driver.ConnUpdD
