/- Judge for recorded histories of the real async.QueuedChannel (oracle `c19queue`, harness/o_queue.go):
   is the history a run of the transition system `Conc.QState`?

   Input words:  <cap> <mode P|D> <closedSeen 0|1> <batches> <received>
     batches   p:j:ret:pre:n ; …   the j-th Enqueue call of producer p had n items (ids p*10^6 + j*10^3 + k),
                                   returned ret, and (pre = 1) had returned before Close / CloseAndDiscardQueued
                                   was called
     received  id,id,…             what the reader got, in order ("-" = nothing)
     closedSeen                    the reader drained the channel until it was closed
   The judge reconstructs the append order from the received sequence, checks the necessary conditions
   (whole batches, contiguous, program order per producer, nothing from a rejected Enqueue, nothing lost
   after a plain Close that was drained), builds a step sequence of the model from it and *runs the
   model*: the model's `received` must equal the observed one and its consumer must have exited when
   the reader saw the channel closed. -/
import GluonModel.Model.Conc
import GluonModel.Driver.Codec

-- DIALECT: judge-c19-queue judgeC19Queue
namespace Gluon.Driver
open Gluon Gluon.Conc Codec

structure QBatch where
  p : Nat
  j : Nat
  ret : Bool
  pre : Bool
  n : Nat
deriving Repr, BEq

def QBatch.items (b : QBatch) : List Nat := (List.range b.n).map fun k => b.p * 1000000 + b.j * 1000 + k

def parseQBatches (s : String) : Option (List QBatch) :=
  (splitNonEmpty s ";").mapM fun w =>
    match w.splitOn ":" with
    | [p, j, r, pre, n] => some { p := nat! p, j := nat! j, ret := bool! r, pre := bool! pre, n := nat! n }
    | _ => none

/-- split the received sequence into batches: (batch, number of its items received) in order -/
def splitReceived (bs : List QBatch) : Nat → List Nat → Option (List (QBatch × Nat))
  | 0, _ => some []
  | _, [] => some []
  | fuel + 1, id :: rest =>
    if id % 1000 != 0 then none else
    match bs.find? fun b => b.p == id / 1000000 && b.j == (id / 1000) % 1000 with
    | none => none
    | some b =>
      let want := b.items
      let got := (id :: rest).take want.length
      if got != want.take got.length then none
      else if got.length < want.length && got.length != (id :: rest).length then none
      else (splitReceived bs fuel ((id :: rest).drop got.length)).map fun t => (b, got.length) :: t

def judgeC19Queue (args : List String) : String :=
  match args with
  | [cap, mode, closedSeen, batches, received] =>
    match parseQBatches batches with
    | none => "violation unparsable-batches"
    | some bs =>
      let cap := nat! cap
      let discard := mode == "D"
      let closedSeen := bool! closedSeen
      let recvd := (splitNonEmpty received ",").map nat!
      if (recvd.eraseDups).length != recvd.length then "violation duplicate-item-received" else
      match splitReceived bs (recvd.length + 1) recvd with
      | none => "violation received-is-not-a-sequence-of-whole-batches"
      | some ord =>
        let ordB := ord.map (·.1)
        if ordB.any (fun b => !b.ret) then "violation item-of-rejected-enqueue-received" else
        -- program order per producer: the received batches of p are a prefix of p's accepted, non-empty ones
        let producers := (bs.map (·.p)).eraseDups
        let progOk := producers.all fun p =>
          let mine := (bs.filter fun b => b.p == p && b.ret && b.n > 0).map (·.j)
          let seen := (ordB.filter fun b => b.p == p).map (·.j)
          seen == mine.take seen.length
        if !progOk then "violation producer-order-broken" else
        let partialLast := match ord.getLast? with
          | some (b, k) => k < b.n
          | none => false
        let missing := bs.filter fun b => b.ret && b.n > 0 && !(ordB.contains b)
        if !discard && closedSeen && partialLast then "violation item-lost-after-plain-close" else
        if !discard && closedSeen && missing.any (·.pre) then "violation accepted-batch-lost-after-plain-close" else
        -- replay on the model
        let deliver : List (QStep Nat) := ord.flatMap fun (b, k) =>
          [QStep.enqCheck b.items, .enqAppend 0] ++ (List.replicate k [QStep.consume, .consume, .recv]).flatten
        let lateCheck : List (QStep Nat) := missing.map fun b => QStep.enqCheck b.items
        let close : List (QStep Nat) := (if discard then [QStep.stop] else []) ++ [.closeStore, .closeBcast]
        let rejected : List (QStep Nat) := (bs.filter fun b => !b.ret).map fun b => QStep.enqCheck b.items
        let exit : List (QStep Nat) := if closedSeen then [.consume, .consumeStop] else []
        let late : List (QStep Nat) := missing.map fun _ => QStep.enqAppend 0
        let s := (QState.init cap : QState Nat).run (deliver ++ lateCheck ++ close ++ rejected ++ exit ++ late)
        if s.received != recvd then "violation model-run-does-not-reproduce-received"
        else if closedSeen && s.consumer != .exited then "violation model-consumer-alive-but-channel-closed"
        else if s.panicked then "violation model-panicked"
        else if !(s.received ++ s.buf ++ s.held ++ s.dropped ++ s.items == s.accepted) then "violation model-conservation"
        else
          let interleaved := (ordB.map (·.p)).eraseDups.length > 1
          if recvd.isEmpty then "ok trivial"
          else if discard && !missing.isEmpty then "ok nontrivial-discarded"
          else if interleaved then "ok nontrivial-interleaved"
          else "ok nontrivial-fifo"
  | _ => "violation bad-arity"

end Gluon.Driver
