/- judge of the `db` dialect (C08): the property "every operation has the same result and effect as
   the corresponding operation on the plain relational model" evaluated call by call on what the
   real SQLite index answered.

   Input: `<mode> <token>* => <implementation word>*` (the op words and the implementation's
   result words of one session).  The judge replays the session on the model to know the state
   before every call (that the model tracks the implementation is what the `db` correspondence
   itself checks on the same line, dumps included).  For every executed call it evaluates the
   *relational meaning* (`specOps`) on that state and compares

     result : the implementation's word with the spec's word (any SQL error = any SQL error:
              which constraint a multi-statement operation trips first is not part of the meaning)
     effect : the state the model reaches with the state the spec reaches.

   As soon as the implementation's word differs from the model's, the state is no longer known:
   that call is still judged on its result, the rest of the line is not judged.

   Between transactions, while the state is known:
     dump   : the tables read through an independent connection must be the tables of the meaning
              (every call so far had the effect of its meaning in the model: `effect` above) — `dump:effect`
     grow:k : overlapping readers change nothing and read what a sequential reader reads, and every
              connection of the pool is the same index: answer `ok` — otherwise `grow:<answer>`
     client:v / reopen : the same database behind any variant of the client — `client:<answer>`

   Answer: `ok trivial` | `ok nontrivial calls=<n>` | `violation <token index>:<Method>:<result|effect> …`. -/
import GluonModel.Driver.DDb

-- DIALECT: judge-c08-db judgeC08Db
namespace Gluon.Driver
open Gluon.DB Gluon.DbCodec

def isErrWord (w : String) : Bool := w.startsWith "err:"
def sameWord (a b : String) : Bool := a == b || (isErrWord a && isErrWord b)

def resultWord (full : Bool) (r : CallResult) : String :=
  match r with
  | .ok (w, _) => digest full w
  | .error e => showErr e

def sameEffect (full : Bool) (a b : CallResult) : Bool :=
  match a, b with
  | .ok (_, d1), .ok (_, d2) => decide (d1 = d2) || dump full d1 == dump full d2
  | _, _ => true

structure JudgeSt where
  s : Sess := {}
  trusted : Bool := true
  judged : Nat := 0
  findings : Array String := #[]

def judgeTok (full : Bool) (st : JudgeSt) (tokImpl : String × String) : JudgeSt :=
  let (tok, implW) := tokImpl
  let M := modelOps factSites
  let st' := { st with s := stepTok M full st.s tok }
  if !st.trusted then st' else
  match st.s.tx with
  | .inside write work false =>
    if tok == "]c" || tok == "]a" then st' else
    match callTok M write st.s.pos tok work, callTok specOps write st.s.pos tok work with
    | some mr, some sr =>
      let name := (tok.splitOn ":").headD ""
      let modelW := resultWord full mr
      let specW := resultWord full sr
      let st' := { st' with judged := st'.judged + 1 }
      if implW != modelW then
        let st' := { st' with trusted := false }
        if sameWord implW specW then st' else { st' with findings := st'.findings.push s!"{st.s.pos}:{name}:result" }
      else if !sameWord implW specW then { st' with findings := st'.findings.push s!"{st.s.pos}:{name}:result" }
      else if !sameEffect full mr sr then { st' with findings := st'.findings.push s!"{st.s.pos}:{name}:effect" }
      else st'
    | _, _ => st'
  | .outside =>
    let modelW := st'.s.out.back?.getD ""
    let kind := if tok == "dump" then some "dump" else if tok == "reopen" then some "client"
      else match tok.splitOn ":" with
        | ["grow", _] => some "grow"
        | ["client", _] => some "client"
        | _ => none
    match kind with
    | none => st'
    | some k =>
      if implW == modelW then st' else
      let why := if k == "dump" then "effect" else implW
      { st' with trusted := false, findings := st'.findings.push s!"{st.s.pos}:{k}:{why}" }
  | _ => st'

/-- `judge-c08-db <mode> <token>* => <implementation word>*` -/
def judgeC08Db (args : List String) : String :=
  let ops := args.takeWhile (· != "=>")
  let impl := (args.dropWhile (· != "=>")).drop 1
  match ops with
  | mode :: toks =>
    if toks.length != impl.length then "violation 0:line:result-count" else
    let st := (toks.zip impl).foldl (judgeTok (mode == "f")) {}
    if !st.findings.isEmpty then "violation " ++ " ".intercalate st.findings.toList
    else if st.judged == 0 then "ok trivial"
    else s!"ok nontrivial calls={st.judged}"
  | [] => "violation 0:line:empty"

end Gluon.Driver
