/-
dialects `store`, `store-size` (C09): the store model (`Model/Store.lean`) with the configuration
regenerated from the source (`gluonCfg`) and the toy primitives (`Spec/StoreToy.lean`, nonce 12,
overhead 16 like AES-GCM) against the real `store.NewOnDiskStore` in a temporary directory.

    store <op>;<op>;…            one scenario on a fresh directory -> r<number of ops> <one result per op joined by ';'>
      S<id>=<content>            Set                       -> ok
      G<id>                      Get                       -> ok:<len>:<fnv1a64> | err:<class>
      D<id>[,<id>…]              Delete                    -> ok | err:notfound
      L                          List                      -> ids:<sorted ids | ->
      K<n>                       reopen with passphrase n  -> ok
      B<id>=<content>@<k>        begin a Set whose reader delivers the first k bytes and then waits: the Set is
                                 in progress during the following ops        -> ok
      E<id>                      the reader of the Set begun on <id> delivers the rest, then end of data -> ok
      A<id>                      the reader of the Set begun on <id> fails instead  -> err:reader
                                 (while a Set is in progress on <id>, S G D X B on that id and K answer bad-op:
                                 through WriteControlledStore they would wait for the Set)
      X<id>:<kind>               alter the file            -> ok | err:notfound
         h<i> n<i>  flip header / nonce byte i      bf bm bl  flip first / middle / last body byte
         ch<m> cn<m> ca  keep m header bytes / header + m nonce bytes / header + nonce
         ct<m>  drop the last m (1..16) bytes       ap<m>  append m bytes
         bt  flip the first byte of the last sealed block     cm  cut the last sealed block to its first half
    any result may carry the suffix `!changed:<i>` on the implementation side: the bytes the Get of op i returned
    (kept by the runner) are no longer what they were when it returned them; the model never says that
    (`C09.get_result_stable`)
    content:  z<n> zeros | t<n> text | r<n>.<seed> pseudo-random | x<hex>
              | c<part>+<part>+…  concatenation of z/t/r parts (contents of mixed compressibility: the generator
                builds them so that a sealed-block boundary coincides with an LZ4 data-block boundary)
    store-size <content> <clen>  size of the file `Set` writes; clen = length of the LZ4 frame of the content
                                 (computed by the generator with the real compressor) -> size <n>

Only operations whose outcome is determined by the hypothesis structures (`Laws`, `AEAD`, `LZ4Seq`,
`EmptyIsEOF`) are in the dialect, so the toy primitives predict what AES-GCM + LZ4 must answer.
-/
import GluonModel.Spec.StoreToy
import GluonModel.Spec.StoreGluon

-- DIALECT: store runStore
-- DIALECT: store-size runStoreSize
namespace Gluon.Driver.StoreD
open Gluon.Store

def nat! (s : String) : Nat := s.toNat?.getD 0

def splitmixNext (s : UInt64) : UInt64 × UInt64 :=
  let s := s + 0x9E3779B97F4A7C15
  let z := s
  let z := (z ^^^ (z >>> 30)) * 0xBF58476D1CE4E5B9
  let z := (z ^^^ (z >>> 27)) * 0x94D049BB133111EB
  (s, z ^^^ (z >>> 31))

def randBytes (seed : Nat) (n : Nat) : Bytes :=
  let rec go : Nat → UInt64 → List Nat → List Nat
    | 0, _, acc => acc.reverse
    | k + 1, s, acc =>
      let (s', z) := splitmixNext s
      go k s' (((z >>> 33) &&& 0xff).toNat :: acc)
  go n (UInt64.ofNat seed * 0x9E3779B97F4A7C15 + 0x1234567) []

def textPhrase : List Nat := "The quick brown fox jumps over the lazy dog.\r\n".toUTF8.toList.map (·.toNat)

def textBytes (n : Nat) : Bytes :=
  let rec go : Nat → Nat → List Nat → List Nat
    | 0, _, acc => acc.reverse
    | k + 1, i, acc => go k (if i + 1 = textPhrase.length then 0 else i + 1) (textPhrase.getD i 0 :: acc)
  go n 0 []

def hexVal (c : Char) : Nat :=
  if '0' ≤ c ∧ c ≤ '9' then c.toNat - '0'.toNat
  else if 'a' ≤ c ∧ c ≤ 'f' then c.toNat - 'a'.toNat + 10 else 0

def hexBytes : List Char → Bytes
  | a :: b :: rest => (hexVal a * 16 + hexVal b) :: hexBytes rest
  | _ => []

def parsePart (s : String) : Option Bytes :=
  match s.toList with
  | 'z' :: r => some (List.replicate (nat! (String.ofList r)) 0)
  | 't' :: r => some (textBytes (nat! (String.ofList r)))
  | 'r' :: r =>
    match (String.ofList r).splitOn "." with
    | [n, seed] => some (randBytes (nat! seed) (nat! n))
    | _ => none
  | _ => none

def parseContent (s : String) : Option Bytes :=
  match s.toList with
  | 'c' :: r => (((String.ofList r).splitOn "+").mapM parsePart).map List.flatten
  | 'z' :: r => some (List.replicate (nat! (String.ofList r)) 0)
  | 't' :: r => some (textBytes (nat! (String.ofList r)))
  | 'r' :: r =>
    match (String.ofList r).splitOn "." with
    | [n, seed] => some (randBytes (nat! seed) (nat! n))
    | _ => none
  | 'x' :: r => some (hexBytes r)
  | _ => none

def fnv1a (b : Bytes) : UInt64 :=
  b.foldl (fun h x => (h ^^^ UInt64.ofNat x) * 1099511628211) 14695981039346656037

def hexDigit (n : Nat) : Char := if n < 10 then Char.ofNat (48 + n) else Char.ofNat (87 + n)

def hex64 (v : UInt64) : String :=
  String.ofList ((List.range 16).map fun i => hexDigit ((v >>> (UInt64.ofNat (60 - 4 * i))) &&& 0xf).toNat)

def digest (b : Bytes) : String := s!"{b.length}:{hex64 (fnv1a b)}"

def showErr : Err → String
  | .notFound => "notfound"
  | .short => "short"
  | .notValid => "notvalid"
  | .nonce => "nonce"
  | .corrupt => "corrupt"
  | .fallback => "fallback"

def prims : Prims Nat := Toy.prims 12 65536

def flipByte (x : Nat) : Nat := if x % 2 = 0 then x + 1 else x - 1

def flipAt (f : Bytes) (i : Nat) : Bytes := f.set i (flipByte (f.getD i 0))

/-- the alterations of the dialect, on the bytes of a file -/
def alter (hl ns enc : Nat) (f : Bytes) (kind : String) : Option Bytes :=
  let body := f.length - (hl + ns)
  -- length of the last sealed block (pieces of `enc` = blockSize + overhead bytes)
  let lastLen := if body = 0 then 0 else (body - 1) % enc + 1
  match kind.toList with
  | ['b', 't'] => some (if lastLen = 0 then f else flipAt f (f.length - lastLen))
  | ['c', 'm'] => some (f.take (f.length - lastLen / 2))
  | ['b', 'f'] => some (flipAt f (hl + ns))
  | ['b', 'm'] => some (flipAt f (hl + ns + body / 2))
  | ['b', 'l'] => some (flipAt f (f.length - 1))
  | ['c', 'a'] => some (f.take (hl + ns))
  | 'c' :: 'h' :: r => some (f.take (nat! (String.ofList r)))
  | 'c' :: 'n' :: r => some (f.take (hl + nat! (String.ofList r)))
  | 'c' :: 't' :: r => some (f.take (f.length - nat! (String.ofList r)))
  | 'a' :: 'p' :: r => some (f ++ List.replicate (nat! (String.ofList r)) 170)
  | 'h' :: r => some (flipAt f (nat! (String.ofList r)))
  | 'n' :: r => some (flipAt f (hl + nat! (String.ofList r)))
  | _ => none

/-- passphrase n ↦ toy key.  The toy tag carries the key as one plain element, so keys are spaced out:
    flipping that element (alteration `bm` can hit it) must not yield another passphrase's key —
    otherwise the alteration would be a forgery in the toy, which AES-GCM excludes (`Unforged`). -/
def toyKey (n : Nat) : Nat := 1000 + 7 * n

/-- a Set in progress: id, content, bytes delivered before the reader waits, the nonce drawn -/
structure Flight where
  id : Nat
  content : Bytes
  k : Nat
  nonce : Bytes

structure Sim where
  fs : FS := FS.empty
  key : Nat := toyKey 0
  sets : Nat := 0      -- number of Sets so far (derives the nonce)
  flights : List Flight := []

def Sim.inFlight (st : Sim) (id : Nat) : Bool := st.flights.any (·.id == id)

/-- toy LZ4 piece size (the `L` of `prims`) -/
def toyPiece : Nat := 65536

/-- What of the compressed stream reached the write loop of `Set` when the reader failed after `k` bytes:
    `lz4.Writer.ReadFrom` fills whole 64 KiB pieces with `io.ReadFull`, compresses and writes each; a read error
    drops the incomplete piece, and `Close` on a writer in error state writes no end mark.  So: the frame of the
    whole pieces delivered, without the end mark. -/
def streamBeforeFailure (b : Bytes) (k : Nat) : Bytes :=
  let whole := (min k b.length) / toyPiece * toyPiece
  (prims.compress (b.take whole)).dropLast

/-- the full blocks the write loop had sealed (`io.ReadAtLeast(…, blockSize)` returned without error) -/
def fullBlocks (bs : Nat) (stream : Bytes) : List Bytes := (cut bs stream).filter (fun p => p.length == bs)

def sortNat (l : List Nat) : List Nat := (l.toArray.qsort (· < ·)).toList

/-- the ids an op works on (for the in-progress guard) -/
def opIds (op : String) : List Nat :=
  match op.toList with
  | 'S' :: r | 'B' :: r => [nat! (((String.ofList r).splitOn "=").headD "")]
  | 'G' :: r => [nat! (String.ofList r)]
  | 'D' :: r => ((String.ofList r).splitOn ",").map nat!
  | 'X' :: r => [nat! (((String.ofList r).splitOn ":").headD "")]
  | _ => []

def stepOp (st : Sim) (op : String) : Sim × String :=
  let s : Store Nat := { cfg := gluonCfg, P := prims, key := st.key }
  if (opIds op).any st.inFlight || (op.startsWith "K" && !st.flights.isEmpty) then (st, "bad-op") else
  match op.toList with
  | 'S' :: r =>
    match (String.ofList r).splitOn "=" with
    | [id, c] =>
      match parseContent c with
      | some b =>
        let nonce := randBytes (1000 + st.sets) 12
        ({ st with fs := s.set nonce st.fs (nat! id) b, sets := st.sets + 1 }, "ok")
      | none => (st, "bad-op")
    | _ => (st, "bad-op")
  | 'B' :: r =>
    match (String.ofList r).splitOn "=" with
    | [id, ck] =>
      match ck.splitOn "@" with
      | [c, k] =>
        match parseContent c with
        | some b =>
          let nonce := randBytes (1000 + st.sets) 12
          -- the file exists under the id's name (O_CREATE|O_TRUNC, header written) from the start of the Set
          ({ st with fs := Store.setInFlight st.fs (nat! id) gluonCfg.header, sets := st.sets + 1,
                     flights := ⟨nat! id, b, nat! k, nonce⟩ :: st.flights }, "ok")
        | none => (st, "bad-op")
      | _ => (st, "bad-op")
    | _ => (st, "bad-op")
  | 'E' :: r =>
    let id := nat! (String.ofList r)
    match st.flights.find? (·.id == id) with
    | some f =>
      ({ st with fs := s.set f.nonce st.fs id f.content, flights := st.flights.filter (·.id != id) }, "ok")
    | none => (st, "bad-op")
  | 'A' :: r =>
    let id := nat! (String.ofList r)
    match st.flights.find? (·.id == id) with
    | some f =>
      let done := fullBlocks gluonCfg.blockSize (streamBeforeFailure f.content f.k)
      ({ st with fs := s.setInterrupted f.nonce st.fs id done, flights := st.flights.filter (·.id != id) }, "err:reader")
    | none => (st, "bad-op")
  | 'G' :: r =>
    match s.get st.fs (nat! (String.ofList r)) with
    | .ok b => (st, s!"ok:{digest b}")
    | .err e => (st, s!"err:{showErr e}")
  | 'D' :: r =>
    let ids := ((String.ofList r).splitOn ",").map nat!
    match Store.delete st.fs ids with
    | (fs', none) => ({ st with fs := fs' }, "ok")
    | (fs', some e) => ({ st with fs := fs' }, s!"err:{showErr e}")
  | ['L'] =>
    let ids := sortNat (Store.list st.fs)
    (st, "ids:" ++ (if ids.isEmpty then "-" else ",".intercalate (ids.map toString)))
  | 'K' :: r => ({ st with key := toyKey (nat! (String.ofList r)) }, "ok")
  | 'X' :: r =>
    match (String.ofList r).splitOn ":" with
    | [id, kind] =>
      match st.fs.read (nat! id) with
      | none => (st, "err:notfound")
      | some f =>
        match alter gluonCfg.header.length prims.nonceSize (gluonCfg.blockSize + prims.overhead) f kind with
        | some f' => ({ st with fs := st.fs.write (nat! id) f' }, "ok")
        | none => (st, "bad-op")
    | _ => (st, "bad-op")
  | _ => (st, "bad-op")

def runOps (ops : List String) : List String :=
  let rec go : Sim → List String → List String → List String
    | _, [], acc => acc.reverse
    | st, op :: rest, acc => let (st', r) := stepOp st op; go st' rest (r :: acc)
  go {} ops []

/-- `store <ops>` -/
def runStore (args : List String) : String :=
  match args with
  | [ops] =>
    let rs := runOps (ops.splitOn ";")
    s!"r{rs.length} " ++ ";".intercalate rs
  | _ => "bad-op"

/-- `store-size <content> <clen>` (the formula proved equal to the length of the encoding in `C09.set_file_size`) -/
def runStoreSize (args : List String) : String :=
  match args with
  | [_content, clen] => s!"size {fileSize gluonCfg.header.length prims.nonceSize gluonCfg.blockSize prims.overhead (nat! clen)}"
  | _ => "bad-op"

end Gluon.Driver.StoreD

namespace Gluon.Driver
def runStore := StoreD.runStore
def runStoreSize := StoreD.runStoreSize
end Gluon.Driver
