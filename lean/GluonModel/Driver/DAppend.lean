/- dialects for C20 (oracle `c20append`, harness/o_append.go).

   c20-append <script> <limit> <step>…            the model (Model/Append.lean) runs the sequence
        script  <create>,<add>,<remove>,<move>,<store>   one letter per call: o ok, e error,
                s size error, d (create only) same remote ID again; `-` = empty
        limit   <max messages per mailbox> | -
        step    fields joined by `~`, `+` in a mailbox name is a space, `%2F` the hierarchy separator; a name
                may carry a wire tag: `@l@name` sent as an IMAP literal (same name), `@u@name` sent with its first
                character as a modified-UTF-7 escape (the session layer's decoder refuses that: NO, nothing happens):
                APPEND~mbox~hv~uv~gid (hv 0: invalid header, BAD; hv = 100*shape + n, `shapeLeaves`; gid: - | bad | mbox:uid)
                COPY~src~u,u~dst  MOVE~src~u,u~dst  EXPUNGE~mbox~u,u  CREATE~n  DELETE~n  RENAME~o~n  LIST  RESTART
                SELECT~n EXAMINE~n STATUS~n SUBSCRIBE~n UNSUBSCRIBE~n  (not commands of the model: the state is
                unchanged, the answer is left open `*`)
        out     one word per step: <result>|<state>
                result  ok_<uid> no no_known no_trycreate bad | ok_<src>><dst> ok_- nosel | ok no
                        | list:<names> ; state  listed=<0|1> then per mailbox /<mbox>=<uid>:<hv>.<uv>,… (or = followed by a dash), sorted

   c20-shape <shape>        `hash-ok` / `hash-fails`: `leavesHashOk (shapeLeaves shape)` (compared with
                            rfc822.GetMessageHash on the harness's literal of that shape)

   judge-c20-append <script> <limit> <step>… => <observed word per step>
        the statement of C20 evaluated on what the real server did (no use of the model's
        transition function): `ok trivial 0`, `ok nontrivial <n>` or `violation <class>@<step>,… <n>` (n = steps on which C20 had something to decide) -/
import GluonModel.Model.Append

-- DIALECT: c20-append DAppend.runAppend
-- DIALECT: judge-c20-append DAppend.judgeAppend
-- DIALECT: c20-shape DAppend.shapeHash
namespace Gluon.Driver.DAppend
open Gluon.Append

def sortStrings (l : List String) : List String := (l.toArray.qsort (· < ·)).toList

/-- the wire tag of a name word: `@l@…` / `@u@…`, none = quoted string -/
def nameTag (w : String) : Char :=
  match w.toList with
  | '@' :: t :: '@' :: _ => t
  | _ => 'q'
def untag (w : String) : String := if nameTag w == 'q' then w else (w.drop 3).toString
def decName (w : String) : String := ((untag w).replace "+" " ").replace "%2F" "/"
def encName (n : String) : String := (n.replace " " "+").replace "/" "%2F"
/-- the key of the mailbox a name word denotes in an observed state -/
def boxKey (w : String) : String := encName (decName w)
def nat! (s : String) : Nat := s.toNat?.getD 0
def natList (s : String) : List Nat := if s == "-" || s == "" then [] else (s.splitOn ",").map nat!
def showNats (l : List Nat) : String := ",".intercalate (l.map toString)

def parseROuts (w : String) : List ROut :=
  if w == "-" then [] else w.toList.map fun c => if c == 'e' then .fail else if c == 's' then .failSize else .ok

def parseScript (w : String) : Option Script :=
  match w.splitOn "," with
  | [c, a, r, m, st] =>
    some { create := if c == "-" then [] else c.toList.map fun x =>
             if x == 'e' then COut.fail else if x == 's' then .failSize else if x == 'd' then .dup else .ok,
           add := parseROuts a, remove := parseROuts r, move := parseROuts m,
           storeSet := if st == "-" then [] else st.toList.map (· != 'o') }
  | _ => none

def parseLimit (w : String) : Limits.IMAP :=
  if w == "-" then Limits.defaultLimits else Limits.newIMAPLimits 4294967295 (nat! w) 4294967295 4294967295

/-- the X-Pm-Gluon-Id the client copies from the stored message `mbox:uid` -/
def resolveGid (s : St) (w : String) : Option Gid :=
  if w == "-" then some .none
  else if w == "bad" then some .bad
  else
    match w.splitOn ":" with
    | [n, u] =>
      match getBox s.db (decName n) with
      | none => none
      | some b =>
        match b.msgs.find? (·.1 == nat! u) with
        | none => none
        | some (_, id) => (s.store.lookup id).map (·.gid)
    | _ => none

/-- the leaves of the harness's MIME shapes (o_append.go `c20Shapes`), as `hashBody` sees them -/
def shapeLeaves : Nat → List Leaf
  | 1 => [{ text := true, cte := .base64, decodes := true }]
  | 2 => [{ text := true, cte := .base64, decodes := false }]
  | 3 => [{ text := true, cte := .qp, decodes := true }]
  | 4 => [{ text := true, cte := .qp, decodes := false }]
  | 5 => [{ text := true, cte := .other, decodes := true }]
  | 6 => [{ text := true, cte := .other, decodes := false }]
  | 7 => [{ text := true, cte := .base64, decodes := true }, { text := false, cte := .base64, decodes := false }]
  | 8 => [{ text := true, cte := .none, decodes := true }, { text := true, cte := .base64, decodes := false }]
  | 11 => [{ text := false, cte := .base64, decodes := false }]
  | 12 => [{ text := true, cte := .base64, decodes := false }]
  | 13 => [{ text := true, cte := .base64, decodes := false }]
  | _ => [{ text := true, cte := .none, decodes := true }]      -- 0 plain, 9 truncated multipart, 10 empty body

def shapeHashOk (hv : Nat) : Bool := leavesHashOk (shapeLeaves (hv / 100))

def shapeHash (args : List String) : String :=
  match args with
  | [w] => if leavesHashOk (shapeLeaves (nat! w)) then "hash-ok" else "hash-fails"
  | _ => "bad-op"

def parseCmd (s : St) (w : String) : Option Cmd :=
  match w.splitOn "~" with
  | ["APPEND", n, hv, uv, g] =>
    (resolveGid s g).map fun gid => .append (decName n)
      { hv := nat! hv, uv := nat! uv, gid := gid, valid := nat! hv != 0, hashOk := shapeHashOk (nat! hv) }
  | ["COPY", a, u, d] => some (.copy (decName a) (natList u) (decName d))
  | ["MOVE", a, u, d] => some (.move (decName a) (natList u) (decName d))
  | ["EXPUNGE", a, u] => some (.expunge (decName a) (natList u))
  | ["CREATE", n] => some (.create (decName n))
  | ["DELETE", n] => some (.delete (decName n))
  | ["RENAME", o, n] => some (.rename (decName o) (decName n))
  | ["LIST"] => some .list
  | ["RESTART"] => some .restart
  | _ => none

def showRes : Res → String
  | .append (.ok u) => s!"ok_{u}"
  | .append (.refused .noSuchMailbox) => "no_trycreate"
  | .append (.refused _) => "no"
  | .append .invalid => "bad"
  | .append .tooLarge => "no"
  | .append (.rejected _ true) => "no_known"
  | .append (.rejected _ false) => "no"
  | .copy (.ok _ []) => "ok_-"
  | .copy (.ok a b) => s!"ok_{showNats a}>{showNats b}"
  | .copy (.no _) => "no"
  | .copy .nosel => "nosel"
  | .status none => "ok"
  | .status (some .unsupported) => "unsupported"
  | .status (some _) => "no"
  | .list ns => "list:" ++ ",".intercalate (sortStrings (ns.map encName))
  | .done => "ok"

def showBox (s : St) (b : Mbox) : String :=
  let ms := b.msgs.map fun (u, id) =>
    match s.store.lookup id with
    | some l => s!"{u}:{l.hv}.{l.uv}"
    | none => s!"{u}:?"
  encName b.name ++ "=" ++ (if ms.isEmpty then "-" else ",".intercalate ms)

def showState (s : St) : String :=
  let listed := if (list s).contains recName then "1" else "0"
  "/".intercalate (("listed=" ++ listed) :: sortStrings (s.db.boxes.map (showBox s)))

/-- EXPUNGE answers `nosel` when the mailbox cannot be selected -/
def showStep (c : Cmd) (r : Res) : String :=
  match c, r with
  | .expunge _ _, .status (some .noSuchMailbox) => "nosel"
  | _, r => showRes r

/-- what the session layer answers before the state layer is asked: a name the modified-UTF-7
    decoder refuses (`decodeMailboxName`: an escape that encodes a printable ASCII character) is
    answered NO whatever the command; the probe commands are not part of the model (state
    unchanged, answer left open) -/
def sessionLayer (s : St) (w : String) : Option String :=
  match w.splitOn "~" with
  | [op, a] =>
    if ["SELECT", "EXAMINE", "STATUS", "SUBSCRIBE", "UNSUBSCRIBE"].contains op then some "*"
    else if nameTag a == 'u' then some "no" else none
  | ["RENAME", a, b] => if nameTag a == 'u' || nameTag b == 'u' then some "no" else none
  | ["APPEND", a, _, _, _] => if nameTag a == 'u' then some "no" else none
  | [_, src, _, dst] =>
    if nameTag dst == 'u' then (if (getBox s.db (decName src)).isSome then some "no" else some "nosel") else none
  | _ => none

def runSteps (s : St) : List String → Option (List String)
  | [] => some []
  | w :: ws =>
    match sessionLayer s w with
    | some r => (runSteps s ws).map fun out => (r ++ "|" ++ showState s) :: out
    | none =>
    match parseCmd s w with
    | none => none
    | some c =>
      let (r, s1) := step id s c
      match runSteps s1 ws with
      | none => none
      | some out => some ((showStep c r ++ "|" ++ showState s1) :: out)

def runAppend (args : List String) : String :=
  match args with
  | sc :: lim :: steps =>
    match parseScript sc with
    | none => "bad-op"
    | some script =>
      match runSteps (init script (parseLimit lim)) steps with
      | none => "bad-op"
      | some out => if out.isEmpty then "-" else " ".intercalate out
  | _ => "bad-op"

/-! ### the judge: C20 on observations -/

/-- an observed state: listed flag and mailbox ↦ [(uid, message key)] -/
structure Obs where
  listed : Bool
  boxes : List (String × List (Nat × String))
deriving Repr

def parseObs (w : String) : Option Obs :=
  match w.splitOn "/" with
  | l :: bs =>
    let boxes := bs.filterMap fun b =>
      match b.splitOn "=" with
      | [n, ms] =>
        some (n, if ms == "-" then [] else (ms.splitOn ",").filterMap fun m =>
          match m.splitOn ":" with
          | [u, k] => some (nat! u, k)
          | _ => none)
      | _ => none
    if boxes.length == bs.length then some { listed := l == "listed=1", boxes := boxes } else none
  | _ => none

def Obs.box (o : Obs) (n : String) : Option (List (Nat × String)) := o.boxes.lookup n
def recKey : String := encName recName
def Obs.recovery (o : Obs) : List (Nat × String) := (o.box recKey).getD []
def Obs.allKeys (o : Obs) : List String := o.boxes.flatMap (fun b => b.2.map (·.2))
def countKey (ms : List (Nat × String)) (k : String) : Nat := (ms.filter (·.2 == k)).length
def hvOf (k : String) : String := (k.splitOn ".").headD ""

def initObs : Obs := { listed := false, boxes := [("INBOX", []), (recKey, [])] }

/-- `needle` occurs in `hay` -/
def hasInfix (needle : List Char) : List Char → Bool
  | [] => needle.isEmpty
  | c :: r => needle.isPrefixOf (c :: r) || hasInfix needle r

/-- a name "about" the recovery mailbox: some spelling of it, or a path that contains one -/
def recLike (w : String) : Bool := hasInfix "recovered".toList (lower (decName w))

/-- "listed exactly while non-empty" is violated: the class.  One cause has a name of its own: the
    empty recovery mailbox is shown because LIST shows the parent of every mailbox and some mailbox
    is (by its name) an inferior of it (`Recovered Messages/x`; CREATE refuses such a name, RENAME
    into it is the known finding `rename-into-recovery` of C14) -/
def listedClass (o : Obs) : String :=
  if o.recovery.isEmpty && o.boxes.any (fun b => (recKey ++ "%2F").isPrefixOf b.1) then "listed-as-parent-of-inferior"
  else "listed-iff-nonempty"

/-- classes of violation found at one step.

    Clauses of C20 as statements about the observations (no use of the model's transition function):
    * every state: the recovery mailbox exists, is listed iff non-empty, holds no message twice;
      no message vanishes except by EXPUNGE / DELETE of its mailbox;
    * the content of the recovery mailbox changes only by an APPEND (which may add the handed
      message at the end, nothing else), by a MOVE out of it answered OK (exactly the selected
      messages leave) and by an EXPUNGE in it — no other command, whatever name it carries in
      whatever spelling, changes it (`recovery-content-changed`);
    * a command that names the recovery mailbox itself (its name in any letter case, sent as quoted
      string, literal or modified UTF-7) as target of APPEND / CREATE / DELETE / RENAME / COPY / MOVE is
      answered NO and changes nothing;
    * APPEND answered OK: the handed bytes under the announced UID; answered NO by the remote: in the
      recovery mailbox (every MIME shape, hashable or not);
    * COPY / MOVE out of the recovery mailbox answered OK: every selected message IS in the
      destination afterwards (whether or not a COPYUID announced it: the remote may have
      de-duplicated it, which says nothing about where it is), and for MOVE has left the recovery
      mailbox, for COPY is still there. -/
def judgeStep (hasSize : Bool) (pre post : Obs) (step res : String) : List String × Bool :=
  let f := step.splitOn "~"
  let op := f.headD ""
  let src := f.getD 1 ""
  let stepUids := natList (f.getD 2 "")
  let movedOut : Bool := op == "MOVE" && src == recKey && res.startsWith "ok_"
  let contentOk : Bool :=
    if op == "APPEND" then
      post.recovery == pre.recovery ||
        (post.recovery.length == pre.recovery.length + 1 && post.recovery.take pre.recovery.length == pre.recovery &&
         (post.recovery.getLast?.map (·.2)) == some ((f.getD 2 "") ++ "." ++ (f.getD 3 "")))
    else if movedOut then post.recovery == pre.recovery.filter (fun m => !stepUids.contains m.1)
    else if op == "EXPUNGE" && src == recKey then post.recovery.all (fun m => pre.recovery.contains m)
    else post.recovery == pre.recovery
  -- invariants of every state
  let inv : List String :=
    (if (post.box recKey).isNone then ["recovery-mailbox-missing"] else []) ++
    (if post.listed != !post.recovery.isEmpty then [listedClass post] else []) ++
    (if post.recovery.any (fun m => countKey post.recovery m.2 > 1) then ["duplicate-in-recovery"] else []) ++
    (if op != "EXPUNGE" && op != "DELETE" && pre.allKeys.any (fun k => !post.allKeys.contains k) then ["message-vanished"] else []) ++
    (if contentOk then [] else ["recovery-content-changed"])
  let isRec (n : String) : Bool := isRecName (decName n)
  let unchanged : Bool := pre.boxes == post.boxes
  match f with
  | ["APPEND", n, hv, uv, _] =>
    let key := hv ++ "." ++ uv
    if isRec n then
      (inv ++ (if res != "no" || !unchanged then ["recovery-not-protected-append"] else []), true)
    else if hv == "0" then
      -- no From/Date: refused by the session layer (BAD), or NO when the mailbox does not exist; nothing is kept
      (inv ++ (if (res == "bad" || res == "no_trycreate") && unchanged then [] else ["invalid-message-not-refused"]), true)
    else if res.startsWith "ok_" then
      let uid := nat! (res.drop 3).toString
      let present := ((post.box (boxKey n)).getD []).contains (uid, key)
      (inv ++ (if present then [] else
        (if ((post.box (boxKey n)).getD []).any (·.1 == uid) then ["ok-but-other-bytes-under-uid"] else ["ok-but-not-present"])), true)
    else if res == "no_known" then
      -- answered "known recovered message": the very message must be in the recovery mailbox
      let c := countKey post.recovery key
      (inv ++ (if c ≥ 1 then [] else
        (if post.recovery.any (fun m => hvOf m.2 == hv) then ["near-duplicate-dropped"] else ["known-but-absent"])), true)
    else if res == "no" then
      if (pre.box (boxKey n)).isNone then (inv, recLike n)
      else if hasSize then (inv, false)      -- a size rejection or a local store fault cannot be told from the wire
      else (inv ++ (if countKey post.recovery key ≥ 1 then [] else ["rejected-not-recovered"]), true)
    else (inv, recLike n)
  | ["CREATE", n] =>
    if isRec n then (inv ++ (if res != "no" || !unchanged then ["recovery-not-protected-create"] else []), true) else (inv, recLike n)
  | ["DELETE", n] =>
    if isRec n then (inv ++ (if res != "no" || !unchanged then ["recovery-not-protected-delete"] else []), true) else (inv, recLike n)
  | ["RENAME", o, n] =>
    if isRec o || isRec n then (inv ++ (if res != "no" || !unchanged then ["recovery-not-protected-rename"] else []), true)
    else (inv, recLike o || recLike n)
  | ["LIST"] =>
    let names := if res.startsWith "list:" then (res.drop 5).toString.splitOn "," else []
    (inv ++ (if names.contains recKey != !pre.recovery.isEmpty then [listedClass pre] else []), !pre.recovery.isEmpty)
  | [mv, src, _, dst] =>
    if mv == "COPY" || mv == "MOVE" then
      if res == "nosel" then (inv, false)      -- the source could not be selected: the command was not sent
      else if isRec dst then (inv ++ (if res != "no" || !unchanged then ["recovery-not-protected-copy-into"] else []), true)
      else if src == recKey && res.startsWith "ok_" then
        -- the messages the command selected: the UIDs of the step that exist
        let sel := pre.recovery.filter (fun m => stepUids.contains m.1)
        let dstBox := (post.box (boxKey dst)).getD []
        let arrived := sel.all (fun m => countKey dstBox m.2 ≥ 1)
        let okSrc := if mv == "MOVE" then sel.all (fun m => !post.recovery.any (·.1 == m.1))
                     else sel.all (fun m => post.recovery.contains m)
        -- every announced destination UID holds one of the selected recovered messages
        let announced : List String :=
          match (res.drop 3).toString.splitOn ">" with
          | [_, b] =>
            if (natList b).all (fun u => match dstBox.find? (·.1 == u) with | some m => sel.any (·.2 == m.2) | none => false) then []
            else ["move-copy-out-wrong-destination"]
          | _ => []
        (inv ++ announced ++ (if arrived then [] else ["move-copy-out-not-arrived"]) ++
          (if okSrc then [] else ["move-copy-out-wrong-source"]), !sel.isEmpty)
      else (inv, recLike dst)
    else (inv, false)
  | [_, n] => (inv, recLike n)      -- SELECT / EXAMINE / STATUS / SUBSCRIBE / UNSUBSCRIBE: the invariants, nothing changes
  | _ => (inv, false)

def judgeLoop (hasSize : Bool) (pre : Obs) (k : Nat) : List String → List String → Option (List String × Nat)
  | [], [] => some ([], 0)
  | st :: sts, o :: os =>
    match o.splitOn "|" with
    | [res, state] =>
      match parseObs state with
      | none => none
      | some post =>
        let (v, nt) := judgeStep hasSize pre post st res
        match judgeLoop hasSize post (k + 1) sts os with
        | none => none
        | some (vs, n) => some (v.map (fun c => s!"{c}@{k}") ++ vs, n + (if nt then 1 else 0))
    | _ => none
  | _, _ => none

def splitArrow (args : List String) : List String × List String :=
  (args.takeWhile (· != "=>"), (args.dropWhile (· != "=>")).drop 1)

def judgeAppend (args : List String) : String :=
  let (ops, outs) := splitArrow args
  match ops with
  | sc :: _lim :: steps =>
    let hasSize := sc.contains 's' || ((sc.splitOn ",").getD 4 "").contains 'e'
    match judgeLoop hasSize initObs 1 steps outs with
    | none => "violation unparsable-observation"
    | some ([], n) => if n > 0 then s!"ok nontrivial {n}" else "ok trivial 0"
    | some (vs, n) => "violation " ++ ",".intercalate vs ++ s!" {n}"
  | _ => "bad-op"

end Gluon.Driver.DAppend
