/- Registry of line-protocol dialects. One entry per dialect: add a line here. -/
import GluonModel.Driver.DFlush
import GluonModel.Driver.DJudgeFlush

namespace Gluon.Driver

def dialects : List (String × (List String → String)) := [
  ("flush", runFlush),
  ("merge", runMerge),
  ("judge-c05-flush", judgeC05),
  ("judge-c01-flush", judgeC01)
]

def step (line : String) : String :=
  match line.splitOn " " with
  | [] => "bad-op"
  | d :: args =>
    match dialects.lookup d with
    | some f => f args
    | none => "bad-dialect"

end Gluon.Driver
