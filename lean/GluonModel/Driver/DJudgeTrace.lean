/- `judge-c01-trace S<i> <events>`: the client mirror (Spec/Mirror.lean) run over the untagged
   responses one session received in a wire-level history (harness/hist.go), with probe results.
   Events (`;`-separated): RESET<n> (SELECT/EXAMINE answered n EXISTS, or mailbox closed: n=0),
   E<n> R<n> X<n> F<seq>:<flags|~>:<uid|~> (untagged responses), Q<seq>:<flags>:<uid> (one result of a
   FETCH 1:* (UID FLAGS) probe), P<n> (the probe returned n results), Z / Z<seq>,… (own .SILENT store done:
   the client drops its flag knowledge for all / for the named positions). -/
import GluonModel.Driver.Codec
import GluonModel.Spec.Mirror

namespace Gluon.Driver
open Gluon Codec

-- DIALECT: judge-c01-trace judgeC01Trace

def forgetAllFlags (m : Mirror) : Mirror :=
  { m with msgs := m.msgs.map fun e => { e with flags := none } }

/-- one event; `Except` carries the reason for a violation -/
def traceStep (m : Mirror) (ev : String) : Except String Mirror :=
  if ev.startsWith "RESET" then .ok (Mirror.ofCount (nat! (ev.drop 5).toString))
  else if ev == "Z" then .ok (forgetAllFlags m)
  else if ev.startsWith "Z" then
    -- `Z<seq>,<seq>,…`: own .SILENT store on these positions
    let seqs := (splitNonEmpty (ev.drop 1).toString ",").map nat!
    .ok { m with msgs := m.msgs.mapIdx fun i e => if seqs.contains (i + 1) then { e with flags := none } else e }
  else if ev.startsWith "P" then
    let n := nat! (ev.drop 1).toString
    if n == m.msgs.length then .ok m
    else .error s!"probe-answered-{n}-messages-but-{m.msgs.length}-announced"
  else if ev.startsWith "Q" then
    match parseResp ("F" ++ (ev.drop 1).toString) with
    | some (.fetch seq (some fl) (some uid)) =>
      match m.msgs[seq - 1]? with
      | none => .error s!"probe-result-{seq}-beyond-announced-count-{m.msgs.length}"
      | some e =>
        if seq == 0 then .error "probe-result-0" else
        if e.uid.isSome && e.uid != some uid then .error s!"seq-{seq}-uid-changed-without-expunge"
        else if e.flags.isSome && e.flags != some fl then .error s!"seq-{seq}-flags-differ-from-last-announcement"
        else .ok { m with msgs := m.msgs.set (seq - 1) { uid := some uid, flags := some fl } }
    | _ => .error "bad-probe-event"
  else
    match parseResp ev with
    | none => .error s!"bad-event-{ev}"
    | some r =>
      match m.apply r with
      | some m' => .ok m'
      | none => .error s!"inexplicable-{ev}-with-count-{m.msgs.length}"

def judgeC01Trace (args : List String) : String :=
  match args with
  | [_, events] =>
    let evs := splitNonEmpty events ";"
    let rec go (m : Mirror) (i : Nat) : List String → String
      | [] => if i > 4 then "ok nontrivial" else "ok trivial"
      | e :: rest =>
        match traceStep m e with
        | .ok m' => go m' (i + 1) rest
        | .error why => s!"violation {why}-at-event-{i}"
    go (Mirror.ofCount 0) 0 evs
  | _ => "violation unparsable-trace"

end Gluon.Driver
