/- `judge-c18-wire <jail ms> <nusers> <events>` (C18): the session-protocol model `Gluon.Auth.step` with the
   regenerated dispatch facts (`C18.facts`) run as the oracle over a wire-level trace of a whole server
   with several users (harness/o_auth.go, oracle `c18auth`).

   Events, `;`-separated, in the global order in which the harness issued the commands (one outstanding
   command at a time):
     <conn>,<payload type>,<accepting users|->,<ok|no|bad|bye|byeonly|none>,<seen users|->,<sent ms>,<recv ms>,<flags|->,<probe>
   flags: b = the reply text was "too many login attempts", f = the command was the full listing LIST "" "*",
          u = the completion was an untagged NO/BAD (the line had no tag).
   probe: `-` = none; `p<users>` = the LOGIN was answered OK and the harness' identity probe (LIST "" "*" on that session,
          straight after the reply) listed marker mailboxes of these users (9 = the probe itself was refused).
   Two more fields may follow the probe: <changed users|-> = users whose observer session (a session of the harness logged
   in as that user before the first step, outside the trace) read another view - listing and per-mailbox counters - after
   this step than before it; <leak|-> = `.`-separated <observer><user> pairs: that observer's view held a marker of that
   other user.
   `A,<what>[,<user>,<changed>,<leak>,<ms>]` = an ADMIN step of the harness: AdminRemove / AdminRemoveFiles / AdminAdd (a user
   removed, removed together with its files, loaded again): no command, counted as a step; the accepting users of later LOGINs
   reflect it; only the administrated user's view may change (AdminRemoveFiles counts as an effect on that user: it comes
   back with a new database).  AdminRestart (<user> = number of observers that logged in again): every connection was closed,
   every user removed and loaded again: nobody's view may change; all sessions of the trace start again not authenticated;
   the observers' accepted LOGINs are attempts of the login counter.
   Last event: E,<users whose before/after views differ|->.   Users are single digits.

   What is checked per step, with p = the model's protocol state of that connection:
   * class: the completion class must be the one `step` predicts.  `Cmd.ok` (does the handler succeed: mailbox
     exists, message exists …) is not known to the judge: where the prediction depends on it (a handler body
     runs) OK and NO are both allowed — and BAD, which handlers also use for a failed command ("no such
     message"), counts as the failure — and the state follows the observed outcome.  Where the prediction
     does not depend on it (every gated position: mailbox/message commands before LOGIN, message commands
     without a selected mailbox, LOGIN when authenticated, unknown payloads, a closed session) it is exact.
   * STARTTLS (model: handled by the reader goroutine, `Resp.tls`, session state unchanged): the servers under
     test have no TLS configuration; the reader answers `<tag> NO` (TLS is unavailable) and the session
     carries on in plain text in the state it was in.  Exact: class `no`, state unchanged.
     After LOGOUT (model: closed, no reply) a STARTTLS that reaches the server before the connection is torn
     down may still get that NO: the reader goroutine consumes STARTTLS itself (`Facts.readerSwitch`), it is
     never forwarded to the serve loop that has ended, and `Session.done` closes the connection concurrently.
     Both `none` and `no` are accepted there (`no-from-reader`); the session stays closed, nothing ran.
   * a stray DONE (no tag; model: falls into handleCommand's default clause, `Resp.no`): the completion is the
     untagged `* NO bad command` (a response to a line without a tag is untagged, flag `u`); class `no`.
   * `byeonly` (an untagged BYE and no completion) in the selected state: the serve loop found the session's
     state invalidated (its selected mailbox was deleted) and ended the session before dispatching — not
     modelled in `Auth.step`; classified (`invalidated`), no handler ran, the session continues as closed.
   * LOGIN attempts: `attempt` with the earliest possible timing (arrive = the client's send time, no Authorize
     duration, no timer latency) gives a lower bound of the decision time — `attempt` is monotone in all its
     time inputs — so the reply must not be received before it; the "too many login attempts" text must appear
     exactly when the model says `blocked` (this is what makes the counter, its reset by a success and by the
     timer observable without any upper time bound).
   * isolation: markers seen in a reply belong to the user the model says the session is authenticated as
     (none before authentication); the full listing shows exactly that user's marker.
   * identity of an accepted LOGIN: the probe must list the mailboxes of exactly the user `chosen` picks among the
     users whose connector accepts the presented pair — whatever was presented or accepted earlier on the server;
     a LOGIN answered OK for a pair nobody's connector accepts is reported with the user whose data the session got.
   * isolation per step (observers): the users whose view changed in a step are users the acting session is authenticated
     as before or after the step - a command of one user's session never changes another user's view, and a command of a
     session that is not authenticated changes nobody's; no observer ever lists a marker of another user.
   * effects (last event): a user's view may differ only if the model ran a handler body for that user
     (`Env.exec` instantiated as "touched"). -/
import GluonModel.Model.AuthFacts
import GluonModel.Spec.AuthSpec

-- DIALECT: judge-c18-wire DJudgeAuth.judgeWire
namespace Gluon.Driver.DJudgeAuth
open Gluon Gluon.Auth

structure Ev where
  conn : Nat
  ty : String
  acc : List Nat
  status : String
  seen : List Nat
  sent : Nat
  recv : Nat
  blocked : Bool
  full : Bool
  who : Option (List Nat)    -- identity probe after an accepted LOGIN
  chg : List Nat := []       -- users whose observer read another view after this step
  leak : List (Nat × Nat) := []   -- (observer, user): the observer's view held a marker of that other user

def digitsOf (s : String) : List Nat :=
  if s == "-" then [] else s.toList.map (fun c => c.toNat - 48)

def showDigits (l : List Nat) : String :=
  if l.isEmpty then "-" else String.join (l.map toString)

def pairsOf (s : String) : List (Nat × Nat) :=
  if s == "-" then [] else
  (s.splitOn ".").filterMap (fun p =>
    match p.toList with
    | [a, b] => some (a.toNat - 48, b.toNat - 48)
    | _ => none)

def showPairs (l : List (Nat × Nat)) : String :=
  if l.isEmpty then "-" else ".".intercalate (l.map (fun p => s!"{p.1}{p.2}"))

def parseEv (s : String) : Option Ev :=
  let mk (c ty acc st seen sent recv fl pr chg leak : String) : Ev :=
    { conn := c.toNat?.getD 0, ty := ty, acc := digitsOf acc, status := st, seen := digitsOf seen,
      sent := sent.toNat?.getD 0, recv := recv.toNat?.getD 0,
      blocked := fl.toList.contains 'b', full := fl.toList.contains 'f',
      who := if pr.startsWith "p" then some ((pr.drop 1).toString.toList.map (fun ch => ch.toNat - 48)) else none,
      chg := digitsOf chg, leak := pairsOf leak }
  match s.splitOn "," with
  | [c, ty, acc, st, seen, sent, recv, fl] => some (mk c ty acc st seen sent recv fl "-" "-" "-")
  | [c, ty, acc, st, seen, sent, recv, fl, pr] => some (mk c ty acc st seen sent recv fl pr "-" "-")
  | [c, ty, acc, st, seen, sent, recv, fl, pr, chg, leak] => some (mk c ty acc st seen sent recv fl pr chg leak)
  | _ => none

def respName : Resp → String
  | .ok => "ok" | .no => "no" | .bad => "bad" | .bye => "bye" | .tls => "tls" | .none => "none"

/-- judge state: per connection the model's protocol state and a history tag (for the statistics only),
    the model's system state with `σ := Bool` = "a handler body ran for this user" -/
structure JSt where
  sess : List (Nat × Proto)
  hist : List (Nat × String)
  sys : Sys Bool
  pairs : List String
  waits : Nat
  blocked : Nat
  n : Nat

def JSt.init : JSt :=
  { sess := [], hist := [], sys := { store := fun _ => false, login := LoginSt.init, breach := false },
    pairs := [], waits := 0, blocked := 0, n := 0 }

def setAssoc {β : Type} (l : List (Nat × β)) (k : Nat) (v : β) : List (Nat × β) :=
  (k, v) :: l.filter (fun x => x.1 != k)

/-- the protocol states the property's quantifier names: N0 not authenticated, NF not authenticated after a
    failed LOGIN, A authenticated, S selected, AC authenticated after CLOSE/UNSELECT, X closed (after LOGOUT) -/
def label (p : Proto) (h : String) : String :=
  match p with
  | .notAuth => if h == "failed" then "NF" else "N0"
  | .auth _ => if h == "closedsel" then "AC" else "A"
  | .selected _ => "S"
  | .closed => "X"

def isSelected : Proto → Bool
  | .selected _ => true
  | _ => false

def isAuth : Proto → Bool
  | .auth _ => true
  | _ => false

def slackMs : Nat := 1

def judgeEv (jail : Nat) (st : JSt) (i : Nat) (e : Ev) : Except String JSt :=
  let p := (st.sess.lookup e.conn).getD .notAuth
  let h := (st.hist.lookup e.conn).getD ""
  let lab := label p h
  let env : Env Bool := { exec := fun _ _ _ => true, jail := jail }
  let timing : Timing := { arrive := e.sent, dur := 0, slack := 0 }
  let mk (ok : Bool) : Cmd := { ty := e.ty, ok := ok, accepting := e.acc, pick := 0, timing := timing }
  let (pT, sT, rT) := step C18.facts env p st.sys (mk true)
  let (pF, sF, rF) := step C18.facts env p st.sys (mk false)
  let here := s!"step={i} conn={e.conn} type={e.ty} state={lab} model={respName rT}/{respName rF} observed={e.status}"
  let choice : Option (Proto × Sys Bool × Resp × String) :=
    if e.status == "byeonly" && isSelected p then some (.closed, st.sys, .bye, "invalidated")
    else if p == .closed && route C18.facts e.ty == .starttls && e.status == "no" then
      some (.closed, st.sys, .tls, "no-from-reader")
    else if rT == .tls then
      if e.status == "no" then some (pT, sT, rT, "no") else none
    else if e.status == respName rT then some (pT, sT, rT, e.status)
    else if e.status == respName rF then some (pF, sF, rF, e.status)
    else if rT != rF && rF == .no && e.status == "bad" then some (pF, sF, rF, "bad")
    else none
  -- what the property itself forbids, whatever the model predicts (told apart from a disagreement between model and
  -- code, and reported first: with facts of an unknown shape the model predicts nothing)
  let forbidden : Option String :=
    if AuthSpec.needsAuth e.ty && p.user.isNone && e.status == "ok" then
      some s!"property gated-command-accepted-without-authentication {here}"
    else if AuthSpec.needsSelected e.ty && isAuth p && e.status == "ok" then
      some s!"property message-command-accepted-without-selected-mailbox {here}"
    else if e.ty == "Login" && e.acc.isEmpty && e.status == "ok" then
      some s!"property wrong-credentials-authenticated no-connector-accepts-the-pair session-lists-mailboxes-of={showDigits (e.who.getD [])} {here}"
    else if e.ty == "Login" && p.user.isSome && e.status == "ok" then
      some s!"property login-accepted-in-authenticated-session {here}"
    else if e.ty == "Login" && e.status == "ok" && e.who.isSome && !(e.who.getD []).all e.acc.contains then
      some s!"property identity login-bound-to-another-user pair-accepted-by-connector-of={showDigits e.acc} session-lists-mailboxes-of={showDigits (e.who.getD [])} {here}"
    else none
  match forbidden with
  | some why => .error why
  | none =>
  if sT.breach || sF.breach then
    .error s!"model-mismatch the-regenerated-facts-lack-a-guard-or-shape-the-model-relies-on {here}" else
  match choice with
  | none => .error s!"model-mismatch completion-class {here}"
  | some (p', sys', r, outcome) =>
    -- the login attempt behind this step (only a not-authenticated session reaches getUserID)
    let isAttempt := e.ty == "Login" && p == .notAuth && route C18.facts e.ty == .login
    let att := attempt C18.facts.maxAttempts jail st.sys.login timing (chosen (mk true)).isSome
    if isAttempt && att.blocked != e.blocked then
      .error s!"property login-counter blocked-model={att.blocked} blocked-observed={e.blocked} count-before={effCount st.sys.login} {here}"
    else if isAttempt && e.recv + slackMs < att.decided then
      .error s!"property jail-too-short recv={e.recv} earliest={att.decided} {here}"
    else
    -- isolation: what the reply showed
    let allowed := p.user.toList ++ p'.user.toList
    if !(e.seen.all allowed.contains) then
      .error s!"property isolation session-of={showDigits allowed} saw-markers-of={showDigits e.seen} {here}"
    else if !e.leak.isEmpty then
      .error s!"property isolation observer-lists-marker-of-another-user observer-user-pairs={showPairs e.leak} {here}"
    else if !(e.chg.all allowed.contains) then
      .error s!"property isolation command-changed-the-view-of-another-user session-of={showDigits allowed} views-changed-of={showDigits (e.chg.filter (fun u => !allowed.contains u))} {here}"
    else if e.full && r == .ok && e.seen != p'.user.toList then
      .error s!"property identity session-of={showDigits p'.user.toList} full-listing-shows={showDigits e.seen} {here}"
    else if isAttempt && r == .ok && e.who.isSome && e.who != some p'.user.toList then
      .error s!"property identity login-bound-to-another-user pair-accepted-by-connector-of={showDigits e.acc} session-lists-mailboxes-of={showDigits (e.who.getD [])} {here}"
    else
    let h' :=
      if isSelected p' then ""
      else if isSelected p && isAuth p' then "closedsel"
      else if isAttempt && r == .no then "failed"
      else if p == .notAuth && isAuth p' then ""
      else h
    .ok { sess := setAssoc st.sess e.conn p', hist := setAssoc st.hist e.conn h', sys := sys',
          pairs := s!"{lab}:{e.ty}>{outcome}" :: st.pairs,
          waits := st.waits + (if isAttempt && att.decided > e.sent then 1 else 0),
          blocked := st.blocked + (if isAttempt && att.blocked then 1 else 0),
          n := st.n + 1 }

/-- an ADMIN step of the harness: `A,<what>` (old form: counted only) or `A,<what>,<user>,<changed>,<leak>,<ms>` -/
def judgeAdmin (jail : Nat) (st : JSt) (i : Nat) : List String → Except String JSt
  | [_, what, kS, chgS, leakS, sentS] =>
    let k := kS.toNat?.getD 0
    let chg := digitsOf chgS
    let leak := pairsOf leakS
    let here := s!"step={i} admin={what} user={kS}"
    if !leak.isEmpty then
      .error s!"property isolation observer-lists-marker-of-another-user observer-user-pairs={showPairs leak} {here}"
    else if what == "AdminRestart" then
      if !chg.isEmpty then
        .error s!"property isolation restart-changed-views views-changed-of={showDigits chg} every-user-was-removed-without-its-files-and-loaded-again {here}"
      else
        -- every connection was closed; the observers' accepted LOGINs went through getUserID
        let timing : Timing := { arrive := sentS.toNat?.getD 0, dur := 0, slack := 0 }
        let login := if k == 0 then st.sys.login else (attempt C18.facts.maxAttempts jail st.sys.login timing true).st
        .ok { st with sess := [], hist := [], sys := { st.sys with login := login }, n := st.n + 1 }
    else if !(chg.all (· == k)) then
      .error s!"property isolation admin-step-changed-the-view-of-another-user views-changed-of={showDigits (chg.filter (· != k))} {here}"
    else if what == "AdminRemoveFiles" then
      .ok { st with sys := { st.sys with store := updStore st.sys.store k (fun _ => true) }, n := st.n + 1 }
    else .ok { st with n := st.n + 1 }
  | _ => .ok { st with n := st.n + 1 }

def judgeWire (args : List String) : String :=
  match args with
  | [jailS, nuS, trace] =>
    let jail := jailS.toNat?.getD 0
    let nu := nuS.toNat?.getD 0
    let rec go (st : JSt) (i : Nat) : List String → String
      | [] => "violation unparsable-trace no-end-event"
      | s :: rest =>
        if s.startsWith "A," then
          match judgeAdmin jail st i (s.splitOn ",") with
          | .ok st' => go st' (i + 1) rest
          | .error why => s!"violation {why}"
        else if s.startsWith "E," then
          let changed := digitsOf (s.drop 2).toString
          let touched := (List.range nu).filter (fun u => st.sys.store u)
          match changed.filter (fun u => !(st.sys.store u)) with
          | [] =>
            if st.n == 0 then "ok trivial" else
            s!"ok nontrivial {st.n} {",".intercalate st.pairs.reverse} waits={st.waits} blocked={st.blocked} touched={showDigits touched}"
          | bad => s!"violation property effect-without-authenticated-session views-changed-of={showDigits bad} users-with-handled-commands={showDigits touched}"
        else
          match parseEv s with
          | none => s!"violation unparsable-trace event={i}"
          | some e =>
            match judgeEv jail st i e with
            | .ok st' => go st' (i + 1) rest
            | .error why => s!"violation {why}"
    go JSt.init 0 (trace.splitOn ";")
  | _ => "violation unparsable-trace"

end Gluon.Driver.DJudgeAuth
