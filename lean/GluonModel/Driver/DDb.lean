/- dialect `db` (C08): a session of db.ReadOnly / db.Transaction calls on a fresh database, model side.
   Protocol: see `DDbCodec.lean`. -/
import GluonModel.Driver.DDbCodec
import GluonModel.Spec.DBSpec
import GluonModel.Model.DBFacts

-- DIALECT: db runDb
namespace Gluon.Driver
open Gluon.DB Gluon.DbCodec

/-- The operations whose model depends on the regenerated call-site facts (chunk loops, SQL text
    shape) or whose un-chunked meaning differs from what the code does; everything else is the same
    function for model and spec. -/
structure DbOps where
  mailboxExistsWithID : DB → MailboxId → Except DbErr Bool
  updateRemoteMessageID : MessageId → RemoteId → Tx Unit
  mailboxTranslateRemoteIDs : DB → List RemoteId → Except DbErr (List MailboxId)
  mailboxFilterContains : DB → MailboxId → List (MessageId × RemoteId) → Except DbErr (List MessageId)
  getMessagesFlags : DB → List MessageId → Except DbErr (List (MessageId × RemoteId × List FlagVal))
  addMessagesToMailbox : MailboxId → List (MessageId × RemoteId) → Tx (List SnapRow)
  removeMessagesFromMailbox : MailboxId → List MessageId → Tx Unit
  setMailboxMessagesDeletedFlag : MailboxId → List MessageId → Bool → Tx Unit
  createMessages : List CreateReq → Tx Unit
  deleteMessages : List MessageId → Tx Unit
  addFlagToMessages : List MessageId → FlagVal → Tx Unit
  removeFlagFromMessages : List MessageId → FlagVal → Tx Unit
  setFlagsOnMessages : List MessageId → List FlagVal → Tx Unit
  addFlagsToAllMailboxes : List FlagVal → Tx Unit
  addPermFlagsToAllMailboxes : List FlagVal → Tx Unit

/-- the model: the code as it is -/
def modelOps (S : Sites) : DbOps where
  mailboxExistsWithID := DB.mailboxExistsWithID (S.sqlOk "MailboxExistsWithID")
  updateRemoteMessageID := DB.updateRemoteMessageID (S.sqlOk "UpdateRemoteMessageID")
  mailboxTranslateRemoteIDs := DB.mailboxTranslateRemoteIDs S
  mailboxFilterContains := DB.mailboxFilterContains S
  getMessagesFlags := DB.getMessagesFlags S
  addMessagesToMailbox := DB.addMessagesToMailbox S
  removeMessagesFromMailbox := DB.removeMessagesFromMailbox S
  setMailboxMessagesDeletedFlag := DB.setMailboxMessagesDeletedFlag S
  createMessages := DB.createMessages S
  deleteMessages := DB.deleteMessages S
  addFlagToMessages := DB.addFlagToMessages S
  removeFlagFromMessages := DB.removeFlagFromMessages S
  setFlagsOnMessages := DB.setFlagsOnMessages S
  addFlagsToAllMailboxes := DB.addFlagsToAllMailboxes
  addPermFlagsToAllMailboxes := DB.addPermFlagsToAllMailboxes

/-- the un-chunked relational meaning (`Spec/DBSpec.lean`) -/
def specOps : DbOps where
  mailboxExistsWithID := DB.mailboxExistsWithID true
  updateRemoteMessageID := DB.updateRemoteMessageID true
  mailboxTranslateRemoteIDs := Spec.mailboxTranslateRemoteIDs
  mailboxFilterContains := Spec.mailboxFilterContains
  getMessagesFlags := Spec.getMessagesFlags
  addMessagesToMailbox := Spec.addMessagesToMailbox
  removeMessagesFromMailbox := Spec.removeMessagesFromMailbox
  setMailboxMessagesDeletedFlag := Spec.setMailboxMessagesDeletedFlag
  createMessages := Spec.createMessages
  deleteMessages := Spec.deleteMessages
  addFlagToMessages := Spec.addFlagToMessages
  removeFlagFromMessages := Spec.removeFlagFromMessages
  setFlagsOnMessages := Spec.setFlagsOnMessages
  addFlagsToAllMailboxes := Spec.addFlagsToAllMailboxes
  addPermFlagsToAllMailboxes := Spec.addPermFlagsToAllMailboxes

abbrev CallResult := Except DbErr (String × DB)

def rd {α : Type} (db : DB) (r : Except DbErr α) (sh : α → String) : CallResult := r.map fun a => (sh a, db)
def wr {α : Type} (db : DB) (t : Tx α) (sh : α → String) : CallResult := (t db).map fun p => (sh p.1, p.2)

def showMboxWithAttr (p : MboxRow × List FlagVal) : String := s!"{showMbox p.1}/{showFlags p.2}"
def showN (n : Nat) : String := s!"n{n}"
def showB (b : Bool) : String := if b then "b1" else "b0"
def showS (s : String) : String := "s" ++ s
def showUnit (_ : Unit) : String := "ok"
def showNats (l : List Nat) : String := showSet (l.map toString)

/-- One call.  `write = false`: only db.ReadOnly methods exist.  `pos` = index of the token in the line
    (names the remote id `MarkMessageAsDeletedAndAssignRandomRemoteID` makes up). `none` = not a call. -/
def call (O : DbOps) (write : Bool) (pos : Nat) (name : String) (a : List String) (db : DB) : Option CallResult :=
  match name, a with
  -- db.MailboxReadOps
  | "MailboxExistsWithID", [mb] => some <| rd db (O.mailboxExistsWithID db (nat! mb)) showB
  | "MailboxExistsWithRemoteID", [r] => some <| rd db (mailboxExistsWithRemoteID db (str! r)) showB
  | "MailboxExistsWithName", [n] => some <| rd db (mailboxExistsWithName db (str! n)) showB
  | "GetMailboxIDFromRemoteID", [r] => some <| rd db (getMailboxIDFromRemoteID db (str! r)) showN
  | "GetMailboxName", [mb] => some <| rd db (getMailboxName db (nat! mb)) showS
  | "GetMailboxNameWithRemoteID", [r] => some <| rd db (getMailboxNameWithRemoteID db (str! r)) showS
  | "GetMailboxMessageIDPairs", [mb] => some <| rd db (getMailboxMessageIDPairs db (nat! mb))
      fun l => showSet (l.map fun p => s!"{p.1}={showStr p.2}")
  | "GetAllMailboxesWithAttr", [] => some <| rd db (getAllMailboxesWithAttr db) fun l => showSet (l.map showMboxWithAttr)
  | "GetAllMailboxesAsRemoteIDs", [] => some <| rd db (getAllMailboxesAsRemoteIDs db) fun l => showSet (l.map showStr)
  | "GetMailboxByName", [n] => some <| rd db (getMailboxByName db (str! n)) showMbox
  | "GetMailboxByID", [mb] => some <| rd db (getMailboxByID db (nat! mb)) showMbox
  | "GetMailboxByRemoteID", [r] => some <| rd db (getMailboxByRemoteID db (str! r)) showMbox
  | "GetMailboxRecentCount", [mb] => some <| rd db (getMailboxRecentCount db (nat! mb)) showN
  | "GetMailboxMessageCount", [mb] => some <| rd db (getMailboxMessageCount db (nat! mb)) showN
  | "GetMailboxMessageCountWithRemoteID", [r] => some <| rd db (getMailboxMessageCountWithRemoteID db (str! r)) showN
  | "GetMailboxFlags", [mb] => some <| rd db (getMailboxFlags db (nat! mb)) showFlags
  | "GetMailboxPermanentFlags", [mb] => some <| rd db (getMailboxPermanentFlags db (nat! mb)) showFlags
  | "GetMailboxAttributes", [mb] => some <| rd db (getMailboxAttributes db (nat! mb)) showFlags
  | "GetMailboxUID", [mb] => some <| rd db (getMailboxUID db (nat! mb)) showN
  | "GetMailboxMessageCountAndUID", [mb] => some <| rd db (getMailboxMessageCountAndUID db (nat! mb)) fun p => s!"{p.1}/{p.2}"
  | "GetMailboxMessageForNewSnapshot", [mb] => some <| rd db (getMailboxMessageForNewSnapshot db (nat! mb))
      fun l => showList (l.map showSnapRow)
  | "MailboxTranslateRemoteIDs", [rs] => some <| rd db (O.mailboxTranslateRemoteIDs db (rids! rs)) showNats
  | "MailboxFilterContains", [mb, ps] => some <| rd db (O.mailboxFilterContains db (nat! mb) (pairs! ps)) showNats
  | "GetMailboxCount", [] => some <| rd db (getMailboxCount db) showN
  | "GetAllMailboxesNameAndRemoteID", [] => some <| rd db (getAllMailboxesNameAndRemoteID db)
      fun l => showSet (l.map fun p => s!"{showStr p.1}={showStr p.2}")
  -- db.MessageReadOps
  | "MessageExists", [m] => some <| rd db (messageExists db (nat! m)) showB
  | "MessageExistsWithRemoteID", [r] => some <| rd db (messageExistsWithRemoteID db (str! r)) showB
  | "GetMessageNoEdges", [m] => some <| rd db (getMessageNoEdges db (nat! m)) showMsg
  | "GetTotalMessageCount", [] => some <| rd db (getTotalMessageCount db) showN
  | "GetMessageRemoteID", [m] => some <| rd db (getMessageRemoteID db (nat! m)) showS
  | "GetImportedMessageData", [m] => some <| rd db (getImportedMessageData db (nat! m)) fun p => s!"{showMsg p.1}/{showFlags p.2}"
  | "GetMessageDateAndSize", [m] => some <| rd db (getMessageDateAndSize db (nat! m)) fun p => s!"{p.1}/{p.2}"
  | "GetMessageMailboxIDs", [m] => some <| rd db (getMessageMailboxIDs db (nat! m)) showNats
  | "GetMessagesFlags", [ms] => some <| rd db (O.getMessagesFlags db (ids! ms))
      fun l => showSet (l.map fun p => s!"{p.1}/{showStr p.2.1}/{showFlags p.2.2}")
  | "GetMessageIDsMarkedAsDelete", [] => some <| rd db (getMessageIDsMarkedAsDelete db) showNats
  | "GetMessageIDFromRemoteID", [r] => some <| rd db (getMessageIDFromRemoteID db (str! r)) showN
  | "GetMessageDeletedFlag", [m] => some <| rd db (getMessageDeletedFlag db (nat! m)) showB
  | "GetAllMessagesIDsAsMap", [] => some <| rd db (getAllMessagesIDsAsMap db) showNats
  -- db.SubscriptionReadOps, db.ReadOnly
  | "GetDeletedSubscriptionSet", [] => some <| rd db (getDeletedSubscriptionSet db)
      fun l => showSet (l.map fun p => s!"{showStr p.2}={showStr p.1}")
  | "GetConnectorSettings", [] => some <| rd db (getConnectorSettings db) fun p => s!"{showStr p.1}/{showBool p.2}"
  | _, _ =>
  if !write then none else
  match name, a with
  -- db.MailboxWriteOps
  | "CreateMailbox", [r, n, f, p, att, v] => some <| wr db (createMailbox (str! r) (str! n) (flags! f) (flags! p) (flags! att) (nat! v)) showMbox
  | "GetOrCreateMailbox", [r, n, f, p, att, v] => some <| wr db (getOrCreateMailbox (str! r) (str! n) (flags! f) (flags! p) (flags! att) (nat! v)) showMbox
  | "GetOrCreateMailboxAlt", [r, n, d, f, p, att, v] => some <| wr db (getOrCreateMailboxAlt (str! r) ((list! n).map str!) (str! d) (flags! f) (flags! p) (flags! att) (nat! v)) showMbox
  | "CreateMailboxIfNotExists", [r, n, d, f, p, att, v] => some <| wr db (createMailboxIfNotExists (str! r) ((list! n).map str!) (str! d) (flags! f) (flags! p) (flags! att) (nat! v)) showUnit
  | "RenameMailboxWithRemoteID", [r, n] => some <| wr db (renameMailboxWithRemoteID (str! r) (str! n)) showUnit
  | "DeleteMailboxWithRemoteID", [r] => some <| wr db (deleteMailboxWithRemoteID (str! r)) showUnit
  | "AddMessagesToMailbox", [mb, ps] => some <| wr db (O.addMessagesToMailbox (nat! mb) (pairs! ps)) fun l => showList (l.map showSnapRow)
  | "RemoveMessagesFromMailbox", [mb, ms] => some <| wr db (O.removeMessagesFromMailbox (nat! mb) (ids! ms)) showUnit
  | "ClearRecentFlagInMailboxOnMessage", [mb, m] => some <| wr db (clearRecentFlagInMailboxOnMessage (nat! mb) (nat! m)) showUnit
  | "ClearRecentFlagsInMailbox", [mb] => some <| wr db (clearRecentFlagsInMailbox (nat! mb)) showUnit
  | "SetMailboxMessagesDeletedFlag", [mb, ms, b] => some <| wr db (O.setMailboxMessagesDeletedFlag (nat! mb) (ids! ms) (b == "1")) showUnit
  | "SetMailboxSubscribed", [mb, b] => some <| wr db (setMailboxSubscribed (nat! mb) (b == "1")) showUnit
  | "UpdateRemoteMailboxID", [mb, r] => some <| wr db (updateRemoteMailboxID (nat! mb) (str! r)) showUnit
  | "SetMailboxUIDValidity", [mb, v] => some <| wr db (setMailboxUIDValidity (nat! mb) (nat! v)) showUnit
  | "AddFlagsToAllMailboxes", [fs] => some <| wr db (O.addFlagsToAllMailboxes ((list! fs).map str!)) showUnit
  | "AddPermFlagsToAllMailboxes", [fs] => some <| wr db (O.addPermFlagsToAllMailboxes ((list! fs).map str!)) showUnit
  -- db.MessageWriteOps
  | "CreateMessages", [rs] => some <| wr db (O.createMessages (reqs! rs)) showUnit
  | "CreateMessageAndAddToMailbox", [mb, r] =>
    match reqs! r with
    | [req] => some <| wr db (createMessageAndAddToMailbox (nat! mb) req) fun p => s!"{p.1}/{showFlags p.2}"
    | _ => none
  | "MarkMessageAsDeleted", [m] => some <| wr db (markMessageAsDeleted (nat! m)) showUnit
  | "MarkMessageAsDeletedAndAssignRandomRemoteID", [m] => some <| wr db (markMessageAsDeletedAndAssignRandomRemoteID (nat! m) s!"DELETED-{pos}") showUnit
  | "MarkMessageAsDeletedWithRemoteID", [r] => some <| wr db (markMessageAsDeletedWithRemoteID (str! r)) showUnit
  | "DeleteMessages", [ms] => some <| wr db (O.deleteMessages (ids! ms)) showUnit
  | "UpdateRemoteMessageID", [m, r] => some <| wr db (O.updateRemoteMessageID (nat! m) (str! r)) showUnit
  | "AddFlagToMessages", [ms, f] => some <| wr db (O.addFlagToMessages (ids! ms) (str! f)) showUnit
  | "RemoveFlagFromMessages", [ms, f] => some <| wr db (O.removeFlagFromMessages (ids! ms) (str! f)) showUnit
  | "SetFlagsOnMessages", [ms, fs] => some <| wr db (O.setFlagsOnMessages (ids! ms) (flags! fs)) showUnit
  -- db.SubscriptionWriteOps, db.Transaction
  | "AddDeletedSubscription", [n, r] => some <| wr db (addDeletedSubscription (str! n) (str! r)) showUnit
  | "RemoveDeletedSubscriptionWithName", [n] => some <| wr db (removeDeletedSubscriptionWithName (str! n)) showN
  | "StoreConnectorSettings", [s] => some <| wr db (storeConnectorSettings (str! s)) showUnit
  | _, _ => none

def callTok (O : DbOps) (write : Bool) (pos : Nat) (tok : String) (db : DB) : Option CallResult :=
  match tok.splitOn ":" with
  | name :: args => call O write pos name args db
  | [] => none

/-- where a session is: outside a transaction, or inside one (`write`, working copy, a call already failed) -/
inductive TxState where
  | outside
  | inside (write : Bool) (work : DB) (failed : Bool)

structure Sess where
  db : DB := DB.empty
  tx : TxState := .outside
  pos : Nat := 0
  out : Array String := #[]

/-- the client variants `sqlite3.NewBuilder` can build (options `Debug()`, `Trace()`) -/
def clientVariants : List String := ["plain", "debug", "trace", "debug+trace"]

/-- `grow:<k>` (k overlapping `Client.Read` closures, k ≤ 32) and `client:<variant>` (the same database behind
    another client variant): tokens between transactions that change nothing — every variant of the client IS
    the index, on every connection of its pool.  `none` = not such a token. -/
def controlTok (tok : String) : Option String :=
  match tok.splitOn ":" with
  | ["grow", k] => match k.toNat? with
    | some n => if n ≤ 32 && toString n == k then some "ok" else some "bad"
    | none => some "bad"
  | ["client", v] => if clientVariants.contains v then some "ok" else some "bad"
  | _ => none

/-- One token of a session.  `onCall` lets the judge look at every executed call. -/
def stepTok (O : DbOps) (full : Bool) (s : Sess) (tok : String) : Sess :=
  let emit (w : String) (s : Sess) : Sess := { s with out := s.out.push w, pos := s.pos + 1 }
  match s.tx with
  | .outside =>
    if tok == "R[" then emit "." { s with tx := .inside false s.db false }
    else if tok == "W[" then emit "." { s with tx := .inside true s.db false }
    else if tok == "dump" then emit (dump full s.db) s
    else if tok == "reopen" then emit "ok" s
    else match controlTok tok with
      | some w => emit w s
      | none => emit "bad" s
  | .inside write work failed =>
    if tok == "]c" || tok == "]a" then
      if !write then emit "end" { s with tx := .outside }
      else if failed || tok == "]a" then emit "rolledback" { s with tx := .outside }
      else emit "committed" { s with tx := .outside, db := work }
    else if failed then emit "skip" s
    else match callTok O write s.pos tok work with
      | none => emit "bad" s
      | some (.ok (w, db')) => emit (digest full w) { s with tx := .inside write db' false }
      | some (.error e) => emit (showErr e) { s with tx := .inside write work true }

def runSession (O : DbOps) (args : List String) : String :=
  match args with
  | mode :: toks =>
    let s := toks.foldl (stepTok O (mode == "f")) {}
    " ".intercalate s.out.toList
  | [] => "bad-op"

/-- `db <mode> <token>*` -/
def runDb (args : List String) : String := runSession (modelOps factSites) args

end Gluon.Driver
