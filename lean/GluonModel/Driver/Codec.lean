/-
Text codec of the line protocol shared with the Go harness (harness/impl/*.go).
flags   :  f1,f2,...      | "-" (empty)      (lower-case keys, sorted on output)
snap    :  id:uid:flags;… | "-"
queue   :  X:id:uid:flags:target:origin(-|n) | D:id | F:id:flags:op:asUID:silent:other ; …
resps   :  E<n> | R<n> | X<seq> | F<seq>:<flags|~>:<uid|~>   joined by ';' | "-"
-/
import GluonModel.Model.Responder

namespace Gluon.Codec

def splitNonEmpty (s : String) (sep : String) : List String :=
  if s == "-" || s == "" then [] else s.splitOn sep

def sortStrings (l : List String) : List String := (l.toArray.qsort (· < ·)).toList

/-- lower-cased, de-duplicated and sorted: every parsed flag list is canonical, so `==` is set equality -/
def parseFlags (s : String) : Flags := sortStrings (Flags.norm ((splitNonEmpty s ",").map String.toLower))
def showFlags (f : Flags) : String := if f.isEmpty then "-" else ",".intercalate (sortStrings f)

def nat! (s : String) : Nat := s.toNat?.getD 0
def bool! (s : String) : Bool := s == "1"
def showBool (b : Bool) : String := if b then "1" else "0"

def parseSnap (s : String) : Option Snap :=
  (splitNonEmpty s ";").mapM fun item =>
    match item.splitOn ":" with
    | [id, uid, fl] => some (Snap.mkMsg (nat! id) (nat! uid) (parseFlags fl))
    | _ => none

def showSnap (s : Snap) : String :=
  if s.isEmpty then "-" else
  ";".intercalate (s.map fun m => s!"{m.id}:{m.uid}:{showFlags m.flags}")

def parseResponder (s : String) : Option Responder :=
  match s.splitOn ":" with
  | ["X", id, uid, fl, tgt, org] =>
    some (.exists (nat! id) (nat! uid) (parseFlags fl) (nat! tgt) (if org == "-" then none else some (nat! org)))
  | ["D", id] => some (.expunge (nat! id))
  | ["F", id, fl, op, a, b, c] =>
    let op' := match op with | "add" => FlagOp.add | "rem" => FlagOp.rem | _ => FlagOp.set
    some (.fetch (nat! id) (parseFlags fl) op' (bool! a) (bool! b) (bool! c))
  | _ => none

def showResponder : Responder → String
  | .exists id uid fl t o => s!"X:{id}:{uid}:{showFlags fl}:{t}:{match o with | none => "-" | some n => toString n}"
  | .expunge id => s!"D:{id}"
  | .fetch id fl op a b c =>
    let ops := match op with | .add => "add" | .rem => "rem" | .set => "set"
    s!"F:{id}:{showFlags fl}:{ops}:{showBool a}:{showBool b}:{showBool c}"

def parseQueue (s : String) : Option (List Responder) := (splitNonEmpty s ";").mapM parseResponder
def showQueue (q : List Responder) : String :=
  if q.isEmpty then "-" else ";".intercalate (q.map showResponder)

def parseResp (s : String) : Option Resp :=
  if s.startsWith "E" then some (.exists (nat! (s.drop 1).toString))
  else if s.startsWith "R" then some (.recent (nat! (s.drop 1).toString))
  else if s.startsWith "X" then some (.expunge (nat! (s.drop 1).toString))
  else if s.startsWith "F" then
    match ((s.drop 1).toString).splitOn ":" with
    | [seq, fl, uid] =>
      some (.fetch (nat! seq) (if fl == "~" then none else some (parseFlags fl))
                   (if uid == "~" then none else some (nat! uid)))
    | _ => none
  else none

def showResp : Resp → String
  | .exists n => s!"E{n}"
  | .recent n => s!"R{n}"
  | .expunge n => s!"X{n}"
  | .fetch s f u =>
    s!"F{s}:{match f with | none => "~" | some f => showFlags f}:{match u with | none => "~" | some u => toString u}"

def parseResps (s : String) : Option (List Resp) := (splitNonEmpty s ";").mapM parseResp
def showResps (l : List Resp) : String := if l.isEmpty then "-" else ";".intercalate (l.map showResp)

end Gluon.Codec
