/-
C16 helper lemmas, part 5: the parser (`ParseNumber` … `ParseSeqSet`): the value of a digit
string, the 32-bit check, the range of everything the parser lets through, and the parse of the
text an RFC-conforming client sends for an abstract set.
-/
import GluonModel.Lemmas.SeqSetSets

namespace Gluon
namespace SeqSet
open SeqSetSpec

/-! ### digits -/

theorem isDigit_iff (c : Char) : isDigit c = true ↔ 48 ≤ c.toNat ∧ c.toNat ≤ 57 := by
  unfold isDigit
  simp only [decide_eq_true_eq, Char.le_def]
  exact ⟨fun ⟨h1, h2⟩ => ⟨h1, h2⟩, fun ⟨h1, h2⟩ => ⟨h1, h2⟩⟩

theorem digitChar_facts : ∀ d, d < 10 →
    isDigit (Char.ofNat (48 + d)) = true ∧ (Char.ofNat (48 + d)).toNat = 48 + d
      ∧ Char.ofNat (48 + d) ≠ '*' ∧ Char.ofNat (48 + d) ≠ ':' ∧ Char.ofNat (48 + d) ≠ ',' := by decide

def digitVal (c : Char) : Nat := c.toNat - 48

/-- decimal value of a digit string continuing the accumulator `a` -/
def decFrom (a : Nat) (ds : List Char) : Nat := ds.foldl (fun acc c => acc * 10 + digitVal c) a

theorem decFrom_nil (a : Nat) : decFrom a [] = a := rfl
theorem decFrom_cons (a : Nat) (c : Char) (cs : List Char) : decFrom a (c :: cs) = decFrom (a * 10 + digitVal c) cs := by
  simp only [decFrom, List.foldl_cons]

/-- decimal value of a digit string (leading zeros allowed) -/
def decVal (ds : List Char) : Nat := decFrom 0 ds

def AllDigits (ds : List Char) : Prop := ∀ c ∈ ds, isDigit c = true

/-- the input that follows does not start with a digit -/
def NoDigitHead (rest : Input) : Prop := ∀ c cs, rest = c :: cs → isDigit c = false

theorem le_decFrom (a : Nat) (ds : List Char) : a ≤ decFrom a ds := by
  induction ds generalizing a with
  | nil => exact Nat.le_refl _
  | cons c cs ih => have := ih (a * 10 + digitVal c); rw [decFrom_cons]; omega

theorem decFrom_append (a : Nat) (xs ys : List Char) : decFrom a (xs ++ ys) = decFrom (decFrom a xs) ys := by
  simp only [decFrom, List.foldl_append]

theorem byteToInt_digit (c : Char) (h : isDigit c = true) : byteToInt c = (digitVal c : Int) ∧ digitVal c ≤ 9 := by
  have := (isDigit_iff c).mp h
  unfold byteToInt digitVal
  omega

theorem wrap64_id (x : Int) (h1 : -9223372036854775808 ≤ x) (h2 : x < 9223372036854775808) : wrap64 x = x := by
  unfold wrap64; omega

/-! ### ParseNumber -/

/-- one turn of the digit loop: no wrap-around can happen below 2^32 -/
theorem digit_step (a : Nat) (ha : a ≤ 4294967295) (c : Char) (hc : isDigit c = true) :
    wrap64 (wrap64 ((a : Int) * 10) + byteToInt c) = ((a * 10 + digitVal c : Nat) : Int) := by
  obtain ⟨h1, h2⟩ := byteToInt_digit c hc
  rw [wrap64_id ((a : Int) * 10) (by omega) (by omega), h1, wrap64_id _ (by omega) (by omega)]
  omega

theorem parseDigits_spec (ds : List Char) (rest : Input) (hd : AllDigits ds) (hr : NoDigitHead rest)
    (a : Nat) (ha : a ≤ 4294967295) :
    parseDigits (a : Int) (ds ++ rest)
      = if decFrom a ds ≤ 4294967295 then some (((decFrom a ds : Nat) : Int), rest) else none := by
  induction ds generalizing a with
  | nil =>
    simp only [List.nil_append, decFrom_nil, ha, if_true]
    cases rest with
    | nil => rfl
    | cons c cs =>
      have := hr c cs rfl
      simp [parseDigits, this]
  | cons c cs ih =>
    have hc : isDigit c = true := hd c (by simp)
    have hcs : AllDigits cs := fun x hx => hd x (by simp [hx])
    simp only [List.cons_append, parseDigits, hc, if_true, digit_step a ha c hc, decFrom_cons]
    by_cases hgt : a * 10 + digitVal c ≤ 4294967295
    · have : ¬ (((a * 10 + digitVal c : Nat) : Int) > 4294967295) := by omega
      rw [if_neg this]
      exact ih hcs _ hgt
    · have h1 : (((a * 10 + digitVal c : Nat) : Int) > 4294967295) := by omega
      have h2 : ¬ decFrom (a * 10 + digitVal c) cs ≤ 4294967295 := by
        have := le_decFrom (a * 10 + digitVal c) cs; omega
      rw [if_pos h1, if_neg h2]

/-- **ParseNumber on any digit string** (any length, leading zeros, any magnitude): the decimal
    value if it fits into 32 bits, a parse error otherwise. -/
theorem parseNumber_spec (ds : List Char) (rest : Input) (hne : ds ≠ []) (hd : AllDigits ds) (hr : NoDigitHead rest) :
    parseNumber (ds ++ rest) = if decVal ds ≤ 4294967295 then some (((decVal ds : Nat) : Int), rest) else none := by
  cases ds with
  | nil => exact absurd rfl hne
  | cons c cs =>
    have hc : isDigit c = true := hd c (by simp)
    have hcs : AllDigits cs := fun x hx => hd x (by simp [hx])
    obtain ⟨h1, h2⟩ := byteToInt_digit c hc
    simp only [List.cons_append, parseNumber, hc, if_true, h1, decVal, decFrom_cons, Nat.zero_mul, Nat.zero_add]
    exact parseDigits_spec cs rest hcs hr (digitVal c) (by omega)

/-! ### everything the parser lets through is in range -/

theorem parseDigits_range (inp : Input) (a : Int) (ha : 0 ≤ a ∧ a ≤ 4294967295) (n : Int) (rest : Input)
    (h : parseDigits a inp = some (n, rest)) : 0 ≤ n ∧ n ≤ 4294967295 := by
  induction inp generalizing a with
  | nil => simp only [parseDigits, Option.some.injEq, Prod.mk.injEq] at h; omega
  | cons c cs ih =>
    simp only [parseDigits] at h
    by_cases hc : isDigit c = true
    · obtain ⟨h1, h2⟩ := byteToInt_digit c hc
      simp only [hc, if_true] at h
      have e : wrap64 (wrap64 (a * 10) + byteToInt c) = a * 10 + (digitVal c : Int) := by
        rw [wrap64_id (a * 10) (by omega) (by omega), h1, wrap64_id _ (by omega) (by omega)]
      rw [e] at h
      by_cases hgt : a * 10 + (digitVal c : Int) > 4294967295
      · rw [if_pos hgt] at h; cases h
      · rw [if_neg hgt] at h
        exact ih _ (by omega) h
    · simp only [hc, Bool.false_eq_true, if_false, Option.some.injEq, Prod.mk.injEq] at h; omega

theorem parseNumber_range (inp : Input) (n : Int) (rest : Input) (h : parseNumber inp = some (n, rest)) :
    0 ≤ n ∧ n ≤ 4294967295 := by
  cases inp with
  | nil => simp [parseNumber] at h
  | cons c cs =>
    simp only [parseNumber] at h
    by_cases hc : isDigit c = true
    · obtain ⟨h1, h2⟩ := byteToInt_digit c hc
      simp only [hc, if_true] at h
      exact parseDigits_range cs _ (by omega) n rest h
    · simp [hc] at h

theorem parseSeqNumber_range (inp : Input) (n : Int) (rest : Input) (h : parseSeqNumber inp = some (n, rest)) :
    0 ≤ n ∧ n < 4294967296 := by
  unfold parseSeqNumber at h
  cases hm : matchTok '*' inp with
  | some r => simp only [hm, Option.some.injEq, Prod.mk.injEq] at h; omega
  | none =>
    simp only [hm, parseNZNumber] at h
    cases hp : parseNumber inp with
    | none => simp [hp] at h
    | some p =>
      obtain ⟨num, r⟩ := p
      have := parseNumber_range inp num r hp
      simp only [hp] at h
      by_cases hle : num ≤ 0
      · simp [hle] at h
      · simp only [hle, if_false, Option.some.injEq, Prod.mk.injEq] at h
        omega

theorem parseSeqRange_range (inp : Input) (r : SeqRange) (rest : Input) (h : parseSeqRange inp = some (r, rest)) :
    (0 ≤ r.b ∧ r.b < 4294967296) ∧ (0 ≤ r.e ∧ r.e < 4294967296) := by
  unfold parseSeqRange at h
  cases h1 : parseSeqNumber inp with
  | none => simp [h1] at h
  | some p =>
    obtain ⟨b, r1⟩ := p
    have hb := parseSeqNumber_range inp b r1 h1
    simp only [h1] at h
    cases h2 : matchTok ':' r1 with
    | none =>
      simp only [h2, Option.some.injEq, Prod.mk.injEq] at h
      obtain ⟨rfl, _⟩ := h
      exact ⟨hb, hb⟩
    | some r2 =>
      simp only [h2] at h
      cases h3 : parseSeqNumber r2 with
      | none => simp [h3] at h
      | some q =>
        obtain ⟨e, r3⟩ := q
        have he := parseSeqNumber_range r2 e r3 h3
        simp only [h3, Option.some.injEq, Prod.mk.injEq] at h
        obtain ⟨rfl, _⟩ := h
        exact ⟨hb, he⟩

theorem parseSeqSetLoop_range (fuel : Nat) (inp : Input) (rs : List SeqRange) (rest : Input)
    (h : parseSeqSetLoop fuel inp = some (rs, rest)) : InParserRange rs := by
  induction fuel generalizing inp rs rest with
  | zero =>
    simp only [parseSeqSetLoop, Option.some.injEq, Prod.mk.injEq] at h
    obtain ⟨rfl, _⟩ := h
    intro r hr; simp at hr
  | succ f ih =>
    simp only [parseSeqSetLoop] at h
    cases h1 : matchTok ',' inp with
    | none =>
      simp only [h1, Option.some.injEq, Prod.mk.injEq] at h
      obtain ⟨rfl, _⟩ := h
      intro r hr; simp at hr
    | some r1 =>
      simp only [h1] at h
      cases h2 : parseSeqRange r1 with
      | none => simp [h2] at h
      | some p =>
        obtain ⟨r, r2⟩ := p
        simp only [h2] at h
        cases h3 : parseSeqSetLoop f r2 with
        | none => simp [h3] at h
        | some q =>
          obtain ⟨rs', r3⟩ := q
          simp only [h3, Option.some.injEq, Prod.mk.injEq] at h
          obtain ⟨rfl, _⟩ := h
          have hr := parseSeqRange_range r1 r r2 h2
          have hrs := ih r2 rs' r3 h3
          intro x hx
          simp only [List.mem_cons] at hx
          rcases hx with rfl | hx
          · exact hr
          · exact hrs x hx

/-- **whatever text comes in, every number the parser hands on is `*` (0) or 1 … 2^32-1** -/
theorem parseSeqSet_range (text : Input) (set : List SeqRange) (rest : Input)
    (h : parseSeqSet text = some (set, rest)) : InParserRange set := by
  unfold parseSeqSet at h
  cases h1 : parseSeqRange text with
  | none => simp [h1] at h
  | some p =>
    obtain ⟨r, r1⟩ := p
    simp only [h1] at h
    cases h2 : parseSeqSetLoop r1.length r1 with
    | none => simp [h2] at h
    | some q =>
      obtain ⟨rs, r2⟩ := q
      simp only [h2, Option.some.injEq, Prod.mk.injEq] at h
      obtain ⟨rfl, _⟩ := h
      have hr := parseSeqRange_range text r r1 h1
      have hrs := parseSeqSetLoop_range _ r1 rs r2 h2
      intro x hx
      simp only [List.mem_cons] at hx
      rcases hx with rfl | hx
      · exact hr
      · exact hrs x hx

/-! ### the text of a number -/

theorem digitsAux_append (fuel n : Nat) (acc : List Char) : digitsAux fuel n acc = digitsAux fuel n [] ++ acc := by
  induction fuel generalizing n acc with
  | zero => simp [digitsAux]
  | succ f ih =>
    simp only [digitsAux]
    by_cases h : n / 10 = 0
    · simp [h]
    · simp only [h, if_false]
      rw [ih (n / 10) (Char.ofNat (48 + n % 10) :: acc), ih (n / 10) [Char.ofNat (48 + n % 10)]]
      simp

theorem digitsAux_succ (f n : Nat) :
    digitsAux (f + 1) n [] = if n / 10 = 0 then [Char.ofNat (48 + n % 10)] else digitsAux f (n / 10) [] ++ [Char.ofNat (48 + n % 10)] := by
  simp only [digitsAux]
  by_cases h : n / 10 = 0
  · simp [h]
  · simp only [h, if_false]
    exact digitsAux_append f (n / 10) _

theorem digitsAux_allDigits (fuel n : Nat) : AllDigits (digitsAux fuel n []) := by
  induction fuel generalizing n with
  | zero => intro c hc; simp [digitsAux] at hc
  | succ f ih =>
    rw [digitsAux_succ]
    have hd := (digitChar_facts (n % 10) (Nat.mod_lt _ (by omega))).1
    by_cases h : n / 10 = 0
    · simp only [h, if_true]
      intro c hc
      simp only [List.mem_singleton] at hc
      subst hc; exact hd
    · simp only [h, if_false]
      intro c hc
      simp only [List.mem_append, List.mem_singleton] at hc
      rcases hc with hc | rfl
      · exact ih (n / 10) c hc
      · exact hd

theorem digitVal_digitChar (d : Nat) (h : d < 10) : digitVal (Char.ofNat (48 + d)) = d := by
  have := (digitChar_facts d h).2.1
  unfold digitVal; omega

theorem digitsAux_value (fuel n : Nat) (h : n < fuel) : decVal (digitsAux fuel n []) = n := by
  induction fuel generalizing n with
  | zero => omega
  | succ f ih =>
    rw [digitsAux_succ]
    have hv := digitVal_digitChar (n % 10) (Nat.mod_lt _ (by omega))
    by_cases h0 : n / 10 = 0
    · simp only [h0, if_true, decVal, decFrom_cons, decFrom_nil, hv]; omega
    · simp only [h0, if_false, decVal, decFrom_append, decFrom_cons, decFrom_nil, hv]
      have := ih (n / 10) (by omega)
      simp only [decVal] at this
      rw [this]; omega

theorem digitsAux_ne_nil (f n : Nat) : digitsAux (f + 1) n [] ≠ [] := by
  rw [digitsAux_succ]
  by_cases h : n / 10 = 0 <;> simp [h]

theorem digits_allDigits (n : Nat) : AllDigits (digits n) := digitsAux_allDigits _ _
theorem digits_value (n : Nat) : decVal (digits n) = n := digitsAux_value _ _ (by omega)
theorem digits_ne_nil (n : Nat) : digits n ≠ [] := digitsAux_ne_nil _ _

/-! ### the text of a set -/

/-- a number as the parser hands it on -/
def concNum : SNum → Int
  | .star => 0
  | .num n => (n : Int)

def concItem : SItem → SeqRange
  | .one a => ⟨concNum a, concNum a⟩
  | .range a b => ⟨concNum a, concNum b⟩

def fitsNum : SNum → Bool
  | .star => true
  | .num n => decide (n ≤ 4294967295)

def fitsItem : SItem → Bool
  | .one a => fitsNum a
  | .range a b => fitsNum a && fitsNum b

/-- RFC `nz-number`: no zero -/
def wfNum : SNum → Prop
  | .star => True
  | .num n => 1 ≤ n

def wfItem : SItem → Prop
  | .one a => wfNum a
  | .range a b => wfNum a ∧ wfNum b

/-- what follows an item: nothing, or the `,` before the next item -/
def SepHead (rest : Input) : Prop := rest = [] ∨ ∃ t, rest = ',' :: t

theorem sepHead_noDigit {rest : Input} (h : SepHead rest) : NoDigitHead rest := by
  intro c cs hc
  rcases h with rfl | ⟨t, rfl⟩
  · cases hc
  · cases hc; decide

theorem sepHead_noColon {rest : Input} (h : SepHead rest) : matchTok ':' rest = none := by
  rcases h with rfl | ⟨t, rfl⟩
  · rfl
  · simp [matchTok]

theorem parseSeqNumber_render (a : SNum) (wf : wfNum a) (rest : Input) (hr : NoDigitHead rest) :
    parseSeqNumber (a.render ++ rest) = if fitsNum a then some (concNum a, rest) else none := by
  cases a with
  | star => simp [SNum.render, parseSeqNumber, matchTok, fitsNum, concNum]
  | num n =>
    have hne := digits_ne_nil n
    have hd := digits_allDigits n
    have hspec := parseNumber_spec (digits n) rest hne hd hr
    rw [digits_value] at hspec
    have hstar : matchTok '*' (digits n ++ rest) = none := by
      cases hds : digits n with
      | nil => exact absurd hds hne
      | cons c cs =>
        have hc : isDigit c = true := hd c (by simp [hds])
        have : c ≠ '*' := by
          intro hcs; subst hcs; revert hc; decide
        simp [matchTok, this]
    simp only [SNum.render, parseSeqNumber, hstar, parseNZNumber, hspec, fitsNum, concNum]
    by_cases hle : n ≤ 4294967295
    · have hn0 : ¬ n = 0 := by simp only [wfNum] at wf; omega
      simp [hle, hn0]
    · simp [hle]

theorem parseSeqRange_render (it : SItem) (wf : wfItem it) (rest : Input) (hr : SepHead rest) :
    parseSeqRange (it.render ++ rest) = if fitsItem it then some (concItem it, rest) else none := by
  cases it with
  | one a =>
    simp only [SItem.render, parseSeqRange, parseSeqNumber_render a wf rest (sepHead_noDigit hr), fitsItem, concItem]
    by_cases hf : fitsNum a = true
    · simp [hf, sepHead_noColon hr]
    · simp [hf]
  | range a b =>
    have hcolon : NoDigitHead (':' :: (b.render ++ rest)) := by
      intro c cs hc; cases hc; decide
    have e : (a.render ++ ':' :: b.render) ++ rest = a.render ++ (':' :: (b.render ++ rest)) := by simp
    simp only [SItem.render, parseSeqRange, e, parseSeqNumber_render a wf.1 _ hcolon, fitsItem, concItem]
    by_cases hf : fitsNum a = true
    · simp only [hf, if_true, matchTok, Bool.true_and, parseSeqNumber_render b wf.2 rest (sepHead_noDigit hr)]
      by_cases hg : fitsNum b = true
      · simp [hg]
      · simp [hg]
    · simp [hf]

/-- the part of the text after the first item: `,item,item…` -/
def renderTail : SSet → List Char
  | [] => []
  | it :: rest => ',' :: (it.render ++ renderTail rest)

theorem renderSet_cons (it : SItem) (rest : SSet) : renderSet (it :: rest) = it.render ++ renderTail rest := by
  induction rest generalizing it with
  | nil => simp [renderSet, renderTail]
  | cons it' rest ih => simp only [renderSet, renderTail, ih it']

theorem renderTail_sepHead (S : SSet) : SepHead (renderTail S) := by
  cases S with
  | nil => exact Or.inl rfl
  | cons it rest => exact Or.inr ⟨_, rfl⟩

theorem parseSeqSetLoop_render (S : SSet) (wf : ∀ it ∈ S, wfItem it) (fuel : Nat)
    (hf : (renderTail S).length ≤ fuel) :
    parseSeqSetLoop fuel (renderTail S) = if S.all fitsItem then some (S.map concItem, []) else none := by
  induction S generalizing fuel with
  | nil => cases fuel <;> simp [renderTail, parseSeqSetLoop, matchTok]
  | cons it rest ih =>
    simp only [renderTail, List.length_cons, List.length_append] at hf
    cases fuel with
    | zero => omega
    | succ f =>
      have hitem := parseSeqRange_render it (wf it (by simp)) (renderTail rest) (renderTail_sepHead rest)
      have ih := ih (fun x hx => wf x (by simp [hx])) f (by omega)
      simp only [renderTail, parseSeqSetLoop, matchTok, if_true, hitem, List.all_cons, List.map_cons]
      by_cases h1 : fitsItem it = true
      · simp only [h1, if_true, ih, Bool.true_and]
        by_cases h2 : rest.all fitsItem = true
        · simp [h2]
        · simp [h2]
      · simp [h1]

/-- **the parse of the text of a set**: the set itself when every number fits into 32 bits, a parse
    error otherwise -/
theorem parseSeqSet_render (S : SSet) (hne : S ≠ []) (wf : ∀ it ∈ S, wfItem it) :
    parseSeqSet (renderSet S) = if S.all fitsItem then some (S.map concItem, []) else none := by
  cases S with
  | nil => exact absurd rfl hne
  | cons it rest =>
    have hitem := parseSeqRange_render it (wf it (by simp)) (renderTail rest) (renderTail_sepHead rest)
    have hloop := parseSeqSetLoop_render rest (fun x hx => wf x (by simp [hx])) (renderTail rest).length (Nat.le_refl _)
    simp only [renderSet_cons, parseSeqSet, hitem, List.all_cons, List.map_cons]
    by_cases h1 : fitsItem it = true
    · simp only [h1, if_true, hloop, Bool.true_and]
      by_cases h2 : rest.all fitsItem = true
      · simp [h2]
      · simp [h2]
    · simp [h1]

/-! ### reading the parser's output back as an abstract set -/

theorem absNum_concNum (a : SNum) (wf : wfNum a) : absNum (concNum a) = a := by
  cases a with
  | star => rfl
  | num n =>
    simp only [wfNum] at wf
    have : ¬ ((n : Int) = 0) := by omega
    simp only [concNum, absNum, this, if_false, Int.toNat_natCast]

theorem concNum_inj (a b : SNum) (wa : wfNum a) (wb : wfNum b) (h : concNum a = concNum b) : a = b := by
  rw [← absNum_concNum a wa, ← absNum_concNum b wb, h]

/-- `n:n` comes back as the single number `n`; nothing else changes -/
theorem absRange_concItem (it : SItem) (wf : wfItem it) :
    absRange (concItem it) = match it with
      | .one a => .one a
      | .range a b => if a = b then .one a else .range a b := by
  cases it with
  | one a => simp [concItem, absRange, absNum_concNum a wf]
  | range a b =>
    simp only [concItem, absRange]
    by_cases h : a = b
    · subst h; simp [absNum_concNum a wf.1]
    · have : ¬ (concNum a = concNum b) := fun hc => h (concNum_inj a b wf.1 wf.2 hc)
      simp [h, this, absNum_concNum a wf.1, absNum_concNum b wf.2]

theorem selectSeqItem_range_self (v : View) (a : SNum) : selectSeqItem v (.range a a) = selectSeqItem v (.one a) := by
  simp only [selectSeqItem]
  cases seqVal v a <;> simp

theorem selectSeqItem_abs (v : View) (it : SItem) (wf : wfItem it) :
    selectSeqItem v (absRange (concItem it)) = selectSeqItem v it := by
  rw [absRange_concItem it wf]
  cases it with
  | one a => rfl
  | range a b =>
    by_cases h : a = b
    · subst h; simp [selectSeqItem_range_self]
    · simp [h]

theorem selectSeq_abs (v : View) (S : SSet) (wf : ∀ it ∈ S, wfItem it) :
    selectSeq v (absSet (S.map concItem)) = selectSeq v S := by
  induction S with
  | nil => rfl
  | cons it rest ih =>
    simp only [absSet, List.map_cons, selectSeq] at ih ⊢
    rw [selectSeqItem_abs v it (wf it (by simp)), ih (fun x hx => wf x (by simp [hx]))]

theorem selectUIDItem_abs (v : View) (it : SItem) (wf : wfItem it) :
    selectUIDItem v (absRange (concItem it)) = selectUIDItem v it
      ∧ excludedUIDItem v (absRange (concItem it)) = excludedUIDItem v it := by
  rw [absRange_concItem it wf]
  cases it with
  | one a => exact ⟨rfl, rfl⟩
  | range a b =>
    by_cases h : a = b
    · subst h
      refine ⟨by simp [selectUIDItem], ?_⟩
      cases a <;> simp [excludedUIDItem]
    · simp [h]

theorem selectUID_filter_abs (v : View) (S : SSet) (wf : ∀ it ∈ S, wfItem it) :
    ((absSet (S.map concItem)).filter (fun it => !excludedUIDItem v it)).flatMap (selectUIDItem v)
      = (S.filter (fun it => !excludedUIDItem v it)).flatMap (selectUIDItem v) := by
  rw [← flatMap_filter_not, ← flatMap_filter_not]
  induction S with
  | nil => rfl
  | cons it rest ih =>
    obtain ⟨h1, h2⟩ := selectUIDItem_abs v it (wf it (by simp))
    simp only [absSet, List.map_cons, List.flatMap_cons] at ih ⊢
    rw [h1, h2, ih (fun x hx => wf x (by simp [hx]))]

theorem inParserRange_concSet (S : SSet) (hfit : S.all fitsItem = true) : InParserRange (S.map concItem) := by
  intro r hr
  simp only [List.mem_map] at hr
  obtain ⟨it, hit, rfl⟩ := hr
  have hf : fitsItem it = true := List.all_eq_true.mp hfit it hit
  have key : ∀ a : SNum, fitsNum a = true → 0 ≤ concNum a ∧ concNum a < 4294967296 := by
    intro a ha
    cases a with
    | star => simp [concNum]
    | num n => simp only [fitsNum, decide_eq_true_eq] at ha; simp only [concNum]; omega
  cases it with
  | one a => exact ⟨key a hf, key a hf⟩
  | range a b =>
    simp only [fitsItem, Bool.and_eq_true] at hf
    exact ⟨key a hf.1, key b hf.2⟩

end SeqSet
end Gluon
