/-
Round-trip lemmas: sequence sets, flags, STORE / COPY / MOVE arguments.
-/
import GluonModel.Lemmas.ParseCmd

namespace Gluon.Parse

/-! ### sequence sets -/

theorem headTy_natDigits (n : Nat) (rest : Bytes) : headTy (natDigits n ++ rest) = .digit := by
  cases h : natDigits n with
  | nil => exact absurd h (natDigits_ne_nil n)
  | cons d ds =>
    have := natDigits_digits n d (by rw [h]; simp)
    simpa using this

theorem natDigits_length_pow (k : Nat) : ∀ n, n < 10 ^ (k + 1) → (natDigits n).length ≤ k + 1 := by
  induction k with
  | zero =>
    intro n h
    rw [natDigits]
    have : n < 10 := by simpa using h
    simp [this]
  | succ k ih =>
    intro n h
    rw [natDigits]
    split
    · simp
    · have h' : n / 10 < 10 ^ (k + 1) := by
        apply Nat.div_lt_of_lt_mul
        rw [Nat.pow_succ] at h
        omega
      have := ih (n / 10) h'
      simp only [List.length_append, List.length_cons, List.length_nil]
      omega

theorem natDigits_length_u32 (n : Nat) (h : n ≤ 4294967295) : (natDigits n).length ≤ 10 :=
  natDigits_length_pow 9 n (by omega)

/-- a sequence number: `*` (0) or a non-zero 32-bit number -/
def SeqNumOK (n : Int) : Prop := n = 0 ∨ (1 ≤ n ∧ n ≤ 4294967295)

theorem rt_parseNumber32 (n : Int) (h1 : 0 ≤ n) (h2 : n ≤ 4294967295) (fuel : Nat) (hf : 10 < fuel) :
    RT (parseNumber fuel) (printNum n) n (nextNot isDigitTok) := by
  unfold printNum
  have hlen := natDigits_length_u32 n.toNat (by omega)
  have hn : ((n.toNat : Nat) : Int) = n := by omega
  have h := rt_parseNumber n.toNat (by omega) fuel (by omega)
  rwa [hn] at h

theorem rt_parseNZNumber (n : Int) (h1 : 1 ≤ n) (h2 : n ≤ 4294967295) (fuel : Nat) (hf : 10 < fuel) :
    RT (parseNZNumber fuel) (printNum n) n (nextNot isDigitTok) := by
  unfold parseNZNumber
  refine RT.bind_nil (rt_parseNumber32 n (by omega) h2 fuel hf) ?_ (fun _ h => h)
  have : ¬ n ≤ 0 := by omega
  simp only [this, if_false]
  exact RT.ret _ _

theorem rt_parseSeqNumber (n : Int) (h : SeqNumOK n) (fuel : Nat) (hf : 10 < fuel) :
    RT (parseSeqNumber fuel) (printSeqNum n) n (nextNot isDigitTok) := by
  unfold parseSeqNumber printSeqNum
  by_cases h0 : n = 0
  · subst h0
    simp only [if_true]
    refine RT.bind_nil (rt_matchesTy_yes (b := 42) rfl _) ?_ (fun _ h => h)
    exact RT.ret _ _
  · simp only [h0, if_false]
    have hn : 1 ≤ n ∧ n ≤ 4294967295 := by rcases h with h | h; exact absurd h h0; exact h
    have := RT.bind (k := fun b => if b = true then pure 0 else parseNZNumber fuel)
      (rt_matchesTy_no .asterisk) (rt_parseNZNumber n hn.1 hn.2 fuel hf)
      (fun r _ => by unfold printNum; rw [headTy_natDigits]; decide)
    simpa using this

/-- what may follow a sequence set: not a digit, `:` or `,` -/
def seqFollow (r : Bytes) : Prop := nextNot isDigitTok r ∧ headTy r ≠ .colon ∧ headTy r ≠ .comma

def SeqRangeOK (r : SeqRange) : Prop := SeqNumOK r.b ∧ SeqNumOK r.e

theorem rt_parseSeqRange (c : Choices) (r : SeqRange) (h : SeqRangeOK r) (fuel : Nat) (hf : 10 < fuel) :
    RT (parseSeqRange fuel) (printSeqRange c r) r (fun x => nextNot isDigitTok x ∧ headTy x ≠ .colon) := by
  unfold parseSeqRange printSeqRange
  split
  · rename_i hs
    obtain ⟨b, e⟩ := r
    simp only at hs h
    obtain ⟨rfl, _⟩ := hs
    refine RT.bind_nil (rt_parseSeqNumber b h.1 fuel hf) ?_ (fun _ h => h.1)
    have := RT.bind (k := fun x => if (!x) = true then pure (SeqRange.mk b b) else
        parseSeqNumber fuel >>= fun e => pure (SeqRange.mk b e))
      (rt_matchesTy_no .colon) (RT.ret (SeqRange.mk b b) (fun x => nextNot isDigitTok x ∧ headTy x ≠ .colon))
      (fun r h => by simpa using h.2)
    simpa using this
  · refine RT.bind (rt_parseSeqNumber r.b h.1 fuel hf) ?_ (fun _ _ => by rfl)
    have h2 := RT.map (fun e => SeqRange.mk r.b e) (rt_parseSeqNumber r.e h.2 fuel hf)
    have := RT.bind (k := fun b => if (!b) = true then pure (SeqRange.mk r.b r.b) else
        parseSeqNumber fuel >>= fun e => pure (SeqRange.mk r.b e))
      (rt_matchesTy_yes (b := 58) (t := .colon) rfl anyRest) (by simpa using h2) (fun _ _ => trivial)
    exact (this.weaken (fun _ h => h.1))

def SeqSetOK (s : SeqSet) : Prop := s ≠ [] ∧ ∀ r ∈ s, SeqRangeOK r

theorem rt_parseSeqSet (c : Choices) (s : SeqSet) (h : SeqSetOK s) (fuel : Nat) (hf : s.length + 10 < fuel) :
    RT (parseSeqSet fuel) (printSeqSet c s) s seqFollow := by
  obtain ⟨hne, hall⟩ := h
  cases s with
  | nil => exact absurd rfl hne
  | cons r rs =>
    unfold parseSeqSet printSeqSet
    simp only [printSepList]
    refine RT.bind (rt_parseSeqRange c.l r (hall r (by simp)) fuel (by omega)) ?_ ?_
    · exact RT.map _ (rt_sepLoop .comma 44 rfl (parseSeqRange fuel) printSeqRange _ seqFollow rs
        (fun c x hx => rt_parseSeqRange c x (hall x (by simp [hx])) fuel (by omega))
        (fun r hr => hr.2.2) (fun r hr => ⟨hr.1, hr.2.1⟩)
        (fun r => ⟨by rfl, by show tokTy 44 ≠ TokTy.colon; decide⟩) fuel
        (by simp at hf; omega) c.r)
    · intro x hx
      cases rs with
      | nil => simpa [printSepTail] using ⟨hx.1, hx.2.1⟩
      | cons y ys => exact ⟨by rfl, by show tokTy 44 ≠ TokTy.colon; decide⟩


/-! ### look-ahead tests -/

theorem RT.check_eq {t : TokTy} {k : Bool → P β} {w : Bytes} {v : β} {ok : Bytes → Prop} (b : Bool)
    (h : ∀ rest, ok rest → (headTy (w ++ rest) == t) = b) (h2 : RT (k b) w v ok) :
    RT (check t >>= k) w v ok := by
  intro c rest hr
  rw [bind_check, load_cur_ty, h rest hr]
  exact h2 c rest hr

/-! ### flags -/

/-- RFC 3501 ATOM-CHAR (ASTRING-CHAR without `]`), `[` excluded as for atoms -/
def AtomOK (a : Bytes) : Prop :=
  a ≠ [] ∧ ∀ b ∈ a, rfcAStringChar b = true ∧ b.toNat ≠ 93 ∧ b.toNat ≠ 91

set_option maxRecDepth 100000 in
theorem atomChar_facts : ∀ n, n < 256 → (rfcAStringCharN n = true ∧ n ≠ 93 ∧ n ≠ 91) →
    (isAtomChar (tokNat n) = true ∧ tokNat n ≠ .backslash ∧ tokNat n ≠ .rparen ∧ tokNat n ≠ .lparen) := by
  decide +kernel

theorem AtomOK.chars {a : Bytes} (h : AtomOK a) :
    ∀ b ∈ a, isAtomChar (tokTy b) = true ∧ tokTy b ≠ .backslash ∧ tokTy b ≠ .rparen ∧ tokTy b ≠ .lparen :=
  fun b hb => atomChar_facts b.toNat b.toNat_lt (h.2 b hb)

theorem rt_parseAtomOK (a : Bytes) (h : AtomOK a) (fuel : Nat) (hf : a.length < fuel) :
    RT (parseAtom fuel) a a (nextNot isAtomChar) := by
  have hc := h.chars
  cases a with
  | nil => exact absurd rfl h.1
  | cons b w =>
    exact rt_parseAtom b w (hc b (by simp)).1 (fun x hx => (hc x (by simp [hx])).1) fuel (by simp at hf; omega)

/-- `flag-keyword` (an atom) or `\` atom other than `\Recent` -/
def FlagOK (f : BStr) : Prop :=
  AtomOK f ∨ ∃ a, f = 92 :: a ∧ AtomOK a ∧ lowerBytes a ≠ kw "recent"

theorem FlagOK.head {f : BStr} (h : FlagOK f) (rest : Bytes) :
    headTy (f ++ rest) ≠ .rparen ∧ headTy (f ++ rest) ≠ .lparen := by
  rcases h with h | ⟨a, rfl, _, _⟩
  · have hc := h.chars
    cases f with
    | nil => exact absurd rfl h.1
    | cons b w => exact ⟨(hc b (by simp)).2.2.1, (hc b (by simp)).2.2.2⟩
  · exact ⟨by show tokTy 92 ≠ _; decide, by show tokTy 92 ≠ _; decide⟩

theorem rt_parseFlag (f : BStr) (h : FlagOK f) (fuel : Nat) (hf : f.length < fuel) :
    RT (parseFlag fuel) f f (nextNot isAtomChar) := by
  unfold parseFlag
  rcases h with h | ⟨a, rfl, ha, hr⟩
  · have hc := h.chars
    have := RT.bind (k := fun b => if b = true then parseAtom fuel >>= fun f =>
        if lowerBytes f = kw "recent" then makeError else pure (92 :: f) else parseAtom fuel)
      (rt_matchesTy_no .backslash) (rt_parseAtomOK f h fuel hf)
      (fun r _ => by
        cases f with
        | nil => exact absurd rfl h.1
        | cons b w => exact (hc b (by simp)).2.1)
    simpa using this
  · have h2 : RT (parseAtom fuel >>= fun f =>
        if lowerBytes f = kw "recent" then makeError else pure (92 :: f)) a (92 :: a) (nextNot isAtomChar) := by
      refine RT.bind_nil (rt_parseAtomOK a ha fuel (by simp at hf; omega)) ?_ (fun _ h => h)
      simp only [hr, if_false]
      exact RT.ret _ _
    have := RT.bind (k := fun b => if b = true then parseAtom fuel >>= fun f =>
        if lowerBytes f = kw "recent" then makeError else pure (92 :: f) else parseAtom fuel)
      (rt_matchesTy_yes (b := 92) (t := .backslash) rfl anyRest) (by simpa using h2) (fun _ _ => trivial)
    simpa using this

theorem nextNot_atom_sp (r : Bytes) : nextNot isAtomChar (32 :: r) := by rfl
theorem nextNot_atom_rparen (r : Bytes) : nextNot isAtomChar (41 :: r) := by rfl

/-- fuel for a list of byte strings -/
def ListFuel (l : List BStr) (fuel : Nat) : Prop := l.length < fuel ∧ ∀ x ∈ l, x.length + 1 < fuel

/-- `f0 SP f1 …` read by `ParseFlag` + the SP loop -/
theorem rt_flagSeq (c : Choices) (f : BStr) (fs : List BStr) (h : ∀ x ∈ f :: fs, FlagOK x) (fuel : Nat)
    (hf : ListFuel (f :: fs) fuel) (ok : Bytes → Prop)
    (hok : ∀ r, ok r → nextNot isAtomChar r ∧ headTy r ≠ .sp) :
    RT (parseFlag fuel >>= fun f => sepLoop .sp (parseFlag fuel) fuel >>= fun r => pure (f :: r))
      (printSepList 32 (fun _ f => f) c (f :: fs)) (f :: fs) ok := by
  simp only [printSepList]
  refine RT.bind (rt_parseFlag f (h f (by simp)) fuel (by have := hf.2 f (by simp); omega)) ?_ ?_
  · exact RT.map _ (rt_sepLoop .sp 32 rfl (parseFlag fuel) (fun _ f => f) (nextNot isAtomChar) ok fs
      (fun c x hx => rt_parseFlag x (h x (by simp [hx])) fuel (by have := hf.2 x (by simp [hx]); omega))
      (fun r hr => (hok r hr).2) (fun r hr => (hok r hr).1) (fun r => nextNot_atom_sp r) fuel
      (by have := hf.1; simp at this; omega) c.r)
  · intro r hr
    cases fs with
    | nil => simpa [printSepTail] using (hok r hr).1
    | cons y ys => exact nextNot_atom_sp _

theorem rt_parseFlagList (c : Choices) (fl : List BStr) (h : ∀ x ∈ fl, FlagOK x) (fuel : Nat)
    (hf : ListFuel fl fuel) : RT (parseFlagList fuel) (printFlagList c fl) fl anyRest := by
  unfold parseFlagList printFlagList
  refine RT.bind (w1 := [40]) (rt_consume rfl anyRest) ?_ (fun _ _ => trivial)
  refine RT.bind (ok1 := nextIs .rparen) ?_ (RT.map _ (rt_consume (b := 41) rfl anyRest)) (fun _ _ => rfl)
  cases fl with
  | nil =>
    refine RT.check_eq true (fun r hr => by simp [printSepList]; exact hr) ?_
    exact RT.ret _ _
  | cons f fs =>
    refine RT.check_eq false (fun r hr => ?_) ?_
    · have := (FlagOK.head (h f (by simp)) (printSepTail 32 (fun _ f => f) c.r fs ++ r)).1
      simpa [printSepList] using this
    · exact rt_flagSeq c f fs h fuel hf _ (fun r hr => ⟨by unfold nextNot; rw [hr]; rfl, by rw [hr]; decide⟩)


theorem headTy_kwCase (c : Choices) (k : Bytes) (hk : allLower k = true) (hne : k ≠ []) (rest : Bytes) :
    headTy (kwCase c k ++ rest) = .char := by
  cases k with
  | nil => exact absurd rfl hne
  | cons b w =>
    have := kwCase_char c (b :: w) (allLower_spec hk)
    simp only [kwCase, List.cons_append, headTy_cons]
    have h := this (if c 0 % 2 = 1 then byteToUpper b else byteToLower b) (by simp [kwCase])
    simpa [isCharTok] using h

theorem seqFollow_sp (r : Bytes) : seqFollow (32 :: r) := ⟨by rfl, by show tokTy 32 ≠ _; decide, by show tokTy 32 ≠ _; decide⟩
theorem seqFollow_cr (r : Bytes) : seqFollow (13 :: r) := ⟨by rfl, by show tokTy 13 ≠ _; decide, by show tokTy 13 ≠ _; decide⟩
theorem seqFollow_rparen (r : Bytes) : seqFollow (41 :: r) := ⟨by rfl, by show tokTy 41 ≠ _; decide, by show tokTy 41 ≠ _; decide⟩

theorem rt_parseCopyMove (mk : SeqSet → BStr → Cmd) (c : Choices) (s : SeqSet) (m : BStr) (hs : SeqSetOK s)
    (hm : MboxOK m) (fuel : Nat) (hf : s.length + m.length + 11 < fuel) :
    RT (parseCopyMove mk fuel) (32 :: (printSeqSet c.r.l s ++ (32 :: printMailbox c.r.r m))) (mk s m)
      (nextNot isAStringChar) := by
  unfold parseCopyMove
  refine RT.bind (w1 := [32]) (rt_consume rfl anyRest) ?_ (fun _ _ => trivial)
  refine RT.bind (rt_parseSeqSet _ s hs fuel (by omega)) ?_ (fun r _ => seqFollow_sp _)
  refine RT.bind (w1 := [32]) (rt_consume rfl anyRest) ?_ (fun _ _ => trivial)
  exact RT.map _ (rt_parseMailbox _ m hm fuel (by omega))

/-- what may follow the flags of STORE: not an atom character, not SP -/
def storeFollow (r : Bytes) : Prop := nextNot isAtomChar r ∧ headTy r ≠ .sp

theorem rt_parseStoreFlags (c : Choices) (fl : List BStr) (h : ∀ x ∈ fl, FlagOK x) (fuel : Nat)
    (hf : ListFuel fl fuel) :
    RT (parseStoreFlags fuel)
      (if fl.isEmpty ∨ c.r.r.here % 2 = 0 then printFlagList c.r.r.r fl
       else printSepList 32 (fun _ f => f) c.r.r.r fl) fl storeFollow := by
  unfold parseStoreFlags tryParseFlagList
  split
  · -- parenthesised
    have h1 : RT (do let f ← parseFlagList fuel; pure (some f)) (printFlagList c.r.r.r fl) (some fl) storeFollow :=
      (RT.map some (rt_parseFlagList c.r.r.r fl h fuel hf)).weaken (fun _ _ => trivial)
    have h2 : RT (check .lparen >>= fun b => if (!b) = true then pure none else do
        let f ← parseFlagList fuel; pure (some f)) (printFlagList c.r.r.r fl) (some fl) storeFollow :=
      RT.check_eq true (fun r _ => by rfl) (by simpa using h1)
    refine RT.bind_nil h2 ?_ (fun _ h => h)
    exact RT.ret _ _
  · rename_i hcase
    simp only [not_or] at hcase
    cases fl with
    | nil => simp at hcase
    | cons f fs =>
      have hhead := (FlagOK.head (h f (by simp)))
      have h2 : RT (check .lparen >>= fun b => if (!b) = true then pure none else do
          let f ← parseFlagList fuel; pure (some f)) [] (none : Option (List BStr))
          (fun r => headTy r ≠ .lparen) :=
        RT.check_eq false (fun r hr => by simpa using hr) (by simpa using RT.ret (none : Option (List BStr)) _)
      refine RT.bind (w1 := []) h2 ?_ ?_
      · exact rt_flagSeq c.r.r.r f fs h fuel hf storeFollow (fun r hr => hr)
      · intro r _
        have := (hhead (printSepTail 32 (fun _ f => f) c.r.r.r.r fs ++ r)).2
        simpa [printSepList] using this


/-! ### STORE -/

def storeActionP : P StoreAction := do
  if (← matchesTy .plus) then pure StoreAction.add
  else if (← matchesTy .minus) then pure StoreAction.rem
  else pure StoreAction.set

theorem rt_storeAction (a : StoreAction) : RT storeActionP (printStoreAction a) a (nextIs .char) := by
  unfold storeActionP
  cases a
  · have := RT.bind (k := fun b => if b = true then pure StoreAction.add else
        matchesTy .minus >>= fun b => if b = true then pure StoreAction.rem else pure StoreAction.set)
      (rt_matchesTy_yes (b := 43) (t := .plus) rfl anyRest) (by simpa using RT.ret StoreAction.add (nextIs .char))
      (fun _ _ => trivial)
    simpa [printStoreAction] using this
  · have h2 := RT.bind (k := fun b => if b = true then pure StoreAction.rem else pure StoreAction.set)
      (rt_matchesTy_yes (b := 45) (t := .minus) rfl anyRest) (by simpa using RT.ret StoreAction.rem (nextIs .char))
      (fun _ _ => trivial)
    have := RT.bind (k := fun b => if b = true then pure StoreAction.add else
        matchesTy .minus >>= fun b => if b = true then pure StoreAction.rem else pure StoreAction.set)
      (rt_matchesTy_no .plus) (by simpa using h2) (fun r _ => by show tokTy 45 ≠ _; decide)
    simpa [printStoreAction] using this
  · have h2 := RT.bind (k := fun b => if b = true then pure StoreAction.rem else pure StoreAction.set)
      (rt_matchesTy_no .minus) (by simpa using RT.ret StoreAction.set (nextIs .char))
      (fun r hr => by simp only [List.nil_append]; rw [hr]; decide)
    have := RT.bind (k := fun b => if b = true then pure StoreAction.add else
        matchesTy .minus >>= fun b => if b = true then pure StoreAction.rem else pure StoreAction.set)
      (rt_matchesTy_no .plus) (by simpa using h2) (fun r hr => by simp only [List.nil_append]; rw [hr]; decide)
    simpa [printStoreAction] using this

def storeSilentP : P Bool := do
  if (← matchesTy .period) then
    consumeBytesFold (kw "SILENT")
    pure true
  else pure false

theorem lowerBytes_kw_upper (c : Choices) (lo up : Bytes) (h : lowerBytes up = lo) (hl : lowerBytes lo = lo) :
    lowerBytes (kwCase c lo) = lowerBytes up := by
  rw [lowerBytes_kwCase, h, hl]

theorem rt_storeSilent (c : Choices) (silent : Bool) :
    RT storeSilentP (if silent then 46 :: kwCase c (kw "silent") else []) silent (nextIs .sp) := by
  unfold storeSilentP
  cases silent
  · have := RT.bind (k := fun b => if b = true then consumeBytesFold (kw "SILENT") >>= fun _ => pure true else pure false)
      (rt_matchesTy_no .period) (by simpa using RT.ret false (nextIs .sp))
      (fun r hr => by simp only [List.nil_append]; rw [hr]; decide)
    simpa using this
  · have h2 : RT (consumeBytesFold (kw "SILENT") >>= fun _ => pure true) (kwCase c (kw "silent")) true (nextIs .sp) :=
      (RT.map (fun _ => true) (rt_consumeBytesFold (kw "SILENT") (kwCase c (kw "silent"))
        (lowerBytes_kw_upper c _ _ (by decide) (by decide)))).weaken (fun _ _ => trivial)
    have := RT.bind (k := fun b => if b = true then consumeBytesFold (kw "SILENT") >>= fun _ => pure true else pure false)
      (rt_matchesTy_yes (b := 46) (t := .period) rfl anyRest) (by simpa using h2) (fun _ _ => trivial)
    simpa using this

theorem rt_parseStore (c : Choices) (s : SeqSet) (a : StoreAction) (fl : List BStr) (silent : Bool)
    (hs : SeqSetOK s) (hfl : ∀ x ∈ fl, FlagOK x) (fuel : Nat) (hf : s.length + 10 < fuel)
    (hff : ListFuel fl fuel) :
    RT (parseStore fuel)
      (32 :: (printSeqSet c.l.r s ++ (32 :: (printStoreAction a ++ (kwCase c.r.l.l (kw "flags") ++
        ((if silent then 46 :: kwCase c.r.l.r (kw "silent") else []) ++ (32 ::
          (if fl.isEmpty ∨ c.r.r.here % 2 = 0 then printFlagList c.r.r.r fl
           else printSepList 32 (fun _ f => f) c.r.r.r fl))))))))
      (.store s a fl silent) storeFollow := by
  unfold parseStore
  refine RT.bind (w1 := [32]) (rt_consume rfl anyRest) ?_ (fun _ _ => trivial)
  refine RT.bind (rt_parseSeqSet _ s hs fuel (by omega)) ?_ (fun r _ => seqFollow_sp _)
  refine RT.bind (w1 := [32]) (rt_consume rfl anyRest) ?_ (fun _ _ => trivial)
  refine RT.bind (rt_storeAction a) ?_ (fun r _ => by
    show headTy _ = _; rw [List.append_assoc]; exact headTy_kwCase _ (kw "flags") (by decide) (by decide) _)
  refine RT.bind (rt_consumeBytesFold (kw "FLAGS") (kwCase c.r.l.l (kw "flags"))
    (lowerBytes_kw_upper _ _ _ (by decide) (by decide))) ?_ (fun _ _ => trivial)
  refine RT.bind (rt_storeSilent c.r.l.r silent) ?_ (fun r _ => rfl)
  refine RT.bind (w1 := [32]) (rt_consume rfl anyRest) ?_ (fun _ _ => trivial)
  exact RT.map _ (rt_parseStoreFlags c fl hfl fuel hff)


end Gluon.Parse
