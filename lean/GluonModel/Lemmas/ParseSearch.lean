/-
Round-trip lemmas: SEARCH keys (structural induction over the key tree), the SEARCH command.
-/
import GluonModel.Lemmas.ParseFetch

namespace Gluon.Parse

/-! ### SEARCH keys -/

mutual
/-- nesting depth of a search key (NOT, OR and parenthesised lists nest) -/
def keyDepth : SearchKey → Nat
  | .not k => keyDepth k + 1
  | .or a b => max (keyDepth a) (keyDepth b) + 1
  | .list ks => keysDepth ks + 1
  | _ => 0
def keysDepth : SearchKeys → Nat
  | .nil => 0
  | .cons k ks => max (keyDepth k) (keysDepth ks)
end

/-- a string argument of a search key -/
def KStrOK (fuel : Nat) (s : BStr) : Prop := StrOK s ∧ s.length + 1 < fuel

mutual
/-- a search key the printer can write, and the loop fuel it needs -/
def KeyOK (fuel : Nat) : SearchKey → Prop
  | .bcc v | .body v | .cc v | .from v | .subject v | .text v | .to v => KStrOK fuel v
  | .keyword v | .unkeyword v => AtomOK v ∧ v.length < fuel
  | .header f v => KStrOK fuel f ∧ KStrOK fuel v
  | .before d | .on d | .since d | .sentBefore d | .sentOn d | .sentSince d => DateOK d
  | .larger n | .smaller n => 0 ≤ n ∧ n ≤ 4294967295
  | .uid s | .seqSet s => SeqSetOK s ∧ s.length + 10 < fuel
  | .not k => KeyOK fuel k
  | .or a b => KeyOK fuel a ∧ KeyOK fuel b
  | .list ks => ks ≠ .nil ∧ KeysOK fuel ks ∧ keysLen ks < fuel
  | _ => True
def KeysOK (fuel : Nat) : SearchKeys → Prop
  | .nil => True
  | .cons k ks => KeyOK fuel k ∧ KeysOK fuel ks
def keysLen : SearchKeys → Nat
  | .nil => 0
  | .cons _ ks => keysLen ks + 1
end

theorem printKeys_cons (c : Choices) (k : SearchKey) (ks : SearchKeys) :
    printKeys c (.cons k ks) = printKey c.l k ++ printSepTail 32 printKey c.r ks.toList := by
  match ks with
  | .nil => simp [printKeys, SearchKeys.toList, printSepTail]
  | .cons k2 ks2 =>
    rw [printKeys, printKeys_cons c.r k2 ks2]
    · simp [SearchKeys.toList, printSepTail]
    · intro h; cases h


/-- what follows a search key: SP, `)` or CR (the same set as after a fetch attribute) -/
abbrev keyFollow := fetchFollow

theorem keyFollow_facts {r : Bytes} (h : keyFollow r) :
    nextNot isAStringChar r ∧ nextNot isAtomChar r ∧ seqFollow r ∧ nextNot isCharTok r ∧
    nextNot isDigitTok r := by
  unfold nextNot seqFollow nextNot
  rcases h with h | h | h <;> rw [h] <;> decide

/-- `k` is written as a keyword `name` (any case) followed by `args`, and `handleSearchKey` reads `args`
back as `k` -/
def KwLed (recKey : P SearchKey) (fuel : Nat) (c : Choices) (k : SearchKey) : Prop :=
  ∃ (c' : Choices) (name args : Bytes), printKey c k = kwCase c' name ++ args ∧
    allLower name = true ∧ name.length < 12 ∧ name ≠ [] ∧ (name.headD 0 = 99 → name = kw "cc") ∧
    (∀ r, keyFollow r → nextNot isCharTok (args ++ r)) ∧
    RT (handleSearchKey recKey name fuel) args k keyFollow

theorem kwLed_nullary (recKey : P SearchKey) (fuel : Nat) (c : Choices) (k : SearchKey) (name : Bytes)
    (hp : printKey c k = kwCase c name) (hl : allLower name = true) (hlen : name.length < 12)
    (hne : name ≠ []) (hc : name.headD 0 = 99 → name = kw "cc")
    (hh : RT (handleSearchKey recKey name fuel) [] k keyFollow) :
    KwLed recKey fuel c k :=
  ⟨c, name, [], by simp [hp], hl, hlen, hne, hc, fun r hr => by simpa using (keyFollow_facts hr).2.2.2.1, hh⟩

theorem rt_spThen {p : P α} {w : Bytes} {v : α} {ok : Bytes → Prop} (h : RT p w v ok) :
    RT (spThen p) (32 :: w) v ok := by
  unfold spThen
  exact RT.bind (w1 := [32]) (rt_consume rfl anyRest) h (fun _ _ => trivial)

theorem kwLed_str (recKey : P SearchKey) (fuel : Nat) (c : Choices) (k : SearchKey) (name : String)
    (v : BStr) (hv : KStrOK fuel v)
    (hp : printKey c k = printKeyStr c name v) (hl : allLower (kw name) = true) (hlen : (kw name).length < 12)
    (hne : kw name ≠ []) (hc : (kw name).headD 0 = 99 → kw name = kw "cc")
    (hh : ∀ w, RT (spThen (parseAString fuel)) w v (nextNot isAStringChar) →
      RT (handleSearchKey recKey (kw name) fuel) w k (nextNot isAStringChar)) :
    KwLed recKey fuel c k := by
  refine ⟨c.l, kw name, 32 :: printAString c.r.here v, by rw [hp]; rfl, hl, hlen, hne, hc, fun r _ => by rfl, ?_⟩
  exact (hh _ (rt_spThen (rt_parseAString _ v hv.1 fuel hv.2))).weaken (fun r hr => (keyFollow_facts hr).1)

theorem kwLed_date (recKey : P SearchKey) (fuel : Nat) (c : Choices) (k : SearchKey) (name : String)
    (d : Date) (hd : DateOK d)
    (hp : printKey c k = printKeyDate c name d) (hl : allLower (kw name) = true) (hlen : (kw name).length < 12)
    (hne : kw name ≠ []) (hc : (kw name).headD 0 = 99 → kw name = kw "cc")
    (hh : ∀ w, RT (spThen parseDate) w d anyRest →
      RT (handleSearchKey recKey (kw name) fuel) w k anyRest) :
    KwLed recKey fuel c k := by
  refine ⟨c.l, kw name, 32 :: printDate c.r d, by rw [hp]; rfl, hl, hlen, hne, hc, fun r _ => by rfl, ?_⟩
  exact (hh _ (rt_spThen (rt_parseDate _ d hd))).weaken (fun _ _ => trivial)


/-- `sub` is an immediate sub-key of a NOT / OR key -/
def IsSubKey (sub : SearchKey) : SearchKey → Prop
  | .not x => sub = x
  | .or a b => sub = a ∨ sub = b
  | _ => False

/-- keys that start with a keyword (everything but sequence sets and parenthesised lists) -/
def IsKwKey : SearchKey → Prop
  | .list _ | .seqSet _ => False
  | _ => True

set_option maxHeartbeats 1000000 in
/-- every keyword-led key is printed as its keyword followed by what `handleSearchKey` reads; NOT and OR
use the recursive parser `recKey` on their sub-keys -/
theorem key_kwLed (recKey : P SearchKey) (fuel : Nat) (hf : 12 < fuel) (c : Choices) (k : SearchKey)
    (hk : KeyOK fuel k) (hkw : IsKwKey k)
    (hrec : ∀ sub, IsSubKey sub k → ∀ c', RT recKey (printKey c' sub) sub keyFollow) :
    KwLed recKey fuel c k := by
  cases k with
  | list ks => exact absurd hkw id
  | seqSet s => exact absurd hkw id
  | all => exact kwLed_nullary recKey fuel c _ (kw "all") rfl (by decide) (by decide) (by decide) (by decide) (RT.ret _ _)
  | answered => exact kwLed_nullary recKey fuel c _ (kw "answered") rfl (by decide) (by decide) (by decide) (by decide) (RT.ret _ _)
  | deleted => exact kwLed_nullary recKey fuel c _ (kw "deleted") rfl (by decide) (by decide) (by decide) (by decide) (RT.ret _ _)
  | flagged => exact kwLed_nullary recKey fuel c _ (kw "flagged") rfl (by decide) (by decide) (by decide) (by decide) (RT.ret _ _)
  | new => exact kwLed_nullary recKey fuel c _ (kw "new") rfl (by decide) (by decide) (by decide) (by decide) (RT.ret _ _)
  | old => exact kwLed_nullary recKey fuel c _ (kw "old") rfl (by decide) (by decide) (by decide) (by decide) (RT.ret _ _)
  | recent => exact kwLed_nullary recKey fuel c _ (kw "recent") rfl (by decide) (by decide) (by decide) (by decide) (RT.ret _ _)
  | seen => exact kwLed_nullary recKey fuel c _ (kw "seen") rfl (by decide) (by decide) (by decide) (by decide) (RT.ret _ _)
  | unanswered => exact kwLed_nullary recKey fuel c _ (kw "unanswered") rfl (by decide) (by decide) (by decide) (by decide) (RT.ret _ _)
  | undeleted => exact kwLed_nullary recKey fuel c _ (kw "undeleted") rfl (by decide) (by decide) (by decide) (by decide) (RT.ret _ _)
  | unflagged => exact kwLed_nullary recKey fuel c _ (kw "unflagged") rfl (by decide) (by decide) (by decide) (by decide) (RT.ret _ _)
  | unseen => exact kwLed_nullary recKey fuel c _ (kw "unseen") rfl (by decide) (by decide) (by decide) (by decide) (RT.ret _ _)
  | draft => exact kwLed_nullary recKey fuel c _ (kw "draft") rfl (by decide) (by decide) (by decide) (by decide) (RT.ret _ _)
  | undraft => exact kwLed_nullary recKey fuel c _ (kw "undraft") rfl (by decide) (by decide) (by decide) (by decide) (RT.ret _ _)
  | bcc v => exact kwLed_str recKey fuel c _ "bcc" v hk rfl (by decide) (by decide) (by decide) (by decide) (fun w h => RT.map _ h)
  | body v => exact kwLed_str recKey fuel c _ "body" v hk rfl (by decide) (by decide) (by decide) (by decide) (fun w h => RT.map _ h)
  | cc v => exact kwLed_str recKey fuel c _ "cc" v hk rfl (by decide) (by decide) (by decide) (by decide) (fun w h => RT.map _ h)
  | «from» v => exact kwLed_str recKey fuel c _ "from" v hk rfl (by decide) (by decide) (by decide) (by decide) (fun w h => RT.map _ h)
  | subject v => exact kwLed_str recKey fuel c _ "subject" v hk rfl (by decide) (by decide) (by decide) (by decide) (fun w h => RT.map _ h)
  | text v => exact kwLed_str recKey fuel c _ "text" v hk rfl (by decide) (by decide) (by decide) (by decide) (fun w h => RT.map _ h)
  | to v => exact kwLed_str recKey fuel c _ "to" v hk rfl (by decide) (by decide) (by decide) (by decide) (fun w h => RT.map _ h)
  | before d => exact kwLed_date recKey fuel c _ "before" d hk rfl (by decide) (by decide) (by decide) (by decide) (fun w h => RT.map _ h)
  | on d => exact kwLed_date recKey fuel c _ "on" d hk rfl (by decide) (by decide) (by decide) (by decide) (fun w h => RT.map _ h)
  | since d => exact kwLed_date recKey fuel c _ "since" d hk rfl (by decide) (by decide) (by decide) (by decide) (fun w h => RT.map _ h)
  | sentBefore d => exact kwLed_date recKey fuel c _ "sentbefore" d hk rfl (by decide) (by decide) (by decide) (by decide) (fun w h => RT.map _ h)
  | sentOn d => exact kwLed_date recKey fuel c _ "senton" d hk rfl (by decide) (by decide) (by decide) (by decide) (fun w h => RT.map _ h)
  | sentSince d => exact kwLed_date recKey fuel c _ "sentsince" d hk rfl (by decide) (by decide) (by decide) (by decide) (fun w h => RT.map _ h)
  | keyword v =>
    refine ⟨c, kw "keyword", 32 :: v, rfl, by decide, by decide, by decide, by decide, fun r _ => by rfl, ?_⟩
    exact (RT.map SearchKey.keyword (rt_spThen (rt_parseAtomOK v hk.1 fuel hk.2))).weaken
      (fun r hr => (keyFollow_facts hr).2.1)
  | unkeyword v =>
    refine ⟨c, kw "unkeyword", 32 :: v, rfl, by decide, by decide, by decide, by decide, fun r _ => by rfl, ?_⟩
    exact (RT.map SearchKey.unkeyword (rt_spThen (rt_parseAtomOK v hk.1 fuel hk.2))).weaken
      (fun r hr => (keyFollow_facts hr).2.1)
  | header f v =>
    refine ⟨c.l, kw "header", _, rfl, by decide, by decide, by decide, by decide, fun r _ => by rfl, ?_⟩
    have h1 := rt_spThen (rt_parseAString c.r.l.here f hk.1.1 fuel hk.1.2)
    have h2 := rt_spThen (rt_parseAString c.r.r.here v hk.2.1 fuel hk.2.2)
    have := RT.bind (k := fun f => spThen (parseAString fuel) >>= fun v => pure (SearchKey.header f v))
      h1 (RT.map _ h2) (fun r _ => nextNot_astring_sp _)
    exact this.weaken (fun r hr => (keyFollow_facts hr).1)
  | larger n =>
    refine ⟨c, kw "larger", 32 :: printNum n, rfl, by decide, by decide, by decide, by decide, fun r _ => by rfl, ?_⟩
    exact (RT.map SearchKey.larger (rt_spThen (rt_parseNumber32 n hk.1 hk.2 fuel (by omega)))).weaken
      (fun r hr => (keyFollow_facts hr).2.2.2.2)
  | smaller n =>
    refine ⟨c, kw "smaller", 32 :: printNum n, rfl, by decide, by decide, by decide, by decide, fun r _ => by rfl, ?_⟩
    exact (RT.map SearchKey.smaller (rt_spThen (rt_parseNumber32 n hk.1 hk.2 fuel (by omega)))).weaken
      (fun r hr => (keyFollow_facts hr).2.2.2.2)
  | uid s =>
    refine ⟨c.l, kw "uid", 32 :: printSeqSet c.r s, rfl, by decide, by decide, by decide, by decide, fun r _ => by rfl, ?_⟩
    exact (RT.map SearchKey.uid (rt_spThen (rt_parseSeqSet c.r s hk.1 fuel hk.2))).weaken
      (fun r hr => (keyFollow_facts hr).2.2.1)
  | not x =>
    refine ⟨c.l, kw "not", 32 :: printKey c.r x, rfl, by decide, by decide, by decide, by decide, fun r _ => by rfl, ?_⟩
    exact RT.bind (w1 := [32]) (k := fun _ => recKey >>= fun key => pure (SearchKey.not key))
      (rt_consume rfl anyRest) (RT.map _ (hrec x rfl c.r)) (fun _ _ => trivial)
  | or a b =>
    refine ⟨c.l, kw "or", _, rfl, by decide, by decide, by decide, by decide, fun r _ => by rfl, ?_⟩
    have hb : RT (consume .sp >>= fun _ => recKey >>= fun k2 => pure (SearchKey.or a k2))
        (32 :: printKey c.r.r b) (.or a b) keyFollow :=
      RT.bind (w1 := [32]) (rt_consume rfl anyRest) (RT.map _ (hrec b (Or.inr rfl) c.r.r)) (fun _ _ => trivial)
    have ha := RT.bind (k := fun k1 => consume .sp >>= fun _ => recKey >>= fun k2 => pure (SearchKey.or k1 k2))
      (hrec a (Or.inl rfl) c.r.l) hb (fun r _ => fetchFollow_sp _)
    exact RT.bind (w1 := [32]) (k := fun _ => recKey >>= fun k1 => consume .sp >>= fun _ => recKey >>= fun k2 =>
      pure (SearchKey.or k1 k2)) (rt_consume rfl anyRest) ha (fun _ _ => trivial)


theorem headTy_of_kwLed {recKey : P SearchKey} {fuel : Nat} {c : Choices} {k : SearchKey}
    (h : KwLed recKey fuel c k) (rest : Bytes) : headTy (printKey c k ++ rest) = .char := by
  obtain ⟨c', name, args, hp, hl, _, hne, _, _, _⟩ := h
  rw [hp, List.append_assoc]
  exact headTy_kwCase c' name hl hne _

/-- `parseSearchKey` on a keyword-led key, given the recursive parser reads the sub-keys -/
theorem keyRT_kw (d fuel : Nat) (hf : 12 < fuel) (c : Choices) (k : SearchKey)
    (hk : KeyOK fuel k) (hkw : IsKwKey k)
    (hrec : ∀ sub, IsSubKey sub k → ∀ c', RT (parseSearchKey d fuel) (printKey c' sub) sub keyFollow) :
    RT (parseSearchKey (d + 1) fuel) (printKey c k) k keyFollow := by
  have hled := key_kwLed (parseSearchKey d fuel) fuel hf c k hk hkw hrec
  have hhead := fun r => headTy_of_kwLed hled r
  obtain ⟨c', name, args, hp, hl, hlen, hne, _, hfol, hrt⟩ := hled
  unfold parseSearchKey
  have h3 : RT (readKeyword fuel >>= fun kw' => handleSearchKey (parseSearchKey d fuel) kw' fuel)
      (printKey c k) k keyFollow := by
    rw [hp]
    exact RT.bind (rt_kw c' name fuel hl (by omega)) hrt hfol
  have h2 : RT (check .digit >>= fun b1 => check .asterisk >>= fun b2 =>
      if (b1 || b2) = true then parseSeqSet fuel >>= fun s => pure (SearchKey.seqSet s)
      else readKeyword fuel >>= fun kw' => handleSearchKey (parseSearchKey d fuel) kw' fuel)
      (printKey c k) k keyFollow := by
    refine RT.check_eq false (fun r _ => by rw [hhead]; rfl) ?_
    refine RT.check_eq false (fun r _ => by rw [hhead]; rfl) ?_
    simpa using h3
  have := RT.bind (k := fun b => if b = true then parseSearchKeyList (parseSearchKey d fuel) fuel else
      check .digit >>= fun b1 => check .asterisk >>= fun b2 =>
      if (b1 || b2) = true then parseSeqSet fuel >>= fun s => pure (SearchKey.seqSet s)
      else readKeyword fuel >>= fun kw' => handleSearchKey (parseSearchKey d fuel) kw' fuel)
    (rt_matchesTy_no .lparen) (by simpa using h2) (fun r _ => by rw [hhead]; decide)
  simpa using this


theorem headTy_printSeqSet (c : Choices) (s : SeqSet) (hs : SeqSetOK s) (rest : Bytes) :
    headTy (printSeqSet c s ++ rest) = .digit ∨ headTy (printSeqSet c s ++ rest) = .asterisk := by
  obtain ⟨hne, _⟩ := hs
  cases s with
  | nil => exact absurd rfl hne
  | cons r rs =>
    simp only [printSeqSet, printSepList, printSeqRange, printSeqNum]
    split <;> split
    all_goals first
      | (right; rfl)
      | (left; simp only [List.append_assoc]; exact headTy_printNum _ _)

theorem keyRT_seq (d fuel : Nat) (c : Choices) (s : SeqSet) (hs : SeqSetOK s) (hf : s.length + 10 < fuel) :
    RT (parseSearchKey (d + 1) fuel) (printSeqSet c s) (.seqSet s) keyFollow := by
  unfold parseSearchKey
  have h3 : RT (parseSeqSet fuel >>= fun s => pure (SearchKey.seqSet s)) (printSeqSet c s) (.seqSet s) keyFollow :=
    (RT.map _ (rt_parseSeqSet c s hs fuel hf)).weaken (fun r hr => (keyFollow_facts hr).2.2.1)
  have h2 : RT (check .digit >>= fun b1 => check .asterisk >>= fun b2 =>
      if (b1 || b2) = true then parseSeqSet fuel >>= fun s => pure (SearchKey.seqSet s)
      else readKeyword fuel >>= fun kw' => handleSearchKey (parseSearchKey d fuel) kw' fuel)
      (printSeqSet c s) (.seqSet s) keyFollow := by
    intro cx rest hr
    rw [bind_check, bind_check, load_cur_ty]
    rcases headTy_printSeqSet c s hs rest with e | e <;> rw [e] <;> exact h3 cx rest hr
  have := RT.bind (k := fun b => if b = true then parseSearchKeyList (parseSearchKey d fuel) fuel else
      check .digit >>= fun b1 => check .asterisk >>= fun b2 =>
      if (b1 || b2) = true then parseSeqSet fuel >>= fun s => pure (SearchKey.seqSet s)
      else readKeyword fuel >>= fun kw' => handleSearchKey (parseSearchKey d fuel) kw' fuel)
    (rt_matchesTy_no .lparen) (by simpa using h2)
    (fun r _ => by rcases headTy_printSeqSet c s hs r with e | e <;> rw [e] <;> decide)
  simpa using this

theorem RT.congr_v {p : P α} {w : Bytes} {v v' : α} {ok : Bytes → Prop} (h : RT p w v ok) (e : v = v') :
    RT p w v' ok := e ▸ h

theorem ofList_toList (ks : SearchKeys) : SearchKeys.ofList ks.toList = ks := by
  match ks with
  | .nil => rfl
  | .cons k ks' => simp [SearchKeys.toList, SearchKeys.ofList, ofList_toList ks']

theorem keysLen_toList (ks : SearchKeys) : ks.toList.length = keysLen ks := by
  match ks with
  | .nil => rfl
  | .cons k ks' => simp [SearchKeys.toList, keysLen, keysLen_toList ks']

theorem keyRT_list (d fuel : Nat) (c : Choices) (k0 : SearchKey) (ks : SearchKeys)
    (hlen : keysLen ks < fuel)
    (hk0 : RT (parseSearchKey d fuel) (printKey c.l k0) k0 keyFollow)
    (hall : ∀ x ∈ ks.toList, ∀ c', RT (parseSearchKey d fuel) (printKey c' x) x keyFollow) :
    RT (parseSearchKey (d + 1) fuel) (40 :: (printKeys c (.cons k0 ks) ++ [41])) (.list (.cons k0 ks))
      keyFollow := by
  unfold parseSearchKey
  rw [printKeys_cons, List.append_assoc]
  have hl : RT (parseSearchKeyList (parseSearchKey d fuel) fuel)
      (printKey c.l k0 ++ (printSepTail 32 printKey c.r ks.toList ++ [41])) (.list (.cons k0 ks)) keyFollow := by
    unfold parseSearchKeyList
    refine RT.bind hk0 ?_ ?_
    · refine RT.bind (rt_sepLoop .sp 32 rfl (parseSearchKey d fuel) printKey keyFollow (nextIs .rparen) ks.toList
        (fun c' x hx => hall x hx c') (fun r hr => by rw [hr]; decide) (fun r hr => Or.inr (Or.inl hr))
        (fun r => fetchFollow_sp r) fuel (by rw [keysLen_toList]; exact hlen) c.r) ?_ (fun r _ => rfl)
      have := RT.map (fun _ => SearchKey.list (SearchKeys.ofList (k0 :: ks.toList)))
        (rt_consume (b := 41) (t := .rparen) rfl anyRest)
      have e : SearchKeys.ofList (k0 :: ks.toList) = .cons k0 ks := by simp [SearchKeys.ofList, ofList_toList]
      exact (this.congr_v (by rw [e])).weaken (fun _ _ => trivial)
    · intro r _
      cases h : ks.toList with
      | nil => simp only [printSepTail, List.nil_append]; exact fetchFollow_rparen _
      | cons y ys => simp only [printSepTail, List.cons_append]; exact fetchFollow_sp _
  have := RT.bind (k := fun b => if b = true then parseSearchKeyList (parseSearchKey d fuel) fuel else
      check .digit >>= fun b1 => check .asterisk >>= fun b2 =>
      if (b1 || b2) = true then parseSeqSet fuel >>= fun s => pure (SearchKey.seqSet s)
      else readKeyword fuel >>= fun kw' => handleSearchKey (parseSearchKey d fuel) kw' fuel)
    (rt_matchesTy_yes (b := 40) (t := .lparen) rfl anyRest) (by simpa using hl) (fun _ _ => trivial)
  simpa using this


mutual
/-- searchkey_roundtrip: structural induction over the key tree, any depth -/
theorem keyRT (k : SearchKey) : ∀ (c : Choices) (d fuel : Nat), 12 < fuel → KeyOK fuel k → keyDepth k < d →
    RT (parseSearchKey d fuel) (printKey c k) k keyFollow := by
  intro c d fuel hf hk hd
  cases d with
  | zero => exact absurd hd (by omega)
  | succ d =>
    cases k with
    | not x =>
      refine keyRT_kw d fuel hf c _ hk trivial (fun sub hs c' => ?_)
      have e : sub = x := hs
      rw [e]
      exact keyRT x c' d fuel hf hk (by simp [keyDepth] at hd; omega)
    | or a b =>
      refine keyRT_kw d fuel hf c _ hk trivial (fun sub hs c' => ?_)
      have hs' : sub = a ∨ sub = b := hs
      simp only [keyDepth] at hd
      rcases hs' with e | e
      · rw [e]; exact keyRT a c' d fuel hf hk.1 (by omega)
      · rw [e]; exact keyRT b c' d fuel hf hk.2 (by omega)
    | list ks =>
      cases ks with
      | nil => exact absurd rfl hk.1
      | cons k0 ks' =>
        simp only [keyDepth, keysDepth] at hd
        have hk' : KeyOK fuel k0 ∧ KeysOK fuel ks' := hk.2.1
        have hlen : keysLen ks' < fuel := by have := hk.2.2; simp only [keysLen] at this; omega
        exact keyRT_list d fuel c k0 ks' hlen (keyRT k0 c.l d fuel hf hk'.1 (by omega))
          (fun x hx c' => keysAll ks' x hx c' d fuel hf hk'.2 (by omega))
    | seqSet s => exact keyRT_seq d fuel c s hk.1 hk.2
    | _ => exact keyRT_kw d fuel hf c _ hk trivial (fun sub hs => hs.elim)
termination_by structural k
theorem keysAll (ks : SearchKeys) : ∀ x ∈ ks.toList, ∀ (c : Choices) (d fuel : Nat), 12 < fuel →
    KeysOK fuel ks → keysDepth ks < d → RT (parseSearchKey d fuel) (printKey c x) x keyFollow := by
  intro x hx c d fuel hf hk hd
  cases ks with
  | nil => simp [SearchKeys.toList] at hx
  | cons k ks' =>
    simp only [SearchKeys.toList, List.mem_cons] at hx
    simp only [keysDepth] at hd
    rcases hx with e | hx
    · rw [e]; exact keyRT k c d fuel hf hk.1 (by omega)
    · exact keysAll ks' x hx c d fuel hf hk.2 (by omega)
termination_by structural ks
end


/-! ### the SEARCH command -/

theorem kwCase_cons (c : Choices) (b : UInt8) (bs : Bytes) :
    kwCase c (b :: bs) = (if c 0 % 2 = 1 then byteToUpper b else byteToLower b) :: kwCase c.tl bs := rfl

theorem lower_kwHead (c : Choices) (b : UInt8) :
    byteToLower (if c 0 % 2 = 1 then byteToUpper b else byteToLower b) = byteToLower b := by
  split
  · exact lower_upper b
  · exact lower_lower b

/-- `searchFirst` after its first letter `x0` (lower-case `n0`, not `c`) was matched -/
theorem searchFirst_other (fuel : Nat) (x0 n0 : UInt8) (hx0 : tokTy x0 = .char) (hl0 : byteToLower x0 = n0)
    (h99 : n0 ≠ 99) (w : Bytes) (cx : Ctx) :
    searchFirst fuel (load cx (x0 :: w)) =
      (collectWhile (· == .char) fuel >>= fun r =>
        handleSearchKey (parseSearchKey (searchBudget - 1) fuel) (lowerBytes (x0 :: r)) fuel >>= fun k =>
        pure (([] : BStr), [k])) (load ⟨Tok.ofByte x0, x0, cx.n⟩ w) := by
  unfold searchFirst
  simp only [matchesTy]
  rw [matchesWith_load_yes (f := fun t => t == TokTy.char) (by simp [hx0])]
  have hne99 : (n0 == 99) = false := by simp [h99]
  simp only [if_true, bind_prevVal, load_prev, Tok.ofByte, hl0, hne99, Bool.false_eq_true, if_false]

/-- `searchFirst` on `CC…`: both letters are consumed -/
theorem searchFirst_cc (fuel : Nat) (x0 x1 : UInt8) (hx0 : tokTy x0 = .char) (hl0 : byteToLower x0 = 99)
    (hx1 : tokTy x1 = .char) (hl1 : byteToLower x1 = 99) (w : Bytes) (cx : Ctx) :
    searchFirst fuel (load cx (x0 :: x1 :: w)) =
      (handleSearchKey (parseSearchKey (searchBudget - 1) fuel) (kw "cc") fuel >>= fun k =>
        pure (([] : BStr), [k])) (load ⟨Tok.ofByte x1, x1, cx.n⟩ w) := by
  unfold searchFirst
  simp only [matchesTy]
  rw [matchesWith_load_yes (f := fun t => t == TokTy.char) (by simp [hx0])]
  simp only [if_true, bind_prevVal, load_prev, Tok.ofByte, hl0, beq_self_eq_true, bind_curVal,
    load_cur_val, headVal, hl1]
  rw [consume_load hx1]
  rfl

/-- first key, keyword-led -/
theorem searchFirst_kw (fuel : Nat) (hf : 12 < fuel) (c : Choices) (k : SearchKey)
    (hled : KwLed (parseSearchKey (searchBudget - 1) fuel) fuel c k) :
    RT (searchFirst fuel) (printKey c k) (([] : BStr), [k]) keyFollow := by
  obtain ⟨c', name, args, hp, hl, hlen, hne, hcc, hfol, hrt⟩ := hled
  have hlow := allLower_spec hl
  intro cx rest hr
  rw [hp]
  cases name with
  | nil => exact absurd rfl hne
  | cons n0 ns =>
    have hn0 := lower_of_lowerAlpha (hlow n0 (by simp))
    have hchars := kwCase_char c' (n0 :: ns) hlow
    have hlowx0 := (lower_kwHead c' n0).trans hn0.1
    have hlb := lowerBytes_kwCase c' (n0 :: ns)
    rw [lowerBytes_of_lower _ hlow] at hlb
    rw [kwCase_cons] at hchars hlb ⊢
    generalize (if c' 0 % 2 = 1 then byteToUpper n0 else byteToLower n0) = x0 at hchars hlowx0 hlb ⊢
    have hx0 : tokTy x0 = .char := by
      have := hchars x0 (by simp)
      simpa [isCharTok] using this
    by_cases h99 : n0 = 99
    · -- the key is CC
      have hname : n0 :: ns = kw "cc" := hcc (by simp [h99])
      have hns : ns = [99] := by
        have : n0 :: ns = [99, 99] := hname
        simpa [h99] using this
      subst h99 hns
      have e99 : byteToLower 99 = 99 := rfl
      have hlowx1 := (lower_kwHead c'.tl 99).trans e99
      have hk2 : kwCase c'.tl [99] = [if c'.tl 0 % 2 = 1 then byteToUpper 99 else byteToLower 99] := rfl
      rw [hk2] at hchars ⊢
      generalize (if c'.tl 0 % 2 = 1 then byteToUpper 99 else byteToLower 99) = x1 at hchars hlowx1 ⊢
      have hx1 : tokTy x1 = .char := by
        have := hchars x1 (by simp)
        simpa [isCharTok] using this
      simp only [List.cons_append, List.nil_append]
      rw [searchFirst_cc fuel x0 x1 hx0 hlowx0 hx1 hlowx1]
      obtain ⟨c2, e2⟩ := hrt ⟨Tok.ofByte x1, x1, cx.n⟩ rest hr
      rw [hname] at e2
      rw [bind_ok e2]
      exact ⟨c2, rfl⟩
    · simp only [List.cons_append]
      rw [searchFirst_other fuel x0 n0 hx0 hlowx0 h99]
      have hcol := rt_collectWhile isCharTok (kwCase c'.tl ns)
        (fun b hb => hchars b (by simp [hb])) fuel (by rw [kwCase_length]; simp at hlen; omega)
        ⟨Tok.ofByte x0, x0, cx.n⟩ (args ++ rest) (hfol rest hr)
      obtain ⟨c1, e1⟩ := hcol
      rw [List.append_assoc]
      have e1' : collectWhile (fun x => x == TokTy.char) fuel
          (load ⟨Tok.ofByte x0, x0, cx.n⟩ (kwCase c'.tl ns ++ (args ++ rest))) = _ := e1
      rw [bind_ok e1', hlb]
      obtain ⟨c2, e2⟩ := hrt c1 rest hr
      rw [bind_ok e2]
      exact ⟨c2, rfl⟩


/-- a search key with its budget: loop fuel, and nesting within the cap of `parseSearchKey`
(`keyDepth k ≤ maxSearchKeyDepth`, /repo c30e930: deeper keys are refused) -/
def KeyFit (fuel : Nat) (k : SearchKey) : Prop := KeyOK fuel k ∧ keyDepth k < searchBudget

theorem headTy_printKey_list (c : Choices) (ks : SearchKeys) (rest : Bytes) :
    headTy (printKey c (.list ks) ++ rest) = .lparen := by
  simp only [printKey]; rfl

/-- the first key of SEARCH (no CHARSET) -/
theorem rt_searchFirst_key (fuel : Nat) (hf : 12 < fuel) (c : Choices) (k : SearchKey) (hk : KeyFit fuel k) :
    RT (searchFirst fuel) (printKey c k) (([] : BStr), [k]) keyFollow := by
  have hsub : ∀ sub, IsSubKey sub k → ∀ c', RT (parseSearchKey (searchBudget - 1) fuel) (printKey c' sub) sub keyFollow := by
    intro sub hs c'
    cases k with
    | not x =>
      have e : sub = x := hs
      rw [e]
      exact keyRT x c' (searchBudget - 1) fuel hf hk.1 (by have := hk.2; simp [keyDepth] at this; omega)
    | or a b =>
      have hs' : sub = a ∨ sub = b := hs
      have := hk.2
      simp only [keyDepth] at this
      rcases hs' with e | e
      · rw [e]; exact keyRT a c' (searchBudget - 1) fuel hf hk.1.1 (by omega)
      · rw [e]; exact keyRT b c' (searchBudget - 1) fuel hf hk.1.2 (by omega)
    | _ => exact hs.elim
  by_cases hkw : IsKwKey k
  · exact searchFirst_kw fuel hf c k (key_kwLed _ fuel hf c k hk.1 hkw hsub)
  · -- a list or a sequence set: the generic path
    have hgen := keyRT k c searchBudget fuel hf hk.1 hk.2
    have hhead : ∀ r, headTy (printKey c k ++ r) ≠ .char := by
      intro r
      cases k with
      | list ks => rw [headTy_printKey_list]; decide
      | seqSet s =>
        simp only [printKey]
        rcases headTy_printSeqSet c s hk.1.1 r with e | e <;> rw [e] <;> decide
      | _ => exact absurd trivial hkw
    unfold searchFirst
    have := RT.bind (k := fun b => if b = true then
        prevVal >>= fun c => if (byteToLower c == 99) = true then
          curVal >>= fun c2 => if (byteToLower c2 == 99) = true then
            consume .char >>= fun _ => handleSearchKey (parseSearchKey (searchBudget - 1) fuel) (kw "cc") fuel >>= fun k =>
              pure (([] : BStr), [k])
          else consumeBytesFold (kw "HARSET") >>= fun _ => consume .sp >>= fun _ => parseAString fuel >>= fun e =>
            pure (e, [])
        else collectWhile (· == .char) fuel >>= fun r =>
          handleSearchKey (parseSearchKey (searchBudget - 1) fuel) (lowerBytes (c :: r)) fuel >>= fun k => pure (([] : BStr), [k])
      else parseSearchKey searchBudget fuel >>= fun k => pure (([] : BStr), [k]))
      (rt_matchesTy_no .char) (by simpa using RT.map (fun k => (([] : BStr), [k])) hgen) (fun r _ => hhead r)
    simpa using this


theorem rt_searchFirst_charset (fuel : Nat) (hf : 12 < fuel) (c : Choices) (e : Nat) (cs : BStr)
    (hcs : KStrOK fuel cs) :
    RT (searchFirst fuel) (kwCase c (kw "charset") ++ (32 :: printAString e cs)) (cs, ([] : List SearchKey))
      (nextNot isAStringChar) := by
  have hk : kw "charset" = 99 :: 104 :: kw "arset" := by decide
  rw [hk, kwCase_cons, kwCase_cons]
  have hl0 := lower_kwHead c 99
  have hl1 := lower_kwHead c.tl 104
  have hc0 : tokTy (if c 0 % 2 = 1 then byteToUpper 99 else byteToLower 99) = .char := by split <;> rfl
  have hc1 : tokTy (if c.tl 0 % 2 = 1 then byteToUpper 104 else byteToLower 104) = .char := by split <;> rfl
  generalize (if c 0 % 2 = 1 then byteToUpper 99 else byteToLower 99) = x0 at hl0 hc0 ⊢
  generalize hx1 : (if c.tl 0 % 2 = 1 then byteToUpper 104 else byteToLower 104) = x1 at hl1 hc1 ⊢
  have e99 : byteToLower 99 = 99 := rfl
  have e104 : byteToLower 104 = 104 := rfl
  rw [e99] at hl0
  rw [e104] at hl1
  have hrest : RT (consumeBytesFold (kw "HARSET") >>= fun _ => consume .sp >>= fun _ => parseAString fuel >>= fun v =>
      pure (v, ([] : List SearchKey))) (x1 :: (kwCase c.tl.tl (kw "arset") ++ (32 :: printAString e cs)))
      (cs, []) (nextNot isAStringChar) := by
    have hfold : lowerBytes (x1 :: kwCase c.tl.tl (kw "arset")) = lowerBytes (kw "HARSET") := by
      simp only [lowerBytes, List.map_cons, hl1]
      have := lowerBytes_kwCase c.tl.tl (kw "arset")
      simp only [lowerBytes] at this
      rw [this]
      decide
    have h1 := rt_consumeBytesFold (kw "HARSET") (x1 :: kwCase c.tl.tl (kw "arset")) hfold
    refine RT.bind h1 ?_ (fun _ _ => trivial)
    refine RT.bind (w1 := [32]) (rt_consume rfl anyRest) ?_ (fun _ _ => trivial)
    exact RT.map _ (rt_parseAString e cs hcs.1 fuel hcs.2)
  intro cx rest hr
  obtain ⟨c2, e2⟩ := hrest ⟨Tok.ofByte x0, x0, cx.n⟩ rest hr
  refine ⟨c2, ?_⟩
  unfold searchFirst
  simp only [List.cons_append, matchesTy]
  rw [matchesWith_load_yes (f := fun t => t == TokTy.char) (by simp [hc0])]
  have hne : (104 : UInt8) ≠ 99 := by decide
  simp only [if_true, bind_prevVal, load_prev, Tok.ofByte, hl0, beq_self_eq_true, bind_curVal,
    load_cur_val, headVal, hl1, beq_iff_eq, hne, if_false]
  simpa [Tok.ofByte] using e2


/-- `RT.bind` for a first parser that reads exactly one byte -/
theorem RT.cons {p : P α} {k : α → P β} {b : UInt8} {w2 : Bytes} {v1 : α} {v2 : β} {ok2 : Bytes → Prop}
    (h1 : RT p [b] v1 anyRest) (h2 : RT (k v1) w2 v2 ok2) : RT (p >>= k) (b :: w2) v2 ok2 :=
  RT.bind h1 h2 (fun _ _ => trivial)

def SearchOK (fuel : Nat) (cs : BStr) (keys : List SearchKey) : Prop :=
  keys ≠ [] ∧ (∀ k ∈ keys, KeyFit fuel k) ∧ keys.length < fuel ∧ (cs ≠ [] → KStrOK fuel cs)

theorem rt_parseSearch (c : Choices) (cs : BStr) (keys : List SearchKey) (fuel : Nat) (hf : 12 < fuel)
    (h : SearchOK fuel cs keys) :
    RT (parseSearch fuel) (printSearchArgs c cs keys) (.search cs keys) (nextIs .cr) := by
  obtain ⟨hne, hkeys, hlen, hcs⟩ := h
  have hloop : ∀ (cc : Choices) (l : List SearchKey), (∀ k ∈ l, KeyFit fuel k) → l.length < fuel →
      RT (sepLoop .sp (parseSearchKey searchBudget fuel) fuel) (printSepTail 32 printKey cc l) l (nextIs .cr) :=
    fun cc l hl hll => rt_sepLoop .sp 32 rfl (parseSearchKey searchBudget fuel) printKey keyFollow (nextIs .cr) l
      (fun c' x hx => keyRT x c' searchBudget fuel hf (hl x hx).1 (hl x hx).2)
      (fun r hr => by rw [hr]; decide) (fun r hr => fetchFollow_cr hr) (fun r => fetchFollow_sp r) fuel hll cc
  unfold parseSearch printSearchArgs
  split
  · rename_i hemp
    have hcs0 : cs = [] := by cases cs <;> simp_all
    subst hcs0
    cases keys with
    | nil => exact absurd rfl hne
    | cons k0 ks =>
      simp only [printSepList]
      refine RT.bind (w1 := [32]) (rt_consume rfl anyRest) ?_ (fun _ _ => trivial)
      refine RT.bind (rt_searchFirst_key fuel hf c.r.l k0 (hkeys k0 (by simp))) ?_ ?_
      · refine RT.bind_nil (hloop c.r.r ks (fun k hk => hkeys k (by simp [hk])) (by simp at hlen; omega)) ?_
          (fun _ h => h)
        simp only [List.cons_append, List.nil_append, List.isEmpty_cons, Bool.false_eq_true, if_false]
        exact RT.ret _ _
      · intro r hr
        cases ks with
        | nil => simpa [printSepTail] using fetchFollow_cr hr
        | cons y ys => exact fetchFollow_sp _
  · rename_i hemp
    have hcsne : cs ≠ [] := by intro e; simp [e] at hemp
    refine RT.cons (rt_consume (b := 32) (t := .sp) rfl anyRest) ?_
    have h1 := rt_searchFirst_charset fuel hf c.l.r.l c.l.r.r.here cs (hcs hcsne)
    refine RT.congr_w (w := (kwCase c.l.r.l (kw "charset") ++ (32 :: printAString c.l.r.r.here cs)) ++
      printSepTail 32 printKey c.r keys) ?_ (by simp)
    refine RT.bind h1 ?_ ?_
    · refine RT.bind_nil (hloop c.r keys hkeys hlen) ?_ (fun _ h => h)
      cases keys with
      | nil => exact absurd rfl hne
      | cons k0 ks =>
        simp only [List.nil_append, List.isEmpty_cons, Bool.false_eq_true, if_false]
        exact RT.ret _ _
    · intro r _
      cases keys with
      | nil => exact absurd rfl hne
      | cons k0 ks => exact nextNot_astring_sp _


end Gluon.Parse
