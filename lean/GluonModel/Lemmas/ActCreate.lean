/-
C03 helper lemmas, part 4: `tx.CreateMessageAndAddToMailbox` (APPEND's statement sequence, not chunked).
-/
import GluonModel.Lemmas.ActSteps

namespace Gluon.C03
open Gluon.DB

theorem insertMessages_one (db db1 : DB) (r : CreateReq) (h : insertMessages db (reqArgs r) = .ok db1) :
    db1 = { db with messages := db.messages ++ [Spec.reqRow r] } ∧ ∀ x ∈ db.messages, x.id ≠ r.id := by
  unfold insertMessages at h
  have hs : sevens (reqArgs r) = [Spec.reqRow r] := by simp [reqArgs, sevens, Spec.reqRow]
  rw [hs] at h
  have hlen : (([Spec.reqRow r].length * 7 != (reqArgs r).length) = false) := by simp [reqArgs]
  rw [hlen] at h
  simp only [Bool.false_eq_true, if_false, appendMessages] at h
  split at h
  · simp [Except.map] at h
  · next hany2 =>
    simp only [Except.map, Except.ok.injEq] at h
    refine ⟨h.symm, ?_⟩
    intro x hx hid
    apply hany2
    rw [List.any_eq_true]
    exact ⟨x, hx, by simp [Spec.reqRow, hid]⟩

theorem appendRows_one_fresh (t t' : MTable) (m : MessageId) (r : RemoteId) (h : appendRows t [(m, r)] = .ok t') :
    ∀ x ∈ t.rows, x.msgId ≠ m := by
  unfold appendRows at h
  split at h
  · simp at h
  · next hany =>
    intro x hx he
    apply hany
    rw [List.any_eq_true]
    exact ⟨x, hx, by simp [he]⟩

/-- `tx.CreateMessageAndAddToMailbox(mb, req)`: one new message row, its flag rows, one new table row with a fresh UID -/
theorem create_effect (mb : MailboxId) (r : CreateReq) (db db' : DB) (res : Nat × List FlagVal)
    (h : createMessageAndAddToMailbox mb r db = .ok (res, db')) :
    ∃ t, db.table? mb = some t ∧ db'.mailboxes = db.mailboxes ∧ db'.mboxAttrs = db.mboxAttrs ∧
      db'.messages = db.messages ++ [Spec.reqRow r] ∧
      db'.mtables = (db.setTable mb (addRows [(r.id, r.remoteId)] t)).mtables ∧
      (∀ p, p ∈ db'.msgFlags ↔ p ∈ db.msgFlags ∨ (p.1 = r.id ∧ p.2 ∈ r.flags)) ∧
      (∀ x ∈ db.messages, x.id ≠ r.id) ∧ ∀ x ∈ t.rows, x.msgId ≠ r.id := by
  unfold createMessageAndAddToMailbox at h
  simp only [bind, Except.bind] at h
  cases h1 : insertMessages db (reqArgs r) with
  | error e => rw [h1] at h; simp at h
  | ok db1 =>
    rw [h1] at h
    simp only [] at h
    obtain ⟨hd1, hfresh⟩ := insertMessages_one db db1 r h1
    -- the flag rows
    have hflags : ∀ db2, (if r.flags.isEmpty = true then pure db1 else
        insertMsgFlags false db1 (r.flags.flatMap fun f => [Bind.msg r.id, Bind.str f])) = Except.ok db2 →
        db2.mailboxes = db1.mailboxes ∧ db2.mboxAttrs = db1.mboxAttrs ∧ db2.messages = db1.messages ∧ db2.mtables = db1.mtables ∧
        db2.m2m = db1.m2m ∧ ∀ p, p ∈ db2.msgFlags ↔ p ∈ db1.msgFlags ∨ (p.1 = r.id ∧ p.2 ∈ r.flags) := by
      intro db2 h2
      split at h2
      · next he =>
        simp only [pure, Except.pure, Except.ok.injEq] at h2
        subst h2
        have : r.flags = [] := by simpa using he
        simp [this]
      · rw [insertMsgFlags_typed false db1 r.flags (fun _ => r.id) (fun f => f)] at h2
        simp only [bind, Except.bind] at h2
        cases hk : appendKeys false db1.msgFlags (r.flags.map fun x => (r.id, x)) with
        | error e => rw [hk] at h2; simp at h2
        | ok rel =>
          rw [hk] at h2
          simp only [] at h2
          split at h2
          · simp at h2
          · simp only [Except.ok.injEq] at h2
            subst h2
            refine ⟨rfl, rfl, rfl, rfl, rfl, ?_⟩
            intro p
            rw [mem_appendKeys false _ _ _ hk p]
            simp only [List.mem_map]
            constructor
            · rintro (h3 | ⟨f, hf, rfl⟩)
              · exact Or.inl h3
              · exact Or.inr ⟨rfl, hf⟩
            · rintro (h3 | ⟨h3, h4⟩)
              · exact Or.inl h3
              · exact Or.inr ⟨p.2, h4, by rw [← h3]⟩
    generalize hstep2 : (if r.flags.isEmpty = true then pure db1 else
        insertMsgFlags false db1 (r.flags.flatMap fun f => [Bind.msg r.id, Bind.str f])) = step2 at h
    cases step2 with
    | error e => simp at h
    | ok db2 =>
      obtain ⟨e1, e2, e3, e4, _, e6⟩ := hflags db2 hstep2
      simp only [] at h
      -- message_to_mailbox
      cases h3 : insertM2M db2 [Bind.msg r.id, Bind.mbox mb] with
      | error e => rw [h3] at h; simp at h
      | ok db3 =>
        rw [h3] at h
        simp only [] at h
        have hd3 : db3.mailboxes = db2.mailboxes ∧ db3.mboxAttrs = db2.mboxAttrs ∧ db3.messages = db2.messages ∧
            db3.mtables = db2.mtables ∧ db3.msgFlags = db2.msgFlags := by
          unfold insertM2M at h3
          simp only [pairs, decodeMsgMbox, Option.map] at h3
          simp only [bind, Except.bind] at h3
          cases hk : appendKeys false db2.m2m [(r.id, mb)] with
          | error e => rw [hk] at h3; simp at h3
          | ok rel =>
            rw [hk] at h3
            simp only [] at h3
            split at h3
            · simp at h3
            · simp only [Except.ok.injEq] at h3; subst h3; exact ⟨rfl, rfl, rfl, rfl, rfl⟩
        obtain ⟨f1, f2, f3, f4, f5⟩ := hd3
        -- mailbox_message_<mb>
        cases h4 : insertMailboxRows db3 mb [Bind.msg r.id, Bind.str r.remoteId] with
        | error e => rw [h4] at h; simp at h
        | ok db4 =>
          rw [h4] at h
          simp only [] at h
          unfold insertMailboxRows at h4
          simp only [bind, Except.bind] at h4
          cases hg : db3.getTable mb with
          | error e => rw [hg] at h4; simp at h4
          | ok t =>
            rw [hg] at h4
            simp only [pairs, decodeMsgStr, Option.map] at h4
            cases hr : appendRows t [(r.id, r.remoteId)] with
            | error e => rw [hr] at h4; simp at h4
            | ok t' =>
              rw [hr] at h4
              simp only [] at h4
              split at h4
              · simp at h4
              · simp only [Except.ok.injEq] at h4
                subst h4
                have hrowsfresh := appendRows_one_fresh _ _ _ _ hr
                have ht' := appendRows_ok _ _ _ hr
                subst ht'
                cases hg2 : (db3.setTable mb (addRows [(r.id, r.remoteId)] t)).getTable mb with
                | error e => rw [hg2] at h; simp at h
                | ok t2 =>
                  rw [hg2] at h
                  simp only [pure, Except.pure, Except.ok.injEq, Prod.mk.injEq] at h
                  obtain ⟨_, hdb⟩ := h
                  subst hdb
                  have htab : db.table? mb = some t := by
                    have := getTable_ok hg
                    unfold DB.table? at this ⊢
                    rw [f4, e4, hd1] at this
                    exact this
                  refine ⟨t, htab, ?_, ?_, ?_, ?_, ?_, hfresh, hrowsfresh⟩
                  · show db3.mailboxes = db.mailboxes
                    rw [f1, e1, hd1]
                  · show db3.mboxAttrs = db.mboxAttrs
                    rw [f2, e2, hd1]
                  · show db3.messages = _
                    rw [f3, e3, hd1]
                  · show (db3.setTable mb _).mtables = _
                    unfold DB.setTable
                    simp only
                    rw [f4, e4, hd1]
                  · intro p
                    show p ∈ db3.msgFlags ↔ _
                    rw [f5, e6 p, hd1]

end Gluon.C03
