/-
Lemmas about `serve` of the session-loop model (`Model/SessionLoop.lean`): list-level facts that do not
depend on the parser.
-/
import GluonModel.Model.SessionLoop

namespace Gluon.SessionLoop
open Gluon.Parse

def isIdleCmd : Cmd → Bool
  | .idle => true
  | _ => false

/-- `serve` writes at most one completion result per reader result -/
theorem serveStep_len (cfg : Cfg) (B : Backend σ) (st : SState σ) (r : ReadRes) :
    (serveStep cfg B st r).1.length ≤ 1 := by
  unfold serveStep
  cases r with
  | tlsOk t => simp
  | tlsNo t => simp
  | err t => cases st.mode <;> simp
  | cmd c =>
    cases st.mode with
    | idle it => simp
    | normal =>
      simp only
      repeat' split
      all_goals simp

/-- … and none only for an IDLE that was accepted: authenticated, not already idling; `serve` then waits
(mode `idle`) for the next reader result with the IDLE's tag -/
theorem serveStep_nil (cfg : Cfg) (B : Backend σ) (st : SState σ) (r : ReadRes) (nx : Next σ)
    (h : serveStep cfg B st r = ([], nx)) :
    ∃ c, r = .cmd c ∧ isIdleCmd c.payload = true ∧ st.mode = .normal ∧
      ∃ st', nx = .cont st' ∧ st'.mode = .idle c.tag := by
  unfold serveStep at h
  cases r with
  | tlsOk t => simp at h
  | tlsNo t => simp at h
  | err t => cases hm : st.mode <;> rw [hm] at h <;> simp at h
  | cmd c =>
    cases hm : st.mode with
    | idle it => rw [hm] at h; simp at h
    | normal =>
      rw [hm] at h
      simp only at h
      split at h
      all_goals
        split at h
        · simp at h
        · split at h
          · simp at h
          · rename_i hp
            split at h
            · cases h
              exact ⟨c, rfl, by rw [hp]; rfl, rfl, _, rfl, rfl⟩
            · simp at h
          · simp at h
          · simp at h

/-- in IDLE mode the next reader result, whatever it is, ends the IDLE with exactly one completion tagged
with the IDLE's tag (or, for STARTTLS answered by the reader, the reader's own reply) -/
theorem serveStep_idle (cfg : Cfg) (B : Backend σ) (st : SState σ) (it : Bytes) (hm : st.mode = .idle it)
    (r : ReadRes) :
    (∃ cls st', serveStep cfg B st r = ([mkC cfg it cls], .cont st') ∧ st'.mode = .normal ∧ st'.errs = st.errs) ∨
    (∃ t, r = .tlsOk t ∨ r = .tlsNo t) := by
  unfold serveStep
  cases r with
  | tlsOk t => exact Or.inr ⟨t, Or.inl rfl⟩
  | tlsNo t => exact Or.inr ⟨t, Or.inr rfl⟩
  | err t => rw [hm]; exact Or.inl ⟨_, _, rfl, rfl, rfl⟩
  | cmd c => rw [hm]; exact Or.inl ⟨_, _, rfl, rfl, rfl⟩

/-- a parse error outside IDLE: BAD with the tag the reader reports, the counter goes up by one, and
the session is closed exactly when the counter reaches `maxErr` -/
theorem serveStep_err (cfg : Cfg) (B : Backend σ) (st : SState σ) (hm : st.mode = .normal) (t : Bytes) :
    serveStep cfg B st (.err t) =
      ([mkC cfg t .bad], if st.errs + 1 ≥ cfg.maxErr then .stop .tooManyErrors else .cont { st with errs := st.errs + 1 }) := by
  unfold serveStep
  rw [hm]

/-- unfolding `serveAll` -/
theorem serveAll_cons (cfg : Cfg) (B : Backend σ) (st : SState σ) (r : ReadRes) (rs : List ReadRes) (e : ReaderExit) :
    serveAll cfg B st (r :: rs) e =
      match serveStep cfg B st r with
      | (out, .stop w) => ([out], .closed w)
      | (out, .cont st') => (out :: (serveAll cfg B st' rs e).1, (serveAll cfg B st' rs e).2) := by
  rw [serveAll]
  cases serveStep cfg B st r with
  | mk out nx => cases nx <;> rfl

theorem serveAll_nil (cfg : Cfg) (B : Backend σ) (st : SState σ) (e : ReaderExit) :
    serveAll cfg B st [] e = ([], .reader e) := by
  rw [serveAll]

/-- every reader result `serve` gets to is answered, in order: as many reply groups as results when the
session ends because the reader returned, no more than results otherwise -/
theorem serveAll_length (cfg : Cfg) (B : Backend σ) : ∀ (rs : List ReadRes) (st : SState σ) (e : ReaderExit),
    (serveAll cfg B st rs e).1.length ≤ rs.length ∧
    (∀ e', (serveAll cfg B st rs e).2 = .reader e' → (serveAll cfg B st rs e).1.length = rs.length ∧ e' = e) ∧
    (∀ w, (serveAll cfg B st rs e).2 = .closed w → 0 < (serveAll cfg B st rs e).1.length) := by
  intro rs
  induction rs with
  | nil =>
    intro st e
    rw [serveAll_nil]
    exact ⟨Nat.le_refl _, fun e' h => ⟨rfl, (by cases h; rfl)⟩, fun w h => (by cases h)⟩
  | cons r rs ih =>
    intro st e
    rw [serveAll_cons]
    cases hs : serveStep cfg B st r with
    | mk out nx =>
      cases nx with
      | stop w =>
        simp only
        exact ⟨by simp, fun e' h => (by cases h), fun _ _ => (by simp)⟩
      | cont st' =>
        simp only
        obtain ⟨h1, h2, _⟩ := ih st' e
        refine ⟨(by simp only [List.length_cons]; omega), fun e' h => ?_, fun _ _ => (by simp)⟩
        obtain ⟨h3, h4⟩ := h2 e' h
        exact ⟨by simp only [List.length_cons]; omega, h4⟩

/-- every reply group has at most one completion -/
theorem serveAll_each_le_one (cfg : Cfg) (B : Backend σ) : ∀ (rs : List ReadRes) (st : SState σ) (e : ReaderExit),
    ∀ out ∈ (serveAll cfg B st rs e).1, out.length ≤ 1 := by
  intro rs
  induction rs with
  | nil => intro st e out h; rw [serveAll_nil] at h; cases h
  | cons r rs ih =>
    intro st e out h
    rw [serveAll_cons] at h
    have hl := serveStep_len cfg B st r
    cases hs : serveStep cfg B st r with
    | mk o nx =>
      rw [hs] at h hl
      cases nx with
      | stop w =>
        simp only [List.mem_singleton] at h
        rw [h]; exact hl
      | cont st' =>
        simp only [List.mem_cons] at h
        rcases h with h | h
        · rw [h]; exact hl
        · exact ih st' e out h

/-- number of completions = number of reply groups minus the empty ones -/
theorem flatten_length_of_le_one {α : Type} : ∀ (l : List (List α)), (∀ x ∈ l, x.length ≤ 1) →
    l.flatten.length + (l.filter (·.isEmpty)).length = l.length := by
  intro l
  induction l with
  | nil => intro _; rfl
  | cons x l ih =>
    intro h
    have hx := h x (List.mem_cons_self ..)
    have := ih (fun y hy => h y (List.mem_cons_of_mem _ hy))
    cases x with
    | nil =>
      simp only [List.flatten_cons, List.nil_append, List.filter_cons, List.isEmpty_nil, if_true, List.length_cons]
      omega
    | cons a x =>
      have hx' : x = [] := by
        cases x with
        | nil => rfl
        | cons _ _ => simp at hx
      subst hx'
      simp only [List.flatten_cons, List.length_append, List.filter_cons, List.isEmpty_cons, Bool.false_eq_true,
        if_false, List.length_cons, List.length_nil]
      omega

/-! ### errors in a row -/

/-- **fewer errors than it takes**: a run of parse errors that keeps the counter below `maxErr` is answered
BAD, one for one, and the session goes on with the rest -/
theorem serveAll_errs_below (cfg : Cfg) (B : Backend σ) (more : List ReadRes) (e : ReaderExit) :
    ∀ (tags : List Bytes) (st : SState σ), st.mode = .normal → st.errs + tags.length < cfg.maxErr →
      serveAll cfg B st (tags.map .err ++ more) e =
        (tags.map (fun t => [mkC cfg t .bad]) ++ (serveAll cfg B { st with errs := st.errs + tags.length } more e).1,
         (serveAll cfg B { st with errs := st.errs + tags.length } more e).2) := by
  intro tags
  induction tags with
  | nil => intro st _ _; simp
  | cons t tags ih =>
    intro st hm hlt
    simp only [List.map_cons, List.cons_append]
    rw [serveAll_cons, serveStep_err cfg B st hm]
    have hlt' : ¬ st.errs + 1 ≥ cfg.maxErr := by simp only [List.length_cons] at hlt; omega
    simp only [hlt', if_false]
    have := ih { st with errs := st.errs + 1 } hm (by simp only [List.length_cons] at hlt; simp only; omega)
    rw [this]
    simp only [List.length_cons]
    have e1 : st.errs + 1 + tags.length = st.errs + (tags.length + 1) := by omega
    simp only [e1, List.cons_append]

/-- **exactly as many as it takes**: the run of parse errors that brings the counter to `maxErr` is answered
BAD, one for one, and then the session is closed — whatever else the client has sent is not looked at -/
theorem serveAll_errs_close (cfg : Cfg) (B : Backend σ) (more : List ReadRes) (e : ReaderExit) :
    ∀ (tags : List Bytes) (st : SState σ), st.mode = .normal → tags ≠ [] → st.errs + tags.length = cfg.maxErr →
      serveAll cfg B st (tags.map .err ++ more) e =
        (tags.map (fun t => [mkC cfg t .bad]), .closed .tooManyErrors) := by
  intro tags
  induction tags with
  | nil => intro st _ h; exact absurd rfl h
  | cons t tags ih =>
    intro st hm _ heq
    simp only [List.map_cons, List.cons_append]
    rw [serveAll_cons, serveStep_err cfg B st hm]
    cases tags with
    | nil =>
      have : st.errs + 1 ≥ cfg.maxErr := by simp at heq; omega
      simp [this]
    | cons t2 tags =>
      have hlt' : ¬ st.errs + 1 ≥ cfg.maxErr := by simp only [List.length_cons] at heq; omega
      simp only [hlt', if_false]
      have := ih { st with errs := st.errs + 1 } hm (by simp) (by simp only [List.length_cons] at heq ⊢; omega)
      rw [this]

/-- a successfully parsed command, outside IDLE, resets the error counter (when `serve` goes on at all) -/
theorem serveStep_cmd_resets (cfg : Cfg) (B : Backend σ) (hr : cfg.resetOnSuccess = true) (st : SState σ)
    (hm : st.mode = .normal) (c : Command) (out : List Completion) (st' : SState σ)
    (h : serveStep cfg B st (.cmd c) = (out, .cont st')) : st'.errs = 0 := by
  unfold serveStep at h
  rw [hm] at h
  simp only [hr, if_true] at h
  split at h
  · cases h
  · split at h
    · cases h
    · split at h <;> (cases h; rfl)
    · cases h; rfl
    · cases h; rfl

/-- … and what it does, and everything after it, does not depend on how many errors came before -/
theorem serveStep_cmd_indep (cfg : Cfg) (B : Backend σ) (hr : cfg.resetOnSuccess = true) (st : SState σ)
    (hm : st.mode = .normal) (k : Nat) (c : Command) :
    serveStep cfg B { st with errs := k } (.cmd c) = serveStep cfg B st (.cmd c) := by
  unfold serveStep
  simp only [hm, hr, if_true]

end Gluon.SessionLoop
