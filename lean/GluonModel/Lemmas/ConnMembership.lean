/-
Pointwise description of the membership writers (`addMessages`, `addToAll`, `removeFromAll`) for the
C06 effect lemmas.
-/
import GluonModel.Lemmas.ConnEffect
import GluonModel.Lemmas.ConnIdem2

namespace Gluon.ConnUpd

/-- everything but the mailboxes' contents is untouched, and the same mailboxes exist -/
structure MboxFrame (db db' : DB) : Prop where
  msgs : db'.msgs = db.msgs
  delSubs : db'.delSubs = db.delSubs
  nextMbox : db'.nextMbox = db.nextMbox
  nextMsg : db'.nextMsg = db.nextMsg
  gen : db'.gen = db.gen
  keys : db'.mboxes.map (fun m => (m.rid, m.iid)) = db.mboxes.map (fun m => (m.rid, m.iid))

theorem MboxFrame.iids {db db' : DB} (h : MboxFrame db db') : db'.mboxes.map (·.iid) = db.mboxes.map (·.iid) := by
  have := congrArg (List.map Prod.snd) h.keys
  simp only [List.map_map] at this
  exact this

theorem MboxFrame.refl (db : DB) : MboxFrame db db := ⟨rfl, rfl, rfl, rfl, rfl, rfl⟩

theorem MboxFrame.trans {a b c : DB} (h1 : MboxFrame a b) (h2 : MboxFrame b c) : MboxFrame a c :=
  ⟨h2.msgs.trans h1.msgs, h2.delSubs.trans h1.delSubs, h2.nextMbox.trans h1.nextMbox, h2.nextMsg.trans h1.nextMsg,
   h2.gen.trans h1.gen, h2.keys.trans h1.keys⟩

theorem updMbox_keys (db : DB) (i : Nat) (f : Mbox → Mbox) (hf : ∀ m, (f m).iid = m.iid) (hr : ∀ m, (f m).rid = m.rid) :
    (db.updMbox i f).mboxes.map (fun m => (m.rid, m.iid)) = db.mboxes.map (fun m => (m.rid, m.iid)) := by
  simp only [DB.updMbox, List.map_map]
  apply List.map_congr_left
  intro m _
  simp only [Function.comp]
  split <;> simp [hf, hr]

theorem MboxFrame.updMbox (db : DB) (i : Nat) (f : Mbox → Mbox) (hf : ∀ m, (f m).iid = m.iid)
    (hr : ∀ m, (f m).rid = m.rid) : MboxFrame db (db.updMbox i f) :=
  ⟨rfl, rfl, rfl, rfl, rfl, updMbox_keys db i f hf hr⟩

/-- the mailbox after one message was added -/
def growBy (p : Nat × RID) (m : Mbox) : Mbox :=
  { m with seq := m.seq + 1, rows := m.rows ++ [{ uid := m.seq + 1, msg := p.1, rid := p.2, deleted := false }] }

/-- the mailbox after a message was removed -/
def strip (msg : Nat) (m : Mbox) : Mbox := { m with rows := m.rows.filter (fun r => r.msg != msg) }

theorem strip_strip (msg : Nat) (m : Mbox) : strip msg (strip msg m) = strip msg m := by
  simp [strip, List.filter_filter]

/-- no row of the mailbox is about this message -/
def freeOf (p : Nat × RID) (m : Mbox) : Bool := m.rows.all (fun r => r.msg != p.1 && r.rid != p.2)

theorem addMessages_one (cfg : Cfg) (db : DB) (mb : Nat) (p : Nat × RID) (M : Mbox)
    (hM : db.mboxByIid mb = some M) (hroom : roomFor cfg M 1 = true) (hfree : freeOf p M = true) :
    ∃ db' ev, addMessages cfg db mb [p] = .ok (db', ev) ∧ MboxFrame db db' ∧
      (∀ j, j ≠ mb → db'.mboxByIid j = db.mboxByIid j) ∧ db'.mboxByIid mb = some (growBy p M) := by
  simp only [roomFor, Bool.and_eq_true, decide_eq_true_eq] at hroom
  have h1 : ¬ (M.rows.length + [p].length > cfg.maxMessages) := by simp; omega
  have h2 : ¬ (M.seq + 1 + [p].length > cfg.maxUID) := by simp; omega
  have h3 : (hasDupMsg [p] || [p].any (fun q => M.rows.any (fun r => r.msg == q.1 || r.rid == q.2))) = false := by
    simp only [hasDupMsg, List.any_nil, Bool.or_false, List.any_cons, Bool.false_or]
    rw [List.any_eq_false]
    intro r hr
    simp only [freeOf, List.all_eq_true, Bool.and_eq_true, bne_iff_ne, ne_eq] at hfree
    have := hfree r hr
    simp [this.1, this.2]
  have hf : ∀ m : Mbox, ({ m with seq := m.seq + [p].length, rows := m.rows ++ mkRows (M.seq + 1) [p] } : Mbox).iid = m.iid :=
    fun _ => rfl
  have hadd : addMessages cfg db mb [p] =
      .ok (db.updMbox mb (fun m => { m with seq := m.seq + [p].length, rows := m.rows ++ mkRows (M.seq + 1) [p] }),
           Ev.exists mb ((mkRows (M.seq + 1) [p]).map (fun r => (r.msg, r.uid, flagsOf db r.msg)))) := by
    unfold addMessages
    simp only [hM, h1, h2, h3, if_false, Bool.false_eq_true]
  refine ⟨_, _, hadd, MboxFrame.updMbox db mb _ hf (fun _ => rfl), ?_, ?_⟩
  · intro j hj
    exact mboxByIid_updMbox_ne db mb _ hf j hj
  · rw [mboxByIid_updMbox_eq db mb _ hf, hM]
    simp [growBy, mkRows]

theorem removeFromAll_cons_fst (db : DB) (msg mb : Nat) (rest : List Nat) :
    (removeFromAll db msg (mb :: rest)).1 = (removeFromAll (db.updMbox mb (strip msg)) msg rest).1 := rfl

theorem removeFromAll_spec (msg : Nat) : ∀ (L : List Nat) (db : DB),
    MboxFrame db (removeFromAll db msg L).1 ∧
    ∀ j, (removeFromAll db msg L).1.mboxByIid j =
      (db.mboxByIid j).map (fun m => if L.contains m.iid then strip msg m else m) := by
  intro L
  induction L with
  | nil => intro db; exact ⟨MboxFrame.refl db, by intro j; simp [removeFromAll]⟩
  | cons mb rest ih =>
    intro db
    have hf : ∀ m : Mbox, (strip msg m).iid = m.iid := fun _ => rfl
    have ih1 := ih (db.updMbox mb (strip msg))
    rw [removeFromAll_cons_fst]
    refine ⟨(MboxFrame.updMbox db mb _ hf (fun _ => rfl)).trans ih1.1, ?_⟩
    intro j
    rw [ih1.2 j, mboxByIid_updMbox db mb _ hf j]
    cases hm : db.mboxByIid j with
    | none => rfl
    | some m =>
      simp only [Option.map_some, Option.some.injEq]
      by_cases h : m.iid = mb
      · simp [h, strip_strip]
      · have hne : ¬ mb = m.iid := fun e => h e.symm
        simp [h, List.contains_cons, hne]

theorem addToAll_spec (cfg : Cfg) (p : Nat × RID) : ∀ (L : List Nat) (db : DB), L.Nodup →
    (∀ i ∈ L, ∃ M, db.mboxByIid i = some M ∧ roomFor cfg M 1 = true ∧ freeOf p M = true) →
    ∃ db' evs, addToAll cfg db p L = .ok (db', evs) ∧ MboxFrame db db' ∧
      ∀ j, db'.mboxByIid j = (db.mboxByIid j).map (fun m => if L.contains m.iid then growBy p m else m) := by
  intro L
  induction L with
  | nil => intro db _ _; exact ⟨db, [], rfl, MboxFrame.refl db, by intro j; simp⟩
  | cons i rest ih =>
    intro db hnd hpre
    rw [List.nodup_cons] at hnd
    obtain ⟨M, hM, hroom, hfree⟩ := hpre i (List.mem_cons_self)
    obtain ⟨db1, ev1, hadd, hfr1, hother, hself⟩ := addMessages_one cfg db i p M hM hroom hfree
    have hpre1 : ∀ k ∈ rest, ∃ M', db1.mboxByIid k = some M' ∧ roomFor cfg M' 1 = true ∧ freeOf p M' = true := by
      intro k hk
      have hne : k ≠ i := by intro e; rw [e] at hk; exact hnd.1 hk
      rw [hother k hne]
      exact hpre k (List.mem_cons_of_mem _ hk)
    obtain ⟨db2, evs2, hrest, hfr2, hpt⟩ := ih db1 hnd.2 hpre1
    refine ⟨db2, ev1 :: evs2, ?_, hfr1.trans hfr2, ?_⟩
    · simp only [addToAll, hadd, hrest]
    · intro j
      rw [hpt j]
      by_cases hj : j = i
      · rw [hj, hself, hM]
        have hMi : M.iid = i := (mboxByIid_some hM).2
        have : ¬ i ∈ rest := hnd.1
        simp [growBy, hMi, this]
      · rw [hother j hj]
        cases hm : db.mboxByIid j with
        | none => rfl
        | some m =>
          have hmi : m.iid = j := (mboxByIid_some hm).2
          have hne : ¬ m.iid = i := by rw [hmi]; exact hj
          simp [hne]

/-- a row is about message `g` by internal id iff by remote id -/
theorem row_msg_iff_rid {db : DB} (hi : InvP db) {g : Msg} (hg : g ∈ db.msgs) {m : Mbox} (hm : m ∈ db.mboxes)
    {r : Row} (hr : r ∈ m.rows) : r.msg = g.iid ↔ r.rid = g.rid := by
  obtain ⟨g', hg', hrid⟩ := hi.rowRef m hm r hr
  obtain ⟨hmem', hiid'⟩ := msgByIid_some hg'
  constructor
  · intro he
    have : g' = g := eq_of_key_eq (fun g : Msg => g.iid) db.msgs g' g hi.msgIid hmem' hg (by simp [hiid', he])
    rw [← hrid, this]
  · intro he
    have : g' = g := eq_of_key_eq (fun g : Msg => g.rid) db.msgs g' g hi.msgRid hmem' hg (by simp [hrid, he])
    rw [← hiid', this]

theorem strip_rows_eq {db : DB} (hi : InvP db) {g : Msg} (hg : g ∈ db.msgs) {m : Mbox} (hm : m ∈ db.mboxes) :
    (strip g.iid m).rows = m.rows.filter (fun r => r.rid != g.rid) := by
  simp only [strip]
  apply List.filter_congr
  intro r hr
  have := row_msg_iff_rid hi hg hm hr
  by_cases h : r.msg = g.iid
  · have h' := this.1 h
    simp only [bne, h, h', beq_self_eq_true]
  · have h' : ¬ r.rid = g.rid := fun e => h (this.2 e)
    have e1 : (r.msg == g.iid) = false := by simpa using h
    have e2 : (r.rid == g.rid) = false := by simpa using h'
    simp only [bne, e1, e2]

theorem freeOf_of_not_has {db : DB} (hi : InvP db) {g : Msg} (hg : g ∈ db.msgs) {m : Mbox} (hm : m ∈ db.mboxes)
    (h : m.has g.iid = false) : freeOf (g.iid, g.rid) m = true := by
  simp only [freeOf, List.all_eq_true, Bool.and_eq_true, bne_iff_ne, ne_eq]
  simp only [Mbox.has, List.any_eq_false, beq_iff_eq] at h
  intro r hr
  have h1 := h r hr
  exact ⟨h1, fun e => h1 ((row_msg_iff_rid hi hg hm hr).2 e)⟩

theorem filter_rid_of_not_hasRid (m : Mbox) (rid : RID) (h : m.hasRid rid = false) :
    m.rows.filter (fun r => r.rid != rid) = m.rows := by
  rw [List.filter_eq_self]
  simp only [Mbox.hasRid, List.any_eq_false, beq_iff_eq] at h
  intro r hr
  simpa using h r hr

end Gluon.ConnUpd
