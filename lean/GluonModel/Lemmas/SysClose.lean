/- IMAP CLOSE of a session (`SysOp.close`, `handleClose`): what the closing client is sent, what is written, what is
   left of the session. -/
import GluonModel.Lemmas.SysDelete

namespace Gluon.Sys
open Gluon

/-- the end of CLOSE sends no EXPUNGE: nothing at all when it succeeds, the non-permitting trailing flush otherwise -/
theorem closeEnd_noexp (sid : StateId) (me : Sess) : ∀ x ∈ (me.closeEnd sid).2.resps, x.isExpunge = false := by
  unfold Sess.closeEnd
  cases hr : (Gluon.flush true true sid me.snap me.res).result with
  | err er =>
    simp only [hr]
    exact andThen_resps_noexp (by simp) (sess_flush_false_noexp _ _)
  | ok out => simp [hr]
  | mergePanic => simp [hr]

/-- **CLOSE is silent** — every state, every schedule -/
theorem step_close_noexp (s : Sys) (i : Nat) : ∀ x ∈ (step s (.close i)).2.resps, x.isExpunge = false := by
  cases hi : s.sess[i]? with
  | none => rw [step_close_none hi]; simp
  | some me =>
    cases he : effect s.idx me (sidOf i) .expunge with
    | none => rw [step_close_unsel hi he]; simp
    | some e =>
      rw [(step_close_some hi he).2.2.1]
      exact closeEnd_noexp _ _

/-- **CLOSE writes what EXPUNGE writes and queues what EXPUNGE queues** — every state -/
theorem step_close_idx (s : Sys) (i : Nat) :
    (step s (.close i)).1.idx = (step s (.cmd i .expunge)).1.idx ∧
    ∀ j, j ≠ i → (step s (.close i)).1.sess[j]? = (step s (.cmd i .expunge)).1.sess[j]? := by
  cases hi : s.sess[i]? with
  | none => rw [step_close_none hi, (step_none hi).2.2.2.2 .expunge]; exact ⟨rfl, fun _ _ => rfl⟩
  | some me =>
    cases he : effect s.idx me (sidOf i) .expunge with
    | none =>
      rw [step_close_unsel hi he]
      rcases step_cmd_none hi he with h1 | ⟨mb, _, h1⟩
      · rw [h1]; exact ⟨rfl, fun _ _ => rfl⟩
      · rw [h1]
        refine ⟨rfl, fun j hj => ?_⟩
        rw [setSess_other s hj]
    | some e =>
      obtain ⟨c1, _, _, c4, clen⟩ := step_close_some hi he
      obtain ⟨d1, _, _, d4, dlen⟩ := step_cmd_some hi he
      refine ⟨by rw [c1, d1], fun j hj => ?_⟩
      cases hsj : s.sess[j]? with
      | none =>
        have hl : s.sess.length ≤ j := by rwa [List.getElem?_eq_none_iff] at hsj
        rw [List.getElem?_eq_none (by rw [clen]; exact hl), List.getElem?_eq_none (by rw [dlen]; exact hl)]
      | some sj => rw [c4 j sj hj hsj, d4 j sj hj hsj]

/-- **under the invariant CLOSE succeeds**: OK without any untagged response; the session is left with no mailbox,
    no snapshot, no responders — and its update queue as it was -/
theorem step_close_ok {s : Sys} (h : SysInv s) {i : Nat} (hno : OpNoOvertake s (.close i)) {me : Sess} {mb : Nat}
    (hi : s.sess[i]? = some me) (hs : me.sel = some mb) :
    (step s (.close i)).2 = {} ∧
    (step s (.close i)).1.sess[i]? = some { sel := none, snap := [], res := [], inbox := me.inbox } := by
  cases he : effect s.idx me (sidOf i) .expunge with
  | none =>
    exfalso
    simp only [effect, hs] at he
    split at he <;> cases he
  | some e =>
    obtain ⟨_, h2, h3, _, _⟩ := step_close_some hi he
    have hselb : ∀ mb, me.sel = some mb → mb < s.idx.boxes.length := by
      intro mb hs
      have := h.sess i me hi
      unfold SessInv at this
      rw [hs] at this
      exact this.1
    have hsnap : ∀ mb, me.sel = some mb → ∀ x ∈ me.snap, x.id < s.idx.nextId := by
      intro mb hs x hx
      have := h.sess i me hi
      unfold SessInv at this
      rw [hs] at this
      exact this.2.2.snap x hx
    have g := good_effect h.wf hselb hsnap he
    have hown := (h.sess i me hi).own g.1 e.silent (fun mb hs => hno me mb e hi hs he)
    have hce := hown.closeEnd (mb := mb) (by rw [applyAll_sel]; exact hs)
    rw [hce] at h2 h3
    refine ⟨h3, ?_⟩
    rw [h2, applyAll_inbox]

end Gluon.Sys
