/-
MessageIDChanged with the table name repaired (`cfg.msgIDTableOK = true`): the described effect.
-/
import GluonModel.Lemmas.ConnCreated5

namespace Gluon.ConnUpd

/-- only the image of `g` passes the test: that is what the look-up finds -/
theorem find?_map_single {α : Type} (p : α → Bool) (f : α → α) (g : α) : ∀ l : List α, g ∈ l → p (f g) = true →
    (∀ x ∈ l, x ≠ g → p (f x) = false) → (l.map f).find? p = some (f g) := by
  intro l
  induction l with
  | nil => intro h; cases h
  | cons a as ih =>
    intro hg hp hothers
    simp only [List.map_cons, List.find?_cons]
    by_cases ha : a = g
    · subst ha; simp [hp]
    · have := hothers a (List.mem_cons_self) ha
      simp only [this]
      rcases List.mem_cons.mp hg with rfl | hg'
      · exact absurd rfl ha
      · exact ih hg' hp (fun x hx hne => hothers x (List.mem_cons_of_mem _ hx) hne)

theorem eff_MSI (cfg : Cfg) (db : DB) (hi : InvP db) (iid : Nat) (rid : RID) (hfix : cfg.msgIDTableOK = true)
    (hv : Valid cfg db (.messageIDChanged iid rid) = true) :
    Applied (.messageIDChanged iid rid) db (applyMessageIDChanged cfg db iid rid) := by
  simp only [Valid] at hv
  cases hm : db.msgByIid iid with
  | none => simp [hm] at hv
  | some g =>
    simp only [hm, Bool.and_eq_true, Bool.not_eq_true'] at hv
    obtain ⟨hd, hfree⟩ := hv
    obtain ⟨hmem, hgi⟩ := msgByIid_some hm
    have hfree' : ∀ x ∈ db.msgs, ¬ x.rid = rid := by
      intro x hx
      have := (List.any_eq_false.1 hfree) x hx
      simpa using this
    have hclash : (db.msgs.any (fun m => m.iid != iid && m.rid == rid)) = false := by
      rw [List.any_eq_false]
      intro x hx
      have := hfree' x hx
      simp [this]
    unfold applyMessageIDChanged
    simp only [hfix, Bool.not_true, Bool.false_eq_true, if_false, hm, hclash]
    refine ⟨rfl, ?_⟩
    simp only [Res.ok, effectOK, hm, Bool.and_eq_true]
    have hother : ∀ x ∈ db.msgs, x ≠ g → ¬ x.iid = iid := by
      intro x hx hne e
      apply hne
      exact eq_of_key_eq (fun g : Msg => g.iid) db.msgs x g hi.msgIid hx hmem (by rw [e, hgi])
    -- the renamed message is found under its new remote id
    have hnew : (db.updMsg iid (fun m => { m with rid := rid })).msgByRid rid = some { g with rid := rid } := by
      simp only [DB.updMsg, DB.msgByRid]
      have := find?_map_single (fun m : Msg => m.rid == rid)
        (fun m => if m.iid == iid then { m with rid := rid } else m) g db.msgs hmem (by simp [hgi])
        (by
          intro x hx hne
          have h1 := hother x hx hne
          have h2 := hfree' x hx
          simp [h1, h2])
      rw [this]
      simp [hgi]
    -- every other remote id resolves as before
    have hold : ∀ r : RID, r ≠ rid → r ≠ g.rid → (db.updMsg iid (fun m => { m with rid := rid })).msgByRid r = db.msgByRid r := by
      intro r h1 h2
      simp only [DB.updMsg, DB.msgByRid]
      rw [find?_map_mem (fun m : Msg => m.rid == r) (fun m => if m.iid == iid then { m with rid := rid } else m) db.msgs]
      · cases hf : db.msgs.find? (fun m => m.rid == r) with
        | none => rfl
        | some x =>
          obtain ⟨hxm, hxr⟩ := find?_key_mem _ _ _ hf
          have : ¬ x.iid = iid := by
            apply hother x hxm
            intro e
            apply h2
            have : x.rid = r := by simpa using hxr
            rw [← this, e]
          simp [this]
      · intro x hx
        split
        · rename_i hxe
          have : x = g := eq_of_key_eq (fun g : Msg => g.iid) db.msgs x g hi.msgIid hx hmem (by rw [hgi]; simpa using hxe)
          have e1 : (rid == r) = false := by simpa using (fun e => h1 e.symm)
          have e2 : (x.rid == r) = false := by rw [this]; simpa using (fun e => h2 e.symm)
          show (rid == r) = (x.rid == r)
          rw [e1, e2]
        · rfl
    refine ⟨⟨sameMboxesExcept_of_eq _ _ _ hi rfl, sameDelSubs_of_eq _ _ rfl⟩, ⟨⟨?_, ?_⟩, ?_⟩⟩
    · rw [hnew]; simp [sameSet_refl]
    · by_cases he : g.rid = rid
      · simp [he]
      · simp only [Bool.or_eq_true, beq_iff_eq, Option.isNone_iff_eq_none]
        right
        simp only [DB.updMsg, DB.msgByRid, List.find?_eq_none, List.mem_map]
        rintro y ⟨x, hx, rfl⟩
        split
        · simpa using (fun e => he e.symm)
        · rename_i hxe
          simp only [beq_iff_eq]
          intro e
          apply hxe
          have : x = g := eq_of_key_eq (fun g : Msg => g.rid) db.msgs x g hi.msgRid hx hmem e
          simp [this, hgi]
    · simp only [sameMsgsExcept, Bool.and_eq_true, List.all_eq_true, Bool.or_eq_true, beq_iff_eq]
      constructor
      · intro x hx
        by_cases h1 : x.rid = rid
        · left; left; exact h1
        · by_cases h2 : x.rid = g.rid
          · left; right; exact h2
          · right
            rw [hold x.rid h1 h2, msgByRid_of_mem hi hx]
            exact msgSame_refl x
      · intro y hy
        simp only [DB.updMsg, List.mem_map] at hy
        obtain ⟨x, hx, rfl⟩ := hy
        split
        · left; left; rfl
        · right; rw [msgByRid_of_mem hi hx]; rfl

/-! ### the invariant after MessageIDChanged -/

theorem nodupKeys_rename {α : Type} (key : α → Nat) (rk : α → String) (f : α → α) (i : Nat) (r : String)
    (hkey : ∀ x, key (f x) = key x) (hf : ∀ x, rk (f x) = if key x == i then r else rk x) :
    ∀ l : List α, nodupKeys key l = true → nodupKeys rk l = true → (∀ x ∈ l, rk x ≠ r) →
      nodupKeys rk (l.map f) = true := by
  intro l
  induction l with
  | nil => intro _ _ _; rfl
  | cons a as ih =>
    intro h1 h2 h3
    rw [nodupKeys_cons] at h1 h2
    rw [List.map_cons, nodupKeys_cons]
    refine ⟨?_, ih h1.2 h2.2 (fun x hx => h3 x (List.mem_cons_of_mem _ hx))⟩
    intro y hy
    rw [List.mem_map] at hy
    obtain ⟨x, hx, rfl⟩ := hy
    rw [hf x, hf a]
    have hk := h1.1 x hx
    have hr := h2.1 x hx
    have hxr := h3 x (List.mem_cons_of_mem _ hx)
    have har := h3 a (List.mem_cons_self)
    by_cases hxi : key x = i <;> by_cases hai : key a = i
    · rw [hxi, hai] at hk; simp at hk
    · have e1 : (key x == i) = true := by simpa using hxi
      have e2 : (key a == i) = false := by simpa using hai
      rw [e1, e2]
      simp only [if_true, Bool.false_eq_true, if_false]
      simpa using (fun e => har e.symm)
    · have e1 : (key x == i) = false := by simpa using hxi
      have e2 : (key a == i) = true := by simpa using hai
      rw [e1, e2]
      simp only [if_true, Bool.false_eq_true, if_false]
      simpa using hxr
    · have e1 : (key x == i) = false := by simpa using hxi
      have e2 : (key a == i) = false := by simpa using hai
      rw [e1, e2]
      simp only [Bool.false_eq_true, if_false]
      exact hr

/-- **With the message in no mailbox the invariant survives MessageIDChanged** -/
theorem invP_MSI (db : DB) (hi : InvP db) (iid : Nat) (rid : RID)
    (hfree : ∀ x ∈ db.msgs, x.rid ≠ rid) (hno : ∀ m ∈ db.mboxes, m.has iid = false) :
    InvP (db.updMsg iid (fun m => { m with rid := rid })) := by
  have hiidmap : (db.updMsg iid (fun m => { m with rid := rid })).msgs.map (·.iid) = db.msgs.map (·.iid) := by
    simp only [DB.updMsg, List.map_map]
    apply List.map_congr_left
    intro x _
    simp only [Function.comp]
    split <;> rfl
  refine ⟨hi.mboxIid, hi.mboxRid, hi.mboxName, ?_, ?_, hi.mboxLt, hi.rowsAsc, hi.rowsLe, hi.rowMsg, hi.rowRid, ?_, ?_,
    hi.dsName, hi.dsRid⟩
  · rw [nodupKeys_map_eq (fun g : Msg => g.iid) (fun g : Msg => g.iid) _ db.msgs hiidmap]
    exact hi.msgIid
  · exact nodupKeys_rename (fun g : Msg => g.iid) (fun g : Msg => g.rid)
      (fun m => if m.iid == iid then { m with rid := rid } else m) iid rid
      (by intro x; split <;> rfl) (by intro x; split <;> rfl) db.msgs hi.msgIid hi.msgRid hfree
  · intro m hm r hr
    obtain ⟨g', hg', hgr⟩ := hi.rowRef m hm r hr
    obtain ⟨hg'm, hg'i⟩ := msgByIid_some hg'
    have hne : ¬ g'.iid = iid := by
      intro e
      have := hno m hm
      simp only [Mbox.has, List.any_eq_false, beq_iff_eq] at this
      exact this r hr (by rw [← hg'i, e])
    refine ⟨g', ?_, hgr⟩
    have h2 := msgByIid_updMsg db iid (fun m => { m with rid := rid }) (fun _ => rfl) r.msg
    rw [h2, hg']
    simp [hne]
  · intro g hg
    simp only [DB.updMsg, List.mem_map] at hg
    obtain ⟨x, hx, rfl⟩ := hg
    have := hi.msgLt x hx
    split <;> exact this

end Gluon.ConnUpd
