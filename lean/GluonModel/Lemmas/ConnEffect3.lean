/-
Effect lemmas for C06, third part: MessageUpdated of a known message (same literal / new literal).
-/
import GluonModel.Lemmas.ConnEffect2

namespace Gluon.ConnUpd

theorem resolveAll_nodup (db : DB) (hi : InvP db) : ∀ (bs : List RID) (t : List Nat),
    nodupKeys (fun b : RID => b) bs = true → resolveAll db bs = some t → t.Nodup := by
  intro bs
  induction bs with
  | nil => intro t _ h; simp [resolveAll] at h; subst h; exact List.nodup_nil
  | cons b bs ih =>
    intro t hn h
    rw [nodupKeys_cons] at hn
    simp only [resolveAll] at h
    cases hb : db.mboxByRid b with
    | none => simp [hb] at h
    | some mb =>
      cases hr : resolveAll db bs with
      | none => simp [hb, hr] at h
      | some r =>
        simp only [hb, hr, Option.some.injEq] at h
        subst h
        rw [List.nodup_cons]
        refine ⟨?_, ih r hn.2 hr⟩
        intro hmem
        obtain ⟨b', hb', M', hM', hiid⟩ := (resolveAll_some db bs r hr mb.iid).1 hmem
        obtain ⟨hM'm, hM'r⟩ := mboxByRid_some hM'
        obtain ⟨hmbm, hmbr⟩ := mboxByRid_some hb
        have : M' = mb := eq_of_key_eq (fun m : Mbox => m.iid) db.mboxes M' mb hi.mboxIid hM'm hmbm hiid
        have hbb : b' = b := by rw [← hM'r, this, hmbr]
        have := hn.1 b' hb'
        rw [hbb] at this
        simp at this

theorem resolveAll_contains (db : DB) (hi : InvP db) (bs : List RID) (t : List Nat) (h : resolveAll db bs = some t)
    {m : Mbox} (hm : m ∈ db.mboxes) : t.contains m.iid = bs.contains m.rid := by
  rw [Bool.eq_iff_iff, List.contains_iff_mem, List.contains_iff_mem, resolveAll_some db bs t h]
  constructor
  · rintro ⟨b, hb, M, hM, hiid⟩
    obtain ⟨hMm, hMr⟩ := mboxByRid_some hM
    have : M = m := eq_of_key_eq (fun m : Mbox => m.iid) db.mboxes M m hi.mboxIid hMm hm hiid
    rw [← this, hMr]; exact hb
  · intro hb; exact ⟨m.rid, hb, m, mboxByRid_of_mem hi hm, rfl⟩

theorem resolveAll_mem (db : DB) (bs : List RID) (t : List Nat) (h : resolveAll db bs = some t) :
    ∀ i ∈ t, ∃ m ∈ db.mboxes, m.iid = i := by
  intro i hi'
  obtain ⟨b, _, M, hM, hiid⟩ := (resolveAll_some db bs t h i).1 hi'
  exact ⟨M, (mboxByRid_some hM).1, hiid⟩

/-- same literal: flags, then membership -/
theorem eff_MSU_same (cfg : Cfg) (db : DB) (hi : InvP db) (m : NewMsg) (ac : Bool) (g : Msg)
    (hm : db.msgByRid m.rid = some g) (hd : g.deleted = false) (hlit : (g.lit == m.lit) = true)
    (hknown : m.mboxes.all db.known = true) (hnd : nodupKeys (fun b : RID => b) m.mboxes = true)
    (hroom : ∀ b ∈ db.mboxes, roomFor cfg b 1 = true) :
    Applied (.messageUpdated m ac) db (applyMessageUpdated cfg db m ac) := by
  obtain ⟨hmem, hgr⟩ := msgByRid_some hm
  obtain ⟨t, ht⟩ := resolveAll_of_known db m.mboxes hknown
  obtain ⟨evs1, hfl⟩ := setMessageFlags_ok db hi g hmem m.flags
  have hmb1 : (db.updMsg g.iid (fun x => { x with flags := flagsAfter g.flags m.flags })).mboxes = db.mboxes := rfl
  obtain ⟨db2, evs2, hset, hfr, hpt⟩ := setMessageMailboxes_spec' cfg
    (db.updMsg g.iid (fun x => { x with flags := flagsAfter g.flags m.flags })) hi.mboxIid g
    (fun b hb h => freeOf_of_not_has hi hmem hb h) t (resolveAll_nodup db hi m.mboxes t hnd ht)
    (resolveAll_mem db m.mboxes t ht) hroom
  unfold applyMessageUpdated
  simp only [hm, hlit, if_true, ht, hfl, hset]
  refine ⟨rfl, ?_⟩
  simp only [Res.ok, effectOK, hm, hlit, if_true, Bool.and_eq_true]
  refine ⟨⟨⟨?_, ?_⟩, ?_⟩, ?_⟩
  · rw [← hgr]
    apply membershipSet_of_pointwise db db2 hi g hmem m.mboxes hfr.iids
    intro b hb
    have := hpt b hb
    rw [resolveAll_contains db hi m.mboxes t ht hb] at this
    exact this
  · rw [← hgr]
    exact liveWithFlags_updMsg db hi g hmem hd (flagsAfter g.flags m.flags) m.flags
      (flags_after_sameSet g.flags m.flags) db2 hfr.msgs
  · rw [sameMsgsExcept_congr _ db db2 _ hfr.msgs, ← hgr]
    exact sameMsgsExcept_updMsg db hi g hmem _ (fun _ => rfl)
  · exact sameDelSubs_of_eq _ _ hfr.delSubs

/-! ### new literal -/

theorem mboxByRid_iid_of_keys (db db' : DB)
    (h : db'.mboxes.map (fun m => (m.rid, m.iid)) = db.mboxes.map (fun m => (m.rid, m.iid))) (b : RID) :
    (db'.mboxByRid b).map (·.iid) = (db.mboxByRid b).map (·.iid) := by
  have key : ∀ l : List Mbox, (l.find? (fun m => m.rid == b)).map (·.iid)
      = ((l.map (fun m => (m.rid, m.iid))).find? (fun e => e.1 == b)).map (·.2) := by
    intro l
    induction l with
    | nil => rfl
    | cons a as ih =>
      simp only [List.find?_cons, List.map_cons]
      cases (a.rid == b) <;> simp [ih]
  simp only [DB.mboxByRid]
  rw [key, key, h]

theorem resolveAll_congr (db db' : DB)
    (h : db'.mboxes.map (fun m => (m.rid, m.iid)) = db.mboxes.map (fun m => (m.rid, m.iid))) :
    ∀ bs, resolveAll db' bs = resolveAll db bs := by
  intro bs
  induction bs with
  | nil => rfl
  | cons b bs ih =>
    have hb := mboxByRid_iid_of_keys db db' h b
    simp only [resolveAll, ih]
    cases h1 : db'.mboxByRid b <;> cases h2 : db.mboxByRid b <;> simp [h1, h2] at hb ⊢
    cases resolveAll db bs <;> simp [hb]

theorem addMessages_keys (cfg : Cfg) (db db' : DB) (mb : Nat) (pairs : List (Nat × RID)) (ev : Ev)
    (h : addMessages cfg db mb pairs = .ok (db', ev)) :
    db'.mboxes.map (fun m => (m.rid, m.iid)) = db.mboxes.map (fun m => (m.rid, m.iid)) := by
  unfold addMessages at h
  split at h
  · cases h
  · repeat' split at h
    all_goals first
      | (simp only [Except.ok.injEq, Prod.mk.injEq] at h
         rw [← h.1]; exact updMbox_keys db _ _ (fun _ => rfl) (fun _ => rfl))
      | cases h

theorem addNewTo_eq (cfg : Cfg) (p : Nat × RID) : ∀ (bs : List RID) (db : DB) (t : List Nat),
    resolveAll db bs = some t → addNewTo cfg db p bs = addToAll cfg db p t := by
  intro bs
  induction bs with
  | nil => intro db t h; simp [resolveAll] at h; subst h; rfl
  | cons b bs ih =>
    intro db t h
    simp only [resolveAll] at h
    cases hb : db.mboxByRid b with
    | none => simp [hb] at h
    | some mb =>
      cases hr : resolveAll db bs with
      | none => simp [hb, hr] at h
      | some r =>
        simp only [hb, hr, Option.some.injEq] at h
        subst h
        simp only [addNewTo, hb, addToAll]
        cases ha : addMessages cfg db mb.iid [p] with
        | error e => rfl
        | ok res =>
          obtain ⟨db1, e1⟩ := res
          have : resolveAll db1 bs = some r := by
            rw [resolveAll_congr db db1 (addMessages_keys cfg db db1 mb.iid [p] e1 ha), hr]
          simp only [ih db1 r this]

/-- every mailbox after the message left all of them -/
theorem removeFromAll_all (db : DB) (hi : InvP db) (msg : Nat) (r : DB × List Ev)
    (h : removeFromAll db msg (db.mailboxesOf msg) = r) :
    MboxFrame db r.1 ∧ ∀ b ∈ db.mboxes, r.1.mboxByIid b.iid = some (strip msg b) := by
  obtain ⟨hfr, hpt⟩ := removeFromAll_eq _ _ _ _ h
  refine ⟨hfr, ?_⟩
  intro b hb
  rw [hpt b.iid, mboxByIid_of_mem hi hb]
  simp only [Option.map_some, Option.some.injEq, contains_mailboxesOf hi hb]
  split
  · rfl
  · rename_i hh
    exact (strip_eq_self_of_not_has b msg (by simpa using hh)).symm

theorem roomFor_strip (cfg : Cfg) (b : Mbox) (msg : Nat) (h : roomFor cfg b 1 = true) : roomFor cfg (strip msg b) 1 = true := by
  simp only [roomFor, Bool.and_eq_true, decide_eq_true_eq] at h
  have := List.length_filter_le (fun r : Row => r.msg != msg) b.rows
  simp only [roomFor, strip, Bool.and_eq_true]
  refine ⟨decide_eq_true ?_, decide_eq_true ?_⟩
  · omega
  · exact h.2

theorem sameSet_dedup (l : List String) : sameSet (dedup l) l = true := by
  rw [sameSet_iff]; intro x; exact mem_dedup x l

/-- a look-up commutes with a map that does not change the outcome of the test on the list's members -/
theorem find?_map_mem {α : Type} (p : α → Bool) (f : α → α) : ∀ l : List α, (∀ x ∈ l, p (f x) = p x) →
    (l.map f).find? p = (l.find? p).map f := by
  intro l
  induction l with
  | nil => intro _; rfl
  | cons a as ih =>
    intro h
    simp only [List.map_cons, List.find?_cons, h a (List.mem_cons_self)]
    cases p a
    · simp [ih (fun x hx => h x (List.mem_cons_of_mem _ hx))]
    · simp

theorem ghost_prefix (n : Nat) : isGhostRid (ghostRid n) = true := by
  unfold isGhostRid ghostRid
  rw [String.startsWith_string_iff, String.toList_append]
  exact List.prefix_append _ _

/-- the index after the old instance was marked and the new one inserted (before it joins its mailboxes) -/
def mkDb3 (db db1 : DB) (g : Msg) (m : NewMsg) : DB :=
  { db1.updMsg g.iid (fun x => { x with deleted := true, rid := ghostRid db.nextMsg }) with
    msgs := (db1.updMsg g.iid (fun x => { x with deleted := true, rid := ghostRid db.nextMsg })).msgs ++
      [{ iid := db.nextMsg, rid := m.rid, flags := dedup m.flags, deleted := false, lit := m.lit }],
    nextMsg := db.nextMsg + 1 }

theorem applyMessageUpdated_new (cfg : Cfg) (db : DB) (m : NewMsg) (ac : Bool) (g : Msg)
    (hm : db.msgByRid m.rid = some g) (hlit : (g.lit == m.lit) = false) :
    applyMessageUpdated cfg db m ac =
      match addNewTo cfg (mkDb3 db (removeFromAll db g.iid (db.mailboxesOf g.iid)).1 g m) (db.nextMsg, m.rid) m.mboxes with
      | .error e => .fail db e
      | .ok (db4, e2) => .ok db4 ((removeFromAll db g.iid (db.mailboxesOf g.iid)).2 ++ e2) := by
  unfold applyMessageUpdated
  simp only [hm, hlit]
  rfl

theorem eff_MSU_new (cfg : Cfg) (db : DB) (hi : InvP db) (m : NewMsg) (ac : Bool) (g : Msg)
    (hm : db.msgByRid m.rid = some g) (hlit : (g.lit == m.lit) = false)
    (hknown : m.mboxes.all db.known = true) (hnd : nodupKeys (fun b : RID => b) m.mboxes = true)
    (hroom : ∀ b ∈ db.mboxes, roomFor cfg b 1 = true) (hng : isGhostRid m.rid = false) :
    Applied (.messageUpdated m ac) db (applyMessageUpdated cfg db m ac) := by
  obtain ⟨hmem, hgr⟩ := msgByRid_some hm
  obtain ⟨t, ht⟩ := resolveAll_of_known db m.mboxes hknown
  rw [applyMessageUpdated_new cfg db m ac g hm hlit]
  generalize hr : removeFromAll db g.iid (db.mailboxesOf g.iid) = r
  obtain ⟨db1, e1⟩ := r
  obtain ⟨hfr1, hpt1⟩ := removeFromAll_all db hi g.iid _ hr
  simp only at hfr1 hpt1 ⊢
  have hmb3 : (mkDb3 db db1 g m).mboxes = db1.mboxes := rfl
  have hkeys3 : (mkDb3 db db1 g m).mboxes.map (fun b => (b.rid, b.iid)) = db.mboxes.map (fun b => (b.rid, b.iid)) := by
    rw [hmb3]; exact hfr1.keys
  have ht3 : resolveAll (mkDb3 db db1 g m) m.mboxes = some t := by
    rw [resolveAll_congr db _ hkeys3]; exact ht
  rw [addNewTo_eq cfg (db.nextMsg, m.rid) m.mboxes _ t ht3]
  have hpre : ∀ i ∈ t, ∃ M, (mkDb3 db db1 g m).mboxByIid i = some M ∧ roomFor cfg M 1 = true ∧
      freeOf (db.nextMsg, m.rid) M = true := by
    intro i hi'
    obtain ⟨b, hb, rfl⟩ := resolveAll_mem db m.mboxes t ht i hi'
    refine ⟨strip g.iid b, ?_, roomFor_strip cfg b g.iid (hroom b hb), ?_⟩
    · rw [mboxByIid_congr db1 _ hmb3]; exact hpt1 b hb
    · simp only [freeOf, strip, List.all_eq_true, List.mem_filter, Bool.and_eq_true, bne_iff_ne, ne_eq]
      intro r hr'
      obtain ⟨hrm, hrne⟩ := hr'
      constructor
      · obtain ⟨g', hg', _⟩ := hi.rowRef b hb r hrm
        obtain ⟨hg'm, hg'i⟩ := msgByIid_some hg'
        have := hi.msgLt g' hg'm
        omega
      · intro he
        apply hrne
        exact (row_msg_iff_rid hi hmem hb hrm).2 (by rw [he, hgr])
  obtain ⟨db4, evs4, hadd, hfr4, hpt4⟩ := addToAll_spec cfg (db.nextMsg, m.rid) t _
    (resolveAll_nodup db hi m.mboxes t hnd ht) hpre
  rw [hadd]
  refine ⟨rfl, ?_⟩
  simp only [Res.ok, effectOK, hm, hlit, Bool.false_eq_true, if_false, Bool.and_eq_true]
  have hmsgs4 : db4.msgs = db.msgs.map (fun x => if x.iid == g.iid then
        { x with deleted := true, rid := ghostRid db.nextMsg } else x) ++
      [{ iid := db.nextMsg, rid := m.rid, flags := dedup m.flags, deleted := false, lit := m.lit }] := by
    rw [hfr4.msgs]
    simp only [mkDb3, DB.updMsg, hfr1.msgs]
  have hghost := ghost_prefix db.nextMsg
  have hridne : m.rid ≠ ghostRid db.nextMsg := by
    intro e; rw [e, hghost] at hng; cases hng
  -- look-ups by remote id in the new message table
  have hfind : ∀ r : RID, r ≠ ghostRid db.nextMsg → r ≠ m.rid →
      db4.msgByRid r = db.msgByRid r := by
    intro r hr1 hr2
    simp only [DB.msgByRid, hmsgs4, List.find?_append]
    have hmap := find?_map_mem (fun x : Msg => x.rid == r)
      (fun x => if x.iid == g.iid then { x with deleted := true, rid := ghostRid db.nextMsg } else x)
      db.msgs (by
        intro x hx
        split
        · rename_i hxe
          have : x = g := eq_of_key_eq (fun g : Msg => g.iid) db.msgs x g hi.msgIid hx hmem (by simpa using hxe)
          have h1 : (ghostRid db.nextMsg == r) = false := by simpa using (fun e => hr1 e.symm)
          have h2 : (x.rid == r) = false := by rw [this, hgr]; simpa using (fun e => hr2 e.symm)
          show (ghostRid db.nextMsg == r) = (x.rid == r)
          rw [h1, h2]
        · rfl)
    rw [hmap]
    cases hf : db.msgs.find? (fun x => x.rid == r) with
    | none =>
      have : (m.rid == r) = false := by simpa using (fun e => hr2 e.symm)
      simp [this]
    | some x =>
      have hx := find?_key_mem _ _ _ hf
      have hxg : ¬ x.iid = g.iid := by
        intro e
        have : x = g := eq_of_key_eq (fun g : Msg => g.iid) db.msgs x g hi.msgIid hx.1 hmem e
        apply hr2
        have := hx.2
        simp only [beq_iff_eq] at this
        rw [← this, ‹x = g›, hgr]
      simp [hxg]
  refine ⟨⟨⟨⟨?_, all_known_of_iids db db4 ?_⟩, ?_⟩, ?_⟩, ?_⟩
  · rw [List.all_eq_true]
    intro b hb
    have h4 := hpt4 b.iid
    rw [mboxByIid_congr db1 _ hmb3, hpt1 b hb] at h4
    rw [h4]
    have hc := resolveAll_contains db hi m.mboxes t ht hb
    have hstrip := strip_rows_eq hi hmem hb
    simp only [strip] at hstrip
    simp only [Option.map_some, strip, hc]
    by_cases hin : m.mboxes.contains b.rid = true
    · simp only [hin, if_true, growBy, metaSame, hstrip, hgr]
      simp [Row.key]
    · have hin' : m.mboxes.contains b.rid = false := by simpa using hin
      simp only [hin', Bool.false_eq_true, if_false, metaSame, hstrip, hgr]
      simp
  · rw [hfr4.iids]
    have : (mkDb3 db db1 g m).mboxes.map (·.iid) = db1.mboxes.map (·.iid) := by rw [hmb3]
    rw [this, hfr1.iids]
  · -- the new instance is live with the new flags
    have : db4.msgByRid m.rid = some { iid := db.nextMsg, rid := m.rid, flags := dedup m.flags, deleted := false, lit := m.lit } := by
      simp only [DB.msgByRid, hmsgs4, List.find?_append]
      have hnone : (db.msgs.map (fun x => if x.iid == g.iid then
          { x with deleted := true, rid := ghostRid db.nextMsg } else x)).find? (fun x => x.rid == m.rid) = none := by
        rw [List.find?_eq_none]
        intro y hy
        rw [List.mem_map] at hy
        obtain ⟨x, hx, rfl⟩ := hy
        split
        · simpa using (fun e => hridne e.symm)
        · rename_i hxe
          simp only [beq_iff_eq]
          intro e
          apply hxe
          have : x = g := eq_of_key_eq (fun g : Msg => g.rid) db.msgs x g hi.msgRid hx hmem (by rw [e, hgr])
          simp [this]
      rw [hnone]
      simp
    simp [liveWithFlags, DB.liveMsg, this, sameSet_dedup]
  · simp only [sameMsgsExcept, Bool.and_eq_true, List.all_eq_true, Bool.or_eq_true, beq_iff_eq]
    constructor
    · intro x hx
      by_cases h1 : x.rid = m.rid
      · left; left; exact h1
      · by_cases h2 : isGhostRid x.rid = true
        · left; right; exact h2
        · right
          have hne : x.rid ≠ ghostRid db.nextMsg := by
            intro e; rw [e, hghost] at h2; exact h2 rfl
          rw [hfind x.rid hne h1, msgByRid_of_mem hi hx]
          exact msgSame_refl x
    · intro y hy
      rw [hmsgs4, List.mem_append] at hy
      rcases hy with hy | hy
      · rw [List.mem_map] at hy
        obtain ⟨x, hx, rfl⟩ := hy
        split
        · left; right; exact hghost
        · right; rw [msgByRid_of_mem hi hx]; rfl
      · simp only [List.mem_singleton] at hy
        left; left; rw [hy]
  · exact sameDelSubs_of_eq _ _ (by rw [hfr4.delSubs]; exact hfr1.delSubs)

end Gluon.ConnUpd
