/- Lemmas for C12: the boundary scanner, Split and the section ranges never panic, terminate
   within their fuel, and produce ranges inside their input. -/
import GluonModel.Model.MimeScan

namespace Gluon.Mime

/-! ### primitives -/

theorem goSliceFrom_ok (b : Bytes) (lo : Nat) (h : lo ≤ b.length) :
    goSliceFrom b lo = .ok (b.drop lo) := by
  simp [goSliceFrom, h]

theorem goSlice_ok (b : Bytes) (lo hi : Nat) (h1 : lo ≤ hi) (h2 : hi ≤ b.length) :
    goSlice b lo hi = .ok ((b.drop lo).take (hi - lo)) := by
  simp [goSlice, h1, h2]

theorem goSlice_length (b : Bytes) (lo hi : Nat) (s : Bytes) (h : goSlice b lo hi = .ok s) :
    lo ≤ hi ∧ hi ≤ b.length ∧ s.length = hi - lo := by
  unfold goSlice at h
  split at h
  · next hc =>
    cases h
    refine ⟨hc.1, hc.2, ?_⟩
    simp [List.length_take, List.length_drop]
    omega
  · cases h

theorem goAtSub_ok (b : Bytes) (i k : Nat) (h1 : k ≤ i) (h2 : i - k < b.length) :
    ∃ c, goAtSub b i k = .ok c := by
  unfold goAtSub
  have : ¬ i < k := by omega
  simp only [this, if_false]
  rw [List.getElem?_eq_getElem h2]
  exact ⟨_, rfl⟩

theorem indexFrom_some (pat : Bytes) : ∀ (s : Bytes) (i j : Nat), indexFrom pat s i = some j →
    i ≤ j ∧ (j - i) + pat.length ≤ s.length := by
  intro s
  induction s with
  | nil =>
    intro i j h
    simp only [indexFrom] at h
    split at h
    · next hp =>
      cases h
      have : pat = [] := by simpa using hp
      simp [this]
    · cases h
  | cons c s ih =>
    intro i j h
    simp only [indexFrom] at h
    split at h
    · next hp =>
      cases h
      have := (List.isPrefixOf_iff_prefix.mp hp).length_le
      simp at this ⊢
      omega
    · have := ih _ _ h
      simp
      omega

theorem index_some (s pat : Bytes) (j : Nat) (h : index s pat = some j) : j + pat.length ≤ s.length := by
  have := indexFrom_some pat s 0 j h
  omega

theorem nlAfterBoundary_lt (d : Bytes) (i : Nat) (h : nlAfterBoundary d = some i) : i < d.length := by
  unfold nlAfterBoundary at h
  split at h
  · cases h
  · split at h
    · next hc => cases h; omega
    · simp only at h
      split at h
      · next hc =>
        cases h
        exact (List.getElem?_eq_some_iff.mp hc).1
      · cases h

theorem prevLineBreak_ok (data : Bytes) (progress offset : Nat) (h1 : progress ≤ offset)
    (h2 : offset ≤ data.length) :
    ∃ r, prevLineBreak data progress offset = .ok r ∧ ∀ p, r = some p → p ≤ offset - progress := by
  unfold prevLineBreak
  by_cases he : progress = offset
  · simp [he]
  · simp only [he, if_false]
    obtain ⟨c, hc⟩ := goAtSub_ok data offset 1 (by omega) (by omega)
    rw [hc]
    simp only
    split
    · split
      · next hge =>
        obtain ⟨c2, hc2⟩ := goAtSub_ok data offset 2 (by omega) (by omega)
        rw [hc2]
        simp only
        split
        · exact ⟨_, rfl, by intro p hp; cases hp; omega⟩
        · exact ⟨_, rfl, by intro p hp; cases hp; omega⟩
      · exact ⟨_, rfl, by intro p hp; cases hp; omega⟩
    · exact ⟨_, rfl, by intro p hp; cases hp⟩

theorem isEndBoundary_ok (remaining : Bytes) (dataLen progress idx bl : Nat)
    (hlen : remaining.length = dataLen - progress) (hp : progress ≤ dataLen) :
    ∃ b, isEndBoundary remaining dataLen progress idx bl = .ok b ∧
      (b = true → progress + idx + bl + 2 ≤ dataLen) := by
  unfold isEndBoundary
  split
  · next hc =>
    rw [goSlice_ok _ _ _ (by omega) (by omega)]
    exact ⟨_, rfl, fun _ => hc⟩
  · exact ⟨false, rfl, by intro h; cases h⟩

/-! ### readToBoundary -/

/-- what `readToBoundary`, started with the scanner at `progress` (and `searchStart = ss`),
    guarantees about its result -/
structure RBInv (data sb : Bytes) (ss progress : Nat) (r : RB) : Prop where
  prog_ge : progress ≤ r.progress
  prog_le : r.progress ≤ data.length + 1
  more_adv : r.more = true → progress + sb.length + 1 ≤ r.progress ∧ r.progress ≤ data.length
  res_range : ∀ lo hi, r.res = some (lo, hi) →
    ss ≤ lo ∧ lo ≤ hi ∧ hi ≤ data.length ∧ hi ≤ r.progress ∧ (lo = ss ∨ hi = data.length)
  none_stop : r.res = none → r.more = false

theorem RBInv.mono {data sb : Bytes} {ss p p' : Nat} {r : RB} (hpp : p ≤ p')
    (h : RBInv data sb ss p' r) : RBInv data sb ss p r where
  prog_ge := Nat.le_trans hpp h.prog_ge
  prog_le := h.prog_le
  more_adv := fun hm => ⟨by have := (h.more_adv hm).1; omega, (h.more_adv hm).2⟩
  res_range := h.res_range
  none_stop := h.none_stop

theorem rtbFinish_ok (data sb : Bytes) (ss progress pi pnl np : Nat) (more : Bool)
    (h1 : ss + pnl ≤ pi) (h2 : pi ≤ data.length) (h3 : pi ≤ np) (h4 : np ≤ data.length + 1)
    (h5 : progress ≤ np)
    (h6 : more = true → progress + sb.length + 1 ≤ np ∧ np ≤ data.length) :
    ∃ r, rtbFinish data ss pi pnl np more = .ok r ∧ RBInv data sb ss progress r := by
  unfold rtbFinish
  have : ¬ pi < pnl := by omega
  simp only [this, if_false]
  rw [goSlice_ok _ _ _ (by omega) (by omega)]
  refine ⟨_, rfl, ?_⟩
  constructor
  · exact h5
  · exact h4
  · intro hm; exact h6 hm
  · intro lo hi h
    simp only [Option.some.injEq, Prod.mk.injEq] at h
    obtain ⟨rfl, rfl⟩ := h
    exact ⟨by omega, by omega, by omega, by show pi - pnl ≤ np; omega, Or.inl rfl⟩
  · intro h; cases h

theorem rtbLoop_ok (data sb : Bytes) (hsb : 1 ≤ sb.length) (ss : Nat) :
    ∀ (fuel progress : Nat), ss ≤ progress → progress ≤ data.length + 1 →
      data.length < progress + fuel → 0 < fuel →
      ∃ r, rtbLoop data sb ss fuel progress = .ok r ∧ RBInv data sb ss progress r := by
  intro fuel
  induction fuel with
  | zero => intro progress _ _ _ h; omega
  | succ fuel ih =>
    intro progress hss hple hfuel _
    simp only [rtbLoop]
    by_cases hlt : progress < data.length
    · simp only [hlt, not_true_eq_false, if_false]
      rw [goSliceFrom_ok _ _ (by omega)]
      simp only
      have hrl : (data.drop progress).length = data.length - progress := by simp
      split
      · -- no further match: `return remaining, false`
        refine ⟨_, rfl, ?_⟩
        constructor
        · simp only; omega
        · simp only; omega
        · intro h; cases h
        · intro lo hi h
          simp only [Option.some.injEq, Prod.mk.injEq] at h
          obtain ⟨rfl, rfl⟩ := h
          exact ⟨hss, by omega, Nat.le_refl _, Nat.le_refl _, Or.inr rfl⟩
        · intro h; cases h
      · next idx hidx =>
        have hi := index_some _ _ _ hidx
        rw [hrl] at hi
        obtain ⟨pr, hpr, hprb⟩ := prevLineBreak_ok data progress (progress + idx) (by omega) (by omega)
        rw [hpr]
        cases pr with
        | none =>
          simp only
          obtain ⟨r, hr, hinv⟩ := ih (progress + idx + sb.length) (by omega) (by omega) (by omega) (by omega)
          exact ⟨r, hr, hinv.mono (by omega)⟩
        | some pnl =>
          simp only
          have hpnl : pnl ≤ idx := by have := hprb pnl rfl; omega
          obtain ⟨b, hb, hbt⟩ := isEndBoundary_ok (data.drop progress) data.length progress idx sb.length hrl (by omega)
          rw [hb]
          cases b with
          | true =>
            simp only
            have hend := hbt rfl
            rw [goSliceFrom_ok _ _ (by omega)]
            simp only
            have hal : ((data.drop progress).drop (idx + sb.length + 2)).length
                = data.length - progress - idx - sb.length - 2 := by
              simp; omega
            split
            · next hne =>
              split
              · obtain ⟨r, hr, hinv⟩ := ih (progress + idx + sb.length + 2) (by omega) (by omega) (by omega) (by omega)
                exact ⟨r, hr, hinv.mono (by omega)⟩
              · next nl hnl =>
                have := nlAfterBoundary_lt _ _ hnl
                rw [hal] at this
                exact rtbFinish_ok data sb ss progress _ _ _ _ (by omega) (by omega) (by omega) (by omega)
                  (by omega) (by intro h; cases h)
            · next hz =>
              rw [hal] at hz
              exact rtbFinish_ok data sb ss progress _ _ _ _ (by omega) (by omega) (by omega) (by omega)
                (by omega) (by intro h; cases h)
          | false =>
            simp only
            rw [goSliceFrom_ok _ _ (by omega)]
            simp only
            have hal : ((data.drop progress).drop (idx + sb.length)).length
                = data.length - progress - idx - sb.length := by
              simp; omega
            split
            · obtain ⟨r, hr, hinv⟩ := ih (progress + idx + sb.length) (by omega) (by omega) (by omega) (by omega)
              exact ⟨r, hr, hinv.mono (by omega)⟩
            · next nl hnl =>
              have := nlAfterBoundary_lt _ _ hnl
              rw [hal] at this
              exact rtbFinish_ok data sb ss progress _ _ _ _ (by omega) (by omega) (by omega) (by omega)
                (by omega) (by intro _; omega)
    · simp only [hlt, not_false_eq_true, if_true]
      refine ⟨_, rfl, ?_⟩
      constructor
      · exact Nat.le_refl _
      · exact hple
      · intro h; cases h
      · intro lo hi h; cases h
      · intro _; rfl

theorem readToBoundary_ok (data sb : Bytes) (hsb : 1 ≤ sb.length) (progress : Nat)
    (hp : progress ≤ data.length + 1) :
    ∃ r, readToBoundary data sb progress = .ok r ∧ RBInv data sb progress progress r :=
  rtbLoop_ok data sb hsb progress (data.length + 1) progress (Nat.le_refl _) hp (by omega) (by omega)

/-! ### ScanAll -/

/-- a scanned part lies inside the scanned data: `Offset ≤ lo ≤ hi ≤ len`, so also
    `Offset + len(Data) ≤ len` -/
def Part.Within (n : Nat) (p : Part) : Prop :=
  p.offset ≤ p.lo ∧ p.lo ≤ p.hi ∧ p.hi ≤ n ∧ (p.lo = p.offset ∨ p.hi = n)

theorem scanLoop_ok (data sb : Bytes) (hsb : 1 ≤ sb.length) :
    ∀ (fuel progress : Nat) (acc : List Part), progress ≤ data.length + 1 →
      data.length < progress + fuel → 0 < fuel →
      (∀ p ∈ acc, p.Within data.length ∧ p.offset + p.len ≤ progress) →
      acc.Pairwise (fun a b => a.offset + a.len ≤ b.offset) →
      ∃ parts, scanLoop data sb fuel progress acc = .ok parts ∧
        (∀ p ∈ parts, p.Within data.length) ∧
        parts.Pairwise (fun a b => a.offset + a.len ≤ b.offset) := by
  intro fuel
  induction fuel with
  | zero => intro progress acc _ _ h; omega
  | succ fuel ih =>
    intro progress acc hple hfuel _ hacc hpw
    simp only [scanLoop]
    obtain ⟨r, hr, hinv⟩ := readToBoundary_ok data sb hsb progress hple
    rw [hr]
    simp only
    have hge := hinv.prog_ge
    have tail : ∀ parts' : List Part,
        (∀ p ∈ parts', p.Within data.length ∧ p.offset + p.len ≤ r.progress) →
        parts'.Pairwise (fun a b => a.offset + a.len ≤ b.offset) →
        ∃ parts, (if r.more = true then scanLoop data sb fuel r.progress parts' else Except.ok parts')
            = .ok parts ∧ (∀ p ∈ parts, p.Within data.length) ∧
          parts.Pairwise (fun a b => a.offset + a.len ≤ b.offset) := by
      intro parts' hacc' hpw'
      split
      · next hm =>
        have := hinv.more_adv hm
        exact ih r.progress _ (by omega) (by omega) (by omega) hacc' hpw'
      · exact ⟨_, rfl, fun p hp => (hacc' p hp).1, hpw'⟩
    rcases hres : r.res with _ | ⟨lo, hi⟩
    · refine tail acc ?_ hpw
      intro p hp
      exact ⟨(hacc p hp).1, by have := (hacc p hp).2; omega⟩
    · obtain ⟨a, b, c, d, e⟩ := hinv.res_range lo hi hres
      refine tail (acc ++ [⟨progress, lo, hi⟩]) ?_ ?_
      · intro p hp
        rcases List.mem_append.mp hp with hp | hp
        · exact ⟨(hacc p hp).1, by have := (hacc p hp).2; omega⟩
        · simp only [List.mem_singleton] at hp
          subst hp
          exact ⟨⟨a, b, c, e⟩, by simp only [Part.len]; omega⟩
      · rw [List.pairwise_append]
        refine ⟨hpw, by simp, ?_⟩
        intro x hx y hy
        simp only [List.mem_singleton] at hy
        subst hy
        exact (hacc x hx).2

theorem startBoundary_length (b : Bytes) : 1 ≤ (startBoundary b).length := by
  simp [startBoundary]

theorem scanAll_ok (data boundary : Bytes) :
    ∃ parts, scanAll data boundary = .ok parts ∧
      (∀ p ∈ parts, p.Within data.length) ∧
      parts.Pairwise (fun a b => a.offset + a.len ≤ b.offset) := by
  unfold scanAll
  obtain ⟨r0, hr0, hinv0⟩ := readToBoundary_ok data (startBoundary boundary) (startBoundary_length _) 0 (by omega)
  rw [hr0]
  simp only
  exact scanLoop_ok data _ (startBoundary_length _) _ _ [] hinv0.prog_le
    (by have := hinv0.prog_ge; omega) (by omega) (by simp) (by simp)

/-! ### Split -/

theorem splitLoop_ok : ∀ (fuel : Nat) (remaining : Bytes) (si : Nat), remaining.length < fuel →
    ∃ k, splitLoop fuel remaining si = .ok k ∧ si ≤ k ∧ k ≤ si + remaining.length ∧
      (remaining.length ≠ 0 → si < k) := by
  intro fuel
  induction fuel with
  | zero => intro r si h; omega
  | succ fuel ih =>
    intro remaining si hf
    simp only [splitLoop]
    split
    · next hz => exact ⟨si, rfl, Nat.le_refl _, by omega, by intro h; exact absurd hz h⟩
    · next hnz =>
      split
      · exact ⟨_, rfl, by omega, by omega, by intro _; omega⟩
      · next idx hidx =>
        have hi := index_some _ _ _ hidx
        simp only [List.length_singleton] at hi
        rw [goSlice_ok _ _ _ (by omega) (by omega)]
        simp only
        split
        · exact ⟨_, rfl, by omega, by omega, by intro _; omega⟩
        · rw [goSliceFrom_ok _ _ (by omega)]
          simp only
          obtain ⟨k, hk, h1, h2, _⟩ := ih (remaining.drop (idx + 1)) (si + idx + 1) (by simp; omega)
          refine ⟨k, hk, by omega, ?_, by intro _; omega⟩
          simp only [List.length_drop] at h2
          omega

theorem split_ok (b : Bytes) :
    ∃ h t, split b = .ok (h, t) ∧ h ++ t = b ∧ (b.length ≠ 0 → h.length ≠ 0) := by
  unfold split
  obtain ⟨k, hk, _, h2, h3⟩ := splitLoop_ok (b.length + 1) b 0 (by omega)
  rw [hk]
  simp only
  rw [goSlice_ok _ _ _ (by omega) (by omega), goSliceFrom_ok _ _ (by omega)]
  refine ⟨_, _, rfl, by simp, ?_⟩
  intro hb
  have := h3 hb
  simp only [List.drop_zero, Nat.sub_zero, List.length_take]
  omega

/-! ### sections -/

/-- a section's offsets are ordered and inside the enclosing range `[lo, hi)` -/
def Sec.Inside (s : Sec) (lo hi : Nat) : Prop :=
  lo ≤ s.header ∧ s.header ≤ s.body ∧ s.body ≤ s.end_ ∧ s.end_ ≤ hi

theorem parseSec_ok (env : HdrEnv) (lit : Bytes) (b e : Nat) (h1 : b ≤ e) (h2 : e ≤ lit.length) :
    ∃ s, parseSec env lit b e = .ok s ∧ s.header = b ∧ s.end_ = e ∧ s.header ≤ s.body ∧ s.body ≤ s.end_ := by
  unfold parseSec
  rw [goSlice_ok _ _ _ h1 h2]
  simp only
  obtain ⟨h, t, hs, hcat, _⟩ := split_ok ((lit.drop b).take (e - b))
  rw [hs]
  simp only
  refine ⟨_, rfl, rfl, rfl, by simp, ?_⟩
  simp only
  have hl : h.length ≤ e - b := by
    have := congrArg List.length hcat
    simp [List.length_take, List.length_drop] at this
    omega
  split <;> omega

theorem partSecs_ok (env : HdrEnv) (lit : Bytes) (body end_ : Nat) (hbe : body ≤ end_)
    (he : end_ ≤ lit.length) :
    ∀ (ps : List Part), (∀ p ∈ ps, p.Within (end_ - body)) →
      ∃ ss, partSecs env lit body ps = .ok ss ∧ ∀ s ∈ ss, s.Inside body end_ := by
  intro ps
  induction ps with
  | nil => intro _; exact ⟨[], rfl, by simp⟩
  | cons p ps ih =>
    intro hps
    obtain ⟨a, b, c, d⟩ := hps p (by simp)
    simp only [partSecs, Part.len]
    obtain ⟨s, hs, hh, hee, hhb, hbe'⟩ := parseSec_ok env lit (body + p.offset) (body + p.offset + (p.hi - p.lo))
      (by omega) (by omega)
    rw [hs]
    simp only
    obtain ⟨ss, hss, hin⟩ := ih (fun q hq => hps q (by simp [hq]))
    rw [hss]
    refine ⟨_, rfl, ?_⟩
    intro x hx
    rcases List.mem_cons.mp hx with rfl | hx
    · exact ⟨by omega, hhb, hbe', by omega⟩
    · exact hin x hx

/-- `children` terminates within its fuel, never panics, and every child lies inside the
    parent's body `[body, end)`; a section with an empty header has no children. -/
theorem children_ok (env : HdrEnv) (lit : Bytes) :
    ∀ (fuel : Nat) (s : Sec), s.Inside 0 lit.length → s.end_ - s.header < fuel →
      ∃ cs, children env lit fuel s = .ok cs ∧ (∀ c ∈ cs, c.Inside s.body s.end_) ∧
        (s.header = s.body → cs = []) := by
  intro fuel
  induction fuel with
  | zero => intro s _ h; omega
  | succ fuel ih =>
    intro s ⟨_, h2, h3, h4⟩ hf
    simp only [children]
    rw [goSlice_ok _ _ _ h2 (by omega)]
    simp only
    have hhl : ((lit.drop s.header).take (s.body - s.header)).length = s.body - s.header := by
      simp [List.length_take, List.length_drop]; omega
    unfold ctOf
    rw [hhl]
    by_cases hz : s.body - s.header = 0
    · simp only [hz, if_true]
      exact ⟨[], rfl, by simp, fun _ => rfl⟩
    · simp only [hz, if_false]
      split
      · exact ⟨[], rfl, by simp, fun _ => rfl⟩
      · -- message/rfc822
        obtain ⟨child, hc, hch, hce, hchb, hcbe⟩ := parseSec_ok env lit s.body s.end_ h3 h4
        rw [hc]
        simp only
        obtain ⟨cs, hcs, hin, _⟩ := ih child ⟨by omega, hchb, hcbe, by omega⟩ (by omega)
        refine ⟨cs, hcs, ?_, by intro h; omega⟩
        intro c hcmem
        obtain ⟨a, b, c', d⟩ := hin c hcmem
        exact ⟨by omega, b, c', by omega⟩
      · -- multipart
        next bnd _ =>
        rw [goSlice_ok _ _ _ h3 h4]
        simp only
        obtain ⟨parts, hp, hwithin, _⟩ := scanAll_ok ((lit.drop s.body).take (s.end_ - s.body)) bnd
        rw [hp]
        simp only
        have hl : ((lit.drop s.body).take (s.end_ - s.body)).length = s.end_ - s.body := by
          simp [List.length_take, List.length_drop]; omega
        rw [hl] at hwithin
        obtain ⟨ss, hss, hin⟩ := partSecs_ok env lit s.body s.end_ h3 h4 parts hwithin
        exact ⟨ss, hss, hin, by intro h; omega⟩

/-! ### Walk -/

mutual
  /-- every node's offsets are ordered and inside `[lo, hi)`, every child inside its parent's body -/
  def STree.Nested : STree → Nat → Nat → Prop
    | .node s cs, lo, hi => s.Inside lo hi ∧ STree.NestedList cs s.body s.end_
  def STree.NestedList : List STree → Nat → Nat → Prop
    | [], _, _ => True
    | t :: ts, lo, hi => t.Nested lo hi ∧ STree.NestedList ts lo hi
end

theorem mapE_walk_ok (env : HdrEnv) (lit : Bytes) (fuel lo hi : Nat) (hhi : hi ≤ lit.length)
    (ih : ∀ (s : Sec), s.Inside 0 lit.length → s.end_ - s.header < fuel →
      ∃ t, walk env lit fuel s = .ok t ∧ t.Nested s.header s.end_) :
    ∀ (cs : List Sec), (∀ c ∈ cs, c.Inside lo hi ∧ c.end_ - c.header < fuel) →
      ∃ ts, mapE (walk env lit fuel) cs = .ok ts ∧ STree.NestedList ts lo hi := by
  intro cs
  induction cs with
  | nil => intro _; exact ⟨[], rfl, trivial⟩
  | cons c cs ihc =>
    intro h
    obtain ⟨⟨a, b, c', d⟩, hf⟩ := h c (by simp)
    obtain ⟨t, ht, hn⟩ := ih c ⟨by omega, b, c', by omega⟩ hf
    simp only [mapE]
    rw [ht]
    simp only
    obtain ⟨ts, hts, hns⟩ := ihc (fun x hx => h x (by simp [hx]))
    rw [hts]
    refine ⟨_, rfl, ?_, hns⟩
    cases t with
    | node s' cs' =>
      simp only [STree.Nested] at hn ⊢
      obtain ⟨⟨a1, a2, a3, a4⟩, hrest⟩ := hn
      exact ⟨⟨by omega, a2, a3, by omega⟩, hrest⟩

theorem walk_ok (env : HdrEnv) (lit : Bytes) :
    ∀ (fuel : Nat) (s : Sec), s.Inside 0 lit.length → s.end_ - s.header < fuel →
      ∃ t, walk env lit fuel s = .ok t ∧ t.Nested s.header s.end_ := by
  intro fuel
  induction fuel with
  | zero => intro s _ h; omega
  | succ fuel ih =>
    intro s hs hf
    simp only [walk]
    obtain ⟨cs, hcs, hin, hemp⟩ := children_ok env lit (lit.length + 1) s hs (by
      obtain ⟨_, _, _, h4⟩ := hs; omega)
    rw [hcs]
    simp only
    obtain ⟨h1, h2, h3, h4⟩ := hs
    have hsmall : ∀ c ∈ cs, c.Inside s.body s.end_ ∧ c.end_ - c.header < fuel := by
      intro c hc
      refine ⟨hin c hc, ?_⟩
      obtain ⟨a, b, c', d⟩ := hin c hc
      have hne : s.header ≠ s.body := by
        intro he
        rw [hemp he] at hc
        cases hc
      omega
    obtain ⟨ts, hts, hns⟩ := mapE_walk_ok env lit fuel s.body s.end_ h4 ih cs hsmall
    rw [hts]
    exact ⟨_, rfl, ⟨by omega, h2, h3, by omega⟩, hns⟩

theorem parseWalk_ok (env : HdrEnv) (lit : Bytes) :
    ∃ t, parseWalk env lit = .ok t ∧ t.Nested 0 lit.length := by
  unfold parseWalk
  obtain ⟨root, hr, hh, he, hhb, hbe⟩ := parseSec_ok env lit 0 lit.length (by omega) (by omega)
  rw [hr]
  simp only
  obtain ⟨t, ht, hn⟩ := walk_ok env lit (lit.length + 1) root ⟨by omega, hhb, hbe, by omega⟩ (by omega)
  refine ⟨t, ht, ?_⟩
  rw [hh, he] at hn
  exact hn

end Gluon.Mime
