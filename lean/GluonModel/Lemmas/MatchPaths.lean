/- Lemmas about `splitOn`/`join`/`listSuperiors`/`listInferiors`/`canon`/`matchRoot` (Model/Match.lean)
   versus the reference definitions of Spec/Wildcard.lean. -/
import GluonModel.Model.Match
import GluonModel.Lemmas.Wildcard

namespace Gluon.Match
open Gluon

theorem splitOn_ne_nil (d : Char) (n : Name) : ∃ s ss, splitOn d n = s :: ss := by
  cases n with
  | nil => exact ⟨[], [], rfl⟩
  | cons c cs =>
    simp only [splitOn]
    split
    · exact ⟨_, _, rfl⟩
    · split <;> exact ⟨_, _, rfl⟩

theorem splitOn_cons_eq (d c : Char) (cs : Name) (h : c = d) : splitOn d (c :: cs) = [] :: splitOn d cs := by
  simp [splitOn, h]

theorem splitOn_cons_ne (d c : Char) (cs s : Name) (ss : List Name) (h : c ≠ d) (hs : splitOn d cs = s :: ss) :
    splitOn d (c :: cs) = (c :: s) :: ss := by
  simp [splitOn, h, hs]

theorem join_cons_cons (d : Char) (x y : Name) (S : List Name) :
    join d (x :: y :: S) = x ++ d :: join d (y :: S) := rfl

theorem join_splitOn (d : Char) (n : Name) : join d (splitOn d n) = n := by
  induction n with
  | nil => rfl
  | cons c cs ih =>
    obtain ⟨s, ss, hs⟩ := splitOn_ne_nil d cs
    by_cases h : c = d
    · rw [splitOn_cons_eq d c cs h, hs, join_cons_cons, ← hs, ih, h]; rfl
    · rw [splitOn_cons_ne d c cs s ss h hs]
      rw [hs] at ih
      cases ss with
      | nil => simp [join] at ih ⊢; exact ih
      | cons y S => rw [join_cons_cons] at ih ⊢; simp [← ih]

/-! ### listSuperiors -/

/-- recursive form of "Join(split[0:i]) for i = 1 .. len-1" -/
def prefixesRec (d : Char) : List Name → List Name
  | [] => []
  | [_] => []
  | x :: y :: S => x :: (prefixesRec d (y :: S)).map (fun r => x ++ d :: r)

theorem range_drop_one_map {α : Type} (n : Nat) (f : Nat → α) :
    ((List.range (n + 1)).drop 1).map f = (List.range n).map (fun i => f (i + 1)) := by
  rw [List.range_succ_eq_map]
  simp [List.map_map, Function.comp_def]

theorem prefixes_eq_rec (d : Char) (S : List Name) :
    ((List.range S.length).drop 1).map (fun i => join d (S.take i)) = prefixesRec d S := by
  induction S with
  | nil => rfl
  | cons x T ih =>
    rw [List.length_cons, range_drop_one_map]
    cases T with
    | nil => rfl
    | cons y S =>
      rw [List.length_cons, range_drop_one_map] at ih
      rw [List.length_cons, List.range_succ_eq_map]
      simp only [prefixesRec, List.map_cons, List.map_map, ← ih]
      congr 1

theorem prefixesRec_cons_head (d c : Char) (s : Name) (ss : List Name) :
    prefixesRec d ((c :: s) :: ss) = (prefixesRec d (s :: ss)).map (c :: ·) := by
  cases ss with
  | nil => rfl
  | cons y S => simp [prefixesRec, List.map_map, Function.comp_def]

theorem prefixesRec_splitOn (d : Char) (n : Name) : prefixesRec d (splitOn d n) = Spec.superiors d n := by
  induction n with
  | nil => rfl
  | cons c cs ih =>
    obtain ⟨s, ss, hs⟩ := splitOn_ne_nil d cs
    by_cases h : c = d
    · rw [splitOn_cons_eq d c cs h, hs]
      simp only [prefixesRec, Spec.superiors, h, if_true]
      rw [← hs, ih]
      simp
    · rw [splitOn_cons_ne d c cs s ss h hs, prefixesRec_cons_head, ← hs, ih]
      simp [Spec.superiors, h]

/-- `listSuperiors` computes the reference `superiors` -/
theorem listSuperiors_eq (d : Char) (n : Name) : listSuperiors d n = Spec.superiors d n := by
  simp only [listSuperiors]
  rw [prefixes_eq_rec, prefixesRec_splitOn]

/-! ### canon -/

theorem isInbox_eq (s : Name) : isInbox s = Spec.isInboxSeg s := rfl

theorem headD_splitOn (d : Char) (n : Name) : (splitOn d n).headD [] = n.takeWhile (· != d) := by
  induction n with
  | nil => rfl
  | cons c cs ih =>
    obtain ⟨s, ss, hs⟩ := splitOn_ne_nil d cs
    by_cases h : c = d
    · rw [splitOn_cons_eq d c cs h]; simp [h]
    · rw [splitOn_cons_ne d c cs s ss h hs]
      rw [hs] at ih
      simp at ih
      simp [h, ih]

/-- replacing the first segment and joining again = new first segment ++ the rest of the name from
    its first delimiter on -/
theorem join_replace_head (d : Char) (n : Name) : ∀ (s : Name) (ss : List Name) (x : Name),
    splitOn d n = s :: ss → join d (x :: ss) = x ++ n.dropWhile (· != d) := by
  induction n with
  | nil =>
    intro s ss x h
    simp [splitOn] at h
    rw [h.2]
    simp [join]
  | cons c cs ih =>
    intro s ss x h
    obtain ⟨s', ss', hs'⟩ := splitOn_ne_nil d cs
    by_cases hc : c = d
    · rw [splitOn_cons_eq d c cs hc, hs'] at h
      simp at h
      rw [← h.2, join_cons_cons, ← hs', join_splitOn]
      simp [hc]
    · rw [splitOn_cons_ne d c cs s' ss' hc hs'] at h
      simp at h
      rw [← h.2, ih s' ss' x hs']
      simp [hc]

/-- `canon` computes the reference canonical spelling (first hierarchy segment only) -/
theorem canon_eq (d : Char) (n : Name) : canon d n = Spec.canon d n := by
  obtain ⟨s, ss, hs⟩ := splitOn_ne_nil d n
  have hh := headD_splitOn d n
  rw [hs] at hh
  simp at hh
  simp only [canon, Spec.canon, hs]
  rw [join_replace_head d n s ss _ hs, hh]
  rfl

/-! ### matchRoot -/

theorem matchRoot_eq (d : Char) (ref : Name) : matchRoot d ref = Spec.root d ref := by
  simp only [matchRoot, Spec.root, headD_splitOn]
  by_cases hc : d ∈ ref
  · have : ref.contains d = true := by simpa using hc
    simp only [this, hc, if_true, Bool.not_true]
    cases ref with
    | nil => simp at hc
    | cons c cs =>
      by_cases h : c = d
      · simp [h]
      · have h' : ¬ (some c = some d) := by simpa using h
        simp [h, h']
  · have : ref.contains d = false := by simpa using hc
    simp [hc]

/-! ### listInferiors -/

theorem ltName_irrefl (a : Name) : ltName a a = false := by
  induction a with
  | nil => rfl
  | cons x xs ih => simp [ltName, ih]

theorem ltName_asymm {a b : Name} (h : ltName a b = true) : ltName b a = false := by
  induction a generalizing b with
  | nil => cases b <;> simp_all [ltName]
  | cons x xs ih =>
    cases b with
    | nil => simp [ltName] at h
    | cons y ys =>
      simp only [ltName] at h ⊢
      by_cases h1 : x.toNat < y.toNat
      · have : ¬ y.toNat < x.toNat := by omega
        simp [this, h1]
      · by_cases h2 : y.toNat < x.toNat
        · simp [h1, h2] at h
        · simp [h1, h2] at h ⊢
          exact ih h

/-- negative transitivity: `a < c → a < b ∨ b < c` -/
theorem ltName_neg_trans {a c : Name} (b : Name) (h : ltName a c = true) :
    ltName a b = true ∨ ltName b c = true := by
  induction a generalizing b c with
  | nil =>
    cases c with
    | nil => simp [ltName] at h
    | cons z zs => cases b <;> simp [ltName]
  | cons x xs ih =>
    cases c with
    | nil => simp [ltName] at h
    | cons z zs =>
      cases b with
      | nil => simp [ltName]
      | cons y ys =>
        simp only [ltName] at h ⊢
        by_cases h1 : x.toNat < z.toNat
        · by_cases h2 : x.toNat < y.toNat
          · simp [h2]
          · have h3 : y.toNat < z.toNat := by omega
            simp [h3]
        · by_cases h1' : z.toNat < x.toNat
          · simp [h1, h1'] at h
          · simp [h1, h1'] at h
            have hxz : x.toNat = z.toNat := by omega
            by_cases h2 : x.toNat < y.toNat
            · simp [h2]
            · by_cases h3 : y.toNat < x.toNat
              · right
                have : y.toNat < z.toNat := by omega
                simp [this]
              · have e1 : ¬ y.toNat < z.toNat := by omega
                have e2 : ¬ z.toNat < y.toNat := by omega
                simp [h2, h3, e1, e2]
                exact ih ys h

theorem insertSorted_perm (x : Name) (l : List Name) : (insertSorted x l).Perm (x :: l) := by
  induction l with
  | nil => exact List.Perm.refl _
  | cons y ys ih =>
    simp only [insertSorted]
    split
    · exact (List.Perm.cons y ih).trans (List.Perm.swap x y ys)
    · exact List.Perm.refl _

theorem sortNames_perm (l : List Name) : (sortNames l).Perm l := by
  induction l with
  | nil => exact List.Perm.refl _
  | cons x xs ih => exact (insertSorted_perm x _).trans (List.Perm.cons x ih)

/-- ascending: no later element is smaller than an earlier one -/
def Ascending (l : List Name) : Prop := l.Pairwise fun a b => ltName b a = false

theorem insertSorted_sorted (x : Name) (l : List Name) (h : Ascending l) : Ascending (insertSorted x l) := by
  induction l with
  | nil => simp [insertSorted, Ascending]
  | cons y ys ih =>
    simp only [Ascending, List.pairwise_cons] at h
    simp only [insertSorted]
    split
    next hyx =>
      simp only [Ascending, List.pairwise_cons]
      refine ⟨?_, ih h.2⟩
      intro z hz
      have := (insertSorted_perm x ys).mem_iff.mp hz
      rcases List.mem_cons.mp this with rfl | hz'
      · exact ltName_asymm hyx
      · exact h.1 z hz'
    next hyx =>
      have hyx' : ltName y x = false := by simpa using hyx
      simp only [Ascending, List.pairwise_cons]
      refine ⟨?_, h⟩
      intro z hz
      rcases List.mem_cons.mp hz with rfl | hz'
      · exact hyx'
      · have hzy := h.1 z hz'
        cases hzx : ltName z x with
        | false => rfl
        | true =>
          rcases ltName_neg_trans y hzx with h1 | h1
          · rw [hzy] at h1; cases h1
          · rw [hyx'] at h1; cases h1

theorem sortNames_sorted (l : List Name) : Ascending (sortNames l) := by
  induction l with
  | nil => simp [sortNames, Ascending]
  | cons x xs ih => exact insertSorted_sorted x _ ih

end Gluon.Match
