/- What one responder does to the snapshot, as a plain function (`snapStep`), and handling a whole
   queue as a fold (`run`) (C02). -/
import GluonModel.Lemmas.ConvergeFlags
import GluonModel.Lemmas.Explicable

namespace Gluon

/-- the flags an EXISTS puts into the snapshot of session `sid` -/
def exFlags (sid t : StateId) (fl : Flags) : Flags :=
  if t != sid then Flags.remove1 fl Flags.recent else fl

/-- first message with this id -/
def Snap.look (s : Snap) (id : MsgId) : Option SMsg := s.find? (·.id == id)

/-- the snapshot part of `Responder.handle` (it does not depend on the CLOSE context) -/
def snapStep (sid : StateId) (s : Snap) : Responder → Except Err Snap
  | .exists id uid fl t o =>
    if s.has id then .ok s
    else if o == some sid then s.insert id uid (exFlags sid t fl)
    else s.insertOutOfOrder id uid (exFlags sid t fl)
  | .expunge id => .ok (s.eraseP (·.id == id))
  | .fetch id fl op _ _ other =>
    .ok (match s.look id with
      | none => s
      | some m => s.setFlags id (newFlags m.flags op fl other))

theorem Snap.get?_look (s : Snap) (id : MsgId) : (s.get? id).map (·.2) = s.look id := by
  induction s with
  | nil => simp [Snap.get?, Snap.look]
  | cons a t ih =>
    simp only [Snap.get?, Snap.look, List.findIdx?_cons, List.find?_cons] at ih ⊢
    by_cases h : (a.id == id) = true
    · simp [h]
    · simp only [h, Bool.false_eq_true, if_false]
      cases hf : List.findIdx? (fun x => x.id == id) t with
      | none =>
        simp only [hf] at ih
        simpa using ih
      | some i =>
        simp only [hf, Option.map_some] at ih ⊢
        simp only [List.getElem?_cons_succ]
        cases hi : t[i]? with
        | none => simpa [hi] using ih
        | some m => simpa [hi] using ih

theorem Snap.look_of_get? {s : Snap} {id : MsgId} {seq : Nat} {m : SMsg} (h : s.get? id = some (seq, m)) :
    s.look id = some m := by
  rw [← Snap.get?_look, h]; rfl

theorem Snap.look_none_of_get? {s : Snap} {id : MsgId} (h : s.get? id = none) : s.look id = none := by
  rw [← Snap.get?_look, h]; rfl

theorem Snap.look_eq_none_iff {s : Snap} {id : MsgId} : s.look id = none ↔ s.has id = false := by
  simp [Snap.look, Snap.has]

theorem Snap.eraseP_of_not_has {s : Snap} {id : MsgId} (h : s.has id = false) : s.eraseP (·.id == id) = s := by
  apply List.eraseP_of_forall_not
  intro x hx
  simp only [Snap.has, List.any_eq_false] at h
  exact h x hx

/-- `handle` = `snapStep` on the snapshot, and fails exactly when `snapStep` does -/
theorem handle_snapStep (r : Responder) (close : Bool) (sid : StateId) (s : Snap) :
    match snapStep sid s r with
    | .ok s' => (r.handle close sid s).err = none ∧ (r.handle close sid s).snap = s'
    | .error e => (r.handle close sid s).err = some e := by
  cases r with
  | «exists» id uid fl t o =>
    simp only [snapStep, Responder.handle, exFlags]
    by_cases hh : s.has id = true
    · simp [hh]
    · simp only [hh, Bool.false_eq_true, if_false]
      generalize (if (o == some sid) = true then _ else _ : Except Err Snap) = ins
      cases ins with
      | error e => simp
      | ok s' => simp only; split <;> simp
  | expunge id =>
    simp only [snapStep, Responder.handle]
    cases hget : s.get? id with
    | none => simp [Snap.eraseP_of_not_has (Snap.get?_none hget)]
    | some p =>
      obtain ⟨seq, m⟩ := p
      obtain ⟨_, _, _, hf⟩ := Snap.get?_spec hget
      have he : s.eraseP (·.id == id) = s.eraseIdx (seq - 1) := by
        rw [List.eraseP_eq_eraseIdx, hf]
      simp only [Snap.remove_of_get? hget, he]
      split <;> simp
  | fetch id fl op a b c =>
    simp only [snapStep, Responder.handle]
    cases hget : s.get? id with
    | none => simp [Snap.look_none_of_get? hget]
    | some p =>
      obtain ⟨seq, m⟩ := p
      simp only [Snap.look_of_get? hget]
      have hne : ∀ n, (s.setFlags id n).get? id ≠ none := by
        intro n
        obtain ⟨x', hget', _, _⟩ := Snap.get?_setFlags n hget
        simp [hget']
      cases op <;> cases c <;> simp only [newFlags, if_true, Bool.false_eq_true, if_false] <;>
        (split
         · next h => exact absurd h (hne _)
         · split
           · simp
           · split <;> simp)

theorem handle_err_iff (r : Responder) (close : Bool) (sid : StateId) (s : Snap) :
    (r.handle close sid s).err = none ↔ ∃ s', snapStep sid s r = .ok s' := by
  have := handle_snapStep r close sid s
  cases h : snapStep sid s r with
  | ok s' => simp only [h] at this; simp [this.1]
  | error e => simp only [h] at this; simp [this]

theorem handle_snap_of_ok {r : Responder} {close : Bool} {sid : StateId} {s s' : Snap}
    (h : snapStep sid s r = .ok s') : (r.handle close sid s).err = none ∧ (r.handle close sid s).snap = s' := by
  have := handle_snapStep r close sid s
  simpa only [h] using this

/-- handling a list of responders in order; `none` = some responder failed -/
def run (sid : StateId) : Snap → List Responder → Option Snap
  | s, [] => some s
  | s, r :: rs =>
    match snapStep sid s r with
    | .ok s' => run sid s' rs
    | .error _ => none

theorem run_append (sid : StateId) (s : Snap) (l1 l2 : List Responder) :
    run sid s (l1 ++ l2) = (run sid s l1).bind fun s' => run sid s' l2 := by
  induction l1 generalizing s with
  | nil => simp [run]
  | cons r rs ih =>
    simp only [List.cons_append, run]
    cases snapStep sid s r with
    | ok s' => exact ih s'
    | error e => rfl

/-- `run` is `handleAll` (any CLOSE context) seen on the snapshot -/
theorem run_eq_some_iff (close : Bool) (sid : StateId) (s s' : Snap) (rs : List Responder) :
    run sid s rs = some s' ↔
      (handleAll close sid s rs).2.2.2 = none ∧ (handleAll close sid s rs).1 = s' := by
  induction rs generalizing s with
  | nil => simp [run, handleAll]
  | cons r rs ih =>
    simp only [run, handleAll]
    have hs := handle_snapStep r close sid s
    cases h : snapStep sid s r with
    | ok s1 =>
      simp only [h] at hs
      simp only [hs.1, hs.2]
      exact ih s1
    | error e =>
      simp only [h] at hs
      simp [hs]

theorem replayOk_iff (sid : StateId) (s : Snap) (rs : List Responder) :
    replayOk sid s rs ↔ run sid s rs = some (replay sid s rs) := by
  rw [run_eq_some_iff false]
  simp [replayOk, replay]

theorem run_inv {sid : StateId} {s s' : Snap} {rs : List Responder} (hinv : Snap.Inv s)
    (h : run sid s rs = some s') : Snap.Inv s' := by
  obtain ⟨_, rfl⟩ := (run_eq_some_iff false sid s s' rs).mp h
  exact handleAll_inv false sid rs hinv

theorem snapStep_inv {sid : StateId} {s s' : Snap} {r : Responder} (hinv : Snap.Inv s)
    (h : snapStep sid s r = .ok s') : Snap.Inv s' := by
  obtain ⟨_, rfl⟩ := handle_snap_of_ok (close := false) h
  exact handle_inv r false sid hinv

end Gluon
