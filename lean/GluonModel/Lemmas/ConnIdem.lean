/-
Idempotence lemmas for C06: an update that only restates the index (`Restates`) is acknowledged
with success, leaves the index exactly as it was and queues nothing a client can observe.
-/
import GluonModel.Lemmas.ConnBasic

namespace Gluon.ConnUpd

/-- success, index untouched (in particular no UID assigned: every `seq` is unchanged), no
    EXISTS / EXPUNGE / FETCH queued -/
def NoEffect (db : DB) (r : Res) : Prop :=
  r.err = none ∧ r.db = db ∧ r.evs.all (fun e => !e.observable) = true

theorem noEffect_ok (db : DB) : NoEffect db (Res.ok db []) := ⟨rfl, rfl, rfl⟩

theorem idem_MC (cfg : Cfg) (db : DB) (rid : RID) (name : String)
    (h : Restates cfg db (.mailboxCreated rid name) = true) : NoEffect db (applyMailboxCreated cfg db rid name) := by
  simp only [Restates, Bool.and_eq_true, bne_iff_ne, ne_eq] at h
  obtain ⟨h1, h2⟩ := h
  unfold applyMailboxCreated
  have h1' : (rid == cfg.recoveryRID) = false := by simpa using h1
  cases hm : db.mboxByRid rid with
  | none => simp [hm] at h2
  | some m => simp [h1', hm]; exact noEffect_ok db

theorem idem_MD (cfg : Cfg) (db : DB) (rid : RID)
    (h : Restates cfg db (.mailboxDeleted rid) = true) : NoEffect db (applyMailboxDeleted cfg db rid) := by
  simp only [Restates, Bool.and_eq_true, bne_iff_ne, ne_eq, DB.known, Bool.not_eq_true', Option.isSome_eq_false_iff,
    Option.isNone_iff_eq_none] at h
  obtain ⟨h1, h2⟩ := h
  unfold applyMailboxDeleted
  have h1' : (rid == cfg.recoveryRID) = false := by simpa using h1
  simp [h1', h2]; exact noEffect_ok db

theorem idem_MU (cfg : Cfg) (db : DB) (hi : InvP db) (rid : RID) (name : String)
    (h : Restates cfg db (.mailboxUpdated rid name) = true) : NoEffect db (applyMailboxUpdated cfg db rid name) := by
  simp only [Restates, Bool.and_eq_true, bne_iff_ne, ne_eq] at h
  obtain ⟨h1, h2⟩ := h
  unfold applyMailboxUpdated
  have h1' : (rid == cfg.recoveryRID) = false := by simpa using h1
  cases hm : db.mboxByRid rid with
  | none => simp [hm] at h2
  | some m =>
    simp only [hm] at h2
    have hn : m.name = name := by simpa using h2
    obtain ⟨hmem, _⟩ := mboxByRid_some hm
    simp only [h1', Bool.false_eq_true, if_false]
    by_cases hr : m.name = (if lowerAscii name == "inbox" then "INBOX" else name)
    · simp [hr]; exact noEffect_ok db
    · have hclash : (db.mboxes.any (fun x => x.iid != m.iid && x.name == name)) = false := by
        rw [List.any_eq_false]
        intro x hx
        simp only [Bool.and_eq_true, bne_iff_ne, ne_eq, beq_iff_eq, not_and]
        intro hne hname
        apply hne
        have : x = m := eq_of_key_eq (fun m : Mbox => m.name) db.mboxes x m hi.mboxName hx hmem (by simp [hname, hn])
        rw [this]
      have hb : (m.name == (if lowerAscii name == "inbox" then "INBOX" else name)) = false := by simpa using hr
      simp only [hb, Bool.false_eq_true, if_false, hclash]
      have : db.updMbox m.iid (fun x => { x with name := name }) = db :=
        updMbox_noop hi hmem _ (by rw [← hn])
      rw [this]; exact noEffect_ok db

theorem idem_MI (cfg : Cfg) (db : DB) (hi : InvP db) (iid : Nat) (rid : RID)
    (h : Restates cfg db (.mailboxIDChanged iid rid) = true) : NoEffect db (applyMailboxIDChanged cfg db iid rid) := by
  simp only [Restates, Bool.and_eq_true, bne_iff_ne, ne_eq] at h
  obtain ⟨h1, h2⟩ := h
  unfold applyMailboxIDChanged
  have h1' : (iid == cfg.recoveryIID) = false := by simpa using h1
  cases hm : db.mboxByIid iid with
  | none => simp [hm] at h2
  | some m =>
    simp only [hm] at h2
    have hr : m.rid = rid := by simpa using h2
    obtain ⟨hmem, hiid⟩ := mboxByIid_some hm
    have hclash : (db.mboxes.any (fun x => x.iid != iid && x.rid == rid)) = false := by
      rw [List.any_eq_false]
      intro x hx
      simp only [Bool.and_eq_true, bne_iff_ne, ne_eq, beq_iff_eq, not_and]
      intro hne hrid
      apply hne
      have : x = m := eq_of_key_eq (fun m : Mbox => m.rid) db.mboxes x m hi.mboxRid hx hmem (by simp [hrid, hr])
      rw [this, hiid]
    simp only [h1', Bool.false_eq_true, if_false, hclash]
    have : db.updMbox iid (fun x => { x with rid := rid }) = db := by
      rw [← hiid]; exact updMbox_noop hi hmem _ (by rw [← hr])
    rw [this]
    exact ⟨rfl, rfl, rfl⟩

/-- `setMessageFlags` with the flags the message already has -/
theorem setMessageFlags_same (db : DB) (hi : InvP db) (g : Msg) (hg : g ∈ db.msgs) (flags : List Flag)
    (hs : sameSet g.flags flags = true) : setMessageFlags db g.iid flags = .ok (db, []) := by
  unfold setMessageFlags
  rw [msgByIid_of_mem hi hg]
  rw [sameSet_iff] at hs
  have hrem : g.flags.filter (fun f => !flags.contains f) = [] := by
    rw [List.filter_eq_nil_iff]
    intro f hf
    simp [(hs f).1 hf]
  have hadd : (dedup flags).filter (fun f => !g.flags.contains f) = [] := by
    rw [List.filter_eq_nil_iff]
    intro f hf
    have : f ∈ flags := (mem_dedup f flags).1 hf
    simp [(hs f).2 this]
  have hkeep : g.flags.filter (fun f => flags.contains f) = g.flags := by
    rw [List.filter_eq_self]
    intro f hf
    simp [(hs f).1 hf]
  simp only [hrem, hadd, hkeep, List.append_nil, List.map_nil]
  rw [updMsg_noop hi hg _ rfl]

theorem liveMsg_some {db : DB} {rid : RID} {g : Msg} (h : db.liveMsg rid = some g) :
    db.msgByRid rid = some g ∧ g.deleted = false := by
  unfold DB.liveMsg at h
  cases hm : db.msgByRid rid with
  | none => simp [hm] at h
  | some x =>
    simp only [hm] at h
    split at h
    · simp at h
    · rename_i hd
      simp only [Option.some.injEq] at h
      subst h
      exact ⟨rfl, by simpa using hd⟩

theorem idem_MFU (db : DB) (hi : InvP db) (cfg : Cfg) (rid : RID) (flags : List Flag)
    (h : Restates cfg db (.messageFlagsUpdated rid flags) = true) : NoEffect db (applyMessageFlagsUpdated db rid flags) := by
  simp only [Restates] at h
  cases hl : db.liveMsg rid with
  | none => simp [hl] at h
  | some g =>
    simp only [hl] at h
    obtain ⟨hm, _⟩ := liveMsg_some hl
    obtain ⟨hmem, _⟩ := msgByRid_some hm
    unfold applyMessageFlagsUpdated
    simp only [hm, setMessageFlags_same db hi g hmem flags h]
    exact noEffect_ok db

theorem removeFromAll_nil (db : DB) (msg : Nat) : removeFromAll db msg [] = (db, []) := rfl

theorem mailboxesOf_nil_of_not_has (db : DB) (msg : Nat) (h : db.mboxes.any (fun m => m.has msg) = false) :
    db.mailboxesOf msg = [] := by
  unfold DB.mailboxesOf
  rw [List.any_eq_false] at h
  have : db.mboxes.filter (fun m => m.has msg) = [] := by
    rw [List.filter_eq_nil_iff]; exact h
  simp [this]

theorem idem_MSD (db : DB) (hi : InvP db) (cfg : Cfg) (rid : RID)
    (h : Restates cfg db (.messageDeleted rid) = true) : NoEffect db (applyMessageDeleted db rid) := by
  simp only [Restates] at h
  unfold applyMessageDeleted
  cases hm : db.msgByRid rid with
  | none => exact noEffect_ok db
  | some g =>
    simp only [hm, Bool.and_eq_true, Bool.not_eq_true'] at h
    obtain ⟨hd, hnot⟩ := h
    obtain ⟨hmem, _⟩ := msgByRid_some hm
    have h1 : db.updMsg g.iid (fun m => { m with deleted := true }) = db :=
      updMsg_noop hi hmem _ (by rw [← hd])
    simp only [h1, mailboxesOf_nil_of_not_has db g.iid hnot, removeFromAll_nil]
    exact noEffect_ok db

theorem idem_MSI (cfg : Cfg) (db : DB) (hi : InvP db) (iid : Nat) (rid : RID)
    (h : Restates cfg db (.messageIDChanged iid rid) = true) : NoEffect db (applyMessageIDChanged cfg db iid rid) := by
  simp only [Restates, Bool.and_eq_true] at h
  obtain ⟨h1, h2⟩ := h
  unfold applyMessageIDChanged
  cases hm : db.msgByIid iid with
  | none => simp [hm] at h2
  | some g =>
    simp only [hm] at h2
    have hr : g.rid = rid := by simpa using h2
    obtain ⟨hmem, hiid⟩ := msgByIid_some hm
    have hclash : (db.msgs.any (fun x => x.iid != iid && x.rid == rid)) = false := by
      rw [List.any_eq_false]
      intro x hx
      simp only [Bool.and_eq_true, bne_iff_ne, ne_eq, beq_iff_eq, not_and]
      intro hne hrid
      apply hne
      have : x = g := eq_of_key_eq (fun g : Msg => g.rid) db.msgs x g hi.msgRid hx hmem (by simp [hrid, hr])
      rw [this, hiid]
    simp only [h1, Bool.not_true, Bool.false_eq_true, if_false, hclash]
    have : db.updMsg iid (fun x => { x with rid := rid }) = db := by
      rw [← hiid]; exact updMsg_noop hi hmem _ (by rw [← hr])
    rw [this]
    exact ⟨rfl, rfl, rfl⟩

end Gluon.ConnUpd
