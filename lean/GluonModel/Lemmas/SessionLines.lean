/-
What a "line" of the reader loop is, independently of the parser: on a stream without `{` (no literal can be
announced) and without bare LF, every line the reader hands on contains exactly ONE LF, its last byte — the
reader's lines are the CRLF-terminated lines of the stream, and their number is the number of CRLF pairs.
Rests on `Plain` (`Lemmas/ParsePlain.lean`): no parsing function moves over a CR or an LF, except the final
`Consume(CR)` of `Parse`.
-/
import GluonModel.Lemmas.SessionReader
import GluonModel.Lemmas.ParsePlain

namespace Gluon.SessionLoop
open Gluon.Parse

/-! ### `lfOk`, `crlfCount` -/

/-- a clean stretch (no CR, no LF) followed by LF is not `lfOk` unless it is empty and a CR came before -/
theorem lfOkAux_clean (post : Bytes) : ∀ (C : Bytes) (p : Bool), (10 : UInt8) ∉ C → (13 : UInt8) ∉ C →
    lfOkAux p (C ++ 10 :: post) = true → p = true ∧ C = [] := by
  intro C
  induction C with
  | nil =>
    intro p _ _ h
    simp [lfOkAux] at h
    exact ⟨h.1, rfl⟩
  | cons x C ih =>
    intro p h10 h13 h
    have hx10 : x ≠ 10 := fun e => h10 (by rw [e]; exact List.mem_cons_self ..)
    have hx13 : x ≠ 13 := fun e => h13 (by rw [e]; exact List.mem_cons_self ..)
    simp only [List.cons_append, lfOkAux, hx10, if_false] at h
    have hb : (x == 13) = false := by simpa using hx13
    rw [hb] at h
    have := ih false (fun m => h10 (List.mem_cons_of_mem _ m)) (fun m => h13 (List.mem_cons_of_mem _ m)) h
    cases this.1

/-- what follows an LF of an `lfOk` stream is `lfOk` again (as a stream of its own: not preceded by CR) -/
theorem lfOkAux_after (R : Bytes) : ∀ (A : Bytes) (p : Bool), lfOkAux p (A ++ 10 :: R) = true → lfOkAux false R = true := by
  intro A
  induction A with
  | nil => intro p h; simp [lfOkAux] at h; exact h.2
  | cons x A ih =>
    intro p h
    simp only [List.cons_append, lfOkAux] at h
    split at h
    · simp only [Bool.and_eq_true] at h
      exact ih false h.2
    · exact ih _ h

/-- in an `lfOk` stream the number of CRLF pairs is the number of LFs -/
theorem crlfCountAux_eq_count : ∀ (l : Bytes) (p : Bool), lfOkAux p l = true → crlfCountAux p l = l.count 10 := by
  intro l
  induction l with
  | nil => intro p _; rfl
  | cons x l ih =>
    intro p h
    simp only [lfOkAux] at h
    simp only [crlfCountAux]
    split at h
    · rename_i hx
      simp only [Bool.and_eq_true] at h
      simp only [hx, if_true, h.1, List.count_cons_self]
      rw [ih false h.2]; omega
    · rename_i hx
      simp only [hx, if_false]
      rw [ih _ h]
      have : (x == 10) = false := by simpa using hx
      simp [List.count_cons, this]

/-! ### `Parse` on a stream without `{` -/

def LineShape (s : PState) : Res Command → Prop
  | .ok _ s' => ∃ C, s.rest = C ++ 13 :: 10 :: s'.rest ∧ Clean C
  | .err _ s' => Loaded s' ∧ ∃ C, s.rest = C ++ s'.input ∧ (10 : UInt8) ∉ C ∧
      (lfOk s.rest = true → s'.cur.ty ≠ .eof → s'.cur.val ≠ 10)
  | .fuel => True

theorem parseLine_shape (fuel : Nat) (s : PState) (hn : NoCurly s.rest) : LineShape s (parseLine fuel s) := by
  rw [parseLine_eq, bind_eq]
  obtain ⟨s1, e, hi, hl⟩ := advance_input s
  rw [e]
  show LineShape s (parseLineBody fuel s1)
  have hn1 : NoCurly s1.input := by rw [hi]; exact hn
  -- an error state reached by clean moves only
  have cleanErr : ∀ (se : PState), Loaded se → (∃ C, s1.input = C ++ se.input ∧ Clean C) →
      Loaded se ∧ ∃ C, s.rest = C ++ se.input ∧ (10 : UInt8) ∉ C ∧
        (lfOk s.rest = true → se.cur.ty ≠ .eof → se.cur.val ≠ 10) := by
    intro se hle ⟨C, hC, cC⟩
    refine ⟨hle, C, by rw [← hi]; exact hC, cC.1, ?_⟩
    intro hok hne h10
    have hse : se.input = 10 :: se.rest := by rw [input_of_cur_ne hne, h10]
    have : lfOkAux false (C ++ 10 :: se.rest) = true := by
      rw [← hse, ← hC, hi]; exact hok
    have := lfOkAux_clean se.rest C false cC.1 cC.2 this
    cases this.1
  unfold parseLineBody
  rw [bind_eq]
  cases ht : parseTag fuel s1 with
  | fuel => exact True.intro
  | err et s2 =>
    obtain ⟨hl2, h2⟩ := Plain.err hl hn1 ht
    exact cleanErr s2 hl2 h2
  | ok tag s2 =>
    obtain ⟨hl2, C2, h2, c2⟩ := Plain.ok hl hn1 ht
    have hn2 : NoCurly s2.input := by rw [h2] at hn1; exact hn1.of_append
    simp only
    rw [bind_eq]
    split
    · rename_i cmd s3 hc
      obtain ⟨hl3, C3, h3, c3⟩ := Plain.ok hl2 hn2 hc
      have h13 : s1.input = (C2 ++ C3) ++ s3.input := by rw [h2, h3]; simp
      have c23 : Clean (C2 ++ C3) := c2.append c3
      rw [bind_eq]
      cases hcr : consume TokTy.cr s3 with
      | fuel => exact True.intro
      | err ec s4 =>
        -- `Consume(CR)` fails in place
        have : s4 = s3 := by
          unfold consume consumeWith at hcr
          split at hcr
          · obtain ⟨sa, ea, _⟩ := advance_input s3
            rw [ea] at hcr; cases hcr
          · unfold makeError at hcr; cases hcr; rfl
        rw [this]
        exact cleanErr s3 hl3 ⟨_, h13, c23⟩
      | ok u s4 =>
        simp only
        have hcur : s3.cur.ty = .cr ∧ advance s3 = .ok () s4 := by
          unfold consume consumeWith at hcr
          split at hcr
          · rename_i hc'
            exact ⟨by simpa using hc', hcr⟩
          · cases hcr
        obtain ⟨sa, ea, hia, hla⟩ := advance_input s3
        rw [ea] at hcur
        have hs4 : sa = s4 := by cases hcur.2; rfl
        subst hs4
        have hne3 : s3.cur.ty ≠ .eof := by rw [hcur.1]; decide
        have hv3 : s3.cur.val = 13 := (tokTy_cr _).mp (by rw [← hl3.2 hne3]; exact hcur.1)
        have h3in : s3.input = 13 :: sa.input := by rw [input_of_cur_ne hne3, hv3, hia]
        have hfull : s.rest = (C2 ++ C3) ++ 13 :: sa.input := by rw [← hi, h13, h3in]
        rw [bind_eq]
        have hchk : check TokTy.lf sa = .ok (sa.cur.ty == .lf) sa := rfl
        rw [hchk]
        simp only
        split
        · -- `expected LF after CR`
          rename_i hb
          have hnlf : sa.cur.ty ≠ .lf := by simpa using hb
          show _ ∧ _
          refine ⟨hla, (C2 ++ C3) ++ [13], by rw [hfull]; simp, ?_, ?_⟩
          · have h1 := c23.1
            simp only [List.mem_append, List.mem_singleton, not_or] at h1 ⊢
            exact ⟨h1, by decide⟩
          · intro _ hne h10
            apply hnlf
            rw [hla.2 hne, h10]; rfl
        · rename_i hb
          have hlf : sa.cur.ty = .lf := by simpa using hb
          have hne : sa.cur.ty ≠ .eof := by rw [hlf]; decide
          have hv : sa.cur.val = 10 := (tokTy_lf _).mp (by rw [← hla.2 hne]; exact hlf)
          show ∃ C, _
          refine ⟨C2 ++ C3, ?_, c23⟩
          rw [hfull, input_of_cur_ne hne, hv]
    · rename_i ec s3 hc
      obtain ⟨hl3, C3, h3, c3⟩ := Plain.err hl2 hn2 hc
      exact cleanErr s3 hl3 ⟨C2 ++ C3, by rw [h2, h3]; simp, c2.append c3⟩
    · exact True.intro

/-- **a line is the bytes up to the first LF**: on a stream without `{` and without bare LF, every line the
reader hands on contains exactly one LF, its last byte -/
theorem readStep_one_lf (cfg : Cfg) (fuel : Nat) (s : PState) (l : Line) (s' : PState)
    (hn : NoCurly s.rest) (hok : lfOk s.rest = true) (h : readStep cfg fuel s = .line l s') :
    ∃ A, l.bytes = A ++ [10] ∧ (10 : UInt8) ∉ A ∧ s.rest = l.bytes ++ s'.rest := by
  obtain ⟨A0, hA0, hsplit⟩ := readStep_line_lf cfg fuel s l s' h
  -- it is enough to exhibit the split of `s.rest` with an LF-free first part
  have key : ∀ A, (10 : UInt8) ∉ A → s.rest = A ++ 10 :: s'.rest →
      ∃ A, l.bytes = A ++ [10] ∧ (10 : UInt8) ∉ A ∧ s.rest = l.bytes ++ s'.rest := by
    intro A hA hs
    have : l.bytes ++ s'.rest = (A ++ [10]) ++ s'.rest := by rw [← hsplit, hs]; simp
    have := List.append_cancel_right this
    exact ⟨A, this, hA, hsplit⟩
  have hshape := parseLine_shape fuel s hn
  unfold readStep at h
  cases hp : parseLine fuel s with
  | fuel => rw [hp] at h; cases h
  | err e s1 =>
    rw [hp] at h hshape
    obtain ⟨hl1, C, hC, cC, hcur⟩ : Loaded s1 ∧ ∃ C, s.rest = C ++ s1.input ∧ (10 : UInt8) ∉ C ∧
        (lfOk s.rest = true → s1.cur.ty ≠ .eof → s1.cur.val ≠ 10) := hshape
    cases e with
    | panic => cases h
    | ioEOF => cases h
    | parse t =>
      simp only at h
      split at h
      · cases h
      · cases hci : consumeInvalidInput s1 with
        | mk s2 ok =>
          rw [hci] at h
          cases ok with
          | false => cases h
          | true =>
            simp only at h
            split at h
            · cases h
            · cases h
              rcases consumeInvalidInput_true s1 s' hci with ⟨_, hlf⟩ | ⟨pre, hpre, hpre10⟩
              · -- the look-ahead token cannot be the LF in a stream without bare LF
                exfalso
                have hne : s1.cur.ty ≠ .eof := by rw [hlf]; decide
                exact hcur hok hne ((tokTy_lf _).mp (by rw [← hl1.2 hne]; exact hlf))
              by_cases he : s1.cur.ty = .eof
              · -- nothing left: `ConsumeInvalidInput` cannot have succeeded
                have := hl1.1 he
                rw [this] at hpre
                cases pre <;> cases hpre
              · have hv := hcur hok he
                refine key (C ++ s1.cur.val :: pre) ?_ ?_
                · simp only [List.mem_append, List.mem_cons, not_or]
                  exact ⟨cC, fun e' => hv e'.symm, hpre10⟩
                · rw [hC, input_of_cur_ne he, hpre]; simp
  | ok c s1 =>
    rw [hp] at h hshape
    obtain ⟨C, hC, cC⟩ : ∃ C, s.rest = C ++ 13 :: 10 :: s1.rest ∧ Clean C := hshape
    have hs1 : s' = s1 := by
      simp only at h
      split at h
      · split at h
        · cases h; rfl
        · split at h
          · cases h
          · cases h; rfl
      · cases h; rfl
    subst hs1
    refine key (C ++ [13]) ?_ (by rw [hC]; simp)
    simp only [List.mem_append, List.mem_singleton, not_or]
    exact ⟨cC.1, by decide⟩

/-! ### counting -/

theorem readStep_exit_eof (cfg : Cfg) (fuel : Nat) (s : PState) (b : Bool) (h : readStep cfg fuel s = .exit (.eof b)) :
    b = s.rest.isEmpty := by
  unfold readStep at h
  cases hp : parseLine fuel s with
  | fuel => rw [hp] at h; cases h
  | err e s1 =>
    rw [hp] at h
    cases e with
    | panic => cases h
    | ioEOF => cases h
    | parse t =>
      simp only at h
      split at h
      · split at h
        · cases h; rfl
        · cases h
      · cases hci : consumeInvalidInput s1 with
        | mk s2 ok =>
          rw [hci] at h
          cases ok with
          | false => cases h; rfl
          | true => simp only at h; split at h <;> cases h
  | ok c s1 =>
    rw [hp] at h
    simp only at h
    split at h
    · split at h
      · cases h
      · split at h <;> cases h
    · cases h

/-- on a stream without `{` and without bare LF: every line has exactly one LF; and when the reader stops
because the stream is exhausted at a line boundary, the lines are the whole stream -/
theorem readAll_lines (cfg : Cfg) (fuel : Nat) : ∀ n s, NoCurly s.rest → lfOk s.rest = true →
    (∀ l ∈ (readAll cfg fuel n s).1, l.bytes.count 10 = 1) ∧
    ((readAll cfg fuel n s).2 = .eof true → ((readAll cfg fuel n s).1.map (·.bytes)).flatten = s.rest) := by
  intro n
  induction n with
  | zero => intro s _ _; exact ⟨fun l h => (by cases h), fun h => (by cases h)⟩
  | succ n ih =>
    intro s hn hok
    rw [readAll_succ]
    cases hr : readStep cfg fuel s with
    | exit e =>
      refine ⟨fun l h => (by cases h), fun h => ?_⟩
      simp only at h
      rw [h] at hr
      have := readStep_exit_eof cfg fuel s true hr
      have : s.rest = [] := by
        cases hs : s.rest with
        | nil => rfl
        | cons _ _ => rw [hs] at this; cases this
      rw [this]; rfl
    | line l s' =>
      obtain ⟨A, hA, hA10, hsplit⟩ := readStep_one_lf cfg fuel s l s' hn hok hr
      have hcount : l.bytes.count 10 = 1 := by
        rw [hA, List.count_append, List.count_eq_zero_of_not_mem hA10]; rfl
      have hn' : NoCurly s'.rest := by rw [hsplit] at hn; exact hn.of_append
      have hok' : lfOk s'.rest = true := by
        unfold lfOk at hok ⊢
        rw [hsplit, hA] at hok
        simp only [List.append_assoc, List.singleton_append] at hok
        exact lfOkAux_after s'.rest A false hok
      obtain ⟨ih1, ih2⟩ := ih s' hn' hok'
      obtain ⟨lb, lr⟩ := l
      have more : (∀ x ∈ (⟨lb, lr⟩ :: (readAll cfg fuel n s').1 : List Line), x.bytes.count 10 = 1) ∧
          ((readAll cfg fuel n s').2 = .eof true →
            (((⟨lb, lr⟩ :: (readAll cfg fuel n s').1 : List Line).map (·.bytes)).flatten = s.rest)) := by
        refine ⟨fun x hx => ?_, fun he => ?_⟩
        · rcases List.mem_cons.mp hx with hx | hx
          · rw [hx]; exact hcount
          · exact ih1 x hx
        · simp only [List.map_cons, List.flatten_cons]
          rw [ih2 he, hsplit]
      cases lr with
      | tlsOk t =>
        refine ⟨fun x hx => ?_, fun he => (by cases he)⟩
        rcases List.mem_cons.mp hx with hx | hx
        · rw [hx]; exact hcount
        · cases hx
      | err t => exact more
      | cmd c => exact more
      | tlsNo t => exact more

theorem count_flatten_ones (ls : List Bytes) (h : ∀ l ∈ ls, l.count 10 = 1) : ls.flatten.count 10 = ls.length := by
  induction ls with
  | nil => rfl
  | cons l ls ih =>
    simp only [List.flatten_cons, List.count_append, List.length_cons]
    rw [h l (List.mem_cons_self ..), ih (fun x hx => h x (List.mem_cons_of_mem _ hx))]
    omega

end Gluon.SessionLoop
