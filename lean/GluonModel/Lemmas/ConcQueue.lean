/- Invariants of the QueuedChannel transition system (Model/Conc.lean, part 1). -/
import GluonModel.Model.Conc

namespace Gluon.Conc
open QState

variable {α : Type}

/-- what holds in every state the queue can get into -/
structure QInv (s : QState α) : Prop where
  /-- conservation: reader's items, channel buffer, consumer's hand, discarded item, queue — in this
      order — are exactly what was appended, in append order -/
  cons : s.received ++ s.buf ++ s.held ++ s.dropped ++ s.items = s.accepted
  bufLe : s.buf.length ≤ s.cap
  dropStop : s.dropped ≠ [] → s.stopped = true
  dropExit : s.consumer ≠ .exited → s.dropped = []
  /-- no lost wake-up: a consumer asleep in cond.Wait while `closed` is set has a Broadcast coming -/
  wake : s.closed = true → s.consumer = .sleeping → 0 < s.pendingBcast
  sleepEmpty : s.consumer = .sleeping → s.items = []

theorem qinv_init (cap : Nat) : QInv (QState.init cap : QState α) := by
  constructor <;> simp [QState.init, QState.held]

theorem held_wake (s : QState α) : (match wake s.consumer with | .holding x => [x] | _ => []) = s.held := by
  unfold QState.held wake; cases s.consumer <;> rfl

theorem qinv_step (s : QState α) (st : QStep α) (h : QInv s) : QInv (s.step st) := by
  obtain ⟨hc, hb, hds, hde, hw, hse⟩ := h
  cases st with
  | enqCheck b =>
    simp only [step]; split
    · exact ⟨hc, hb, hds, hde, hw, hse⟩
    · exact ⟨hc, hb, hds, hde, hw, hse⟩
  | enqAppend i =>
    simp only [step]; split
    · exact ⟨hc, hb, hds, hde, hw, hse⟩
    · next b _ =>
      constructor
      · simp only [QState.held] at hc ⊢
        cases hcons : s.consumer <;> simp [hcons, wake] at hc ⊢ <;> simp [← hc]
      · exact hb
      · exact hds
      · intro hne; apply hde; intro he; simp [he, wake] at hne
      · intro _ hsl; cases hcons : s.consumer <;> simp [hcons, wake] at hsl
      · intro hsl; cases hcons : s.consumer <;> simp [hcons, wake] at hsl
  | closeStore =>
    simp only [step]
    exact ⟨hc, hb, hds, hde, fun _ _ => Nat.succ_pos _, hse⟩
  | closeBcast =>
    simp only [step]; split
    · exact ⟨hc, hb, hds, hde, hw, hse⟩
    · constructor
      · simp only [QState.held] at hc ⊢
        cases hcons : s.consumer <;> simp [hcons, wake] at hc ⊢ <;> exact hc
      · exact hb
      · exact hds
      · intro hne; apply hde; intro he; simp [he, wake] at hne
      · intro _ hsl; cases hcons : s.consumer <;> simp [hcons, wake] at hsl
      · intro hsl; cases hcons : s.consumer <;> simp [hcons, wake] at hsl
  | stop =>
    simp only [step]; split
    · exact ⟨hc, hb, hds, hde, hw, hse⟩
    · exact ⟨hc, hb, fun _ => rfl, hde, hw, hse⟩
  | consume =>
    simp only [step]
    cases hcons : s.consumer with
    | atPop =>
      simp only
      cases hit : s.items with
      | nil =>
        simp only
        have hd : s.dropped = [] := hde (by simp [hcons])
        split
        · refine ⟨?_, hb, hds, ?_, ?_, ?_⟩
          · simpa [QState.held, hcons, hit] using hc
          · intro hne; simp at hne
          · intro _ hsl; simp at hsl
          · intro hsl; simp at hsl
        · next hcl =>
          refine ⟨?_, hb, hds, ?_, ?_, ?_⟩
          · simpa [QState.held, hcons, hit] using hc
          · intro _; exact hd
          · intro hcl'; simp at hcl'; simp [hcl'] at hcl
          · intro _; rfl
      | cons x rest =>
        simp only
        have hd : s.dropped = [] := hde (by simp [hcons])
        refine ⟨?_, hb, hds, ?_, ?_, ?_⟩
        · simpa [QState.held, hcons, hit, hd] using hc
        · intro _; exact hd
        · intro _ hsl; simp at hsl
        · intro hsl; simp at hsl
    | sleeping => exact ⟨hc, hb, hds, hde, hw, hse⟩
    | holding x =>
      simp only
      have hd : s.dropped = [] := hde (by simp [hcons])
      split
      · next hlt =>
        refine ⟨?_, ?_, hds, ?_, ?_, ?_⟩
        · simpa [QState.held, hcons, hd] using hc
        · simp; omega
        · intro _; exact hd
        · intro _ hsl; simp at hsl
        · intro hsl; simp at hsl
      · exact ⟨hc, hb, hds, hde, hw, hse⟩
    | exited => exact ⟨hc, hb, hds, hde, hw, hse⟩
  | consumeStop =>
    simp only [step]
    cases hcons : s.consumer with
    | holding x =>
      simp only
      have hd : s.dropped = [] := hde (by simp [hcons])
      split
      · next hst =>
        refine ⟨?_, hb, fun _ => hst, ?_, ?_, ?_⟩
        · simpa [QState.held, hcons, hd] using hc
        · intro hne; simp at hne
        · intro _ hsl; simp at hsl
        · intro hsl; simp at hsl
      · exact ⟨hc, hb, hds, hde, hw, hse⟩
    | atPop => exact ⟨hc, hb, hds, hde, hw, hse⟩
    | sleeping => exact ⟨hc, hb, hds, hde, hw, hse⟩
    | exited => exact ⟨hc, hb, hds, hde, hw, hse⟩
  | recv =>
    simp only [step]
    cases hbuf : s.buf with
    | cons y rest =>
      simp only
      refine ⟨?_, ?_, hds, hde, hw, hse⟩
      · simpa [QState.held, hbuf] using hc
      · simp [hbuf] at hb; simp only; omega
    | nil =>
      simp only
      cases hcons : s.consumer with
      | holding x =>
        simp only
        have hd : s.dropped = [] := hde (by simp [hcons])
        refine ⟨?_, by simp, hds, ?_, ?_, ?_⟩
        · simpa [QState.held, hcons, hbuf, hd] using hc
        · intro _; exact hd
        · intro _ hsl; simp at hsl
        · intro hsl; simp at hsl
      | atPop => exact ⟨hc, hb, hds, hde, hw, hse⟩
      | sleeping => exact ⟨hc, hb, hds, hde, hw, hse⟩
      | exited => exact ⟨hc, hb, hds, hde, hw, hse⟩

theorem qinv_run (s : QState α) (steps : List (QStep α)) (h : QInv s) : QInv (s.run steps) := by
  induction steps generalizing s with
  | nil => exact h
  | cons st rest ih => exact ih _ (qinv_step s st h)

theorem run_append (s : QState α) (a b : List (QStep α)) : s.run (a ++ b) = (s.run a).run b := by
  simp [QState.run, List.foldl_append]

/-! ### flags are monotone, `cap` is constant -/

theorem step_cap (s : QState α) (st : QStep α) : (s.step st).cap = s.cap := by
  cases st <;> simp only [step] <;> (repeat' split) <;> rfl

theorem step_closed (s : QState α) (st : QStep α) (h : s.closed = true) : (s.step st).closed = true := by
  cases st <;> simp only [step] <;> (repeat' split) <;> first | exact h | rfl

theorem step_stopped (s : QState α) (st : QStep α) (h : s.stopped = true) : (s.step st).stopped = true := by
  cases st <;> simp only [step] <;> (repeat' split) <;> first | exact h | rfl

end Gluon.Conc

namespace Gluon.Conc
open QState
variable {α : Type}

/-! ### after CloseAndDiscardQueued the consumer can leave by itself -/

theorem cdq_exit' (s : QState α) (hst : s.stopped = true) (hcl : s.closed = true)
    (hns : s.consumer ≠ .sleeping) :
    ∃ steps : List (QStep α), steps.length ≤ 2 ∧ (∀ st ∈ steps, st.isConsumer = true) ∧
      (s.run steps).consumer = .exited := by
  cases hcons : s.consumer with
  | exited => exact ⟨[], by simp, by simp, by simpa [QState.run] using hcons⟩
  | sleeping => exact absurd hcons hns
  | holding x =>
    refine ⟨[.consumeStop], by simp, by simp [QStep.isConsumer], ?_⟩
    simp [QState.run, step, hcons, hst]
  | atPop =>
    cases hit : s.items with
    | nil =>
      refine ⟨[.consume], by simp, by simp [QStep.isConsumer], ?_⟩
      simp [QState.run, step, hcons, hit, hcl]
    | cons x rest =>
      refine ⟨[.consume, .consumeStop], by simp, by simp [QStep.isConsumer], ?_⟩
      simp [QState.run, step, hcons, hit, hst]

theorem cdq_exit (s : QState α) (h : QInv s) (hst : s.stopped = true) (hcl : s.closed = true)
    (hb : s.pendingBcast = 0) :
    ∃ steps : List (QStep α), steps.length ≤ 2 ∧ (∀ st ∈ steps, st.isConsumer = true) ∧
      (s.run steps).consumer = .exited :=
  cdq_exit' s hst hcl (fun hsl => by have := h.wake hcl hsl; omega)

/-- once `closed` is set a consumer that is awake never goes to sleep again -/
theorem awake_step (s : QState α) (st : QStep α) (hcl : s.closed = true) (hns : s.consumer ≠ .sleeping) :
    (s.step st).consumer ≠ .sleeping := by
  cases st <;> simp only [step] <;> (repeat' split) <;>
    first
    | exact hns
    | (intro h; cases h)
    | (cases hc : s.consumer <;> simp_all [wake])

theorem awake_run (s : QState α) (steps : List (QStep α)) (hcl : s.closed = true)
    (hns : s.consumer ≠ .sleeping) : (s.run steps).consumer ≠ .sleeping := by
  induction steps generalizing s with
  | nil => exact hns
  | cons st rest ih => exact ih _ (step_closed s st hcl) (awake_step s st hcl hns)

/-- the Broadcast of a Close that has stored `closed` finds the consumer awake or wakes it -/
theorem bcast_awake (s : QState α) (h : QInv s) (hcl : s.closed = true) :
    (s.step .closeBcast).consumer ≠ .sleeping := by
  simp only [step]; split
  · next hz => intro hsl; have := h.wake hcl hsl; omega
  · cases hc : s.consumer <;> simp [wake]

theorem run_closed (s : QState α) (steps : List (QStep α)) (h : s.closed = true) : (s.run steps).closed = true := by
  induction steps generalizing s with
  | nil => exact h
  | cons st rest ih => exact ih _ (step_closed s st h)

theorem run_stopped (s : QState α) (steps : List (QStep α)) (h : s.stopped = true) : (s.run steps).stopped = true := by
  induction steps generalizing s with
  | nil => exact h
  | cons st rest ih => exact ih _ (step_stopped s st h)

/-! ### after plain Close the consumer leaves if a reader drains -/

theorem drain_exit (k : Nat) (s : QState α) (hm : 2 * s.items.length + s.held.length ≤ k)
    (hcl : s.closed = true) (hb : s.buf.length ≤ s.cap) (hns : s.consumer ≠ .sleeping) :
    ∃ steps : List (QStep α), (∀ st ∈ steps, st.isConsumerOrRecv = true) ∧
      (s.run steps).consumer = .exited := by
  induction k generalizing s with
  | zero =>
    cases hcons : s.consumer with
    | exited => exact ⟨[], by simp, by simpa [QState.run] using hcons⟩
    | sleeping => exact absurd hcons hns
    | holding x => simp [QState.held, hcons] at hm
    | atPop =>
      have hit : s.items = [] := by
        cases hi : s.items with
        | nil => rfl
        | cons _ _ => simp [hi] at hm
      refine ⟨[.consume], by simp [QStep.isConsumerOrRecv], ?_⟩
      simp [QState.run, step, hcons, hit, hcl]
  | succ k ih =>
    cases hcons : s.consumer with
    | exited => exact ⟨[], by simp, by simpa [QState.run] using hcons⟩
    | sleeping => exact absurd hcons hns
    | atPop =>
      cases hit : s.items with
      | nil =>
        refine ⟨[.consume], by simp [QStep.isConsumerOrRecv], ?_⟩
        simp [QState.run, step, hcons, hit, hcl]
      | cons x rest =>
        have hstep : s.step .consume = { s with items := rest, consumer := .holding x } := by
          simp [step, hcons, hit]
        obtain ⟨steps, hall, hex⟩ := ih (s.step .consume)
          (by rw [hstep]; simp [QState.held, hit] at hm ⊢; omega)
          (by rw [hstep]; exact hcl) (by rw [hstep]; exact hb) (by rw [hstep]; simp)
        refine ⟨.consume :: steps, ?_, ?_⟩
        · intro st hst; cases hst with
          | head => rfl
          | tail _ h' => exact hall st h'
        · simpa [QState.run] using hex
    | holding x =>
      cases hbuf : s.buf with
      | nil =>
        have hstep : s.step .recv = { s with consumer := .atPop, received := s.received ++ [x] } := by
          simp [step, hcons, hbuf]
        obtain ⟨steps, hall, hex⟩ := ih (s.step .recv)
          (by rw [hstep]; simp [QState.held, hcons] at hm ⊢; omega)
          (by rw [hstep]; exact hcl) (by rw [hstep]; exact hb) (by rw [hstep]; simp)
        refine ⟨.recv :: steps, ?_, ?_⟩
        · intro st hst; cases hst with
          | head => rfl
          | tail _ h' => exact hall st h'
        · simpa [QState.run] using hex
      | cons y rest =>
        have hlt : rest.length < s.cap := by simp [hbuf] at hb; omega
        have hstep : (s.step .recv).step .consume =
            { s with buf := rest ++ [x], consumer := .atPop, received := s.received ++ [y] } := by
          simp [step, hcons, hbuf, hlt]
        obtain ⟨steps, hall, hex⟩ := ih ((s.step .recv).step .consume)
          (by rw [hstep]; simp [QState.held, hcons] at hm ⊢; omega)
          (by rw [hstep]; exact hcl) (by rw [hstep]; simp; omega) (by rw [hstep]; simp)
        refine ⟨.recv :: .consume :: steps, ?_, ?_⟩
        · intro st hst; cases hst with
          | head => rfl
          | tail _ h' => cases h' with
            | head => rfl
            | tail _ h'' => exact hall st h''
        · simpa [QState.run] using hex

/-! ### without a reader and without stopCh, more than `cap` items in the machinery pin the consumer -/

/-- the pinned situation -/
def Pinned (s : QState α) : Prop :=
  s.buf.length ≤ s.cap ∧ s.stopped = false ∧ s.consumer ≠ .exited ∧ s.cap < s.load

theorem pinned_step (s : QState α) (st : QStep α) (hst : st.noReaderNoStop = true) (h : Pinned s) :
    Pinned (s.step st) := by
  obtain ⟨hb, hs, hne, hl⟩ := h
  unfold QState.load QState.held at hl
  unfold Pinned QState.load QState.held
  cases st with
  | recv => simp [QStep.noReaderNoStop] at hst
  | stop => simp [QStep.noReaderNoStop] at hst
  | enqCheck b => simp only [step]; split <;> exact ⟨hb, hs, hne, hl⟩
  | enqAppend i =>
    simp only [step]; split
    · exact ⟨hb, hs, hne, hl⟩
    · cases hcons : s.consumer <;> simp [hcons, wake] at hne hl ⊢ <;> refine ⟨hb, hs, ?_⟩ <;> omega
  | closeStore => simp only [step]; exact ⟨hb, hs, hne, hl⟩
  | closeBcast =>
    simp only [step]; split
    · exact ⟨hb, hs, hne, hl⟩
    · cases hcons : s.consumer <;> simp [hcons, wake] at hne hl ⊢ <;> exact ⟨hb, hs, hl⟩
  | consume =>
    simp only [step]
    cases hcons : s.consumer with
    | exited => exact absurd hcons hne
    | sleeping => simp only; rw [hcons]; exact ⟨hb, hs, by simp, by simpa [hcons] using hl⟩
    | atPop =>
      simp only
      cases hit : s.items with
      | nil => simp [hcons, hit] at hl; omega
      | cons x rest =>
        simp only
        refine ⟨hb, hs, by simp, ?_⟩
        simp [hcons, hit] at hl ⊢; omega
    | holding x =>
      simp only
      split
      · next hlt =>
        refine ⟨by simp; omega, hs, by simp, ?_⟩
        simp [hcons] at hl ⊢; omega
      · rw [hcons]; exact ⟨hb, hs, by simp, by simpa [hcons] using hl⟩
  | consumeStop =>
    simp only [step]
    cases hcons : s.consumer with
    | holding x =>
      simp only [hs]
      simp only [Bool.false_eq_true, if_false]
      rw [hcons]; exact ⟨hb, hs, by simp, by simpa [hcons] using hl⟩
    | atPop => simp only; rw [hcons]; exact ⟨hb, hs, by simp, by simpa [hcons] using hl⟩
    | sleeping => simp only; rw [hcons]; exact ⟨hb, hs, by simp, by simpa [hcons] using hl⟩
    | exited => exact absurd hcons hne

theorem pinned_run (s : QState α) (steps : List (QStep α)) (hall : ∀ st ∈ steps, st.noReaderNoStop = true)
    (h : Pinned s) : Pinned (s.run steps) := by
  induction steps generalizing s with
  | nil => exact h
  | cons st rest ih =>
    exact ih _ (fun x hx => hall x (List.mem_cons_of_mem _ hx)) (pinned_step s st (hall st (List.mem_cons_self ..)) h)

/-! ### nothing is accepted after close once the racing Enqueue calls have landed -/

theorem sealed_step (s : QState α) (st : QStep α) (hcl : s.closed = true) (hp : s.pendingEnq = []) :
    (s.step st).accepted = s.accepted ∧ (s.step st).pendingEnq = [] ∧ (s.step st).closed = true := by
  refine ⟨?_, ?_, step_closed s st hcl⟩
  · cases st <;> simp only [step, hcl, hp] <;> (repeat' split) <;> first | rfl | simp_all
  · cases st <;> simp only [step, hcl, hp] <;> (repeat' split) <;> first | exact hp | rfl | simp_all

theorem sealed_run (s : QState α) (steps : List (QStep α)) (hcl : s.closed = true) (hp : s.pendingEnq = []) :
    (s.run steps).accepted = s.accepted := by
  induction steps generalizing s with
  | nil => rfl
  | cons st rest ih =>
    obtain ⟨ha, hp', hc'⟩ := sealed_step s st hcl hp
    have := ih (s.step st) hc' hp'
    simpa [QState.run, ha] using this

end Gluon.Conc
