/- `response.Merge` preserves what a client reconstructs (mirror semantics) and cannot panic on an
   explicable stream. -/
import GluonModel.Spec.Mirror

namespace Gluon
open Resp

namespace Mirror

theorem applyAll_append (m : Mirror) (a b : List Resp) :
    applyAll m (a ++ b) = (applyAll m a).bind (fun m' => applyAll m' b) := by
  induction a generalizing m with
  | nil => simp [applyAll]
  | cons r rs ih =>
    simp only [List.cons_append, applyAll]
    cases m.apply r with
    | none => simp
    | some m' => simpa using ih m'

theorem applyAll_snoc {m : Mirror} {l : List Resp} {r : Resp} {m2 : Mirror}
    (h : applyAll m (l ++ [r]) = some m2) : ∃ μ, applyAll m l = some μ ∧ μ.apply r = some m2 := by
  rw [applyAll_append] at h
  cases hl : applyAll m l with
  | none => simp [hl] at h
  | some μ =>
    refine ⟨μ, rfl, ?_⟩
    simp only [hl, Option.bind_some, applyAll] at h
    cases hr : μ.apply r with
    | none => simp [hr] at h
    | some m' => simpa [hr] using h

theorem applyAll_snoc_mk {m μ : Mirror} {l : List Resp} {r : Resp} {m2 : Mirror}
    (h1 : applyAll m l = some μ) (h2 : μ.apply r = some m2) : applyAll m (l ++ [r]) = some m2 := by
  rw [applyAll_append, h1]
  simp [applyAll, h2]

/-- the length never shrinks through a non-EXPUNGE response -/
theorem apply_len_mono {m m' : Mirror} {o : Resp} (ho : o.isExpunge = false) (h : m.apply o = some m') :
    m.msgs.length ≤ m'.msgs.length := by
  cases o with
  | expunge s => simp [Resp.isExpunge] at ho
  | «exists» n =>
    simp only [apply] at h
    split at h
    · simp at h
    · simp at h; subst h; simp
  | recent n =>
    simp only [apply] at h
    split at h
    · simp at h
    · simp at h; subst h; simp
  | fetch s f u =>
    simp only [apply] at h
    split at h
    · simp at h
    · split at h
      · simp at h
      · split at h
        · simp at h
        · simp at h; subst h; simp

theorem apply_fetch_bound {m m' : Mirror} {s f u} (h : m.apply (.fetch s f u) = some m') :
    1 ≤ s ∧ s ≤ m.msgs.length := by
  simp only [apply] at h
  split at h
  · simp at h
  · next hs =>
    split at h
    · simp at h
    · next e he =>
      have := (List.getElem?_eq_some_iff.mp he).1
      omega

end Mirror

open Mirror

theorem MEntry.learn_learn {e e1 e2 : MEntry} {f f' : Option Flags} {u u' : Option UID}
    (h1 : e.learn f' u' = some e1) (h2 : e1.learn f u = some e2) :
    e.learn (f.or f') (u.or u') = some e2 := by
  unfold MEntry.learn at h1
  split at h1
  · simp at h1
  · next c1 =>
    simp only [Option.some.injEq] at h1; subst h1
    unfold MEntry.learn at h2
    split at h2
    · simp at h2
    · next c2 =>
      simp only [Option.some.injEq] at h2; subst h2
      unfold MEntry.learn
      obtain ⟨eu, ef⟩ := e
      cases u <;> cases u' <;> cases eu <;> cases f <;> cases f' <;> simp_all

theorem Mirror.apply_fetch_some {m m' : Mirror} {s f u} (h : m.apply (.fetch s f u) = some m') :
    ∃ e e', s ≠ 0 ∧ m.msgs[s - 1]? = some e ∧ e.learn f u = some e' ∧
      m' = { m with msgs := m.msgs.set (s - 1) e' } := by
  simp only [apply] at h
  split at h
  · simp at h
  · next hs =>
    split at h
    · simp at h
    · next e he =>
      split at h
      · simp at h
      · next e' hl => simp at h; exact ⟨e, e', hs, he, hl, h.symm⟩

theorem Mirror.apply_fetch_mk {m : Mirror} {s f u} {e e' : MEntry} (hs : s ≠ 0)
    (he : m.msgs[s - 1]? = some e) (hl : e.learn f u = some e') :
    m.apply (.fetch s f u) = some { m with msgs := m.msgs.set (s - 1) e' } := by
  simp [apply, hs, he, hl]

/-- L1: merging `new` into `o` has the same effect as applying `o` then `new`; and it cannot panic
    when both steps are explicable. -/
theorem mergeWith_sound {new o : Resp} {m m1 m2 : Mirror}
    (h1 : m.apply o = some m1) (h2 : m1.apply new = some m2) :
    ∀ x, mergeWith new o = some x → ∃ r, x = .ok r ∧ m.apply r = some m2 := by
  intro x hx
  cases new with
  | expunge s => cases o <;> simp [mergeWith] at hx
  | «exists» n =>
    cases o with
    | «exists» k =>
      simp only [apply] at h1
      split at h1
      · simp at h1
      · next hk =>
        simp at h1; subst h1
        simp only [apply, List.length_append, List.length_replicate] at h2
        have hlen : m.msgs.length + (k - m.msgs.length) = k := by omega
        rw [hlen] at h2
        split at h2
        · simp at h2
        · next hn =>
          simp at h2; subst h2
          simp only [mergeWith] at hx
          have hkn : ¬ k > n := by omega
          simp only [hkn, if_false] at hx
          simp at hx; subst hx
          refine ⟨_, rfl, ?_⟩
          simp only [apply]
          have : ¬ n < m.msgs.length := by omega
          have h3 : k - m.msgs.length + (n - k) = n - m.msgs.length := by omega
          simp [this, h3]
    | _ => simp [mergeWith] at hx
  | recent n =>
    cases o with
    | recent k =>
      simp only [apply] at h1
      split at h1
      · simp at h1
      · next hk =>
        simp at h1; subst h1
        simp only [apply] at h2
        split at h2
        · simp at h2
        · next hn =>
          simp at h2; subst h2
          simp only [mergeWith] at hx
          have hkn : ¬ k > n := by omega
          simp only [hkn, if_false] at hx
          simp at hx; subst hx
          refine ⟨_, rfl, ?_⟩
          simp only [apply]
          have : ¬ n < m.recentLB := by omega
          simp [this]
    | _ => simp [mergeWith] at hx
  | fetch s f u =>
    cases o with
    | fetch s' f' u' =>
      simp only [mergeWith] at hx
      split at hx
      · simp at hx
      · next hss =>
        have hss' : s' = s := by simpa using hss
        subst hss'
        simp at hx; subst hx
        refine ⟨_, rfl, ?_⟩
        obtain ⟨e, e1, hs0, he, hl1, rfl⟩ := apply_fetch_some h1
        obtain ⟨e1', e2, _, he1, hl2, rfl⟩ := apply_fetch_some h2
        have hlt : s' - 1 < m.msgs.length := (List.getElem?_eq_some_iff.mp he).1
        simp only [List.getElem?_set_self hlt] at he1
        simp at he1; subst he1
        rw [apply_fetch_mk hs0 he (MEntry.learn_learn hl1 hl2)]
        simp [List.set_set]
    | _ => simp [mergeWith] at hx

theorem Mirror.apply_exists_iff {m m' : Mirror} {n : Nat} :
    m.apply (.exists n) = some m' ↔
      m.msgs.length ≤ n ∧ m' = { m with msgs := m.msgs ++ List.replicate (n - m.msgs.length) {} } := by
  simp only [apply]
  split
  · constructor
    · simp
    · intro ⟨h, _⟩; omega
  · constructor
    · intro h; simp at h; exact ⟨by omega, h.symm⟩
    · intro ⟨_, h⟩; simp [h]

theorem Mirror.apply_recent_iff {m m' : Mirror} {n : Nat} :
    m.apply (.recent n) = some m' ↔ m.recentLB ≤ n ∧ m' = { m with recentLB := n } := by
  simp only [apply]
  split
  · constructor
    · simp
    · intro ⟨h, _⟩; omega
  · constructor
    · intro h; simp at h; exact ⟨by omega, h.symm⟩
    · intro ⟨_, h⟩; simp [h]

/-- side condition under which a FETCH may be moved in front of an EXISTS -/
def SideOK (new : Resp) (μ : Mirror) : Prop :=
  match new with
  | .fetch s _ _ => s ≤ μ.msgs.length
  | _ => True

/-- L2: a response that `canSkip` an older one commutes with it -/
theorem skip_commute {new o : Resp} {m m1 m2 : Mirror} (hskip : canSkip new o = true)
    (hside : SideOK new m) (h1 : m.apply o = some m1) (h2 : m1.apply new = some m2) :
    ∃ m1', m.apply new = some m1' ∧ m1'.apply o = some m2 := by
  cases new with
  | expunge s => cases o <;> simp [canSkip] at hskip
  | «exists» n =>
    cases o with
    | «exists» k => simp [canSkip] at hskip
    | expunge k => simp [canSkip] at hskip
    | recent k =>
      obtain ⟨hk, rfl⟩ := apply_recent_iff.mp h1
      obtain ⟨hn, rfl⟩ := apply_exists_iff.mp h2
      exact ⟨_, apply_exists_iff.mpr ⟨hn, rfl⟩, apply_recent_iff.mpr ⟨hk, rfl⟩⟩
    | fetch s' f' u' =>
      obtain ⟨e, e', hs0, he, hl, rfl⟩ := apply_fetch_some h1
      obtain ⟨hn, rfl⟩ := apply_exists_iff.mp h2
      simp only [List.length_set] at hn
      refine ⟨_, apply_exists_iff.mpr ⟨hn, rfl⟩, ?_⟩
      have hlt : s' - 1 < m.msgs.length := (List.getElem?_eq_some_iff.mp he).1
      have he' : (m.msgs ++ List.replicate (n - m.msgs.length) ({} : MEntry))[s' - 1]? = some e := by
        rw [List.getElem?_append_left hlt]; exact he
      rw [apply_fetch_mk (m := { m with msgs := m.msgs ++ List.replicate (n - m.msgs.length) {} }) hs0 he' hl]
      simp [List.set_append_left _ _ hlt]
  | recent n =>
    cases o with
    | recent k => simp [canSkip] at hskip
    | expunge k => simp [canSkip] at hskip
    | «exists» k =>
      obtain ⟨hk, rfl⟩ := apply_exists_iff.mp h1
      obtain ⟨hn, rfl⟩ := apply_recent_iff.mp h2
      exact ⟨_, apply_recent_iff.mpr ⟨hn, rfl⟩, apply_exists_iff.mpr ⟨hk, rfl⟩⟩
    | fetch s' f' u' =>
      obtain ⟨e, e', hs0, he, hl, rfl⟩ := apply_fetch_some h1
      obtain ⟨hn, rfl⟩ := apply_recent_iff.mp h2
      refine ⟨_, apply_recent_iff.mpr ⟨hn, rfl⟩, ?_⟩
      rw [apply_fetch_mk (m := { m with recentLB := n }) hs0 he hl]
  | fetch s f u =>
    cases o with
    | expunge k => simp [canSkip] at hskip
    | «exists» k =>
      obtain ⟨hk, rfl⟩ := apply_exists_iff.mp h1
      obtain ⟨e, e', hs0, he, hl, rfl⟩ := apply_fetch_some h2
      have hlt : s - 1 < m.msgs.length := by simp only [SideOK] at hside; omega
      simp only [List.getElem?_append_left hlt] at he
      refine ⟨_, apply_fetch_mk hs0 he hl, ?_⟩
      refine apply_exists_iff.mpr ⟨by simpa using hk, ?_⟩
      simp [List.set_append_left _ _ hlt]
    | recent k =>
      obtain ⟨hk, rfl⟩ := apply_recent_iff.mp h1
      obtain ⟨e, e', hs0, he, hl, rfl⟩ := apply_fetch_some h2
      exact ⟨_, apply_fetch_mk hs0 he hl, apply_recent_iff.mpr ⟨hk, rfl⟩⟩
    | fetch s' f' u' =>
      have hne : s' ≠ s := by simpa [canSkip] using hskip
      obtain ⟨e, e1, hs0', he, hl, rfl⟩ := apply_fetch_some h1
      obtain ⟨e', e2, hs0, he', hl', rfl⟩ := apply_fetch_some h2
      have hidx : s' - 1 ≠ s - 1 := by omega
      simp only [List.getElem?_set_ne hidx] at he'
      refine ⟨_, apply_fetch_mk hs0 he' hl', ?_⟩
      have he2 : (m.msgs.set (s - 1) e2)[s' - 1]? = some e := by
        rw [List.getElem?_set_ne (Ne.symm hidx)]; exact he
      rw [apply_fetch_mk (m := { m with msgs := m.msgs.set (s - 1) e2 }) hs0' he2 hl]
      simp [List.set_comm _ _ hidx]

theorem mergeWith_fetch_some {s f u} {o : Resp} {x} (h : mergeWith (.fetch s f u) o = some x) :
    ∃ f' u', o = .fetch s f' u' := by
  cases o with
  | fetch s' f' u' =>
    simp only [mergeWith] at h
    split at h
    · simp at h
    · next hss => exact ⟨f', u', by have : s' = s := by simpa using hss
                                    rw [this]⟩
  | _ => simp [mergeWith] at h

theorem canSkip_not_expunge {new o : Resp} (h : canSkip new o = true) : o.isExpunge = false := by
  cases new <;> cases o <;> simp_all [canSkip, Resp.isExpunge]

/-- L3: if the backwards scan finds a merge partner for a FETCH, the position it names already
    existed at every point the scan passed. -/
theorem scan_side {new : Resp} {rest : List Resp} {m μ : Mirror} {x}
    (hs : scan new rest = some x) (h : applyAll m rest.reverse = some μ) : SideOK new μ := by
  cases new with
  | fetch s f u =>
    simp only [SideOK]
    induction rest generalizing μ x with
    | nil => simp [scan] at hs
    | cons o rest ih =>
      rw [List.reverse_cons] at h
      obtain ⟨μ', hμ', ho⟩ := applyAll_snoc h
      simp only [scan] at hs
      split at hs
      · next r hm =>
        obtain ⟨f', u', rfl⟩ := mergeWith_fetch_some hm
        have := apply_fetch_bound ho
        have hl := apply_len_mono (o := .fetch s f' u') rfl ho
        omega
      · next hm =>
        obtain ⟨f', u', rfl⟩ := mergeWith_fetch_some hm
        have := apply_fetch_bound ho
        have hl := apply_len_mono (o := .fetch s f' u') rfl ho
        omega
      · split at hs
        · next hskip =>
          have hl := apply_len_mono (canSkip_not_expunge hskip) ho
          split at hs
          · next rest' hsc => exact Nat.le_trans (ih (h := hμ') hsc) hl
          · next hsc => exact Nat.le_trans (ih (h := hμ') hsc) hl
          · simp at hs
        · simp at hs
  | _ => simp [SideOK]

/-- the backwards scan of `appendOrMergeResponse` is sound for the mirror and cannot panic -/
theorem scan_sound {new : Resp} {rev : List Resp} {m μ m2 : Mirror}
    (h : applyAll m rev.reverse = some μ) (h2 : μ.apply new = some m2) :
    ∀ x, scan new rev = some x → ∃ rev', x = .ok rev' ∧ applyAll m rev'.reverse = some m2 := by
  induction rev generalizing μ m2 with
  | nil => intro x hx; simp [scan] at hx
  | cons o rest ih =>
    intro x hx
    rw [List.reverse_cons] at h
    obtain ⟨μ', hμ', ho⟩ := applyAll_snoc h
    simp only [scan] at hx
    split at hx
    · next r hm =>
      obtain ⟨r', hr', happ⟩ := mergeWith_sound ho h2 _ hm
      simp at hr'; subst hr'
      simp at hx; subst hx
      exact ⟨_, rfl, by rw [List.reverse_cons]; exact applyAll_snoc_mk hμ' happ⟩
    · next hm =>
      obtain ⟨r', hr', _⟩ := mergeWith_sound ho h2 _ hm
      simp at hr'
    · split at hx
      · next hskip =>
        cases hsc : scan new rest with
        | none => simp [hsc] at hx
        | some y =>
          have hside := scan_side hsc hμ'
          obtain ⟨m1', hn, ho'⟩ := skip_commute hskip hside ho h2
          obtain ⟨rest', hy, hrest'⟩ := ih hμ' hn y hsc
          subst hy
          simp [hsc] at hx; subst hx
          exact ⟨_, rfl, by rw [List.reverse_cons]; exact applyAll_snoc_mk hrest' ho'⟩
      · simp at hx

theorem appendOrMergeRev_sound {new : Resp} {rev : List Resp} {m μ m2 : Mirror}
    (h : applyAll m rev.reverse = some μ) (h2 : μ.apply new = some m2) :
    ∃ rev', appendOrMergeRev rev new = .ok rev' ∧ applyAll m rev'.reverse = some m2 := by
  have hcons : applyAll m (new :: rev).reverse = some m2 := by
    rw [List.reverse_cons]; exact applyAll_snoc_mk h h2
  simp only [appendOrMergeRev]
  split
  · exact ⟨_, rfl, hcons⟩
  · cases hsc : scan new rev with
    | none => exact ⟨_, rfl, hcons⟩
    | some x =>
      obtain ⟨rev', hx, hr⟩ := scan_sound h h2 x hsc
      subst hx
      exact ⟨rev', rfl, hr⟩

theorem mergeRevAux_sound {input rev : List Resp} {m μ m' : Mirror}
    (h : applyAll m rev.reverse = some μ) (h2 : applyAll μ input = some m') :
    ∃ rev', mergeRevAux rev input = .ok rev' ∧ applyAll m rev'.reverse = some m' := by
  induction input generalizing rev μ with
  | nil =>
    simp only [applyAll] at h2
    simp at h2; subst h2
    exact ⟨rev, rfl, h⟩
  | cons r rs ih =>
    simp only [applyAll] at h2
    cases hr : μ.apply r with
    | none => simp [hr] at h2
    | some μ1 =>
      simp only [hr] at h2
      obtain ⟨rev1, h1, hrev1⟩ := appendOrMergeRev_sound h hr
      obtain ⟨rev', hm, hrev'⟩ := ih hrev1 h2
      exact ⟨rev', by simp [mergeRevAux, h1, hm], hrev'⟩

/-- **`Merge` is sound**: on every response stream a client can explain, `Merge` does not panic and
    the merged stream leads the client to exactly the same reconstruction. -/
theorem merge_sound_aux (m m' : Mirror) (input : List Resp) (h : applyAll m input = some m') :
    ∃ out, merge input = .ok out ∧ applyAll m out = some m' := by
  simp only [merge]
  split
  · exact ⟨input, rfl, h⟩
  · obtain ⟨rev', hm, hr⟩ := mergeRevAux_sound (m := m) (rev := []) (μ := m) (by simp [applyAll]) h
    exact ⟨rev'.reverse, by simp [hm], hr⟩

end Gluon
