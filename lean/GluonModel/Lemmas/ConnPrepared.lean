/-
Lemmas for the part of C06 that is about the states CLIENT commands prepare before a connector
update arrives (Model/ConnClientSubs.lean): `MailboxDeleted` of a mailbox whatever its subscription,
what it leaves in `deleted_subscriptions`, and the name being free again afterwards.
-/
import GluonModel.Lemmas.ConnEffect
import GluonModel.Model.ConnClientSubs

namespace Gluon.ConnUpd

/-- `applyMailboxDeleted` on a known, unprotected mailbox that is NOT subscribed: nothing is recorded
    in `deleted_subscriptions` by `DeleteMailboxWithRemoteID`, `RemoveDeletedSubscriptionWithName`
    removes whatever entry of that name there is (possibly none) — and the update succeeds. -/
theorem applyMailboxDeleted_unsubscribed (cfg : Cfg) (db : DB) (rid : RID) (mb : Mbox)
    (hr : rid ≠ cfg.recoveryRID) (hm : db.mboxByRid rid = some mb) (hs : mb.subscribed = false) :
    applyMailboxDeleted cfg db rid =
      Res.ok { db with mboxes := db.mboxes.filter (fun m => m.rid != rid),
                       delSubs := db.delSubs.filter (fun e => e.1 != mb.name) } [.mailboxDeleted mb.iid] := by
  have hr' : (rid == cfg.recoveryRID) = false := by simpa using hr
  unfold applyMailboxDeleted
  simp [hr', hm, hs]

/-- such an update is a valid one: validity does not depend on the subscription -/
theorem valid_mailboxDeleted_unsubscribed (cfg : Cfg) (db : DB) (rid : RID) (mb : Mbox)
    (hr : rid ≠ cfg.recoveryRID) (hm : db.mboxByRid rid = some mb) (hs : mb.subscribed = false) :
    Valid cfg db (.mailboxDeleted rid) = true := by
  simp [Valid, hr, hm, hs]

/-- the shape of every successful `applyMailboxDeleted` of a known mailbox -/
theorem applyMailboxDeleted_ok_shape (cfg : Cfg) (db : DB) (rid : RID) (mb : Mbox)
    (hm : db.mboxByRid rid = some mb) (hok : (applyMailboxDeleted cfg db rid).err = none) :
    ∃ ds : List (String × RID), (applyMailboxDeleted cfg db rid).db =
      { db with mboxes := db.mboxes.filter (fun m => m.rid != rid),
                delSubs := ds.filter (fun e => e.1 != mb.name) } := by
  unfold applyMailboxDeleted at hok ⊢
  by_cases hr : (rid == cfg.recoveryRID) = true
  · simp [hr, Res.fail] at hok
  · simp only [hr, Bool.false_eq_true, if_false, hm] at hok ⊢
    cases hds : (if mb.subscribed then addDeletedSub db.delSubs mb.name rid else some db.delSubs) with
    | none => rw [hds] at hok; simp [Res.fail] at hok
    | some ds => exact ⟨ds, by simp [Res.ok]⟩

/-- after a successful `MailboxDeleted` no deleted subscription carries the mailbox's name -/
theorem mailboxDeleted_no_subscription_left (cfg : Cfg) (db : DB) (rid : RID) (mb : Mbox)
    (hm : db.mboxByRid rid = some mb) (hok : (applyMailboxDeleted cfg db rid).err = none) :
    ∀ e ∈ (applyMailboxDeleted cfg db rid).db.delSubs, e.1 ≠ mb.name := by
  obtain ⟨ds, h⟩ := applyMailboxDeleted_ok_shape cfg db rid mb hm hok
  rw [h]
  intro e he
  simp only [List.mem_filter, bne_iff_ne, ne_eq] at he
  exact he.2

/-- …and no mailbox carries it: with unique names the deleted mailbox was the only one -/
theorem mailboxDeleted_name_free (cfg : Cfg) (db : DB) (hi : InvP db) (rid : RID) (mb : Mbox)
    (hm : db.mboxByRid rid = some mb) (hok : (applyMailboxDeleted cfg db rid).err = none) :
    (applyMailboxDeleted cfg db rid).db.mboxes.any (fun m => m.name == mb.name) = false := by
  obtain ⟨ds, h⟩ := applyMailboxDeleted_ok_shape cfg db rid mb hm hok
  rw [h]
  obtain ⟨hmem, hrid⟩ := mboxByRid_some hm
  simp only [List.any_eq_false, List.mem_filter, bne_iff_ne, ne_eq, beq_iff_eq, and_imp]
  intro m hmm hne hname
  have : m = mb := eq_of_key_eq (fun m : Mbox => m.name) db.mboxes m mb hi.mboxName hmm hmem hname
  exact hne (this ▸ hrid)

/-- the other fields a later `MailboxCreated` looks at are untouched -/
theorem mailboxDeleted_ok_fields (cfg : Cfg) (db : DB) (rid : RID) (mb : Mbox)
    (hm : db.mboxByRid rid = some mb) (hok : (applyMailboxDeleted cfg db rid).err = none) :
    (applyMailboxDeleted cfg db rid).db.gen = db.gen ∧
    (applyMailboxDeleted cfg db rid).db.mboxes = db.mboxes.filter (fun m => m.rid != rid) := by
  obtain ⟨ds, h⟩ := applyMailboxDeleted_ok_shape cfg db rid mb hm hok
  rw [h]; exact ⟨rfl, rfl⟩

end Gluon.ConnUpd
