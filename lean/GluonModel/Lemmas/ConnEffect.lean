/-
Effect lemmas for C06 (mailbox updates, MessageFlagsUpdated, UIDValidityBumped, Noop): a valid update
succeeds and changes the index exactly as `effectOK` says.
-/
import GluonModel.Lemmas.ConnFrame
import GluonModel.Lemmas.ConnIdem

namespace Gluon.ConnUpd

def Applied (u : Update) (db : DB) (r : Res) : Prop := r.err = none ∧ effectOK u db r.db = true

/-- with unique keys, a member satisfying `q` is what a look-up by its key among the `q`-elements finds -/
theorem find?_filter_of_mem {α κ : Type} [BEq κ] [LawfulBEq κ] (f : α → κ) (q : α → Bool) :
    ∀ (l : List α) (x : α), nodupKeys f l = true → x ∈ l → q x = true →
      (l.filter q).find? (fun y => f y == f x) = some x := by
  intro l
  induction l with
  | nil => intro x _ hx; cases hx
  | cons a as ih =>
    intro x hn hx hq
    rw [nodupKeys_cons] at hn
    rcases List.mem_cons.mp hx with rfl | hx'
    · simp [List.filter_cons, hq, List.find?_cons]
    · have hne : (f a == f x) = false := by
        have := hn.1 x hx'
        cases h : (f a == f x) with
        | false => rfl
        | true => have e : f a = f x := eq_of_beq h; rw [e] at this; simp at this
      simp only [List.filter_cons]
      split
      · simp [List.find?_cons, hne, ih x hn.2 hx' hq]
      · exact ih x hn.2 hx' hq

theorem eff_MC_aux (db db' : DB) (hi : InvP db) (rid : RID) (name : String) (new : Mbox)
    (hnew : new = { iid := db.nextMbox, rid := rid, name := name, uidv := db.gen + 1, subscribed := true, seq := 0, rows := [] })
    (hunk : db.mboxByRid rid = none)
    (h1 : db'.mboxes = db.mboxes ++ [new]) (h2 : db'.msgs = db.msgs) (h3 : db'.delSubs = db.delSubs)
    (h4 : db'.nextMbox = db.nextMbox + 1) : effectOK (.mailboxCreated rid name) db db' = true := by
  simp only [effectOK, Bool.and_eq_true]
  have hfind : ∀ m ∈ db.mboxes, db'.mboxByIid m.iid = some m := by
    intro m hm
    simp only [DB.mboxByIid, h1, List.find?_append]
    have := mboxByIid_of_mem hi hm
    simp only [DB.mboxByIid] at this
    simp [this]
  refine ⟨⟨⟨?_, sameMsgsExcept_of_eq _ _ _ hi h2⟩, sameDelSubs_of_eq _ _ h3⟩, ?_⟩
  · simp only [sameMboxesExcept, Bool.and_eq_true, List.all_eq_true, Bool.or_eq_true]
    constructor
    · intro m hm; right; rw [hfind m hm]; exact mboxSame_refl m
    · intro m hm
      rw [h1] at hm
      simp only [List.mem_append, List.mem_singleton] at hm
      rcases hm with hm | rfl
      · right; rw [mboxByIid_of_mem hi hm]; rfl
      · left; simp [hnew]
  · have : db'.mboxByRid rid = some new := by
      simp only [DB.mboxByRid, h1, List.find?_append]
      simp only [DB.mboxByRid] at hunk
      simp [hunk, hnew]
    simp [this, hnew, h4]

theorem eff_MC (cfg : Cfg) (db : DB) (hi : InvP db) (rid : RID) (name : String)
    (hv : Valid cfg db (.mailboxCreated rid name) = true) :
    Applied (.mailboxCreated rid name) db (applyMailboxCreated cfg db rid name) := by
  simp only [Valid, Bool.and_eq_true, bne_iff_ne, ne_eq, Bool.not_eq_true', DB.known, Option.isSome_eq_false_iff,
    Option.isNone_iff_eq_none, decide_eq_true_eq] at hv
  obtain ⟨⟨⟨⟨h1, h2⟩, h3⟩, h4⟩, h5⟩ := hv
  have h1' : (rid == cfg.recoveryRID) = false := by simpa using h1
  have h4' : ¬ (db.gen + 1 ≥ cfg.maxUIDValidity) := by omega
  have h5' : ¬ (db.mboxes.length ≥ cfg.maxMailboxes) := by omega
  unfold applyMailboxCreated
  simp only [h1', Bool.false_eq_true, if_false, h2, Option.isSome_none, h4', h5', h3]
  exact ⟨rfl, eff_MC_aux db _ hi rid name _ rfl h2 rfl rfl rfl rfl⟩

theorem eff_MD_aux (db db' : DB) (hi : InvP db) (rid : RID)
    (h1 : db'.mboxes = db.mboxes.filter (fun m => m.rid != rid)) (h2 : db'.msgs = db.msgs)
    (h4 : db'.nextMbox = db.nextMbox) : effectOK (.mailboxDeleted rid) db db' = true := by
  simp only [effectOK, Bool.and_eq_true, Bool.not_eq_true', beq_iff_eq]
  refine ⟨⟨⟨?_, sameMsgsExcept_of_eq _ _ _ hi h2⟩, ?_⟩, h4⟩
  · simp only [sameMboxesExcept, Bool.and_eq_true, List.all_eq_true, Bool.or_eq_true, beq_iff_eq]
    constructor
    · intro m hm
      by_cases hr : m.rid = rid
      · left; exact hr
      · right
        have : db'.mboxByIid m.iid = some m := by
          simp only [DB.mboxByIid, h1]
          exact find?_filter_of_mem (fun m : Mbox => m.iid) _ db.mboxes m hi.mboxIid hm (by simpa using hr)
        rw [this]; exact mboxSame_refl m
    · intro m hm
      right
      rw [h1] at hm
      simp only [List.mem_filter] at hm
      rw [mboxByIid_of_mem hi hm.1]; rfl
  · simp only [DB.known, DB.mboxByRid, h1, Option.isSome_eq_false_iff, Option.isNone_iff_eq_none, List.find?_eq_none,
      List.mem_filter]
    intro x hx
    simpa using hx.2

theorem eff_MD (cfg : Cfg) (db : DB) (hi : InvP db) (rid : RID)
    (hv : Valid cfg db (.mailboxDeleted rid) = true) :
    Applied (.mailboxDeleted rid) db (applyMailboxDeleted cfg db rid) := by
  simp only [Valid, Bool.and_eq_true, bne_iff_ne, ne_eq] at hv
  obtain ⟨h1, h2⟩ := hv
  have h1' : (rid == cfg.recoveryRID) = false := by simpa using h1
  unfold applyMailboxDeleted
  simp only [h1', Bool.false_eq_true, if_false]
  cases hm : db.mboxByRid rid with
  | none => simp [hm] at h2
  | some mb =>
    simp only [hm, Bool.or_eq_true, Bool.not_eq_true'] at h2
    simp only
    have hds : ∃ ds, (if mb.subscribed then addDeletedSub db.delSubs mb.name rid else some db.delSubs) = some ds := by
      rcases h2 with h2 | h2
      · exact ⟨db.delSubs, by simp [h2]⟩
      · cases hs : mb.subscribed with
        | false => exact ⟨db.delSubs, by simp⟩
        | true =>
          obtain ⟨ds, hds⟩ := Option.isSome_iff_exists.1 h2
          exact ⟨ds, by simp [hds]⟩
    obtain ⟨ds, hds⟩ := hds
    rw [hds]
    exact ⟨rfl, eff_MD_aux db _ hi rid rfl rfl rfl⟩

theorem eff_MU (cfg : Cfg) (db : DB) (hi : InvP db) (rid : RID) (name : String)
    (hv : Valid cfg db (.mailboxUpdated rid name) = true) :
    Applied (.mailboxUpdated rid name) db (applyMailboxUpdated cfg db rid name) := by
  simp only [Valid, Bool.and_eq_true, bne_iff_ne, ne_eq] at hv
  obtain ⟨⟨h1, h0⟩, h2⟩ := hv
  have h1' : (rid == cfg.recoveryRID) = false := by simpa using h1
  have h0' : (lowerAscii name == "inbox") = false := by simpa using h0
  unfold applyMailboxUpdated
  simp only [h1', Bool.false_eq_true, if_false]
  cases hm : db.mboxByRid rid with
  | none => simp [hm] at h2
  | some mb =>
    simp only [hm, Bool.and_eq_true, bne_iff_ne, ne_eq, Bool.not_eq_true'] at h2
    obtain ⟨hne, hclash⟩ := h2
    obtain ⟨hmem, hrid⟩ := mboxByRid_some hm
    have hne' : (mb.name == name) = false := by simpa using hne
    have hclash' : (db.mboxes.any (fun m => m.iid != mb.iid && m.name == name)) = false := by
      rw [List.any_eq_false] at hclash ⊢
      intro x hx
      have := hclash x hx
      simp only [Bool.and_eq_true, not_and]
      intro _; exact this
    simp only [h0', Bool.false_eq_true, if_false, hne', hclash']
    refine ⟨rfl, ?_⟩
    simp only [Res.ok, effectOK, Bool.and_eq_true]
    have hf : ∀ m : Mbox, ({ m with name := name } : Mbox).iid = m.iid := fun _ => rfl
    refine ⟨⟨⟨?_, sameMsgsExcept_of_eq _ _ _ hi rfl⟩, sameDelSubs_of_eq _ _ rfl⟩, ?_⟩
    · apply sameMboxesExcept_updMbox db hi mb.iid _ hf
      intro m hm' hiid
      have : m = mb := eq_of_key_eq (fun m : Mbox => m.iid) db.mboxes m mb hi.mboxIid hm' hmem hiid
      simp [this, hrid]
    · have := mboxByRid_updMbox db mb.iid (fun m => { m with name := name }) (fun _ => rfl) rid
      rw [hm, this, hm]
      simp [mboxSame_refl]

theorem eff_MI (cfg : Cfg) (db : DB) (hi : InvP db) (iid : Nat) (rid : RID)
    (hv : Valid cfg db (.mailboxIDChanged iid rid) = true) :
    Applied (.mailboxIDChanged iid rid) db (applyMailboxIDChanged cfg db iid rid) := by
  simp only [Valid, Bool.and_eq_true, bne_iff_ne, ne_eq, Bool.not_eq_true'] at hv
  obtain ⟨⟨h1, h2⟩, h3⟩ := hv
  have h1' : (iid == cfg.recoveryIID) = false := by simpa using h1
  obtain ⟨mb, hm⟩ := Option.isSome_iff_exists.1 h2
  have hclash : (db.mboxes.any (fun m => m.iid != iid && m.rid == rid)) = false := by
    rw [List.any_eq_false] at h3 ⊢
    intro x hx
    have := h3 x hx
    simp only [Bool.and_eq_true, not_and]
    intro _; exact this
  unfold applyMailboxIDChanged
  simp only [h1', Bool.false_eq_true, if_false, hm, hclash]
  refine ⟨rfl, ?_⟩
  simp only [Res.ok, effectOK, Bool.and_eq_true]
  have hf : ∀ m : Mbox, ({ m with rid := rid } : Mbox).iid = m.iid := fun _ => rfl
  refine ⟨⟨⟨?_, sameMsgsExcept_of_eq _ _ _ hi rfl⟩, sameDelSubs_of_eq _ _ rfl⟩, ?_⟩
  · apply sameMboxesExcept_updMbox db hi iid _ hf
    intro m _ hiid
    simp [hiid]
  · have := mboxByIid_updMbox_eq db iid (fun m => { m with rid := rid }) hf
    rw [hm, this, hm]
    simp [mboxSame_refl]

/-- the flags `setMessageFlags` leaves are the wanted ones -/
theorem flags_after_sameSet (cur target : List Flag) :
    sameSet (cur.filter (fun f => target.contains f) ++ (dedup target).filter (fun f => !cur.contains f)) target = true := by
  rw [sameSet_iff]
  intro x
  simp only [List.mem_append, List.mem_filter, List.contains_iff_mem, mem_dedup, Bool.not_eq_true',
    decide_eq_false_iff_not, decide_eq_true_eq]
  constructor
  · rintro (⟨_, h⟩ | ⟨h, _⟩) <;> exact h
  · intro h
    by_cases hc : x ∈ cur
    · exact Or.inl ⟨hc, h⟩
    · exact Or.inr ⟨h, by simpa using hc⟩

def flagsAfter (cur target : List Flag) : List Flag :=
  cur.filter (fun f => target.contains f) ++ (dedup target).filter (fun f => !cur.contains f)

theorem setMessageFlags_ok (db : DB) (hi : InvP db) (g : Msg) (hg : g ∈ db.msgs) (flags : List Flag) :
    ∃ evs, setMessageFlags db g.iid flags =
      .ok (db.updMsg g.iid (fun x => { x with flags := flagsAfter g.flags flags }), evs) := by
  unfold setMessageFlags
  rw [msgByIid_of_mem hi hg]
  exact ⟨_, rfl⟩

/-- after `updMsg g.iid` with new flags, the message is live with those flags -/
theorem liveWithFlags_updMsg (db : DB) (hi : InvP db) (g : Msg) (hg : g ∈ db.msgs) (hd : g.deleted = false)
    (fl flags : List Flag) (hs : sameSet fl flags = true) (db' : DB)
    (hm : db'.msgs = (db.updMsg g.iid (fun x => { x with flags := fl })).msgs) :
    liveWithFlags db' g.rid flags = true := by
  have : db'.msgByRid g.rid = some { g with flags := fl } := by
    have h1 : db'.msgByRid g.rid = (db.updMsg g.iid (fun x => { x with flags := fl })).msgByRid g.rid := by
      simp [DB.msgByRid, hm]
    have h2 := msgByRid_updMsg db g.iid (fun x => { x with flags := fl }) (fun _ => rfl) g.rid
    rw [h1, h2, msgByRid_of_mem hi hg]
    simp
  simp [liveWithFlags, DB.liveMsg, this, hd, hs]

theorem eff_MFU (cfg : Cfg) (db : DB) (hi : InvP db) (rid : RID) (flags : List Flag)
    (hv : Valid cfg db (.messageFlagsUpdated rid flags) = true) :
    Applied (.messageFlagsUpdated rid flags) db (applyMessageFlagsUpdated db rid flags) := by
  simp only [Valid] at hv
  obtain ⟨g, hl⟩ := Option.isSome_iff_exists.1 hv
  obtain ⟨hm, hd⟩ := liveMsg_some hl
  obtain ⟨hmem, hgr⟩ := msgByRid_some hm
  obtain ⟨evs, hset⟩ := setMessageFlags_ok db hi g hmem flags
  unfold applyMessageFlagsUpdated
  simp only [hm, hset]
  refine ⟨rfl, ?_⟩
  simp only [Res.ok, effectOK, Bool.and_eq_true]
  refine ⟨⟨⟨sameMboxesExcept_of_eq _ _ _ hi rfl, ?_⟩, ?_⟩, sameDelSubs_of_eq _ _ rfl⟩
  · rw [← hgr]
    exact liveWithFlags_updMsg db hi g hmem hd (flagsAfter g.flags flags) flags (flags_after_sameSet g.flags flags) _ rfl
  · rw [← hgr]
    exact sameMsgsExcept_updMsg db hi g hmem _ (fun _ => rfl)

theorem eff_noop (db : DB) (hi : InvP db) : Applied .noop db (Res.ok db []) :=
  ⟨rfl, by simp only [Res.ok, effectOK]; exact sameState_refl db hi⟩

end Gluon.ConnUpd
