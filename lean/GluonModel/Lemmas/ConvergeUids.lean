/- Under `UidsOk` (fresh, ascending UIDs) no responder fails, in whatever sub-order of the queue the
   responders are handled (C02). -/
import GluonModel.Lemmas.ConvergePop

namespace Gluon

theorem existsUids_cons_exists (id : MsgId) (uid : UID) (fl : Flags) (t : StateId) (o : Option StateId)
    (rs : List Responder) : existsUids (.exists id uid fl t o :: rs) = uid :: existsUids rs := by
  simp [existsUids]

theorem existsUids_cons_expunge (id : MsgId) (rs : List Responder) :
    existsUids (.expunge id :: rs) = existsUids rs := by
  simp [existsUids]

theorem existsUids_cons_fetch (id : MsgId) (fl : Flags) (op : FlagOp) (a b c : Bool) (rs : List Responder) :
    existsUids (.fetch id fl op a b c :: rs) = existsUids rs := by
  simp [existsUids]

theorem existsUids_append (l1 l2 : List Responder) : existsUids (l1 ++ l2) = existsUids l1 ++ existsUids l2 := by
  simp [existsUids, List.filterMap_append]

theorem uidOr0_mem_existsUids {sid : StateId} {r : Responder} {l : List Responder} (hr : r ∈ l)
    (ho : r.isOwnExists sid = true) : r.uidOr0 ∈ existsUids l := by
  cases r with
  | «exists» id uid fl t o =>
    simp only [existsUids, List.mem_filterMap]
    exact ⟨_, hr, rfl⟩
  | expunge id => simp [Responder.isOwnExists] at ho
  | fetch id fl op a b c => simp [Responder.isOwnExists] at ho

theorem UidsOk.sublist {sid : StateId} {s : Snap} {l l' : List Responder} (hsub : l'.Sublist l)
    (h : UidsOk sid s l) : UidsOk sid s l' := by
  have hsubU : (existsUids l').Sublist (existsUids l) := hsub.filterMap _
  refine ⟨h.1.sublist hsubU, ?_, ?_⟩
  · intro x hx u hu
    exact h.2.1 x hx u (hsubU.subset hu)
  · intro r hr ho x hx
    exact h.2.2 r (hsub.subset hr) ho x hx

/-- the snapshot may be replaced by one whose UIDs all occur in the old one -/
theorem UidsOk.mono {sid : StateId} {s s1 : Snap} {l : List Responder}
    (hsub : ∀ x ∈ s1, ∃ y ∈ s, y.uid = x.uid) (h : UidsOk sid s l) : UidsOk sid s1 l := by
  refine ⟨h.1, ?_, ?_⟩
  · intro x hx u hu
    obtain ⟨y, hy, hyu⟩ := hsub x hx
    rw [← hyu]; exact h.2.1 y hy u hu
  · intro r hr ho x hx
    obtain ⟨y, hy, hyu⟩ := hsub x hx
    rw [← hyu]; exact h.2.2 r hr ho y hy

theorem UidsOk.nil (sid : StateId) (s : Snap) : UidsOk sid s [] := by
  simp [UidsOk, existsUids]

/-- one responder under `UidsOk`: it does not fail, `UidsOk` holds for the rest of the list, and the
    only UID that can be new in the snapshot is the one the responder announces -/
theorem snapStep_uidsOk {sid : StateId} {s : Snap} (hinv : Snap.Inv s) {r : Responder} {rs : List Responder}
    (h : UidsOk sid s (r :: rs)) :
    ∃ s1, snapStep sid s r = .ok s1 ∧ UidsOk sid s1 rs ∧
      ∀ x ∈ s1, (∃ y ∈ s, y.uid = x.uid) ∨ x.uid ∈ existsUids [r] := by
  have htail : UidsOk sid s rs := h.sublist (List.sublist_cons_self r rs)
  cases r with
  | «exists» id uid fl t o =>
    obtain ⟨hasc, hdis, hown⟩ := h
    rw [existsUids_cons_exists, List.pairwise_cons] at hasc
    by_cases hh : s.has id = true
    · refine ⟨s, by simp [snapStep, hh], htail, fun x hx => Or.inl ⟨x, hx, rfl⟩⟩
    · have hno : s.has id = false := by simpa using hh
      have hne : ∀ x ∈ s, x.uid ≠ uid := fun x hx => hdis x hx uid (by simp [existsUids_cons_exists])
      -- the step succeeds and adds exactly the new message
      have hstep : ∃ s1, snapStep sid s (.exists id uid fl t o) = .ok s1 ∧
          ∀ x, x ∈ s1 ↔ x ∈ s ∨ x = Snap.mkMsg id uid (exFlags sid t fl) := by
        by_cases ho : (o == some sid) = true
        · have hlt : ∀ x ∈ s, x.uid < uid := by
            intro x hx
            exact hown (.exists id uid fl t o) List.mem_cons_self (by simpa [Responder.isOwnExists] using ho) x hx
          refine ⟨_, snapStep_exists_at_end sid id uid fl t o hno hlt, ?_⟩
          intro x; simp
        · have hany : (s.any fun x => x.uid == uid) = false := by
            simp only [List.any_eq_false, beq_iff_eq]
            exact hne
          have hok : s.insertOutOfOrder id uid (exFlags sid t fl) =
              .ok (s.take (s.lowerBound uid) ++ [Snap.mkMsg id uid (exFlags sid t fl)] ++ s.drop (s.lowerBound uid)) := by
            simp [Snap.insertOutOfOrder, hany]
          refine ⟨_, by simpa [snapStep, hno, ho] using hok, Snap.mem_insertOutOfOrder hok⟩
      obtain ⟨s1, hs1, hmem⟩ := hstep
      refine ⟨s1, hs1, ⟨hasc.2, ?_, ?_⟩, ?_⟩
      · intro x hx u hu
        rcases (hmem x).mp hx with hx | rfl
        · exact htail.2.1 x hx u hu
        · have := hasc.1 u hu
          simp only [Snap.mkMsg]; omega
      · intro r hr ho x hx
        rcases (hmem x).mp hx with hx | rfl
        · exact htail.2.2 r hr ho x hx
        · have := hasc.1 _ (uidOr0_mem_existsUids hr ho)
          simpa [Snap.mkMsg] using this
      · intro x hx
        rcases (hmem x).mp hx with hx | rfl
        · exact Or.inl ⟨x, hx, rfl⟩
        · right; simp [existsUids_cons_exists, Snap.mkMsg]
  | expunge id =>
    have hsub : ∀ x ∈ s.eraseP (·.id == id), ∃ y ∈ s, y.uid = x.uid :=
      fun x hx => ⟨x, List.mem_of_mem_eraseP hx, rfl⟩
    exact ⟨_, rfl, htail.mono hsub, fun x hx => Or.inl (hsub x hx)⟩
  | fetch id fl op a b c =>
    have hsub : ∀ x ∈ (s.map fun x => if x.id == id then fetchUpd op fl c x else x), ∃ y ∈ s, y.uid = x.uid := by
      intro x hx
      obtain ⟨y, hy, rfl⟩ := List.mem_map.mp hx
      refine ⟨y, hy, ?_⟩
      split <;> rfl
    exact ⟨_, snapStep_fetch_map hinv sid id fl op a b c, htail.mono hsub, fun x hx => Or.inl (hsub x hx)⟩

/-- a whole list under `UidsOk`: no responder fails, and the UIDs of the result are old ones or
    announced ones -/
theorem run_uidsOk {sid : StateId} {s : Snap} (hinv : Snap.Inv s) {l : List Responder} (h : UidsOk sid s l) :
    ∃ s', run sid s l = some s' ∧ ∀ x ∈ s', (∃ y ∈ s, y.uid = x.uid) ∨ x.uid ∈ existsUids l := by
  induction l generalizing s with
  | nil => exact ⟨s, rfl, fun x hx => Or.inl ⟨x, hx, rfl⟩⟩
  | cons r rs ih =>
    obtain ⟨s1, hs1, hok1, hu1⟩ := snapStep_uidsOk hinv h
    obtain ⟨s', hs', hu'⟩ := ih (snapStep_inv hinv hs1) hok1
    refine ⟨s', by simp [run, hs1, hs'], ?_⟩
    intro x hx
    have hcons : existsUids (r :: rs) = existsUids [r] ++ existsUids rs := by
      rw [← existsUids_append]; rfl
    rcases hu' x hx with ⟨y, hy, hyu⟩ | hin
    · rcases hu1 y hy with ⟨z, hz, hzu⟩ | hin
      · exact Or.inl ⟨z, hz, hzu.trans hyu⟩
      · right; rw [hcons, ← hyu]; exact List.mem_append_left _ hin
    · right; rw [hcons]; exact List.mem_append_right _ hin

theorem existsUids_eq_nil {l : List Responder} (h : ∀ r ∈ l, r.isExists = false) : existsUids l = [] := by
  induction l with
  | nil => rfl
  | cons r rs ih =>
    have hr := h r List.mem_cons_self
    have := ih (fun x hx => h x (List.mem_cons_of_mem _ hx))
    cases r with
    | «exists» id uid fl t o => simp [Responder.isExists] at hr
    | expunge id => rw [existsUids_cons_expunge, this]
    | fetch id fl op a b c => rw [existsUids_cons_fetch, this]

/-- **a `permitExpunge = false` pop does not reorder arrivals**: the popped EXISTS followed by the
    retained EXISTS are the queue's EXISTS, in queue order -/
theorem existsUids_popAux (hexp hex : List MsgId) (l : List Responder) :
    existsUids (popAux hexp hex l).1 ++ existsUids (popAux hexp hex l).2 = existsUids l := by
  induction l generalizing hexp hex with
  | nil => simp [popAux, existsUids]
  | cons r rs ih =>
    cases r with
    | «exists» id uid fl t o =>
      cases h : holdsExists hexp hex id
      · rw [popAux_exists_popped h]
        simp only [existsUids_cons_exists, List.cons_append, ih]
      · rw [popAux_exists_held h]
        have hnil := existsUids_eq_nil (popAux_fst_no_exists hexp (id :: hex) rs (List.cons_ne_nil _ _))
        have := ih hexp (id :: hex)
        rw [hnil, List.nil_append] at this
        simp only [existsUids_cons_exists, hnil, List.nil_append, this]
    | expunge id =>
      rw [popAux_expunge]
      simp only [existsUids_cons_expunge, ih]
    | fetch id fl op a b c =>
      by_cases h : id ∈ hex
      · rw [popAux_fetch_held h]
        simp only [existsUids_cons_fetch, ih]
      · rw [popAux_fetch_popped h]
        simp only [existsUids_cons_fetch, ih]

/-- a retained EXISTS is a queued EXISTS, verbatim -/
theorem popAux_snd_mem_exists (hexp hex : List MsgId) (l : List Responder) {r : Responder}
    (h : r ∈ (popAux hexp hex l).2) (he : r.isExists = true) : r ∈ l := by
  obtain ⟨r0, h0, rfl⟩ := popAux_snd_mem hexp hex l h
  have : r0.isExists = true := by simpa using he
  rw [Responder.unsilent_of_isExists this]; exact h0

theorem Responder.isExists_of_isOwnExists {sid : StateId} {r : Responder} (h : r.isOwnExists sid = true) :
    r.isExists = true := by
  cases r <;> simp_all [Responder.isOwnExists, Responder.isExists]

theorem UidsAsc.uidsOk {sid : StateId} {s : Snap} {l : List Responder} (h : UidsAsc s l) : UidsOk sid s l := by
  refine ⟨h.1, fun x hx u hu => Nat.ne_of_lt (h.2 x hx u hu), ?_⟩
  intro r hr ho x hx
  exact h.2 x hx _ (uidOr0_mem_existsUids hr ho)

theorem UidsAsc.sublist {s : Snap} {l l' : List Responder} (hsub : l'.Sublist l) (h : UidsAsc s l) :
    UidsAsc s l' := by
  have hsubU : (existsUids l').Sublist (existsUids l) := hsub.filterMap _
  exact ⟨h.1.sublist hsubU, fun x hx u hu => h.2 x hx u (hsubU.subset hu)⟩

/-- `UidsOk` passes from the queue to what a `permitExpunge = false` flush retains, on the snapshot
    the flush leaves (`s1` = the popped responders handled on `s`) -/
theorem UidsOk.retained {sid : StateId} {s s1 : Snap} {l : List Responder} (h : UidsOk sid s l)
    (hu1 : ∀ x ∈ s1, (∃ y ∈ s, y.uid = x.uid) ∨ x.uid ∈ existsUids (popAux [] [] l).1) :
    UidsOk sid s1 (popAux [] [] l).2 := by
  have heq := existsUids_popAux [] [] l
  have hpw : (existsUids (popAux [] [] l).1 ++ existsUids (popAux [] [] l).2).Pairwise (· < ·) := by
    rw [heq]; exact h.1
  obtain ⟨_, hpw2, hlt⟩ := List.pairwise_append.mp hpw
  have hsubU : ∀ u ∈ existsUids (popAux [] [] l).2, u ∈ existsUids l := by
    intro u hu; rw [← heq]; exact List.mem_append_right _ hu
  refine ⟨hpw2, ?_, ?_⟩
  · intro x hx u hu
    rcases hu1 x hx with ⟨y, hy, hyu⟩ | hin
    · rw [← hyu]; exact h.2.1 y hy u (hsubU u hu)
    · exact Nat.ne_of_lt (hlt _ hin _ hu)
  · intro r hr ho x hx
    have hrl : r ∈ l := popAux_snd_mem_exists [] [] l hr (Responder.isExists_of_isOwnExists ho)
    rcases hu1 x hx with ⟨y, hy, hyu⟩ | hin
    · rw [← hyu]; exact h.2.2 r hrl ho y hy
    · exact hlt _ hin _ (uidOr0_mem_existsUids hr ho)

/-- `UidsAsc` passes from the queue to what a `permitExpunge = false` flush retains, likewise -/
theorem UidsAsc.retained {s s1 : Snap} {l : List Responder} (h : UidsAsc s l)
    (hu1 : ∀ x ∈ s1, (∃ y ∈ s, y.uid = x.uid) ∨ x.uid ∈ existsUids (popAux [] [] l).1) :
    UidsAsc s1 (popAux [] [] l).2 := by
  have heq := existsUids_popAux [] [] l
  have hpw : (existsUids (popAux [] [] l).1 ++ existsUids (popAux [] [] l).2).Pairwise (· < ·) := by
    rw [heq]; exact h.1
  obtain ⟨_, hpw2, hlt⟩ := List.pairwise_append.mp hpw
  refine ⟨hpw2, ?_⟩
  intro x hx u hu
  rcases hu1 x hx with ⟨y, hy, hyu⟩ | hin
  · rw [← hyu]; exact h.2 y hy u (by rw [← heq]; exact List.mem_append_right _ hu)
  · exact hlt _ hin _ hu

/-- under `UidsAsc` every EXISTS of the list adds at the end of the snapshot it meets -/
theorem allAtEnd_of_uidsAsc {sid : StateId} {s : Snap} (hinv : Snap.Inv s) {l : List Responder}
    (h : UidsAsc s l) : AllAtEnd false sid s l := by
  induction l generalizing s with
  | nil => trivial
  | cons r rs ih =>
    obtain ⟨s1, hs1, _, hu1⟩ := snapStep_uidsOk hinv (h.uidsOk (sid := sid))
    obtain ⟨_, hsnap⟩ := handle_snap_of_ok (close := false) hs1
    have hcons : existsUids (r :: rs) = existsUids [r] ++ existsUids rs := by
      rw [← existsUids_append]; rfl
    have hpw := h.1
    rw [hcons, List.pairwise_append] at hpw
    refine ⟨?_, ?_⟩
    · cases r with
      | «exists» id uid fl t o =>
        intro _ x hx
        exact h.2 x hx uid (by simp [existsUids_cons_exists])
      | expunge id => trivial
      | fetch id fl op a b c => trivial
    · rw [hsnap]
      apply ih (snapStep_inv hinv hs1)
      refine ⟨hpw.2.1, ?_⟩
      intro x hx u hu
      rcases hu1 x hx with ⟨y, hy, hyu⟩ | hin
      · rw [← hyu]; exact h.2 y hy u (by rw [hcons]; exact List.mem_append_right _ hu)
      · exact hpw.2.2 _ hin _ hu

end Gluon
