/-
Helper lemmas for C20, part 11: the complete case analysis of an APPEND answered OK.
-/
import GluonModel.Lemmas.AppendBox

namespace Gluon.Append

theorem find?_mem_rows {rows : List (Nat × Row)} {rid known : Nat}
    (h : (rows.find? (·.2.rid == rid)).map (·.1) = some known) : ∃ row, (known, row) ∈ rows := by
  cases hf : rows.find? (·.2.rid == rid) with
  | none => rw [hf] at h; simp at h
  | some p =>
    rw [hf] at h; simp at h
    exact ⟨p.2, by rw [← h]; exact List.mem_of_find?_eq_some hf⟩

theorem remoteCreate_db (s : St) (l : Lit) : (remoteCreate s l).2.db = s.db := by
  unfold remoteCreate
  simp only
  split
  · rfl
  · rfl
  · rfl
  · split <;> rfl

theorem remoteCreate_rid {s s' : St} {l l' : Lit} {rid id : Nat} (h : remoteCreate s l = (.ok (rid, id, l'), s')) :
    rid = 2 * s.nextRid ∨ (s.sc.create.head? = some .dup ∧ (rid, l) ∈ s.remote) := by
  unfold remoteCreate at h
  simp only at h
  split at h
  · simp at h
  · simp at h
  · simp at h; exact Or.inl h.1.1.symm
  · next hd =>
    split at h
    · next r l'' hf =>
      simp at h
      refine Or.inr ⟨?_, ?_⟩
      · cases hc : s.sc.create with
        | nil => rw [hc] at hd; simp [popD] at hd
        | cons x r' => rw [hc] at hd; simp [popD] at hd; simp [hd]
      · have hm := List.mem_of_find?_eq_some hf
        have hp := List.find?_some hf
        simp at hp
        rw [← h.1.1, ← hp]; exact hm
    · simp at h; exact Or.inl h.1.1.symm

theorem actionCreateMessage_via {s s' : St} {n : String} {l : Lit} {d : Bool} {uid : Nat}
    (h : actionCreateMessage s n l d = (.ok uid, s')) :
    (∃ l0, l0.sameBytes l ∧ Holds s' n uid l0) ∨
    (∃ known rid, idOfRid s.db rid = some known ∧
      (rid = 2 * s.nextRid ∨ (s.sc.create.head? = some .dup ∧ (rid, l) ∈ s.remote)) ∧
      ∃ b, getBox s'.db n = some b ∧ (uid, known) ∈ b.msgs) := by
  unfold actionCreateMessage at h
  split at h
  · simp at h
  · next rid id l' s1 h1 =>
    have hdb : s1.db = s.db := by have := remoteCreate_db s l; rw [h1] at this; exact this
    have hl : l' = l := (remoteCreate_ok h1).2.2
    split at h
    · next known hk =>
      split at h
      · simp at h
      · split at h
        · simp at h
        · next uids s2 h2 =>
          simp at h
          obtain ⟨h3, h4⟩ := h
          subst h3 h4
          obtain ⟨b', ha, hb, _⟩ := actionAdd_one_ok h2
          refine Or.inr ⟨known, rid, ?_, remoteCreate_rid h1, b', ha, by simpa using hb⟩
          unfold idOfRid at hk ⊢
          rw [hdb] at hk
          exact hk
    · split at h
      · simp at h
      · split at h
        · simp at h
        · next s2 h2 =>
          obtain ⟨b, _, hu, hb⟩ := dbCreateAndAdd_ok h
          have hst := (dbCreateAndAdd_same s2 n id rid).2
          rw [h] at hst
          simp only at hst
          have hs2 := storeSet_ok h2
          refine Or.inl ⟨{ l' with gid := .id id }, ?_, _, id, hb, by subst hu; simp, by rw [hst]; exact hs2⟩
          subst hl
          exact ⟨rfl, rfl⟩

theorem appendRegular_via {s s' : St} {n : String} {l : Lit} {uid : Nat} (h : appendRegular s n l = (.ok uid, s')) :
    OkVia s s' n l uid := by
  have hc : ∀ l1 d, l1.sameBytes l → withTx s (fun s => actionCreateMessage s n l1 d) = (.ok uid, s') → OkVia s s' n l uid := by
    intro l1 d hsb hh
    rcases actionCreateMessage_via (withTx_ok hh) with ⟨l0, hb, hh'⟩ | ⟨known, rid, hk, hrid, hb⟩
    · exact OkVia.stored l0 ⟨hb.1.trans hsb.1, hb.2.trans hsb.2⟩ hh'
    · refine OkVia.remoteDup known rid hk ?_ hb
      rcases hrid with e | ⟨e1, e2⟩
      · exact Or.inl e
      · exact Or.inr ⟨e1, l1, hsb, e2⟩
  unfold appendRegular at h
  split at h
  · simp at h
  · split at h
    · simp at h
    · split at h
      · exact hc { l with gid := .none } true ⟨rfl, rfl⟩ h
      · split at h
        · exact hc _ _ ⟨rfl, rfl⟩ h
        · simp at h
        · next g hg =>
          split at h
          · exact hc _ _ ⟨rfl, rfl⟩ h
          · next row hrow =>
            split at h
            · exact hc _ _ ⟨rfl, rfl⟩ h
            · next hdel =>
              split at h
              · simp at h
              · next uids s1 h1 =>
                simp at h
                obtain ⟨h3, h4⟩ := h
                subst h3 h4
                obtain ⟨b', ha, hb, _⟩ := actionAdd_one_ok (withTx_ok h1)
                exact OkVia.gluonId g hg ⟨row, hrow, by simpa using hdel⟩ ⟨b', ha, by simpa using hb⟩

theorem append_via {H : Nat → Nat} {s s' : St} {n : String} {l : Lit} {uid : Nat} (h : append H s n l = (.ok uid, s')) :
    OkVia s s' n l uid := by
  unfold append at h
  split at h
  · simp at h
  · split at h
    · simp at h
    · split at h
      · simp at h
      · split at h
        · next u s1 h1 =>
          simp at h
          obtain ⟨h3, h4⟩ := h
          subst h3 h4
          exact appendRegular_via h1
        · split at h
          · simp at h
          · split at h <;> simp at h

end Gluon.Append
