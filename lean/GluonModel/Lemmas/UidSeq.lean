/- Helper lemmas about the AUTOINCREMENT UID model. -/
import GluonModel.Model.UidSeq

namespace Gluon.UidSeq

theorem maxRow_le (rows : List Nat) (b : Nat) (h : ∀ u ∈ rows, u ≤ b) : maxRow rows ≤ b := by
  induction rows with
  | nil => simp [maxRow]
  | cons x xs ih =>
    have hx := h x (List.mem_cons_self ..)
    have hxs := ih (fun u hu => h u (List.mem_cons_of_mem _ hu))
    simp only [maxRow, List.foldr_cons] at *
    omega

/-- what one history segment guarantees: invariant kept, `seq` not lowered, assigned UIDs
    increasing, all above the old `seq` and at most the new one -/
def Good (m m' : Mbox) (as : List Nat) : Prop :=
  WF m' ∧ m.seq ≤ m'.seq ∧ as.Pairwise (· < ·) ∧ ∀ u ∈ as, m.seq < u ∧ u ≤ m'.seq

theorem Good.refl (m : Mbox) (h : WF m) : Good m m [] := by
  simp [Good, h]

theorem Good.trans {m m1 m2 : Mbox} {a b : List Nat} (h1 : Good m m1 a) (h2 : Good m1 m2 b) :
    Good m m2 (a ++ b) := by
  obtain ⟨_, s1, p1, u1⟩ := h1
  obtain ⟨i2, s2, p2, u2⟩ := h2
  refine ⟨i2, Nat.le_trans s1 s2, ?_, ?_⟩
  · rw [List.pairwise_append]
    refine ⟨p1, p2, ?_⟩
    intro x hx y hy
    have := u1 x hx
    have := u2 y hy
    omega
  · intro u hu
    rcases List.mem_append.mp hu with hu | hu
    · have := u1 u hu; omega
    · have := u2 u hu; omega

theorem applyOp_good (m : Mbox) (op : Op) (h : WF m) :
    Good m (applyOp m op).1 (applyOp m op).2.toList := by
  cases op with
  | insert =>
    have hm : maxRow m.rows ≤ m.seq := maxRow_le _ _ h
    have hu : max m.seq (maxRow m.rows) + 1 = m.seq + 1 := by omega
    simp only [applyOp, hu, Option.toList]
    refine ⟨?_, by simp, by simp, by simp⟩
    intro u hu'
    simp only [List.mem_append, List.mem_singleton] at hu'
    rcases hu' with hu' | hu'
    · have := h u hu'; simp; omega
    · simp; omega
  | delete uid =>
    simp only [applyOp, Option.toList]
    refine ⟨?_, by simp, by simp, by simp⟩
    intro u hu
    exact h u (List.mem_filter.mp hu).1
  | deleteMax =>
    simp only [applyOp, Option.toList]
    refine ⟨?_, by simp, by simp, by simp⟩
    intro u hu
    exact h u (List.mem_filter.mp hu).1

theorem applyOps_good (ops : List Op) (m : Mbox) (h : WF m) :
    Good m (applyOps ops m).1 (applyOps ops m).2 := by
  induction ops generalizing m with
  | nil => exact Good.refl m h
  | cons op rest ih =>
    have g1 := applyOp_good m op h
    have g2 := ih (applyOp m op).1 g1.1
    simpa [applyOps] using Good.trans g1 g2

theorem applyTx_good (m : Mbox) (t : Tx) (h : WF m) : Good m (applyTx m t).1 (applyTx m t).2 := by
  unfold applyTx
  split
  · exact applyOps_good _ _ h
  · exact Good.refl m h

theorem runTxs_good (hist : List Tx) (m : Mbox) (h : WF m) :
    Good m (runTxs hist m).1 (runTxs hist m).2 := by
  induction hist generalizing m with
  | nil => exact Good.refl m h
  | cons t rest ih =>
    have g1 := applyTx_good m t h
    have g2 := ih (applyTx m t).1 g1.1
    simpa [runTxs] using Good.trans g1 g2

theorem runTxs_append (h1 h2 : List Tx) (m : Mbox) :
    runTxs (h1 ++ h2) m =
      ((runTxs h2 (runTxs h1 m).1).1, (runTxs h1 m).2 ++ (runTxs h2 (runTxs h1 m).1).2) := by
  induction h1 generalizing m with
  | nil => simp [runTxs]
  | cons t rest ih =>
    simp [runTxs, ih, List.append_assoc]

end Gluon.UidSeq
