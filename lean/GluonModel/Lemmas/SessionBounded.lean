/-
What `serve` of the session-loop model (`Model/SessionLoop.lean`) carries from one reader result to the next:
the error counter, the mode, the backend's state — and how each of them can change in one step. (C11, the
bounded-memory clause: the loop's own share.)
-/
import GluonModel.Lemmas.SessionServe

namespace Gluon.SessionLoop
open Gluon.Parse

/-- the states `serve` is in when it takes the reader's results, one after the other (the state before each result
it gets to, and the one it is left in) -/
def statesAlong (cfg : Cfg) (B : Backend σ) : SState σ → List ReadRes → List (SState σ)
  | st, [] => [st]
  | st, r :: rs =>
    match serveStep cfg B st r with
    | (_, .stop _) => [st]
    | (_, .cont st') => st :: statesAlong cfg B st' rs

/-- one step keeps the error counter below `maxErr` (it is reset, kept, or incremented — and the increment that
reaches `maxErr` closes the session instead) -/
theorem serveStep_errs_lt (cfg : Cfg) (B : Backend σ) (st : SState σ) (r : ReadRes) (out : List Completion)
    (st' : SState σ) (h : serveStep cfg B st r = (out, .cont st')) (hb : st.errs < cfg.maxErr) :
    st'.errs < cfg.maxErr := by
  unfold serveStep at h
  cases r with
  | tlsOk t => cases h; exact hb
  | tlsNo t => cases h; exact hb
  | err t =>
    cases hm : st.mode with
    | idle it => rw [hm] at h; cases h; exact hb
    | normal =>
      rw [hm] at h
      simp only at h
      split at h
      · cases h
      · next hlt => cases h; simp only; omega
  | cmd c =>
    cases hm : st.mode with
    | idle it => rw [hm] at h; cases h; exact hb
    | normal =>
      rw [hm] at h
      simp only at h
      cases hr : cfg.resetOnSuccess <;> simp only [hr, Bool.false_eq_true, if_true, if_false] at h <;>
        (split at h
         · cases h
         · split at h
           · cases h
           · split at h <;> (cases h; first | exact hb | (simp only; omega))
           · cases h; first | exact hb | (simp only; omega)
           · cases h; first | exact hb | (simp only; omega))

/-- one step changes the backend's state only by handing a parsed command to a handler (`Backend.exec`): lines
that do not parse, TLS replies, IDLE / DONE and everything that ends an IDLE leave it as it is -/
theorem serveStep_bk (cfg : Cfg) (B : Backend σ) (st : SState σ) (r : ReadRes) (out : List Completion)
    (st' : SState σ) (h : serveStep cfg B st r = (out, .cont st')) :
    st'.bk = st.bk ∨ ∃ c, r = .cmd c ∧ st.mode = .normal ∧ st'.bk = (B.exec st.bk c).2 := by
  unfold serveStep at h
  cases r with
  | tlsOk t => cases h; exact .inl rfl
  | tlsNo t => cases h; exact .inl rfl
  | err t =>
    cases hm : st.mode with
    | idle it => rw [hm] at h; cases h; exact .inl rfl
    | normal =>
      rw [hm] at h
      simp only at h
      split at h
      · cases h
      · cases h; exact .inl rfl
  | cmd c =>
    cases hm : st.mode with
    | idle it => rw [hm] at h; cases h; exact .inl rfl
    | normal =>
      rw [hm] at h
      simp only at h
      cases hr : cfg.resetOnSuccess <;> simp only [hr, Bool.false_eq_true, if_true, if_false] at h <;>
        (split at h
         · cases h
         · split at h
           · cases h
           · split at h <;> (cases h; exact .inl rfl)
           · cases h; exact .inl rfl
           · cases h; exact .inr ⟨c, rfl, rfl, rfl⟩)

/-- one step leaves the mode as it is, goes back to normal, or starts an IDLE whose tag is the tag of the line just read -/
theorem serveStep_mode (cfg : Cfg) (B : Backend σ) (st : SState σ) (r : ReadRes) (out : List Completion)
    (st' : SState σ) (h : serveStep cfg B st r = (out, .cont st')) :
    st'.mode = st.mode ∨ st'.mode = .normal ∨ ∃ c, r = .cmd c ∧ st'.mode = .idle c.tag := by
  unfold serveStep at h
  cases r with
  | tlsOk t => cases h; exact .inl rfl
  | tlsNo t => cases h; exact .inl rfl
  | err t =>
    cases hm : st.mode with
    | idle it => rw [hm] at h; cases h; exact .inr (.inl rfl)
    | normal =>
      rw [hm] at h
      simp only at h
      split at h
      · cases h
      · cases h; exact .inr (.inl rfl)
  | cmd c =>
    cases hm : st.mode with
    | idle it => rw [hm] at h; cases h; exact .inr (.inl rfl)
    | normal =>
      rw [hm] at h
      simp only at h
      cases hr : cfg.resetOnSuccess <;> simp only [hr, Bool.false_eq_true, if_true, if_false] at h <;>
        (split at h
         · cases h
         · split at h
           · cases h
           · split at h
             · cases h; exact .inr (.inr ⟨c, rfl, rfl⟩)
             · cases h; exact .inr (.inl (by first | rfl | exact hm))
           · cases h; exact .inr (.inl (by first | rfl | exact hm))
           · cases h; exact .inr (.inl (by first | rfl | exact hm)))

/-- the counter stays below `maxErr` in every state `serve` goes through -/
theorem statesAlong_errs_lt (cfg : Cfg) (B : Backend σ) (rs : List ReadRes) :
    ∀ (st : SState σ), st.errs < cfg.maxErr → ∀ s ∈ statesAlong cfg B st rs, s.errs < cfg.maxErr := by
  induction rs with
  | nil => intro st hb s hs; simp [statesAlong] at hs; rw [hs]; exact hb
  | cons r rs ih =>
    intro st hb s hs
    unfold statesAlong at hs
    split at hs
    · simp at hs; rw [hs]; exact hb
    · next out st' hstep =>
      simp only [List.mem_cons] at hs
      rcases hs with hs | hs
      · rw [hs]; exact hb
      · exact ih st' (serveStep_errs_lt cfg B st r out st' hstep hb) s hs

end Gluon.SessionLoop
