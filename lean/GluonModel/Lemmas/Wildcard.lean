/- Lemmas about the reference semantics `Spec/Wildcard.lean`. -/
import GluonModel.Spec.Wildcard

namespace Gluon.Spec

theorem wildLoop_iff (ok : Char → Bool) (k : Str → Bool) (n : Str) :
    wildLoop ok k n = true ↔ ∃ a m, n = a ++ m ∧ (∀ x ∈ a, ok x = true) ∧ k m = true := by
  induction n with
  | nil =>
    simp only [wildLoop]
    constructor
    · intro h; exact ⟨[], [], rfl, by simp, h⟩
    · rintro ⟨a, m, h, _, hk⟩
      have : a = [] ∧ m = [] := by simpa using h.symm
      rw [this.2] at hk; exact hk
  | cons x xs ih =>
    simp only [wildLoop, Bool.or_eq_true, Bool.and_eq_true, ih]
    constructor
    · rintro (h | ⟨hx, a, m, rfl, ha, hk⟩)
      · exact ⟨[], x :: xs, rfl, by simp, h⟩
      · refine ⟨x :: a, m, rfl, ?_, hk⟩
        intro y hy
        rcases List.mem_cons.mp hy with rfl | hy
        · exact hx
        · exact ha y hy
    · rintro ⟨a, m, h, ha, hk⟩
      cases a with
      | nil => simp at h; subst h; exact Or.inl hk
      | cons y ys =>
        simp at h
        obtain ⟨rfl, rfl⟩ := h
        exact Or.inr ⟨ha _ (by simp), ys, m, rfl, fun z hz => ha z (by simp [hz]), hk⟩

/-- the executable matcher decides the reference relation -/
theorem wild_iff (d : Char) (p n : Str) : wild d p n = true ↔ Wild d p n := by
  induction p generalizing n with
  | nil =>
    simp only [wild]
    constructor
    · intro h
      have : n = [] := by simpa using h
      subst this; exact .nil
    · intro h; cases h; rfl
  | cons c p ih =>
    simp only [wild]
    by_cases hs : c = '*'
    · subst hs
      simp only [if_true, wildLoop_iff]
      constructor
      · rintro ⟨a, m, rfl, _, hk⟩; exact .star a rfl ((ih m).mp hk)
      · intro h
        cases h with
        | lit h1 _ _ => exact absurd rfl h1
        | star a e h => exact ⟨a, _, e, by simp, (ih _).mpr h⟩
    · by_cases hp : c = '%'
      · subst hp
        simp only [hs, if_false, if_true, wildLoop_iff]
        constructor
        · rintro ⟨a, m, rfl, ha, hk⟩
          refine .pct a rfl ?_ ((ih m).mp hk)
          intro hd; simpa using ha d hd
        · intro h
          cases h with
          | lit _ h2 _ => exact absurd rfl h2
          | pct a e ha h =>
            refine ⟨a, _, e, ?_, (ih _).mpr h⟩
            intro x hx
            have : x ≠ d := fun e => ha (e ▸ hx)
            simpa using this
      · simp only [hs, hp, if_false]
        cases n with
        | nil => simp; intro h; cases h <;> simp_all
        | cons x xs =>
          simp only [Bool.and_eq_true, beq_iff_eq]
          constructor
          · rintro ⟨rfl, h⟩; exact .lit hs hp ((ih xs).mp h)
          · intro h
            cases h with
            | lit _ _ h => exact ⟨rfl, (ih _).mpr h⟩
            | star a _ _ => exact absurd rfl hs
            | pct a _ _ _ => exact absurd rfl hp

instance (d : Char) (p n : Str) : Decidable (Wild d p n) := decidable_of_iff _ (wild_iff d p n)

/-! ### hierarchy levels -/

theorem mem_superiors_iff (d : Char) (n p : Str) : p ∈ superiors d n ↔ IsSuperior d p n := by
  induction n generalizing p with
  | nil => simp [superiors, IsSuperior]
  | cons c cs ih =>
    simp only [superiors, List.mem_append, List.mem_map]
    constructor
    · rintro (h | ⟨q, hq, rfl⟩)
      · by_cases hc : c = d
        · simp [hc] at h; subst h; exact ⟨cs, by simp [hc]⟩
        · simp [hc] at h
      · obtain ⟨rest, hr⟩ := (ih q).mp hq
        exact ⟨rest, by simp [hr]⟩
    · rintro ⟨rest, h⟩
      cases p with
      | nil =>
        simp at h
        left; simp [h.1]
      | cons y ys =>
        simp at h
        obtain ⟨rfl, h2⟩ := h
        right
        exact ⟨ys, (ih ys).mpr ⟨rest, h2⟩, rfl⟩

/-- superiors are listed shortest first (strictly increasing length) -/
theorem superiors_sorted (d : Char) (n : Str) :
    (superiors d n).Pairwise (fun a b => a.length < b.length) := by
  induction n with
  | nil => simp [superiors]
  | cons c cs ih =>
    simp only [superiors]
    rw [List.pairwise_append]
    refine ⟨?_, ?_, ?_⟩
    · split <;> simp
    · rw [List.pairwise_map]
      exact ih.imp (by intro a b h; simpa using h)
    · intro a ha b hb
      split at ha
      · simp at ha; subst ha
        simp at hb; obtain ⟨q, _, rfl⟩ := hb; simp
      · simp at ha

theorem mem_levels_iff (d : Char) (n p : Str) : p ∈ levels d n ↔ IsSuperior d p n ∨ p = n := by
  simp [levels, mem_superiors_iff]

theorem self_mem_levels (d : Char) (n : Str) : n ∈ levels d n := by simp [levels]

/-- a level of a level is a level -/
theorem levels_trans {d : Char} {n q p : Str} (hq : q ∈ levels d n) (hp : p ∈ levels d q) :
    p ∈ levels d n := by
  rw [mem_levels_iff] at *
  rcases hp with ⟨r, rfl⟩ | rfl
  · rcases hq with ⟨r', rfl⟩ | rfl
    · exact Or.inl ⟨r ++ d :: r', by simp⟩
    · exact Or.inl ⟨r, rfl⟩
  · exact hq

theorem level_length_le {d : Char} {n p : Str} (hp : p ∈ levels d n) : p.length ≤ n.length := by
  rw [mem_levels_iff] at hp
  rcases hp with ⟨r, rfl⟩ | rfl <;> simp <;> omega

end Gluon.Spec
