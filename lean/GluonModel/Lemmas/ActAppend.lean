/-
C03 helper lemmas, part 10: APPEND (`actionCreateMessage`) refines `refAppend`, when the connector hands
out a remote id no message has yet.
-/
import GluonModel.Lemmas.ActCmdRef

namespace Gluon.C03
open Gluon.DB Gluon.Act

theorem absMailbox_congr (P Q : Proj) (h : P.table? = Q.table?) (m : MboxRow) : absMailbox P m = absMailbox Q m := by
  simp only [absMailbox, h]

/-- the reference's new entry at the end of a mailbox -/
def appendEntry (id : MessageId) (del : Bool) (b : MailboxRef.Mailbox) : MailboxRef.Mailbox :=
  { entries := b.entries ++ [{ uid := b.uidNext, msg := id, deleted := del }], uidNext := b.uidNext + 1 }

theorem absTable_appendOne (t : MTable) (h : SortedT t) (id : MessageId) (rid : RemoteId) (del : Bool)
    (hfresh : ∀ x ∈ t.rows, x.msgId ≠ id) :
    SortedT (condDel del [id] true (addRows [(id, rid)] t)) ∧
      absTable (condDel del [id] true (addRows [(id, rid)] t)) = appendEntry id del (absTable t) := by
  have h1 := h.add [(id, rid)]
  have ha := absTable_addOnly t h [(id, rid)]
  cases del with
  | false =>
    refine ⟨h1, ?_⟩
    simp only [condDel, Bool.false_eq_true, if_false]
    rw [ha]
    simp [addOnly, appendEntry, MailboxRef.freshEntries]
  | true =>
    refine ⟨h1.setDel _ _, ?_⟩
    simp only [condDel, if_true]
    rw [absTable_setDel _ h1, ha]
    simp only [addOnly, appendEntry, MailboxRef.freshEntries, List.map_cons, List.map_nil, List.length_cons, List.length_nil,
      List.map_append, MailboxRef.Mailbox.mk.injEq, and_true]
    congr 1
    · -- the old entries are not the new message
      conv => rhs; rw [← List.map_id (absTable t).entries]
      apply List.map_congr_left
      intro e he
      unfold absTable at he
      rw [sortByUid_of_sorted _ h.1] at he
      obtain ⟨r, hr, rfl⟩ := List.mem_map.mp he
      have := hfresh r hr
      simp [setDelEntry, absEntry, this]
    · simp [setDelEntry]

theorem lookup_cons_ne {α : Type} (k k' : Nat) (v : α) (l : List (Nat × α)) (h : k ≠ k') : List.lookup k ((k', v) :: l) = List.lookup k l := by
  have : (k == k') = false := by simpa using h
  simp [List.lookup_cons, this]

variable (E : Env) (hE : E.sites = factSites)

include hE in
/-- the new-message branch of `actionCreateMessage` = `refAppend` -/
theorem createNew_ref (s0 s s' : State) (hInv : Inv s) (hfk : FkOk s.db) (row : MboxRow) (hrow : row ∈ s.db.mailboxes)
    (lit : Lit) (flags : List String) (rid : RemoteId) (hrec : (FSet.new flags).has keyRecent = false)
    (hs0 : s0.db = s.db ∧ s0.store = s.store ∧ s0.nextId = s.nextId + 1 ∧ s0.nextRid = s.nextRid + 1)
    (res : List Upd × Nat) (h : createNew E row.id lit (FSet.new flags) s.nextId rid s0 = .ok (res, s')) :
    Inv s' ∧ abs s' = MailboxRef.refAppend (abs s) row.name flags lit.bytes ∧ FkOk s'.db ∧
      s'.nextRid = s.nextRid + 1 ∧ ∃ mrow, mrow.remoteId = rid ∧ s'.db.messages = s.db.messages ++ [mrow] := by
  obtain ⟨hs0db, hs0st, hs0id, hs0rid⟩ := hs0
  unfold createNew at h
  rw [bindA_ok] at h
  obtain ⟨_, s1, h1, h⟩ := h
  have e1 : s1 = s0 := by
    by_cases hp : lit.parseOk = true
    · simp only [hp, Bool.not_true, Bool.false_eq_true, if_false] at h1
      rw [pureA_ok] at h1; cases h1; rfl
    · simp [hp, fail] at h1
  rw [e1] at h
  rw [bindA_ok] at h
  obtain ⟨_, s2, h2, h⟩ := h
  have e2 : s2 = { s0 with store := (s.nextId, lit.bytes) :: s0.store } := by
    simp only [storeSet, Except.ok.injEq, Prod.mk.injEq, true_and] at h2; exact h2.symm
  rw [e2] at h
  rw [bindA_ok] at h
  obtain ⟨r, s3, h3, h⟩ := h
  rw [liftTx_ok] at h3
  obtain ⟨db3, h3, e3⟩ := h3
  rw [e3] at h
  rw [bindA_ok] at h
  obtain ⟨_, s4, h4, h⟩ := h
  rw [pureA_ok] at h
  cases h
  simp only at h3
  rw [hs0db] at h3
  obtain ⟨t, ht, c1, c2, c3, c4, c5, c6, c7⟩ := create_effect _ _ _ _ _ h3
  dsimp only at c3 c4 c5 c6 c7
  have e4 := deletedStep_eff E hE _ _ _ _ _ _ h4
  -- the state after the transaction
  have hsame := e4.same
  have ht3 : db3.table? row.id = some (addRows [(s.nextId, rid)] t) := by
    unfold DB.table? at ht ⊢
    rw [c4]
    exact table?_setTable s.db row.id t _ ht
  have hp4 := e4.2.1 _ ht3
  simp only at hp4
  have htab' : ∀ k, s'.db.table? k = ((proj s.db).setTable row.id (condDel ((FSet.new flags).has keyDeleted) [s.nextId] true
      (addRows [(s.nextId, rid)] t))).table? k := by
    intro k
    have := congrArg (fun P : Proj => P.table? k) hp4
    simp only [proj_table?] at this
    rw [this]
    by_cases hk : k = row.id
    · subst hk; simp [Proj.table?_setTable]
    · rw [Proj.table?_setTable_ne _ _ _ _ hk, Proj.table?_setTable_ne _ _ _ _ hk]
      simp only [proj_table?]
      unfold DB.table?
      rw [c4]
      exact DB.table?_setTable_ne s.db row.id k _ hk
  have hmb : s'.db.mailboxes = s.db.mailboxes := by rw [hsame.2.2.1]; exact c1
  obtain ⟨mrow, hmid, hmrid, hmsg⟩ : ∃ mrow : MsgRow, mrow.id = s.nextId ∧ mrow.remoteId = rid ∧ s'.db.messages = s.db.messages ++ [mrow] :=
    ⟨_, rfl, rfl, by rw [hsame.2.1]; exact c3⟩
  have hflg : ∀ p, p ∈ s'.db.msgFlags ↔ p ∈ s.db.msgFlags ∨ (p.1 = s.nextId ∧ p.2 ∈
      (if (FSet.new flags).has keyDeleted then (FSet.new flags).remove flagDeleted else FSet.new flags)) := by
    intro p; rw [hsame.1]; exact c5 p
  have hst : s'.store = (s.nextId, lit.bytes) :: s.store := by rw [e4.1.1, hs0st]
  have hnid : s'.nextId = s.nextId + 1 := by rw [e4.1.2.1]; exact hs0id
  have hnrid : s'.nextRid = s.nextRid + 1 := by rw [e4.1.2.2.1]; exact hs0rid
  have hst0 : SortedT t := hInv.sorted row.id t (by simpa using ht)
  obtain ⟨hsort', habsT⟩ := absTable_appendOne t hst0 s.nextId rid ((FSet.new flags).has keyDeleted) c7
  -- keys of the stored flags = keys of the reference's message flags
  have hkeysNew : ∀ x, x ∈ (if (FSet.new flags).has keyDeleted then (FSet.new flags).remove flagDeleted else FSet.new flags).map lower ↔
      x ∈ (flags.filter fun f => !MailboxRef.special f).map MailboxRef.lower := by
    intro x
    rw [refFlags_keys flags hrec x, remaining_keys]
    by_cases hd : (FSet.new flags).has keyDeleted = true
    · simp only [hd, if_true]; rw [remaining_keys]
    · simp only [hd, Bool.false_eq_true, if_false]
      constructor
      · intro hx
        refine ⟨hx, ?_⟩
        rintro rfl
        exact hd ((FSet.has_iff _ _).mpr hx)
      · exact fun hx => hx.1
  refine ⟨?_, ?_, ?_, hnrid, ⟨mrow, hmrid, hmsg⟩⟩
  · -- Inv
    refine ⟨by show (List.map _ (proj s'.db).mailboxes).Nodup; simp only [proj]; rw [hmb]; exact hInv.names,
            by show (List.map _ (proj s'.db).mailboxes).Nodup; simp only [proj]; rw [hmb]; exact hInv.ids, ?_⟩
    intro k t1 hk
    simp only [proj_table?] at hk
    rw [htab' k] at hk
    by_cases hkr : k = row.id
    · subst hkr
      rw [Proj.table?_setTable] at hk
      cases hk; exact hsort'
    · rw [Proj.table?_setTable_ne _ _ _ _ hkr] at hk
      exact hInv.sorted k t1 hk
  · -- abs
    unfold MailboxRef.refAppend
    rw [abs_hasMailbox s row hrow]
    simp only [Bool.not_true, Bool.false_eq_true, if_false]
    unfold abs absP
    simp only [MailboxRef.State.updMailbox, MailboxRef.State.mk.injEq]
    refine ⟨?_, ?_, hnid⟩
    · -- mailboxes
      have hcongr : (proj s'.db).mailboxes.map (absMailbox (proj s'.db)) =
          ((proj s.db).setTable row.id (condDel ((FSet.new flags).has keyDeleted) [s.nextId] true (addRows [(s.nextId, rid)] t))).mailboxes.map
            (absMailbox ((proj s.db).setTable row.id (condDel ((FSet.new flags).has keyDeleted) [s.nextId] true (addRows [(s.nextId, rid)] t)))) := by
        have : (proj s'.db).mailboxes = ((proj s.db).setTable row.id (condDel ((FSet.new flags).has keyDeleted) [s.nextId] true
            (addRows [(s.nextId, rid)] t))).mailboxes := hmb
        rw [this]
        apply List.map_congr_left
        intro m _
        exact absMailbox_congr _ _ (funext htab') m
      rw [hcongr, mailboxes_setTable (proj s.db) hInv row hrow t _ (by simpa using ht) (appendEntry s.nextId ((FSet.new flags).has keyDeleted)) habsT]
      apply List.map_congr_left
      intro p _
      rw [hasDeleted_eq]
      rfl
    · -- messages
      show (proj s'.db).messages.map _ = _
      have : (proj s'.db).messages = s.db.messages ++ [mrow] := hmsg
      rw [this, List.map_append]
      congr 1
      · apply List.map_congr_left
        intro r hr
        have hne : r.id ≠ s.nextId := c6 r hr
        simp only [absMessage, hst, Prod.mk.injEq, MailboxRef.Message.mk.injEq, true_and]
        refine ⟨?_, by rw [lookup_cons_ne _ _ _ _ hne]⟩
        apply canon_ext
        intro x
        simp only [List.mem_map]
        constructor
        · rintro ⟨g, hg, rfl⟩
          rw [mem_flagsOf] at hg
          rcases (hflg _).mp hg with h5 | ⟨h5, _⟩
          · exact ⟨g, (mem_flagsOf _ _ _).mpr h5, rfl⟩
          · exact absurd h5 hne
        · rintro ⟨g, hg, rfl⟩
          exact ⟨g, (mem_flagsOf _ _ _).mpr ((hflg _).mpr (Or.inl ((mem_flagsOf _ _ _).mp hg))), rfl⟩
      · simp only [List.map_cons, List.map_nil, absMessage, hst, hmid, List.lookup_cons, BEq.rfl, Option.getD_some,
          List.cons.injEq, and_true, Prod.mk.injEq, MailboxRef.Message.mk.injEq, true_and]
        unfold MailboxRef.msgFlags
        apply canon_ext
        intro x
        rw [← hkeysNew x]
        simp only [List.mem_map]
        constructor
        · rintro ⟨g, hg, rfl⟩
          rw [mem_flagsOf] at hg
          rcases (hflg _).mp hg with h5 | ⟨_, h5⟩
          · obtain ⟨r, hr, hid⟩ := hfk _ h5
            exact absurd hid (c6 r hr)
          · exact ⟨g, h5, rfl⟩
        · rintro ⟨g, hg, rfl⟩
          exact ⟨g, (mem_flagsOf _ _ _).mpr ((hflg _).mpr (Or.inr ⟨rfl, hg⟩)), rfl⟩
  · -- FkOk
    intro p hp
    rw [hmsg]
    rcases (hflg p).mp hp with h5 | ⟨h5, _⟩
    · obtain ⟨r, hr, hid⟩ := hfk p h5
      exact ⟨r, List.mem_append_left _ hr, hid⟩
    · exact ⟨mrow, List.mem_append_right _ (List.mem_singleton.mpr rfl), by rw [hmid, h5]⟩

end Gluon.C03
