/- Helper lemmas about the session / login model (generic in the dispatch facts). -/
import GluonModel.Model.Auth
import GluonModel.Spec.AuthSpec

namespace Gluon.Auth

theorem lookup_some_mem {β : Type} : ∀ (l : List (String × β)) (a : String) (b : β),
    l.lookup a = some b → (a, b) ∈ l := by
  intro l a b
  induction l with
  | nil => simp [List.lookup]
  | cons x xs ih =>
    obtain ⟨k, v⟩ := x
    simp only [List.lookup]
    split
    · rename_i heq
      intro h
      have hk : a = k := by simpa using heq
      simp only [Option.some.injEq] at h
      subst hk; subst h
      exact List.mem_cons_self ..
    · intro h
      exact List.mem_cons_of_mem _ (ih h)

/-- the route a specification class must have in the code -/
def okRoute : AuthSpec.Req → Route → Bool
  | .anyState, .any => true
  | .anyState, .logout => true
  | .notAuthOnly, .login => true
  | .notAuthOnly, .starttls => true
  | .authenticated, .auth => true
  | .authenticated, .idle => true
  | .selected, .selected => true
  | .continuation, .bad => true
  | _, _ => false

/-- the code's dispatch agrees with the specification's classes -/
def Conforms (F : DispatchFacts) : Prop := ∀ x ∈ AuthSpec.required, okRoute x.2 (route F x.1) = true

instance (F : DispatchFacts) : Decidable (Conforms F) := by unfold Conforms; infer_instance

theorem route_ne_unknown (F : DispatchFacts) (h : F.wellGated = true) (ty : String) : route F ty ≠ .unknown := by
  simp only [DispatchFacts.wellGated, DispatchFacts.closedWorld, Bool.and_eq_true, List.all_eq_true] at h
  obtain ⟨⟨⟨⟨⟨⟨⟨⟨⟨⟨⟨hs, ht⟩, hd⟩, _⟩, _⟩, _⟩, _⟩, _⟩, _⟩, _⟩, _⟩, _⟩ := h
  unfold route
  split
  · simp
  · split
    · simp
    · simp
    · rename_i h' hn1 hn2 heq
      have := hs _ (lookup_some_mem _ _ _ heq)
      simp only [Bool.or_eq_true, beq_iff_eq] at this
      rcases this with h1 | h1
      · exact absurd h1 (by intro hh; exact hn1 (by rw [← hh]))
      · exact absurd h1 (by intro hh; exact hn2 (by rw [← hh]))
    · split
      · simp
      · simp
      · simp
      · simp
      · rename_i c n1 n2 n3 n4 heq
        have := ht _ (lookup_some_mem _ _ _ heq)
        simp only [Bool.or_eq_true, beq_iff_eq] at this
        rcases this with ((h1 | h1) | h1) | h1
        · exact absurd h1 (by intro hh; exact n1 (by rw [← hh]))
        · exact absurd h1 (by intro hh; exact n2 (by rw [← hh]))
        · exact absurd h1 (by intro hh; exact n3 (by rw [← hh]))
        · exact absurd h1 (by intro hh; exact n4 (by rw [← hh]))
      · simp

theorem needsAuth_route (F : DispatchFacts) (hc : Conforms F) (ty : String) (h : AuthSpec.needsAuth ty = true) :
    route F ty = .auth ∨ route F ty = .idle ∨ route F ty = .selected := by
  unfold AuthSpec.needsAuth at h
  split at h
  · rename_i heq
    have := hc _ (lookup_some_mem _ _ _ heq)
    simp only at this
    cases hr : route F ty <;> simp [hr, okRoute] at this ⊢
  · rename_i heq
    have := hc _ (lookup_some_mem _ _ _ heq)
    simp only at this
    cases hr : route F ty <;> simp [hr, okRoute] at this ⊢
  · simp at h

theorem needsSelected_route (F : DispatchFacts) (hc : Conforms F) (ty : String) (h : AuthSpec.needsSelected ty = true) :
    route F ty = .selected := by
  unfold AuthSpec.needsSelected at h
  split at h
  · rename_i heq
    have := hc _ (lookup_some_mem _ _ _ heq)
    simp only at this
    cases hr : route F ty <;> simp [hr, okRoute] at this ⊢
  · simp at h

section
variable {σ : Type}

/-- one command of a session that is not authenticated: nobody's data changes, no guard is bypassed,
    and the session leaves the state only through LOGOUT or a LOGIN some user's connector accepts -/
theorem step_notAuth (F : DispatchFacts) (hg : F.wellGated = true) (env : Env σ) (sys : Sys σ) (c : Cmd) :
    (step F env .notAuth sys c).2.1.store = sys.store ∧
    (step F env .notAuth sys c).2.1.breach = sys.breach ∧
    ((step F env .notAuth sys c).1 = .notAuth ∨ (step F env .notAuth sys c).1 = .closed ∨
      ∃ u, (step F env .notAuth sys c).1 = .auth u ∧ chosen c = some u ∧ route F c.ty = .login) ∧
    (route F c.ty ≠ .login → (step F env .notAuth sys c).2.1.login = sys.login) := by
  have hu := route_ne_unknown F hg c.ty
  simp only [DispatchFacts.wellGated, Bool.and_eq_true] at hg
  obtain ⟨⟨⟨⟨⟨⟨⟨⟨⟨⟨_, _⟩, hauth⟩, hsel⟩, hidle⟩, _⟩, _⟩, hany⟩, hlog⟩, hjail⟩, hsrc⟩ := hg
  unfold step
  cases hr : route F c.ty
  case unknown => exact absurd hr hu
  case login =>
    simp only [Proto.user, hlog, hjail, hsrc, Bool.and_self, Bool.not_true, Bool.false_eq_true, if_false]
    cases hch : chosen c <;> simp
  all_goals simp [Proto.user, hauth, hsel, hidle, hany]

/-- a mailbox or message command before authentication: refused with NO, nothing at all changes -/
theorem step_notAuth_gated (F : DispatchFacts) (hg : F.wellGated = true) (hc : Conforms F) (env : Env σ)
    (sys : Sys σ) (c : Cmd) (hn : AuthSpec.needsAuth c.ty = true) :
    step F env .notAuth sys c = (.notAuth, sys, .no) := by
  have hr := needsAuth_route F hc c.ty hn
  simp only [DispatchFacts.wellGated, Bool.and_eq_true] at hg
  obtain ⟨⟨⟨⟨⟨⟨⟨⟨⟨⟨_, _⟩, hauth⟩, hsel⟩, hidle⟩, _⟩, _⟩, _⟩, _⟩, _⟩, _⟩ := hg
  unfold step
  rcases hr with hr | hr | hr <;> simp [hr, Proto.user, hauth, hsel, hidle]

/-- a message command without a selected mailbox: refused with NO, nothing at all changes -/
theorem step_auth_selected (F : DispatchFacts) (hg : F.wellGated = true) (hc : Conforms F) (env : Env σ)
    (sys : Sys σ) (u : UserId) (c : Cmd) (hn : AuthSpec.needsSelected c.ty = true) :
    step F env (.auth u) sys c = (.auth u, sys, .no) := by
  have hr := needsSelected_route F hc c.ty hn
  simp only [DispatchFacts.wellGated, Bool.and_eq_true] at hg
  obtain ⟨⟨⟨⟨⟨⟨⟨⟨⟨⟨_, _⟩, _⟩, _⟩, _⟩, _⟩, hsnap⟩, _⟩, _⟩, _⟩, _⟩ := hg
  unfold step
  simp [hr, hsnap]

theorem step_closed (F : DispatchFacts) (env : Env σ) (sys : Sys σ) (c : Cmd) :
    step F env .closed sys c = (.closed, sys, .none) := by
  unfold step; rfl

/-- a session never changes the data of a user other than its own, never bypasses a guard, and
    keeps its user until it closes -/
theorem step_user (F : DispatchFacts) (hg : F.wellGated = true) (env : Env σ) (p : Proto) (sys : Sys σ) (c : Cmd)
    (u : UserId) (hp : p.user = some u) :
    (∀ v, v ≠ u → (step F env p sys c).2.1.store v = sys.store v) ∧
    (step F env p sys c).2.1.breach = sys.breach ∧
    ((step F env p sys c).1.user = some u ∨ (step F env p sys c).1 = .closed) ∧
    (step F env p sys c).2.1.login = sys.login := by
  have hu := route_ne_unknown F hg c.ty
  simp only [DispatchFacts.wellGated, Bool.and_eq_true] at hg
  obtain ⟨⟨⟨⟨⟨⟨⟨⟨⟨⟨_, _⟩, _⟩, _⟩, _⟩, hlogin⟩, hsnap⟩, _⟩, _⟩, _⟩, _⟩ := hg
  cases p with
  | notAuth => simp [Proto.user] at hp
  | closed => simp [Proto.user] at hp
  | auth u' =>
    simp only [Proto.user, Option.some.injEq] at hp; subst hp
    unfold step
    cases hr : route F c.ty
    case unknown => exact absurd hr hu
    case auth =>
      simp only
      split <;> simp [Proto.user, updStore] <;> intro v hv <;> simp [hv]
    all_goals simp [Proto.user, hlogin, hsnap]
  | selected u' =>
    simp only [Proto.user, Option.some.injEq] at hp; subst hp
    unfold step
    cases hr : route F c.ty
    case unknown => exact absurd hr hu
    case auth =>
      simp only
      split <;> simp [Proto.user, updStore] <;> intro v hv <;> simp [hv]
    case selected =>
      simp only
      split <;> simp [Proto.user, updStore] <;> intro v hv <;> simp [hv]
    all_goals simp [Proto.user, hlogin]

end

/-! ### login attempts -/

theorem startTime_ge_jail (s : LoginSt) (t : Timing) (j : Nat) (h : s.jailedUntil = some j) :
    j ≤ startTime s t := by
  simp only [startTime, h]; omega

theorem attempt_decided (m jail : Nat) (s : LoginSt) (t : Timing) (acc : Bool) :
    (attempt m jail s t acc).decided = startTime s t + t.dur := by
  unfold attempt
  by_cases ha : acc = true
  · simp [ha]
  · by_cases hc : effCount s + 1 = m <;> simp [ha, hc]

/-- an attempt made while a jail timer is armed is decided no earlier than the timer fires -/
theorem attempt_decided_ge_jail (m jail : Nat) (s : LoginSt) (t : Timing) (acc : Bool) (j : Nat)
    (h : s.jailedUntil = some j) : j ≤ (attempt m jail s t acc).decided := by
  rw [attempt_decided]
  have := startTime_ge_jail s t j h
  omega

/-- a blocked attempt arms a timer that fires no earlier than `loginJailTime` after it was decided -/
theorem attempt_blocked (m jail : Nat) (s : LoginSt) (t : Timing) (acc : Bool)
    (h : (attempt m jail s t acc).blocked = true) :
    ∃ j, (attempt m jail s t acc).st.jailedUntil = some j ∧ (attempt m jail s t acc).decided + jail ≤ j := by
  unfold attempt at *
  by_cases ha : acc = true
  · simp [ha] at h
  · by_cases hc : effCount s + 1 = m
    · simp only [ha, hc, if_true, Bool.false_eq_true, if_false]
      exact ⟨_, rfl, by omega⟩
    · simp [ha, hc] at h

/-- a failed attempt is blocked exactly when it is the `maxAttempts`-th failure since the last reset -/
theorem attempt_blocked_iff (m jail : Nat) (s : LoginSt) (t : Timing) :
    (attempt m jail s t false).blocked = true ↔ effCount s + 1 = m := by
  unfold attempt
  by_cases hc : effCount s + 1 = m <;> simp [hc]

theorem attempt_fail_count (m jail : Nat) (s : LoginSt) (t : Timing) :
    (attempt m jail s t false).st.count = effCount s + 1 := by
  unfold attempt
  by_cases hc : effCount s + 1 = m <;> simp [hc]

theorem attempt_fail_jailed (m jail : Nat) (s : LoginSt) (t : Timing) (hc : effCount s + 1 ≠ m) :
    (attempt m jail s t false).st.jailedUntil = none := by
  unfold attempt
  simp [hc]

end Gluon.Auth
