/-
Helper lemmas for C20, part 2: the actions that do not touch the recovery mailbox or the hash map
leave them alone (`FrameAt` inside a transaction, `Frame` across `withTx`).
-/
import GluonModel.Lemmas.AppendBasic

namespace Gluon.Append

/-- inside a transaction: recovery mailbox content, hash map and ghost flags unchanged, the store
    unchanged below `k`, internal IDs only grow -/
structure FrameAt (k : Nat) (s s' : St) : Prop where
  recm : recMsgs s' = recMsgs s
  i2h : s'.idToHash = s.idToHash
  hs : s'.hashes = s.hashes
  stale : s'.staleHash = s.staleHash
  lost : s'.lostHash = s.lostHash
  txi : s'.txIns = s.txIns
  txe : s'.txErase = s.txErase
  nid : s.nextId ≤ s'.nextId
  store : ∀ i, i < k → s'.store.lookup i = s.store.lookup i
  nms : names s' = names s

/-- the same across a whole command (the transaction flags are reset by `withTx`) -/
structure Frame (k : Nat) (s s' : St) : Prop where
  recm : recMsgs s' = recMsgs s
  i2h : s'.idToHash = s.idToHash
  hs : s'.hashes = s.hashes
  stale : s'.staleHash = s.staleHash
  lost : s'.lostHash = s.lostHash
  nid : s.nextId ≤ s'.nextId
  store : ∀ i, i < k → s'.store.lookup i = s.store.lookup i
  nms : names s' = names s

theorem FrameAt.refl (k : Nat) (s : St) : FrameAt k s s :=
  ⟨rfl, rfl, rfl, rfl, rfl, rfl, rfl, Nat.le_refl _, fun _ _ => rfl, rfl⟩

theorem FrameAt.trans {k : Nat} {a b c : St} (h1 : FrameAt k a b) (h2 : FrameAt k b c) : FrameAt k a c :=
  ⟨h2.recm.trans h1.recm, h2.i2h.trans h1.i2h, h2.hs.trans h1.hs, h2.stale.trans h1.stale, h2.lost.trans h1.lost,
   h2.txi.trans h1.txi, h2.txe.trans h1.txe, Nat.le_trans h1.nid h2.nid,
   fun i hi => (h2.store i hi).trans (h1.store i hi), h2.nms.trans h1.nms⟩

theorem Frame.refl (k : Nat) (s : St) : Frame k s s :=
  ⟨rfl, rfl, rfl, rfl, rfl, Nat.le_refl _, fun _ _ => rfl, rfl⟩

theorem Frame.trans {k : Nat} {a b c : St} (h1 : Frame k a b) (h2 : Frame k b c) : Frame k a c :=
  ⟨h2.recm.trans h1.recm, h2.i2h.trans h1.i2h, h2.hs.trans h1.hs, h2.stale.trans h1.stale, h2.lost.trans h1.lost,
   Nat.le_trans h1.nid h2.nid, fun i hi => (h2.store i hi).trans (h1.store i hi), h2.nms.trans h1.nms⟩

/-- a state that differs only in fields the frame does not read -/
theorem FrameAt.of_eq {k : Nat} {s s' : St} (hdb : s'.db.boxes = s.db.boxes) (hst : s'.store = s.store)
    (hi : s'.idToHash = s.idToHash) (hh : s'.hashes = s.hashes) (hn : s.nextId ≤ s'.nextId)
    (h1 : s'.staleHash = s.staleHash) (h2 : s'.lostHash = s.lostHash) (h3 : s'.txIns = s.txIns)
    (h4 : s'.txErase = s.txErase) : FrameAt k s s' :=
  ⟨recMsgs_boxes hdb, hi, hh, h1, h2, h3, h4, hn, fun _ _ => by rw [hst], names_boxes hdb⟩

/-- a database update of a mailbox other than the recovery mailbox (and of the messages table) -/
theorem FrameAt.of_upd {k : Nat} {s s' : St} (n : String) (f : Mbox → Mbox) (hf : ∀ b, (f b).name = b.name)
    (hn : n ≠ recName) (hdb : s'.db.boxes = updBoxes s.db.boxes n f) (hst : s'.store = s.store)
    (hi : s'.idToHash = s.idToHash) (hh : s'.hashes = s.hashes) (hnx : s.nextId ≤ s'.nextId)
    (h1 : s'.staleHash = s.staleHash) (h2 : s'.lostHash = s.lostHash) (h3 : s'.txIns = s.txIns)
    (h4 : s'.txErase = s.txErase) : FrameAt k s s' :=
  ⟨recMsgs_updBoxes_ne n f hf hn hdb, hi, hh, h1, h2, h3, h4, hnx, fun _ _ => by rw [hst], names_upd n f hf hdb⟩

/-! ### primitives -/

theorem remoteAdd_frame (k : Nat) (s : St) : FrameAt k s (remoteAdd s).2 :=
  FrameAt.of_eq rfl rfl rfl rfl (Nat.le_refl _) rfl rfl rfl rfl

theorem remoteRemove_frame (k : Nat) (s : St) : FrameAt k s (remoteRemove s).2 :=
  FrameAt.of_eq rfl rfl rfl rfl (Nat.le_refl _) rfl rfl rfl rfl

theorem remoteMove_frame (k : Nat) (s : St) : FrameAt k s (remoteMove s).2 :=
  FrameAt.of_eq rfl rfl rfl rfl (Nat.le_refl _) rfl rfl rfl rfl

theorem dbFault_frame (k : Nat) (s : St) : FrameAt k s (dbFault s).2 :=
  FrameAt.of_eq rfl rfl rfl rfl (Nat.le_refl _) rfl rfl rfl rfl

theorem remoteCreate_frame (k : Nat) (s : St) (l : Lit) : FrameAt k s (remoteCreate s l).2 := by
  unfold remoteCreate
  simp only
  split
  · exact FrameAt.of_eq rfl rfl rfl rfl (Nat.le_refl _) rfl rfl rfl rfl
  · exact FrameAt.of_eq rfl rfl rfl rfl (Nat.le_refl _) rfl rfl rfl rfl
  · exact FrameAt.of_eq rfl rfl rfl rfl (Nat.le_succ _) rfl rfl rfl rfl
  · split
    · exact FrameAt.of_eq rfl rfl rfl rfl (Nat.le_succ _) rfl rfl rfl rfl
    · exact FrameAt.of_eq rfl rfl rfl rfl (Nat.le_succ _) rfl rfl rfl rfl

/-- a successful CreateMessage hands out the internal ID `s.nextId` -/
theorem remoteCreate_ok {s s' : St} {l l' : Lit} {rid id : Nat} (h : remoteCreate s l = (.ok (rid, id, l'), s')) :
    id = s.nextId ∧ s'.nextId = s.nextId + 1 ∧ l' = l := by
  unfold remoteCreate at h
  simp only at h
  split at h
  · simp at h
  · simp at h
  · simp at h; obtain ⟨⟨_, h2, h3⟩, h4⟩ := h; subst h4; exact ⟨h2.symm, rfl, h3.symm⟩
  · split at h
    · next r l'' hf =>
      simp at h; obtain ⟨⟨_, h2, h3⟩, h4⟩ := h; subst h4
      have := List.find?_some hf
      simp at this
      exact ⟨h2.symm, rfl, by rw [← h3]; exact this⟩
    · simp at h; obtain ⟨⟨_, h2, h3⟩, h4⟩ := h; subst h4; exact ⟨h2.symm, rfl, h3.symm⟩

theorem storeSet_frame {k : Nat} (s : St) (id : Nat) (l : Lit) (hk : k ≤ id) : FrameAt k s (storeSet s id l).2 := by
  unfold storeSet
  simp only
  split
  · exact FrameAt.of_eq rfl rfl rfl rfl (Nat.le_refl _) rfl rfl rfl rfl
  · refine ⟨rfl, rfl, rfl, rfl, rfl, rfl, rfl, Nat.le_refl _, fun i hi => ?_, rfl⟩
    have : i ≠ id := by omega
    simp [lookup_cons_ne _ _ this]

theorem storeSet_ok {s s' : St} {id : Nat} {l : Lit} (h : storeSet s id l = (true, s')) : s'.store.lookup id = some l := by
  unfold storeSet at h
  simp only at h
  split at h
  · simp at h
  · simp at h; subst h; simp [lookup_cons_self]

theorem updBox_frame (k : Nat) (s : St) (n : String) (f : Mbox → Mbox) (hf : ∀ b, (f b).name = b.name) (hn : n ≠ recName) :
    FrameAt k s { s with db := updBox s.db n f } :=
  FrameAt.of_upd n f hf hn rfl rfl rfl rfl (Nat.le_refl _) rfl rfl rfl rfl

theorem rows_frame (k : Nat) (s : St) (rows : List (Nat × Row)) : FrameAt k s { s with db := { s.db with rows := rows } } :=
  FrameAt.of_eq rfl rfl rfl rfl (Nat.le_refl _) rfl rfl rfl rfl

/-! ### actions on ordinary mailboxes -/

theorem dbAddMessages_frame (k : Nat) (s : St) (n : String) (ids : List Nat) (hn : n ≠ recName) :
    FrameAt k s (dbAddMessages s n ids).2 := by
  unfold dbAddMessages
  split
  · exact FrameAt.refl _ _
  · split
    · exact FrameAt.refl _ _
    · split
      · exact FrameAt.refl _ _
      · exact updBox_frame k s n _ (fun b => add_name b ids) hn

theorem removeUnchecked_frame (k : Nat) (s : St) (n : String) (ids : List Nat) (hn : n ≠ recName) :
    FrameAt k s (removeUnchecked s n ids).2 := by
  unfold removeUnchecked
  have : (n != recName) = true := by simpa using hn
  simp only [this, ↓reduceIte]
  split
  · exact remoteRemove_frame k s |>.trans (by next h => rw [h]; exact FrameAt.refl _ _)
  · next s1 h =>
    have h1 : FrameAt k s s1 := by have := remoteRemove_frame k s; rw [h] at this; exact this
    exact h1.trans (updBox_frame k s1 n _ (fun b => remove_name b ids) hn)

theorem actionRemove_frame (k : Nat) (s : St) (n : String) (ids : List Nat) (hn : n ≠ recName) :
    FrameAt k s (actionRemove s n ids).2 := by
  unfold actionRemove
  split
  · exact FrameAt.refl _ _
  · simp only
    split
    · exact FrameAt.refl _ _
    · exact removeUnchecked_frame k s n _ hn

theorem actionAdd_frame (k : Nat) (s : St) (n : String) (ids : List Nat) (hn : n ≠ recName) :
    FrameAt k s (actionAdd s n ids).2 := by
  unfold actionAdd
  split
  · exact FrameAt.refl _ _
  · next b hb =>
    simp only
    have h1 : FrameAt k s (if (ids.filter (boxHas b)).isEmpty then ((.ok (), s) : R Unit) else removeUnchecked s n (ids.filter (boxHas b))).2 := by
      split
      · exact FrameAt.refl _ _
      · exact removeUnchecked_frame k s n _ hn
    split
    · next e s1 h => rw [h] at h1; exact h1
    · next s1 h =>
      rw [h] at h1
      split
      · next e s2 h2 => have := remoteAdd_frame k s1; rw [h2] at this; exact h1.trans this
      · next s2 h2 =>
        have := remoteAdd_frame k s1; rw [h2] at this
        exact (h1.trans this).trans (dbAddMessages_frame k s2 n ids hn)

theorem dbCreateAndAdd_frame (k : Nat) (s : St) (n : String) (id rid : Nat) (hn : n ≠ recName) :
    FrameAt k s (dbCreateAndAdd s n id rid).2 := by
  unfold dbCreateAndAdd
  split
  · next s1 h => have := dbFault_frame k s; rw [h] at this; exact this
  · next s1 h =>
    have h1 := dbFault_frame k s; rw [h] at h1
    split
    · exact h1
    · exact h1.trans (FrameAt.of_upd n (fun b => { b with msgs := b.msgs ++ [(b.uidNext, id)], uidNext := b.uidNext + 1 })
        (fun _ => rfl) hn rfl rfl rfl rfl (Nat.le_refl _) rfl rfl rfl rfl)

theorem actionCreateMessage_frame (s : St) (n : String) (l : Lit) (d : Bool) (hn : n ≠ recName) :
    FrameAt s.nextId s (actionCreateMessage s n l d).2 := by
  unfold actionCreateMessage
  split
  · next e s1 h => have := remoteCreate_frame s.nextId s l; rw [h] at this; exact this
  · next rid id l' s1 h =>
    have h1 := remoteCreate_frame s.nextId s l; rw [h] at h1
    have hid := (remoteCreate_ok h).1
    split
    · next known _ =>
      split
      · exact h1
      · split
        · next e s2 h2 => have := actionAdd_frame s.nextId s1 n [known] hn; rw [h2] at this; exact h1.trans this
        · next u s2 h2 => have := actionAdd_frame s.nextId s1 n [known] hn; rw [h2] at this; exact h1.trans this
    · split
      · exact h1
      · split
        · next s2 h2 =>
          have := storeSet_frame (k := s.nextId) s1 id { l' with gid := .id id } (by omega); rw [h2] at this
          exact h1.trans this
        · next s2 h2 =>
          have := storeSet_frame (k := s.nextId) s1 id { l' with gid := .id id } (by omega); rw [h2] at this
          exact (h1.trans this).trans (dbCreateAndAdd_frame _ s2 n id rid hn)

/-! ### transactions -/

theorem withTx_frame {α} {k : Nat} (s : St) (f : St → R α)
    (h : FrameAt k { s with txIns := false, txErase := false } (f { s with txIns := false, txErase := false }).2) :
    Frame k s (withTx s f).2 := by
  unfold withTx txFinish
  split
  · next a s1 he =>
    rw [he] at h
    exact ⟨h.recm, h.i2h, h.hs, h.stale, h.lost, h.nid, h.store, h.nms⟩
  · next e s1 he =>
    rw [he] at h
    refine ⟨rfl, h.i2h, h.hs, ?_, ?_, h.nid, h.store, rfl⟩
    · have := h.txi; have := h.stale; simp_all
    · have := h.txe; have := h.lost; simp_all

/-! ### `Mailbox.AppendRegular` -/

theorem isRecName_recName : isRecName recName = true := by decide

theorem ne_recName_of_not_isRecName {n : String} (h : isRecName n = false) : n ≠ recName := by
  intro e; subst e; simp [isRecName_recName] at h

theorem appendRegular_frame (s : St) (n : String) (l : Lit) (hn : n ≠ recName) :
    Frame s.nextId s (appendRegular s n l).2 := by
  have hc : ∀ l d, Frame s.nextId s (withTx s (fun s => actionCreateMessage s n l d)).2 := fun l d =>
    withTx_frame s _ (actionCreateMessage_frame { s with txIns := false, txErase := false } n l d hn)
  unfold appendRegular
  split
  · exact Frame.refl _ _
  · split
    · exact Frame.refl _ _
    · split
      · exact hc _ _
      · split
        · exact hc _ _
        · exact Frame.refl _ _
        · next g _ =>
          split
          · exact hc _ _
          · split
            · exact hc _ _
            · have ha : Frame s.nextId s (withTx s (fun s => actionAdd s n [g])).2 :=
                withTx_frame s _ (actionAdd_frame s.nextId { s with txIns := false, txErase := false } n [g] hn)
              split
              · next e s1 h => rw [h] at ha; exact ha
              · next u s1 h => rw [h] at ha; exact ha

end Gluon.Append
